(** The regenerated bodies of the Weaver methods (Gen/WeaverGlue.v), run by the interpreter of Model/GlueSem.v,
    against the hand-written state machine of Model/Weaver.v.

    Nothing of the generated bodies is restated here: every proof is a symbolic execution ([gl_run]) of whatever term
    [assoc <method> weaver_methods] computes to, statement by statement; whenever the interpreter is stuck on a call
    of a model function (append_res, normalize_res, truncate, rfa, ...) or on a comparison of symbolic numbers, that
    call is case-split ([destruct ... eqn:]) simultaneously on the interpreter side and on the [step] side.  The final
    [reflexivity] compares the two resulting states / outcomes, so a body with a dropped or reordered assignment, a
    swapped argument or a changed guard stops compiling. *)
From Coq Require Import Lia Bool.
From TW Require Import Model.GlueSem Gen.WeaverGlue.
Open Scope Qc_scope.
Open Scope string_scope.

(** ---------------- proof-local vocabulary ---------------- *)
(** sequencing, with the statement being executed kept apart from the continuation (so that it occurs once) *)
Definition exec_k (r : genv * outcome) (k : genv -> genv * outcome) : genv * outcome :=
  match snd r with ONormal => k (fst r) | _ => r end.

(** the shapes of the statements, folded while the execution runs (so that the run occurs once in the goal) *)
Definition agrees (r : genv * outcome) (m : wstate * res unit) : Prop :=
  g_s (fst r) = fst m /\ outcome_res (snd r) = snd m.
Definition init_agrees (s : wstate) (r : genv * outcome) (m : res wstate) : Prop :=
  match m with
  | Ok s' => g_s (fst r) = s' /\ snd r = ONormal /\ g_xs (fst r) = 1 /\ g_ys (fst r) = 1
  | Raise e => snd r = ORaise e /\ g_s (fst r) = s
  end.
Definition pair_outcome (m : res (list Qc * list Qc)) : outcome :=
  match m with Ok (p, q) => OReturn (VTup [VArr p; VArr q]) | Raise e => ORaise e end.
Definition query_agrees (s : wstate) (r : genv * outcome) (m : res (list Qc * list Qc)) : Prop :=
  g_s (fst r) = s /\ snd r = pair_outcome m.

Definition py_slice1 (l : list Qc) (a b : Z) : list Qc :=
  take_stride l (clampZ (if (a <? 0)%Z then (a + Z.of_nat (length l))%Z else a) 0 (Z.of_nat (length l))) 1
                (clampZ (if (b <? 0)%Z then (b + Z.of_nat (length l))%Z else b) 0 (Z.of_nat (length l))) (length l).

(** ---------------- facts about the leaves ---------------- *)
Lemma arr_eqb_refl : forall l, arr_eqb l l = true.
Proof.
  unfold arr_eqb. induction l as [|a l IH]; cbn [list_eqb]; [reflexivity|].
  rewrite IH. destruct (Qc_eqb_spec a a) as [_|N]; [reflexivity|congruence].
Qed.

(** a[start:stop] (step 1) never raises *)
Lemma py_slice_1 : forall l a b, py_slice l a b 1 = Ok (py_slice1 l a b).
Proof. reflexivity. Qed.

Lemma py_index_head : forall l : list Qc, l <> [] -> py_index l 0 = Some (headq l).
Proof.
  intros [|a l] H; [congruence|]. unfold py_index. cbn [length Z.ltb Z.compare].
  replace (Z.of_nat (S (length l)) <=? 0)%Z with false by (symmetry; apply Z.leb_gt; lia). reflexivity.
Qed.

Lemma py_index_last : forall l : list Qc, l <> [] -> py_index l (-1) = Some (lastq l).
Proof.
  intros l H. unfold py_index. cbn [Z.ltb Z.compare].
  destruct (exists_last H) as [l' [a ->]]. unfold lastq. rewrite last_last.
  rewrite app_length. cbn [length].
  replace (Z.of_nat (length l' + 1) + -1)%Z with (Z.of_nat (length l')) by lia.
  replace (Z.of_nat (length l') <? 0)%Z with false by (symmetry; apply Z.ltb_ge; lia).
  replace (Z.of_nat (length l' + 1) <=? Z.of_nat (length l'))%Z with false by (symmetry; apply Z.leb_gt; lia).
  cbn [orb]. rewrite Nat2Z.id. rewrite nth_error_app2 by lia. rewrite Nat.sub_diag. reflexivity.
Qed.

Lemma Z_of_nat_eqb : forall a b, (Z.of_nat a =? Z.of_nat b)%Z = (a =? b)%nat.
Proof.
  intros a b. destruct (Nat.eqb_spec a b) as [->|N]; [apply Z.eqb_refl|]. apply Z.eqb_neq. lia.
Qed.

(** np.where(a == v)[0] lists the positions of v; its first element is the model's [index_of] *)
Lemma where_index_of_gen : forall v l k,
  match index_of v l k with
  | Some i => exists t, where_true (map (fun u => Qc_eqb u v) l) (Z.of_nat k) = Z.of_nat i :: t
  | None => where_true (map (fun u => Qc_eqb u v) l) (Z.of_nat k) = []
  end.
Proof.
  intros v l. induction l as [|a l IH]; intros k; cbn [index_of map where_true]; [reflexivity|].
  destruct (Qc_eqb a v).
  - eexists; reflexivity.
  - replace (Z.of_nat k + 1)%Z with (Z.of_nat (S k)) by lia. apply IH.
Qed.
Lemma where_index_of : forall v l,
  match index_of v l 0 with
  | Some i => exists t, where_true (map (fun u => Qc_eqb u v) l) 0 = Z.of_nat i :: t
  | None => where_true (map (fun u => Qc_eqb u v) l) 0 = []
  end.
Proof. intros v l. exact (where_index_of_gen v l 0). Qed.

(** ---------------- the symbolic execution ---------------- *)
Lemma exec_cons : forall o s0 sc en st l,
  exec o s0 sc en (st :: l) = exec_k (exec1 o s0 sc en st) (fun en' => exec o s0 sc en' l).
Proof. reflexivity. Qed.
(** the branches of an [if] are run by the same sequencing *)
Lemma exec1_if : forall o s0 sc en c th el,
  exec1 o s0 sc en (SIf c th el) =
  match eval o s0 sc en c with
  | Raise x => (en, ORaise x)
  | Ok (VBoolV true) => exec o s0 sc en th
  | Ok (VBoolV false) => exec o s0 sc en el
  | Ok _ => (en, ORaise TypeError)
  end.
Proof. reflexivity. Qed.
Lemma exec_nil : forall o s0 sc en, exec o s0 sc en [] = (en, ONormal).
Proof. reflexivity. Qed.
Lemma exec_k_normal : forall en k, exec_k (en, ONormal) k = k en.
Proof. reflexivity. Qed.
Lemma exec_k_raise : forall en e k, exec_k (en, ORaise e) k = (en, ORaise e).
Proof. reflexivity. Qed.
Lemma exec_k_return : forall en v k, exec_k (en, OReturn v) k = (en, OReturn v).
Proof. reflexivity. Qed.

(** everything that is not interpreter stays folded: numbers, list functions, the model's functions *)
Ltac gl_cbn :=
  cbn -[Qcplus Qcmult Qcdiv Qcminus Qcopp Qcinv Q2Qc Qc_eqb Qc_ltb Qc_leb Qc_of_Z Qc_of_nat
        map map2 seq where_true index_of py_index
        append_res normalize_res repeat_res truncate rfa match_ref interp_eval trend trend_defined linspace
        py_slice take_stride clampZ py_slice1 oversample_linspace arr_eqb headq lastq nth_error
        Z.of_nat Z.to_nat Z.add Z.sub Z.mul
        exec exec_k agrees init_agrees query_agrees pair_outcome call_with selfcall1 slice_by_index slice_by_value].
Ltac gl_red := unfold bind, optZ, optQ; gl_cbn; repeat (progress unfold bind, optZ, optQ; gl_cbn).

(** a scrutinee that is itself stuck on nothing else *)
Ltac atomic e := lazymatch e with context [match _ with _ => _ end] => fail | _ => idtac end.

Ltac gl_step_gen extra :=
  first
  [ (* an optional argument: split it before anything runs *)
    match goal with |- context [match ?e with _ => _ end] => is_var e; destruct e end
  | match goal with
    (* sequencing: focus on the head statement; drop the focus once it has run *)
    | |- context [exec ?o ?s0 ?sc ?en (SIf ?c ?th ?el :: ?l)] =>
        rewrite (exec_cons o s0 sc en (SIf c th el) l), (exec1_if o s0 sc en c th el)
    | |- context [exec ?o ?s0 ?sc ?en (?st :: ?l)] => rewrite (exec_cons o s0 sc en st l)
    | |- context [exec ?o ?s0 ?sc ?en []] => rewrite (exec_nil o s0 sc en)
    | |- context [exec_k (?en, ONormal) ?k] => rewrite (exec_k_normal en k)
    | |- context [exec_k (?en, ORaise ?e) ?k] => rewrite (exec_k_raise en e k)
    | |- context [exec_k (?en, OReturn ?v) ?k] => rewrite (exec_k_return en v k)
    (* a case already split *)
    | H : ?e = _ |- context [match ?e with _ => _ end] => rewrite H
    (* leaves *)
    | |- context [arr_eqb ?l ?l] => rewrite (arr_eqb_refl l)
    | |- context [py_slice ?l ?a ?b 1] => rewrite (py_slice_1 l a b)
    | |- context [py_index ?l 0%Z] => rewrite (py_index_head l) by assumption
    | |- context [py_index ?l (-1)%Z] => rewrite (py_index_last l) by assumption
    | |- context [py_index (?a :: ?l) 0%Z] => change (py_index (a :: l) 0%Z) with (Some a)
    | |- context [andb ?x false] => rewrite (andb_false_r x)
    | |- context [(Z.of_nat ?a =? Z.of_nat ?b)%Z] => rewrite (Z_of_nat_eqb a b)
    | |- context [Z.to_nat (Z.of_nat ?n)] => rewrite (Nat2Z.id n)
    | |- context [Z.of_nat O] => change (Z.of_nat O) with 0%Z
    | |- context [(Z.of_nat (S ?n) =? 0)%Z] => change (Z.of_nat (S n) =? 0)%Z with false
    | |- context [where_true (map (fun u => Qc_eqb u ?v) ?l) 0%Z] =>
        let H := fresh "Hw" in
        pose proof (where_index_of v l) as H; revert H;
        destruct (index_of v l 0) eqn:?; intro H; cbv beta iota in H; [destruct H as [? H]|]; rewrite !H; clear H
    end
  | extra
  (* stuck on a model call / a symbolic comparison: split it, on both sides at once *)
  | match goal with |- context [match negb ?e with _ => _ end] => atomic e; destruct e eqn:? end
  | match goal with |- context [match ?e with _ => _ end] => atomic e; destruct e eqn:? end ].
Ltac gl_run_gen extra := repeat (gl_red; gl_step_gen extra); gl_red.
Ltac gl_run := gl_run_gen ltac:(idtac; fail).

(** ---------------- C09: the mutating methods ---------------- *)
Lemma glue_generated : forall s o xs ys, glue_pre s o ->
  let r := call_method weaver_methods (Some o) (op_method o) (params_of o) s xs ys in
  g_s (fst r) = fst (step s o) /\ outcome_res (snd r) = snd (step s o).
Proof.
  intros s o xs ys Hpre r; subst r.
  match goal with |- g_s (fst ?r) = fst ?m /\ _ => change (agrees r m) end.
  destruct o; cbn in Hpre; try match type of Hpre with _ /\ _ => destruct Hpre as [Hpre1 Hpre2] end; unfold call_method, call_with.
  all: gl_run.
  all: unfold agrees; split; reflexivity.
Qed.

Lemma glue_init : forall s x y xs ys,
  let r := call_method weaver_methods None "__init__" [("x", match x with Some l => VArr l | None => VNoneV end); ("y", VArr y)] s xs ys in
  match init x y with
  | Ok s' => g_s (fst r) = s' /\ snd r = ONormal /\ g_xs (fst r) = 1 /\ g_ys (fst r) = 1
  | Raise e => snd r = ORaise e /\ g_s (fst r) = s
  end.
Proof.
  intros s x y xs ys r; subst r.
  match goal with |- match ?m with Ok _ => _ | Raise _ => _ end =>
    match goal with |- context [g_s (fst ?r) = s] => change (init_agrees s r m) end end.
  destruct x; unfold call_method, call_with.
  all: gl_run.
  all: unfold init_agrees; cbn; repeat split; reflexivity.
Qed.

Lemma glue_getters : forall s xs ys,
  (let r := call_method weaver_methods None "get" [] s xs ys in g_s (fst r) = s /\ outcome_pair (snd r) = Ok (wx s, wy s)) /\
  (let r := call_method weaver_methods None "get_original" [] s xs ys in g_s (fst r) = s /\ outcome_pair (snd r) = Ok (wox s, woy s)) /\
  (let r := call_method weaver_methods None "get_reference" [] s xs ys in g_s (fst r) = s /\ outcome_pair (snd r) = Ok (wrx s, wry s)) /\
  (let r := call_method weaver_methods None "__len__" [] s xs ys in g_s (fst r) = s /\ snd r = OReturn (VInt (Z.of_nat (length (wx s))))).
Proof.
  intros s xs ys. unfold call_method, call_with.
  gl_run. repeat split; reflexivity.
Qed.

(** ---------------- the module-level imports ---------------- *)
Definition imports_check (l : list (string * string * string)) (fn m : string) : bool :=
  forallb (fun e => match e with (m', n', b) =>
                      if String.eqb b fn then String.eqb m' m && String.eqb n' fn else true end) l.
Lemma imports_check_sound : forall l fn m, imports_check l fn m = true ->
  forall m' n', In (m', n', fn) l -> m' = m /\ n' = fn.
Proof.
  induction l as [|[[a b] c] l IH]; intros fn m H m' n' Hin; [destruct Hin|].
  cbn [imports_check forallb] in H. apply andb_true_iff in H. destruct H as [H1 H2].
  destruct Hin as [E|Hin]; [|exact (IH fn m H2 m' n' Hin)].
  injection E as -> -> ->. rewrite String.eqb_refl in H1. apply andb_true_iff in H1.
  destruct H1 as [Ha Hb]. apply String.eqb_eq in Ha. apply String.eqb_eq in Hb. split; assumption.
Qed.
Definition imports_mem (l : list (string * string * string)) (m n b : string) : bool :=
  existsb (fun e => match e with (m', n', b') => String.eqb m' m && String.eqb n' n && String.eqb b' b end) l.
Lemma imports_mem_sound : forall l m n b, imports_mem l m n b = true -> In (m, n, b) l.
Proof.
  intros l m n b H. unfold imports_mem in H. apply existsb_exists in H.
  destruct H as [[[m' n'] b'] [Hin H]]. apply andb_true_iff in H. destruct H as [H H3].
  apply andb_true_iff in H. destruct H as [H1 H2].
  apply String.eqb_eq in H1. apply String.eqb_eq in H2. apply String.eqb_eq in H3. subst. exact Hin.
Qed.
(** the module a bound name is imported from (the first import that binds it) *)
Fixpoint import_module (l : list (string * string * string)) (fn : string) : string :=
  match l with
  | [] => ""
  | (m, _, b) :: l' => if String.eqb b fn then m else import_module l' fn
  end.

Lemma glue_imports :
  forall fn, In fn ["integral_matching_reference_stretch"; "repeat"; "trend"; "spline_smooth"; "noise_gauss"; "interpolate"; "truncate"; "normalize"; "append_one_sample"] ->
  exists m, In (m, fn, fn) weaver_imports /\ In m [".match"; ".process"; ".sorted_array_utils"] /\
            forall m' n', In (m', n', fn) weaver_imports -> m' = m /\ n' = fn.
Proof.
  intros fn H. cbn [In] in H.
  repeat (destruct H as [<-|H]); [..|contradiction].
  all: match goal with |- exists m, In (m, ?fn, ?fn) _ /\ _ =>
         let m := eval vm_compute in (import_module weaver_imports fn) in exists m end.
  all: split; [apply imports_mem_sound; vm_compute; reflexivity|].
  all: split; [cbn [In]; repeat (first [left; reflexivity | right])|].
  all: apply imports_check_sound; vm_compute; reflexivity.
Qed.

(** ---------------- C08 ---------------- *)
Lemma glue_domain : forall s o xs ys, is_domain o = true ->
  let r := call_method weaver_methods (Some o) (op_method o) (params_of o) s xs ys in
  wx (g_s (fst r)) = wx (fst (step s o)) /\ wy (g_s (fst r)) = wy (fst (step s o)) /\
  wrx (g_s (fst r)) = wrx (fst (step s o)) /\ wry (g_s (fst r)) = wry (fst (step s o)) /\
  outcome_res (snd r) = snd (step s o).
Proof.
  intros s o xs ys Hd r.
  assert (Hpre : glue_pre s o) by (destruct o; try discriminate Hd; exact I).
  destruct (glue_generated s o xs ys Hpre) as [Hs Ho]. fold r in Hs, Ho.
  rewrite Hs. repeat split; try reflexivity. exact Ho.
Qed.

(** ---------------- C11: the slicing queries ---------------- *)
(** slice_by_index calls no other method: the statement holds whatever self-calls would mean *)
Lemma slice_by_index_with : forall sc o s start stop step xs ys,
  query_agrees s
    (call_with sc weaver_methods o "slice_by_index" [("start", VInt start); ("stop", optZ stop); ("step", VInt step)] s xs ys)
    (slice_by_index s start stop step).
Proof.
  intros sc o s start stop step xs ys. unfold call_with, slice_by_index.
  gl_run.
  all: unfold query_agrees, pair_outcome; split; reflexivity.
Qed.

Lemma outcome_pair_pair_outcome : forall m, outcome_pair (pair_outcome m) = m.
Proof. intros [[p q]|e]; reflexivity. Qed.

Lemma glue_slice_by_index : forall s start stop step xs ys,
  let r := call_method weaver_methods None "slice_by_index" [("start", VInt start); ("stop", optZ stop); ("step", VInt step)] s xs ys in
  g_s (fst r) = s /\ outcome_pair (snd r) = slice_by_index s start stop step.
Proof.
  intros s start stop step xs ys r.
  destruct (slice_by_index_with (selfcall1 weaver_methods None) None s start stop step xs ys) as [Hs Ho].
  unfold call_method in r. fold r in Hs, Ho. split; [exact Hs|].
  rewrite Ho. apply outcome_pair_pair_outcome.
Qed.

(** self.slice_by_index(a, b, step) from inside another method *)
Lemma selfcall_slice_by_index : forall o en a b c,
  selfcall1 weaver_methods o en "slice_by_index" [VInt a; VInt b; VInt c] =
  match slice_by_index (g_s en) a (Some b) c with
  | Ok (p, q) => Ok (VTup [VArr p; VArr q])
  | Raise e => Raise e
  end.
Proof.
  intros o en a b c.
  pose proof (slice_by_index_with no_selfcall o (g_s en) a (Some b) c (g_xs en) (g_ys en)) as [_ H].
  unfold selfcall1. gl_red. unfold optZ in H.
  destruct (call_with _ _ _ _ _ _ _ _) as [en' oc]. cbn [snd] in H. subst oc.
  destruct (slice_by_index (g_s en) a (Some b) c) as [[p q]|e]; reflexivity.
Qed.

Lemma glue_slice_by_value : forall s start stop step xs ys,
  let r := call_method weaver_methods None "slice_by_value" [("start", optQ start); ("stop", optQ stop); ("step", VInt step)] s xs ys in
  g_s (fst r) = s /\ outcome_pair (snd r) = slice_by_value s start stop step.
Proof.
  intros s start stop step xs ys r.
  assert (H : query_agrees s r (slice_by_value s start stop step)).
  { subst r. unfold call_method, call_with, slice_by_value.
    gl_run_gen ltac:(idtac;
      match goal with |- context [selfcall1 weaver_methods ?o ?en "slice_by_index" [VInt ?a; VInt ?b; VInt ?c]] =>
        rewrite (selfcall_slice_by_index o en a b c) end).
    all: unfold query_agrees, pair_outcome; split; reflexivity. }
  destruct H as [Hs Ho]. split; [exact Hs|]. rewrite Ho. apply outcome_pair_pair_outcome.
Qed.

Lemma glue_slice_defaults : forall s xs ys,
  call_method weaver_methods None "slice_by_index" [] s xs ys =
  call_method weaver_methods None "slice_by_index" [("start", VInt 0); ("stop", VNoneV); ("step", VInt 1)] s xs ys /\
  call_method weaver_methods None "slice_by_value" [] s xs ys =
  call_method weaver_methods None "slice_by_value" [("start", VNoneV); ("stop", VNoneV); ("step", VInt 1)] s xs ys /\
  call_method weaver_methods (Some (OTruncIdx 0 None)) "truncate_by_index" [] s xs ys =
  call_method weaver_methods (Some (OTruncIdx 0 None)) "truncate_by_index" (params_of (OTruncIdx 0 None)) s xs ys.
Proof.
  intros s xs ys. unfold call_method, call_with.
  gl_red. repeat split; reflexivity.
Qed.
