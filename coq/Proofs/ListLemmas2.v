(** Further general list lemmas (no model-specific content): Qc_of_nat
    homomorphism, nth-wise characterisation of [ssorted], [map2], mapping a
    function over an index range, block indexing, min/max folds. *)
From TW Require Import Lib.Base Proofs.ListLemmas.
Open Scope Qc_scope.

(** ---------- Qc_of_nat ---------- *)

Lemma Qc_of_nat_add : forall a b, Qc_of_nat (a + b) = Qc_of_nat a + Qc_of_nat b.
Proof.
  induction a as [|a IH]; intros b; cbn [Nat.add].
  - rewrite Qc_of_nat_0. ring.
  - rewrite !Qc_of_nat_S, IH. ring.
Qed.

Lemma Qc_of_nat_mul : forall a b, Qc_of_nat (a * b) = Qc_of_nat a * Qc_of_nat b.
Proof.
  induction a as [|a IH]; intros b; cbn [Nat.mul].
  - rewrite Qc_of_nat_0. ring.
  - rewrite Qc_of_nat_add, IH, Qc_of_nat_S. ring.
Qed.

(** ---------- ssorted, nth-wise ---------- *)

Lemma ssorted_nth : forall l,
  ssorted l <-> (forall k, (k + 1 < length l)%nat -> nthq k l < nthq (k + 1) l).
Proof.
  induction l as [|a l IH].
  - split; [intros _ k H; cbn [length] in H; lia | intros _; exact I].
  - destruct l as [|b l].
    + split; [intros _ k H; cbn [length] in H; lia | intros _; exact I].
    + change (ssorted (a :: b :: l)) with (a < b /\ ssorted (b :: l)). rewrite IH. split.
      * intros [Hab H] k Hk. destruct k as [|k]; [exact Hab|].
        cbn [Nat.add]. rewrite !nthq_cons_S. apply H. cbn [length] in *. lia.
      * intros H. split; [apply (H 0%nat); cbn [length]; lia|].
        intros k Hk. specialize (H (S k)). cbn [Nat.add] in H. rewrite !nthq_cons_S in H.
        apply H. cbn [length] in *. lia.
Qed.

(** ---------- map2 ---------- *)

Lemma map2_length : forall {A B C} (f : A -> B -> C) l1 l2,
  length l1 = length l2 -> length (map2 f l1 l2) = length l2.
Proof.
  intros A B C f. induction l1 as [|a l1 IH]; intros [|b l2] H; cbn [length map2] in *; try lia.
  rewrite IH; lia.
Qed.

Lemma nthq_map2 : forall (f : Qc -> Qc -> Qc) l1 l2 i,
  (i < length l1)%nat -> (i < length l2)%nat ->
  nthq i (map2 f l1 l2) = f (nthq i l1) (nthq i l2).
Proof.
  intros f. induction l1 as [|a l1 IH]; intros [|b l2] i H1 H2; cbn [length] in *; try lia.
  cbn [map2]. destruct i as [|i]; [reflexivity|]. rewrite !nthq_cons_S. apply IH; lia.
Qed.

(** ---------- mapping over an index range ---------- *)

Lemma slice_length : forall l a b, (a <= b)%nat -> (b <= length l)%nat ->
  length (slice l a b) = (b - a)%nat.
Proof. intros l a b Hab Hb. unfold slice. rewrite firstn_length, skipn_length. lia. Qed.

Lemma nthq_slice : forall l a b i, (i < b - a)%nat -> nthq i (slice l a b) = nthq (a + i) l.
Proof. intros l a b i H. unfold slice. rewrite nthq_firstn by exact H. apply nthq_skipn. Qed.

Lemma map_range_length : forall (f : Qc -> Qc) l a b, (a <= b)%nat -> (b <= length l)%nat ->
  length (firstn a l ++ map f (slice l a b) ++ skipn b l) = length l.
Proof.
  intros f l a b Hab Hb.
  rewrite !app_length, map_length, slice_length, firstn_length, skipn_length by assumption. lia.
Qed.

Lemma nthq_map_range_lt : forall (f : Qc -> Qc) l a b k, (a <= b)%nat -> (b <= length l)%nat ->
  (k < a)%nat -> nthq k (firstn a l ++ map f (slice l a b) ++ skipn b l) = nthq k l.
Proof.
  intros f l a b k Hab Hb Hk.
  rewrite nthq_app_l by (rewrite firstn_length; lia). now apply nthq_firstn.
Qed.

Lemma nthq_map_range_in : forall (f : Qc -> Qc) l a b k, (a <= b)%nat -> (b <= length l)%nat ->
  (a <= k)%nat -> (k < b)%nat ->
  nthq k (firstn a l ++ map f (slice l a b) ++ skipn b l) = f (nthq k l).
Proof.
  intros f l a b k Hab Hb Hak Hkb.
  assert (Hfl : length (firstn a l) = a) by (rewrite firstn_length; lia).
  rewrite nthq_app_ge by (rewrite Hfl; exact Hak). rewrite Hfl.
  rewrite nthq_app_l by (rewrite map_length, slice_length by assumption; lia).
  rewrite nthq_map by (rewrite slice_length by assumption; lia).
  rewrite nthq_slice by lia. f_equal. f_equal. lia.
Qed.

Lemma nthq_map_range_ge : forall (f : Qc -> Qc) l a b k, (a <= b)%nat -> (b <= length l)%nat ->
  (b <= k)%nat -> nthq k (firstn a l ++ map f (slice l a b) ++ skipn b l) = nthq k l.
Proof.
  intros f l a b k Hab Hb Hk.
  assert (Hfl : length (firstn a l) = a) by (rewrite firstn_length; lia).
  rewrite nthq_app_ge by (rewrite Hfl; lia). rewrite Hfl.
  rewrite nthq_app_ge by (rewrite map_length, slice_length by assumption; lia).
  rewrite map_length, slice_length by assumption.
  rewrite nthq_skipn. f_equal. lia.
Qed.

(** ---------- block indexing ---------- *)

Lemma block_index : forall n r k, (k < r * n)%nat ->
  exists b j, (b < r)%nat /\ (j < n)%nat /\ k = (b * n + j)%nat.
Proof.
  intros n r k Hk.
  assert (Hn : n <> 0%nat) by (intros ->; lia).
  exists (k / n)%nat, (k mod n)%nat. split; [|split].
  - apply Nat.div_lt_upper_bound; [exact Hn|]. rewrite Nat.mul_comm. exact Hk.
  - now apply Nat.mod_upper_bound.
  - rewrite (Nat.mul_comm (k / n) n). now apply Nat.div_mod.
Qed.

Lemma block_ext : forall n r l1 l2, length l1 = (r * n)%nat -> length l2 = (r * n)%nat ->
  (forall b j, (b < r)%nat -> (j < n)%nat -> nthq (b * n + j) l1 = nthq (b * n + j) l2) ->
  l1 = l2.
Proof.
  intros n r l1 l2 H1 H2 H. apply nthq_ext; [congruence|].
  intros k Hk. rewrite H1 in Hk. destruct (block_index n r k Hk) as (b & j & Hb & Hj & ->).
  now apply H.
Qed.

(** ---------- min / max folds ---------- *)

Lemma fold_min_spec : forall l acc,
  In (fold_left Qc_min l acc) (acc :: l) /\ fold_left Qc_min l acc <= acc /\
  forall v, In v l -> fold_left Qc_min l acc <= v.
Proof.
  induction l as [|a l IH]; intros acc; cbn [fold_left].
  - split; [now left|]. split; [apply Qcle_refl|]. intros v [].
  - destruct (IH (Qc_min acc a)) as (Hin & Hle & Hall).
    assert (Hm : Qc_min acc a <= acc /\ Qc_min acc a <= a /\ (Qc_min acc a = acc \/ Qc_min acc a = a)).
    { unfold Qc_min. qc_case (Qc_leb acc a).
      - split; [apply Qcle_refl|]. split; [exact Hle0|now left].
      - split; [now apply Qclt_le_weak|]. split; [apply Qcle_refl|now right]. }
    destruct Hm as (Hm1 & Hm2 & Hm3).
    split; [|split].
    + destruct Hin as [Hin|Hin].
      * rewrite <- Hin. destruct Hm3 as [->| ->]; [now left|right; now left].
      * right; now right.
    + eapply Qcle_trans; eassumption.
    + intros v [<-|Hv]; [eapply Qcle_trans; eassumption|now apply Hall].
Qed.

Lemma fold_max_spec : forall l acc,
  In (fold_left Qc_max l acc) (acc :: l) /\ acc <= fold_left Qc_max l acc /\
  forall v, In v l -> v <= fold_left Qc_max l acc.
Proof.
  induction l as [|a l IH]; intros acc; cbn [fold_left].
  - split; [now left|]. split; [apply Qcle_refl|]. intros v [].
  - destruct (IH (Qc_max acc a)) as (Hin & Hle & Hall).
    assert (Hm : acc <= Qc_max acc a /\ a <= Qc_max acc a /\ (Qc_max acc a = acc \/ Qc_max acc a = a)).
    { unfold Qc_max. qc_case (Qc_leb acc a).
      - split; [exact Hle0|]. split; [apply Qcle_refl|now right].
      - split; [apply Qcle_refl|]. split; [now apply Qclt_le_weak|now left]. }
    destruct Hm as (Hm1 & Hm2 & Hm3).
    split; [|split].
    + destruct Hin as [Hin|Hin].
      * rewrite <- Hin. destruct Hm3 as [->| ->]; [now left|right; now left].
      * right; now right.
    + eapply Qcle_trans; eassumption.
    + intros v [<-|Hv]; [eapply Qcle_trans; eassumption|now apply Hall].
Qed.

Lemma minq_maxq_spec : forall a, a <> [] ->
  In (minq a) a /\ In (maxq a) a /\ forall v, In v a -> minq a <= v /\ v <= maxq a.
Proof.
  intros [|h t] Hne; [congruence|]. unfold minq, maxq. cbn [tl headq hd].
  destruct (fold_min_spec t h) as (Hi1 & Hl1 & Ha1).
  destruct (fold_max_spec t h) as (Hi2 & Hl2 & Ha2).
  split; [exact Hi1|]. split; [exact Hi2|].
  intros v [<-|Hv]; split; auto.
Qed.
