(** "generated = model" link lemmas: the arithmetic kernels regenerated from the Python source
    (Gen/Kernels.v, over the vector DSL of Lib/Vec.v) compute exactly what the hand-written
    models of Model/SortedUtils.v, Model/Process.v and Model/Match.v compute.
    The statements are those of the staging file staging/Kernels.v.
    The proofs only unfold the generated definitions and then reason about the DSL operators
    (evaluation lemmas of section "DSL"), never about the exact shape of a generated term. *)
From TW Require Import Model.MatchSpec Gen.Kernels Proofs.ListLemmas.
Open Scope Qc_scope.

(** ---------- constants ---------- *)

Lemma qz2_two : qz 2 = Qc_two.
Proof. apply Qc_is_canon. reflexivity. Qed.

Lemma Qc_two_neq0 : Qc_two <> 0.
Proof. intro H. discriminate H. Qed.

Lemma Qc_half_inv_two : Qc_half = / Qc_two.
Proof. apply Qc_is_canon. reflexivity. Qed.

Lemma div_two_half : forall v, v / Qc_two = v * Qc_half.
Proof. intros v. unfold Qcdiv. rewrite Qc_half_inv_two. reflexivity. Qed.

Lemma div_qz2_half : forall v, v / qz 2 = v * Qc_half.
Proof. intros v. rewrite qz2_two. apply div_two_half. Qed.

(** ---------- DSL: evaluation of the operators of Lib/Vec.v ---------- *)

Lemma lift2_SS : forall f a b, lift2 f (VS a) (VS b) = VS (f a b).
Proof. reflexivity. Qed.
Lemma lift2_SV : forall f a w, lift2 f (VS a) (VV w) = VV (map (f a) w).
Proof. reflexivity. Qed.
Lemma lift2_VS : forall f v b, lift2 f (VV v) (VS b) = VV (map (fun e => f e b) v).
Proof. reflexivity. Qed.
Lemma lift2_VV : forall f v w, lift2 f (VV v) (VV w) = VV (map2 f v w).
Proof. reflexivity. Qed.
Lemma lift1_S : forall f a, lift1 f (VS a) = VS (f a).
Proof. reflexivity. Qed.
Lemma lift1_V : forall f v, lift1 f (VV v) = VV (map f v).
Proof. reflexivity. Qed.
Lemma vdiff_V : forall x, vdiff (VV x) = VV (diffs x).
Proof. reflexivity. Qed.
Lemma vinit_V : forall x, vinit (VV x) = VV (removelast x).
Proof. reflexivity. Qed.
Lemma vtail_V : forall x, vtail (VV x) = VV (tl x).
Proof. reflexivity. Qed.
Lemma vsum_V : forall x, vsum (VV x) = VS (sumq x).
Proof. reflexivity. Qed.
Lemma vmean_V : forall x, vmean (VV x) = VS (sumq x / Qc_of_nat (length x)).
Proof. reflexivity. Qed.
Lemma vmin_V : forall x, vmin (VV x) = VS (minq x).
Proof. reflexivity. Qed.
Lemma vmax_V : forall x, vmax (VV x) = VS (maxq x).
Proof. reflexivity. Qed.
Lemma vlen_V : forall x, vlen (VV x) = VS (Qc_of_nat (length x)).
Proof. reflexivity. Qed.
Lemma vvar_V : forall x, vvar (VV x) =
  sumq (map (fun v => (v - sumq x / Qc_of_nat (length x)) * (v - sumq x / Qc_of_nat (length x))) x) / Qc_of_nat (length x).
Proof. reflexivity. Qed.
Lemma vappend_VS : forall x v, vappend (VV x) (VS v) = VV (x ++ [v]).
Proof. reflexivity. Qed.
Lemma varray_V : forall l, varray l = VV l.
Proof. reflexivity. Qed.

Global Hint Rewrite lift2_SS lift2_SV lift2_VS lift2_VV lift1_S lift1_V vdiff_V vinit_V vtail_V vsum_V
  vmean_V vmin_V vmax_V vlen_V vvar_V vappend_VS varray_V : vec.

(** evaluate every DSL operator applied to explicit [VS _] / [VV _] arguments *)
Ltac vec_eval :=
  unfold vadd, vsub, vmul, vdiv, vneg, vabs, vpow;
  autorewrite with vec.

(** Python indexing: from the start (i >= 0) and from the end (i < 0) *)
Lemma vidx_from_start : forall x i k, i = Z.of_nat k -> vidx (VV x) i = VS (nthq k x).
Proof.
  intros x i k ->. unfold vidx. cbn [as_list].
  replace (0 <=? Z.of_nat k)%Z with true by (symmetry; apply Z.leb_le; lia).
  rewrite Nat2Z.id. reflexivity.
Qed.

Lemma vidx_from_end : forall x i k, i = (- Z.of_nat k)%Z -> (1 <= k <= length x)%nat ->
  vidx (VV x) i = VS (nthq (length x - k) x).
Proof.
  intros x i k -> Hk. unfold vidx. cbn [as_list].
  replace (0 <=? - Z.of_nat k)%Z with false by (symmetry; apply Z.leb_gt; lia).
  replace (Z.to_nat (Z.of_nat (length x) + - Z.of_nat k)) with (length x - k)%nat by lia.
  reflexivity.
Qed.

(** rewrite one occurrence  x[i]  whose index denotes the natural number k / minus k *)
Ltac vidx_start x k :=
  match goal with |- context [vidx (VV x) ?i] => rewrite (vidx_from_start x i k) by lia end.
Ltac vidx_end x k :=
  match goal with |- context [vidx (VV x) ?i] => rewrite (vidx_from_end x i k) by lia end.

Lemma not_nil_length : forall (x : list Qc), x <> [] -> (1 <= length x)%nat.
Proof. intros [|a x] H; [congruence | cbn [length]; lia]. Qed.

(** ---------- list equations ---------- *)

Lemma removelast_cons2 : forall (a b : Qc) l, removelast (a :: b :: l) = a :: removelast (b :: l).
Proof. reflexivity. Qed.
Lemma diffs_cons2 : forall a b l, diffs (a :: b :: l) = (b - a) :: diffs (b :: l).
Proof. reflexivity. Qed.
Lemma map2_cons : forall (f : Qc -> Qc -> Qc) a b l1 l2, map2 f (a :: l1) (b :: l2) = f a b :: map2 f l1 l2.
Proof. reflexivity. Qed.
Lemma rect_cons2' : forall x0 x1 x a0 y,
  rectangle_integral (x0 :: x1 :: x) (a0 :: y) = a0 * (x1 - x0) :: rectangle_integral (x1 :: x) y.
Proof. reflexivity. Qed.
Lemma trap_cons2' : forall x0 x1 x a0 a1 y,
  trapezoid_integral (x0 :: x1 :: x) (a0 :: a1 :: y)
  = (a0 + a1) * Qc_half * (x1 - x0) :: trapezoid_integral (x1 :: x) (a1 :: y).
Proof. reflexivity. Qed.
Lemma wsum_trap_cons2 : forall w0 w1 w x0 x1 x,
  wsum_trap (w0 :: w1 :: w) (x0 :: x1 :: x) = (w1 + w0) * (x1 - x0) + wsum_trap (w1 :: w) (x1 :: x).
Proof. reflexivity. Qed.
Lemma wsum_rect_cons2 : forall w0 w x0 x1 x,
  wsum_rect (w0 :: w) (x0 :: x1 :: x) = w0 * (x1 - x0) + wsum_rect w (x1 :: x).
Proof. reflexivity. Qed.

Lemma map2_map_right : forall (f : Qc -> Qc -> Qc) (g : Qc -> Qc) l1 l2,
  map2 f l1 (map g l2) = map2 (fun a b => f a (g b)) l1 l2.
Proof.
  intros f g. induction l1 as [|a l1 IH]; intros [|b l2]; try reflexivity.
  cbn [map map2]. rewrite IH. reflexivity.
Qed.

Lemma map2_diag : forall (f : Qc -> Qc -> Qc) l, map2 f l l = map (fun a => f a a) l.
Proof.
  intros f. induction l as [|a l IH]; [reflexivity|]. cbn [map map2]. rewrite IH. reflexivity.
Qed.

(** y[:-1] * diff(x)  is the model's rectangle rule *)
Lemma rect_zip : forall x y, length x = length y ->
  map2 Qcmult (removelast y) (diffs x) = rectangle_integral x y.
Proof.
  induction x as [|x0 x' IH]; intros y Hl.
  - destruct y; [reflexivity | discriminate].
  - destruct y as [|y0 y']; [discriminate|].
    destruct x' as [|x1 x'']; destruct y' as [|y1 y'']; try discriminate.
    + reflexivity.
    + rewrite removelast_cons2, diffs_cons2, map2_cons, rect_cons2'.
      rewrite IH by (cbn [length] in *; lia). reflexivity.
Qed.

(** (y[:-1] + y[1:]) / 2 * diff(x)  is the model's trapezoid rule *)
Lemma trap_zip : forall x y, length x = length y ->
  map2 Qcmult (map (fun e => e / qz 2) (map2 Qcplus (removelast y) (tl y))) (diffs x) = trapezoid_integral x y.
Proof.
  induction x as [|x0 x' IH]; intros y Hl.
  - destruct y; [reflexivity | discriminate].
  - destruct y as [|y0 y']; [discriminate|].
    destruct x' as [|x1 x'']; destruct y' as [|y1 y'']; try discriminate.
    + reflexivity.
    + rewrite removelast_cons2, diffs_cons2, trap_cons2'.
      cbn [tl]. rewrite map2_cons. cbn [map]. rewrite map2_cons.
      specialize (IH (y1 :: y'')). cbn [tl] in IH.
      rewrite IH by (cbn [length] in *; lia).
      rewrite div_qz2_half. reflexivity.
Qed.

(** sum((w[1:] + w[:-1]) * diff(x))  and  sum(w[:-1] * diff(x))  are the model's recursive sums *)
Lemma wsum_trap_zip : forall x w, length w = length x ->
  sumq (map2 Qcmult (map2 Qcplus (tl w) (removelast w)) (diffs x)) = wsum_trap w x.
Proof.
  induction x as [|x0 x' IH]; intros w Hl.
  - destruct w; [reflexivity | discriminate].
  - destruct w as [|w0 w']; [discriminate|].
    destruct x' as [|x1 x'']; destruct w' as [|w1 w'']; try discriminate.
    + reflexivity.
    + rewrite removelast_cons2, diffs_cons2, wsum_trap_cons2.
      cbn [tl]. rewrite !map2_cons. cbn [sumq].
      specialize (IH (w1 :: w'')). cbn [tl] in IH.
      rewrite IH by (cbn [length] in *; lia). reflexivity.
Qed.

Lemma wsum_rect_zip : forall x w, length w = length x ->
  sumq (map2 Qcmult (removelast w) (diffs x)) = wsum_rect w x.
Proof.
  induction x as [|x0 x' IH]; intros w Hl.
  - destruct w; [reflexivity | discriminate].
  - destruct w as [|w0 w']; [discriminate|].
    destruct x' as [|x1 x'']; destruct w' as [|w1 w'']; try discriminate.
    + reflexivity.
    + rewrite removelast_cons2, diffs_cons2, wsum_rect_cons2, map2_cons. cbn [sumq].
      rewrite IH by (cbn [length] in *; lia). reflexivity.
Qed.

(** ---------------- C17: sorted_array_utils ---------------- *)

Theorem gen_rectangle_integral : forall x y, length x = length y ->
  rectangle_integral__ret (VV y) (rectangle_integral__d (VV x)) = VV (rectangle_integral x y).
Proof.
  intros x y Hl. unfold rectangle_integral__ret, rectangle_integral__d. vec_eval.
  rewrite rect_zip by assumption. reflexivity.
Qed.

Theorem gen_trapezoid_integral : forall x y, length x = length y ->
  trapezoid_integral__ret (VV y) (VV x) = VV (trapezoid_integral x y).
Proof.
  intros x y Hl. unfold trapezoid_integral__ret. vec_eval.
  rewrite trap_zip by assumption. reflexivity.
Qed.

Theorem gen_append_one_sample : forall x y p, (2 <= length x)%nat -> y <> [] ->
  append_one_sample__x (VV x) = VV (fst (append_one_sample x y p)) /\
  (if p then append_one_sample__y_periodic (VV y) else append_one_sample__y_last (VV y))
  = VV (snd (append_one_sample x y p)).
Proof.
  intros x y p Hx Hy. pose proof (not_nil_length y Hy) as Hy1.
  unfold append_one_sample. cbn [fst snd]. split.
  - unfold append_one_sample__x.
    vidx_end x 1%nat. vidx_end x 2%nat. vec_eval. rewrite qz2_two. reflexivity.
  - destruct p.
    + unfold append_one_sample__y_periodic. vidx_start y 0%nat. vec_eval.
      rewrite headq_nthq. reflexivity.
    + unfold append_one_sample__y_last. vidx_end y 1%nat. vec_eval.
      rewrite (lastq_nthq y Hy). reflexivity.
Qed.

(** ---------------- C14: normalize, trend ---------------- *)

Theorem gen_normalize : forall a lo hi,
  normalize__ret (VV a) (normalize__a_min (VV a)) (normalize__a_max (VV a)) (VS hi) (VS lo) = VV (normalize a lo hi).
Proof.
  intros a lo hi. unfold normalize__ret, normalize__a_min, normalize__a_max, normalize. vec_eval.
  rewrite !map_map. reflexivity.
Qed.

Theorem gen_trend_range : forall x, x <> [] -> trend__range_x (VV x) = VS (lastq x - headq x).
Proof.
  intros x Hx. pose proof (not_nil_length x Hx) as Hx1.
  unfold trend__range_x. vidx_end x 1%nat. vidx_start x 0%nat. vec_eval.
  rewrite (lastq_nthq x Hx), headq_nthq. reflexivity.
Qed.

(** ---------------- C12: repeat ---------------- *)

Theorem gen_repeat_shift : forall x n i, (2 <= n * i)%nat -> (n * i <= length x)%nat ->
  repeat__previous_range_diff (Z.of_nat n) (Z.of_nat i) (VV x)
  = VS (nthq (n * i - 1) x - nthq 0 x + (nthq (n * i - 1) x - nthq (n * i - 2) x)).
Proof.
  intros x n i Hlo Hhi. unfold repeat__previous_range_diff.
  assert (Hm : (Z.of_nat n * Z.of_nat i)%Z = Z.of_nat (n * i)) by (symmetry; apply Nat2Z.inj_mul).
  rewrite !Hm. clear Hm. revert Hlo Hhi. generalize (n * i)%nat as m. intros m Hlo Hhi.
  repeat vidx_start x (m - 1)%nat. vidx_start x (m - 2)%nat. vidx_start x 0%nat. vec_eval. reflexivity.
Qed.

(** ---------------- C11: truncate ---------------- *)

Theorem gen_truncate_ratio : forall x v, x <> [] ->
  truncate__x_left (VS v) (VV x) = VS (v * (lastq x - headq x) + headq x) /\
  truncate__x_right (VS v) (VV x) = VS (v * (lastq x - headq x) + headq x).
Proof.
  intros x v Hx. pose proof (not_nil_length x Hx) as Hx1.
  rewrite (lastq_nthq x Hx), headq_nthq.
  split; [unfold truncate__x_left | unfold truncate__x_right];
    vidx_end x 1%nat; repeat vidx_start x 0%nat; vec_eval; reflexivity.
Qed.

(** ---------------- C16: default smoothing condition ---------------- *)

Theorem gen_spline_s : forall psqrt y, (forall v, psqrt v * psqrt v = v) ->
  spline_smooth__s psqrt (VV y) = VS (smoothing_s y None).
Proof.
  intros psqrt y Hs. unfold spline_smooth__s. vec_eval. rewrite Hs.
  unfold smoothing_s, varq, meanq. rewrite map_length. reflexivity.
Qed.

(** ---------------- C15: noise scale ---------------- *)

Theorem gen_noise_scale : forall psqrt p10 a snr,
  noise_gauss__sp (VV a) = VS (signal_power a) /\
  noise_gauss__std_n_lin psqrt (noise_gauss__sp (VV a)) (VS snr) = VS (psqrt (noise_var a snr)) /\
  noise_gauss__std_n_db psqrt p10 (noise_gauss__sp (VV a)) (VS snr) = VS (psqrt (noise_var a (p10 (snr / qz 10)))).
Proof.
  intros psqrt p10 a snr.
  assert (Hsp : noise_gauss__sp (VV a) = VS (signal_power a)).
  { unfold noise_gauss__sp. vec_eval. rewrite map2_diag.
    unfold signal_power, meanq. reflexivity. }
  rewrite Hsp. split; [reflexivity|]. split.
  - unfold noise_gauss__std_n_lin. vec_eval. reflexivity.
  - unfold noise_gauss__std_n_db. vec_eval. reflexivity.
Qed.

(** ---------------- C01 / C03: the stretch kernel ---------------- *)

Definition gen_stretch_value (pw : Qc -> Qc) (r : rule) (x y : list Qc) (t : Qc) : val :=
  let X := VV x in
  let Y := VV y in
  let integ := fun a b : val => VV (integ r (as_list a) (as_list b)) in
  let ci := stretch__current_integral integ X Y in
  let dp := stretch__delta_p (VS t) ci in
  let w := if (length x =? 2)%nat then stretch__w_two_points else stretch__w pw (stretch__x_n2 X) X (stretch__delta_x X) in
  let yh := match r with
            | Trapezoid => stretch__y_hat_trapezoid dp w (stretch__delta_xi X)
            | _ => stretch__y_hat_rectangle dp w (stretch__delta_xi X)
            end in
  stretch__res_y Y yh w.

(** the generated weight vector (both branches of the source's  if len(x) == 2) *)
Lemma gen_weights : forall pw x, x <> [] ->
  (if (length x =? 2)%nat then stretch__w_two_points
   else stretch__w pw (stretch__x_n2 (VV x)) (VV x) (stretch__delta_x (VV x))) = VV (weights pw x).
Proof.
  intros pw x Hx. pose proof (not_nil_length x Hx) as Hx1.
  unfold weights. destruct (length x =? 2)%nat.
  - unfold stretch__w_two_points. vec_eval. reflexivity.
  - unfold stretch__w, stretch__x_n2, stretch__delta_x.
    repeat vidx_end x 1%nat. repeat vidx_start x 0%nat. vec_eval.
    rewrite !map_map, <- (lastq_nthq x Hx), <- headq_nthq, div_qz2_half, qz2_two. reflexivity.
Qed.

Lemma weights_len : forall pw x, length (weights pw x) = length x.
Proof.
  intros pw x. unfold weights. destruct (length x =? 2)%nat eqn:E.
  - apply Nat.eqb_eq in E. rewrite E. reflexivity.
  - apply map_length.
Qed.

Theorem gen_stretch : forall pw r x y t, known_rule r -> x <> [] -> length x = length y ->
  gen_stretch_value pw r x y t = VV (stretch pw r x y t).
Proof.
  intros pw r x y t Hr Hx Hl. unfold gen_stretch_value. cbv zeta.
  rewrite (gen_weights pw x Hx).
  pose proof (weights_len pw x) as Hw.
  unfold stretch, y_hat, total. cbv zeta.
  unfold stretch__current_integral, stretch__delta_p, stretch__delta_xi, stretch__res_y.
  cbn [as_list].
  destruct Hr as [-> | ->].
  - unfold stretch__y_hat_trapezoid. vec_eval.
    rewrite (wsum_trap_zip x (weights pw x) Hw), map2_map_right, qz2_two. reflexivity.
  - unfold stretch__y_hat_rectangle. vec_eval.
    rewrite (wsum_rect_zip x (weights pw x) Hw), map2_map_right. reflexivity.
Qed.
