(** The scan leaf of _piecewise_constant_interpolate is the regenerated scan (Gen/ScanGlue.v). *)
From Coq Require Import Lia Bool.
From TW Require Import Model.GlueLeaves_Process2 Gen.Process2Glue.
From TW Require Import Proofs.ListLemmas Proofs.ListLemmas4 Proofs.ListLemmas7.
From TW Require Import Proofs.GlueFunLemmas Proofs.GlueProcess2Common Proofs.GlueProcess2PciProofs.
Open Scope Qc_scope.
Open Scope string_scope.

(** ======================= the scan leaf is the regenerated scan ======================= *)
(** The leaf `find_closest_lower_equal_element_indices_to_values(x, new_x)` of _piecewise_constant_interpolate means the
    model's [find_lower x new_x true].  That model function is what running the regenerated while-loop body of the callee
    (Gen/ScanGlue.v, Model/GlueWhile.v) answers, with the default fill_not_valid=True and any sufficient fuel
    (Proofs/GlueScanProofs.v): the two positional arguments are the callee's first two formals. *)
From TW Require Import Model.GlueWhile Gen.ScanGlue Proofs.GlueScanProofs.

Lemma scan_lower_formals :
  match assoc "find_closest_lower_equal_element_indices_to_values" scan_functions with
  | Some (formals, _) => map fst formals
  | None => []
  end = ["x"; "lookup"; "fill_not_valid"].
Proof. vm_compute. reflexivity. Qed.

Lemma find_lower_leaf_is_scan : forall normal x lk fuel, (scan_fuel x lk <= fuel)%nat ->
  p2_callf normal "find_closest_lower_equal_element_indices_to_values" [VArr x; VArr lk] [] =
  (let? r := wout_idx (wcall fuel scan_callf array_methf scan_functions "find_closest_lower_equal_element_indices_to_values"
                         [("x", VArr x); ("lookup", VArr lk)]) in Ok (VIdxArr r)).
Proof.
  intros normal x lk fuel Hf.
  rewrite (proj1 (glue_scan_defaults x lk fuel)), (glue_find_lower x lk true fuel Hf). reflexivity.
Qed.
Print Assumptions find_lower_leaf_is_scan.
