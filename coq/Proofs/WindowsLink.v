(** "generated = model" link lemmas for the window-size computations of rfa.py:
    the constructor statements regenerated from the Python source (Gen/Kernels.v:
    linfixed_init__*, expfixed_init__*, linadapt_init__*, expadapt_init__*, adaptive__*,
    over the vector DSL of Lib/Vec.v) compute exactly the hand-written window functions of
    Model/Rfa.v (window_a, half_window, lin_part, clip_trunc, adaptive_pair).
    The statements are those of the staging file staging/Windows.v. *)
From Coq Require Import Qreduction Qround.
From TW Require Import Model.Rfa Gen.Kernels Proofs.KernelsLink Proofs.ListLemmas8
  Proofs.RfaGeometryProofs.
Open Scope Qc_scope.

(** ---------- Qc_of_Z / Qc_trunc ---------- *)

Lemma this_Qc_of_Z : forall z, this (Qc_of_Z z) = inject_Z z.
Proof.
  intros z. unfold Qc_of_Z, Q2Qc. cbn [this].
  apply Qred_identity. unfold inject_Z. cbn [Qnum Qden].
  apply Z.gcd_1_r.
Qed.

Lemma Qc_trunc_of_Z : forall z, Qc_trunc (Qc_of_Z z) = z.
Proof.
  intros z. unfold Qc_trunc. rewrite this_Qc_of_Z. unfold inject_Z. cbn [Qnum Qden].
  apply Z.quot_1_r.
Qed.

Lemma Qc_ltb_of_Z : forall a b, Qc_ltb (Qc_of_Z a) (Qc_of_Z b) = (a <? b)%Z.
Proof.
  intros a b. destruct (Z.ltb_spec a b) as [H|H].
  - apply Qc_ltb_true. apply (proj1 (qz_lt a b)). exact H.
  - apply Qc_ltb_false. apply (proj1 (qz_le b a)). exact H.
Qed.

Lemma clamp_two_max : forall z, (if (z <? 2)%Z then 2%Z else z) = Z.max 2 z.
Proof. intros z. destruct (Z.ltb_spec z 2); lia. Qed.

Lemma qz2_neq0 : qz 2 <> 0.
Proof. rewrite qz2_two. exact Qc_two_neq0. Qed.

Lemma Qc_trunc_half : forall A, (0 <= A)%Z -> Qc_trunc (Qc_of_Z A / qz 2) = Z.quot A 2.
Proof.
  intros A HA.
  assert (Hnn : 0 <= Qc_of_Z A / qz 2).
  { pose proof (qz_nonneg A HA) as H. rewrite div_qz2_half.
    assert (Hh : 0 < Qc_half) by reflexivity.
    revert H Hh. generalize (Qc_of_Z A) Qc_half. intros u h H Hh. qcnra. }
  rewrite Qc_trunc_floor by exact Hnn.
  rewrite Z.quot_div_nonneg by lia.
  rewrite (Zdiv_Qdiv A 2).
  apply Qfloor_comp.
  rewrite this_div. unfold qz. rewrite !this_Qc_of_Z. reflexivity.
Qed.

(** ---------- C05: the constructors ---------- *)

(** `a = alpha * n` (or the explicit a), `int(a)`, `if a < 2: a = 2` -- as generated from
    LinearFixedRFA.__init__ (the same definition as in staging/Windows.v) *)
Definition gen_window_a (n : nat) (alpha : Qc) (a : option Qc) : Z :=
  let a0 := match a with Some v => VS v | None => linfixed_init__a_from_alpha (VS alpha) (VS (Qc_of_nat n)) end in
  let sa := linfixed_init__a a0 in
  let sa := if linfixed_init__clamp_test sa then linfixed_init__clamp_value else sa in
  Qc_trunc (as_scalar sa).

Lemma gen_window_a_scalar : forall v,
  Qc_trunc (as_scalar (if linfixed_init__clamp_test (linfixed_init__a (VS v))
                       then linfixed_init__clamp_value else linfixed_init__a (VS v)))
  = Z.max 2 (Qc_trunc v).
Proof.
  intros v.
  unfold linfixed_init__clamp_test, linfixed_init__a, linfixed_init__clamp_value, vtrunc.
  cbn [as_scalar]. unfold qz. rewrite Qc_ltb_of_Z.
  rewrite <- clamp_two_max.
  destruct (Qc_trunc v <? 2)%Z; cbn [as_scalar]; apply Qc_trunc_of_Z.
Qed.

Theorem gen_window_a_ok : forall n alpha a, gen_window_a n alpha a = window_a n alpha a.
Proof.
  intros n alpha a. unfold gen_window_a, window_a.
  destruct a as [v|]; cbv zeta.
  - apply gen_window_a_scalar.
  - unfold linfixed_init__a_from_alpha. vec_eval. apply gen_window_a_scalar.
Qed.

Theorem gen_half_window_ok : forall A, (0 <= A)%Z ->
  linfixed_init__a_l (VS (Qc_of_Z A)) = VS (Qc_of_Z (half_window A)) /\
  linfixed_init__a_r (VS (Qc_of_Z (half_window A))) = VS (Qc_of_Z (half_window A)).
Proof.
  intros A HA. split; [|reflexivity].
  unfold linfixed_init__a_l, half_window, vtrunc. vec_eval. cbn [as_scalar].
  rewrite Qc_trunc_half by exact HA. reflexivity.
Qed.

Theorem gen_lin_part_ok : forall beta al,
  expfixed_init__b (VS beta) (VS (Qc_of_Z al)) = VS (Qc_of_Z (lin_part beta al)).
Proof.
  intros beta al. unfold expfixed_init__b, lin_part, vtrunc. vec_eval. cbn [as_scalar].
  reflexivity.
Qed.

(** the four window strategies compute the window in the same way *)
Theorem gen_constructors_agree :
  (expfixed_init__a_from_alpha = linfixed_init__a_from_alpha /\ linadapt_init__a_from_alpha = linfixed_init__a_from_alpha /\
   expadapt_init__a_from_alpha = linfixed_init__a_from_alpha) /\
  (expfixed_init__a = linfixed_init__a /\ linadapt_init__a = linfixed_init__a /\ expadapt_init__a = linfixed_init__a) /\
  (expfixed_init__clamp_test = linfixed_init__clamp_test /\ linadapt_init__clamp_test = linfixed_init__clamp_test /\
   expadapt_init__clamp_test = linfixed_init__clamp_test) /\
  (expfixed_init__clamp_value = linfixed_init__clamp_value /\ linadapt_init__clamp_value = linfixed_init__clamp_value /\
   expadapt_init__clamp_value = linfixed_init__clamp_value) /\
  (expfixed_init__a_l = linfixed_init__a_l /\ expfixed_init__a_r = linfixed_init__a_r).
Proof. repeat split; reflexivity. Qed.

(** ---------- C06: the generic branch of get_adaptive_transition_points ---------- *)

Theorem gen_adaptive_split_ok : forall gpow a nom denom, nom <> 0 -> denom <> 0 ->
  let g := adaptive__gamma_smoothed gpow (adaptive__gamma (VS nom) (VS denom)) in
  let A := VS (Qc_of_Z a) in
  adaptive_pair gpow a nom denom =
  (Qc_trunc (as_scalar (adaptive__a_l_clipped (adaptive__a_l g A) A)),
   Qc_trunc (as_scalar (adaptive__a_r_clipped (adaptive__a_r A g) A))).
Proof.
  intros gpow a nom denom Hnom Hden. cbv zeta.
  unfold adaptive_pair.
  apply Qc_eqb_false in Hnom. apply Qc_eqb_false in Hden.
  rewrite Hnom, Hden. cbn [andb]. cbv zeta.
  unfold clip_trunc.
  unfold adaptive__a_l_clipped, adaptive__a_r_clipped, adaptive__a_l, adaptive__a_r,
    adaptive__gamma_smoothed, adaptive__gamma, vtrunc, vmin2, vmax2.
  vec_eval. cbn [as_scalar].
  rewrite !Qc_trunc_of_Z. reflexivity.
Qed.

Print Assumptions gen_window_a_ok.
Print Assumptions gen_half_window_ok.
Print Assumptions gen_lin_part_ok.
Print Assumptions gen_constructors_agree.
Print Assumptions gen_adaptive_split_ok.
