(** Core of the link between the window strategies of Model/Rfa.v and the closed
    forms of Model/RfaSpec.v: grid of the prepared arrays, specification of the
    per-interval writes, and the two general theorems (linear / exponential shapes,
    arbitrary window lists satisfying [adaptive_ok]). *)
From TW Require Import Model.RfaSpec Proofs.ListLemmas Proofs.ListLemmas2 Proofs.ListLemmas4 Proofs.HelpersProofs Proofs.RfaGridProofs Proofs.ListLemmas8.
Open Scope Qc_scope.

(** ---------- the shape functions on an affine grid ---------- *)

Lemma prod_neq0 : forall a b : Qc, a <> 0 -> b <> 0 -> a * b <> 0.
Proof. intros a b Ha Hb E. apply Qcmult_integral in E. tauto. Qed.

Ltac fld_side :=
  repeat split; try assumption;
  match goal with
  | Hd : ?d <> 0, Hl : ?l - ?j <> 0 |- _ <> _ =>
      let E := fresh in intro E; apply (prod_neq0 _ _ Hl Hd); rewrite <- E; ring
  end.

Lemma lin_fit_lin : forall c d q i j l y0 y1 : Qc, d <> 0 -> q <> 0 -> l - j <> 0 ->
  lin_fit (c + i * d / q) (c + j * d / q) y0 (c + l * d / q) y1 = y0 + (y1 - y0) * (i - j) / (l - j).
Proof. intros. unfold lin_fit. field. fld_side. Qed.

Lemma ratio_lin : forall c d q i j l : Qc, d <> 0 -> q <> 0 -> l - j <> 0 ->
  ((c + i * d / q) - (c + j * d / q)) / ((c + l * d / q) - (c + j * d / q)) = (i - j) / (l - j).
Proof. intros. field. fld_side. Qed.

Lemma ratio_lin' : forall c d q i j l : Qc, d <> 0 -> q <> 0 -> l - j <> 0 ->
  ((c + l * d / q) - (c + i * d / q)) / ((c + l * d / q) - (c + j * d / q)) = 1 - (i - j) / (l - j).
Proof. intros. field. fld_side. Qed.

Lemma exp_lin_fit_lin : forall pw (c d q i j l y0 y1 : Qc), d <> 0 -> q <> 0 -> l - j <> 0 ->
  exp_lin_fit pw (c + i * d / q) (c + j * d / q) y0 (c + l * d / q) y1
  = y0 + (y1 - y0) * g_exp_lin pw ((i - j) / (l - j)).
Proof.
  intros pw c d q i j l y0 y1 Hd Hq Hl. unfold exp_lin_fit, exp_fit, g_exp_lin.
  rewrite lin_fit_lin by assumption.
  rewrite (ratio_lin c d q i j l) by assumption.
  set (P := pw ((i - j) / (l - j))). clearbody P.
  field. fld_side.
Qed.

Lemma lin_exp_xy_fit_lin : forall pw (c d q i j l y0 y1 : Qc), d <> 0 -> q <> 0 -> l - j <> 0 ->
  lin_exp_xy_fit pw (c + i * d / q) (c + j * d / q) y0 (c + l * d / q) y1
  = y0 + (y1 - y0) * g_lin_exp_xy pw ((i - j) / (l - j)).
Proof.
  intros pw c d q i j l y0 y1 Hd Hq Hl. unfold lin_exp_xy_fit, exp_xy_fit, g_lin_exp_xy.
  rewrite lin_fit_lin by assumption.
  rewrite (ratio_lin' c d q i j l) by assumption.
  set (P := pw (1 - (i - j) / (l - j))). clearbody P.
  rewrite Qc_two_eq. field. fld_side.
Qed.

(** ---------- the assembled closed-form list ---------- *)

Lemma assemble_spec : forall (x : list Qc) n out final,
  (forall k i, (k + 1 < length x)%nat -> (i < n)%nat ->
     nthq (k * n + i) (assemble x n out final) = out (Z.of_nat k + 1)%Z (Z.of_nat i)) /\
  nthq ((length x - 1) * n) (assemble x n out final) = final /\
  length (assemble x n out final) = ((length x - 1) * n + 1)%nat.
Proof.
  intros x n out final. unfold assemble, RfaSpec.m.
  set (f := fun k : nat => map (fun i : nat => out (Z.of_nat k + 1)%Z (Z.of_nat i)) (seq 0 n)).
  assert (Hf : forall k, length (f k) = n) by (intros k; unfold f; now rewrite map_length, seq_length).
  assert (Hlen : length (flat_map f (seq 0 (length x - 1))) = ((length x - 1) * n)%nat)
    by (now apply flat_map_block_length).
  repeat split.
  - intros k i Hk Hi. rewrite nthq_app_l by (rewrite Hlen; nia).
    rewrite (flat_map_block_nth f n) by (try assumption; lia).
    unfold f. rewrite nthq_map_seq by exact Hi. reflexivity.
  - replace ((length x - 1) * n)%nat with ((length x - 1) * n + 0)%nat by lia.
    rewrite nthq_app_r_len by exact Hlen. reflexivity.
  - rewrite app_length, Hlen. reflexivity.
Qed.

(** ---------- flat positions ---------- *)

Lemma block_cases : forall nz k K i j, (0 < nz -> 0 <= i < nz -> 1 <= j <= nz ->
  j = K * nz + i - k * nz -> (k = K /\ j = i) \/ (k = K - 1 /\ j = nz /\ i = 0))%Z.
Proof.
  intros nz k K i j Hn Hi Hj E.
  assert (H : (j = (K - k) * nz + i)%Z) by lia.
  assert (Hd : (K - k = 0 \/ K - k = 1)%Z) by nia.
  destruct Hd as [Hd|Hd]; rewrite Hd in H; [left|right]; lia.
Qed.

Lemma block_same : forall nz k K i j, (0 < nz -> 0 <= i < nz -> 0 <= j < nz ->
  j = K * nz + i - k * nz -> k = K /\ j = i)%Z.
Proof.
  intros nz k K i j Hn Hi Hj E.
  assert (H : (j = (K - k) * nz + i)%Z) by lia.
  assert (Hd : (K - k = 0)%Z) by nia.
  rewrite Hd in H. lia.
Qed.

(** ---------- the prepared arrays ---------- *)

Section Core.
Variables (x y : list Qc) (n : nat).
Hypothesis Hn : (2 <= n)%nat.
Hypothesis Hm : (2 <= length x)%nat.
Hypothesis Hxy : length x = length y.

Notation e := (prepare x y n).
Notation M := (length x).

Lemma xs_spec : let xs := oversample_linspace x n in
  length xs = ((M - 1) * n + 1)%nat /\
  (forall k, (k < M)%nat -> nthq (k * n) xs = nthq k x) /\
  (forall k i, (k + 1 < M)%nat -> (i < n)%nat ->
     nthq (k * n + i) xs = nthq k x + Qc_of_nat i * (nthq (k + 1) x - nthq k x) / Qc_of_nat n).
Proof.
  apply oversample_linspace_spec; [exact Hn|]. apply length_pos_not_nil. lia.
Qed.

Lemma xe_spec : let xs := oversample_linspace x n in
  length (xe e) = ((M + 1) * n + 1)%nat /\
  (forall i, (i < length xs)%nat -> nthq (n + i) (xe e) = nthq i xs) /\
  (forall i, (i < n)%nat -> nthq i (xe e) =
     (Qc_two * nthq 0 x - nthq 1 x) + Qc_of_nat i * (nthq 0 x - (Qc_two * nthq 0 x - nthq 1 x)) / Qc_of_nat n) /\
  (forall i, (i < n)%nat -> nthq (M * n + 1 + i) (xe e) =
     nthq (M - 1) x + Qc_of_nat (i + 1) * ((Qc_two * nthq (M - 1) x - nthq (M - 2) x) - nthq (M - 1) x) / Qc_of_nat n).
Proof.
  intros xs. destruct xs_spec as (Hlen & Hk & Hki). fold xs in Hlen, Hk, Hki.
  assert (Hlong : (n + 1 <= length xs)%nat) by (apply oversample_linspace_long; assumption).
  destruct (extend_linspace_spec xs n Both None None Hlong) as (Hl & Hmid & Hleft & Hright).
  cbn [goes_left goes_right] in *.
  assert (Hne : xs <> []) by (apply length_pos_not_nil; lia).
  assert (Hhead : headq xs = nthq 0 x).
  { rewrite headq_nthq. rewrite <- (Hk 0%nat) by lia. reflexivity. }
  assert (Hn1 : nthq n xs = nthq 1 x).
  { rewrite <- (Hk 1%nat) by lia. f_equal. lia. }
  assert (Hlast : lastq xs = nthq (M - 1) x).
  { rewrite lastq_nthq by exact Hne. rewrite Hlen. rewrite <- (Hk (M - 1)%nat) by lia. f_equal. lia. }
  assert (Hpre : nthq (length xs - n - 1) xs = nthq (M - 2) x).
  { rewrite Hlen. rewrite <- (Hk (M - 2)%nat) by lia. f_equal. nia. }
  unfold prepare. cbn [xe]. fold xs.
  split; [rewrite Hl, Hlen; nia|]. split; [exact Hmid|]. split.
  - intros i Hi. rewrite (Hleft eq_refl i Hi). rewrite Hhead, Hn1. reflexivity.
  - intros i Hi. replace (M * n + 1 + i)%nat with (n + length xs + i)%nat by (rewrite Hlen; nia).
    rewrite (Hright eq_refl i Hi). rewrite Hlast, Hpre. reflexivity.
Qed.

Lemma len_ye : length (ye e) = ((M + 1) * n + 1)%nat.
Proof.
  assert (Hy' : y <> []) by (apply length_pos_not_nil; lia).
  destruct (oversample_pc_spec y n Hn Hy') as [Hlen _].
  assert (Hne : oversample_pc y n <> []) by (apply length_pos_not_nil; rewrite Hlen, Nat.add_1_r; apply Nat.lt_0_succ).
  destruct (extend_constant_spec (oversample_pc y n) n Both Hne) as [Hel _].
  cbn [goes_left goes_right] in Hel. unfold prepare. cbn [ye]. rewrite Hel, Hlen, <- Hxy. nia.
Qed.

Lemma ye_spec : forall K i : nat, (K <= M)%nat -> (i < n)%nat \/ (K = M /\ i <= n)%nat ->
  nthq (K * n + i) (ye e) = avg x y (Z.of_nat K).
Proof.
  intros K i HK Hi.
  assert (Hy' : y <> []) by (apply length_pos_not_nil; lia).
  destruct (oversample_pc_spec y n Hn Hy') as (Hlen & Hki & Hlast).
  set (ys := oversample_pc y n) in *.
  assert (Hne : ys <> []) by (apply length_pos_not_nil; rewrite Hlen, Nat.add_1_r; apply Nat.lt_0_succ).
  destruct (extend_constant_spec ys n Both Hne) as (Hel & Hmid & Hleft & Hright).
  cbn [goes_left goes_right] in *.
  assert (Hhead : headq ys = nthq 0 y).
  { rewrite headq_nthq. rewrite <- (Hki 0%nat 0%nat) by lia. reflexivity. }
  assert (Hl : lastq ys = nthq (M - 1) y).
  { rewrite lastq_nthq by exact Hne. rewrite Hlen. rewrite Nat.add_sub, Hlast.
    rewrite lastq_nthq by exact Hy'. now rewrite Hxy. }
  unfold prepare. cbn [ye]. fold ys. unfold avg, RfaSpec.m.
  destruct (Z.leb_spec (Z.of_nat K) 0) as [H0|H0].
  - assert (K = O) by lia. subst K. destruct Hi as [Hi|[Hi _]]; [|lia].
    cbn [Nat.mul Nat.add]. rewrite Hleft by exact Hi. exact Hhead.
  - destruct (Z.ltb_spec (Z.of_nat M - 1) (Z.of_nat K)) as [H1|H1].
    + assert (K = M) by lia. subst K.
      destruct (Nat.eq_dec i 0) as [->|Hi0].
      * replace (M * n + 0)%nat with (n + (M - 1) * n)%nat by nia.
        rewrite Hmid by lia. rewrite <- Hxy in Hlast. rewrite Hlast.
        rewrite lastq_nthq by exact Hy'. now rewrite Hxy.
      * replace (M * n + i)%nat with (n + length ys + (i - 1))%nat by (rewrite Hlen, <- Hxy; nia).
        rewrite Hright by lia. exact Hl.
    + destruct Hi as [Hi|[Hi _]]; [|lia].
      replace (K * n + i)%nat with (n + ((K - 1) * n + i))%nat by nia.
      rewrite Hmid by (rewrite Hlen, <- Hxy; nia).
      rewrite Hki by lia. f_equal. lia.
Qed.

Lemma xe_nth : forall K i : nat, (K <= M)%nat -> (i < n)%nat \/ (K = M /\ i <= n)%nat ->
  nthq (K * n + i) (xe e) = XK x n (Z.of_nat K) (Z.of_nat i).
Proof.
  intros K i HK Hi.
  destruct xs_spec as (Hlen & Hk & Hki). destruct xe_spec as (Hel & Hmid & Hleft & Hright).
  set (xs := oversample_linspace x n) in *.
  unfold XK, x0K, dK, qn, RfaSpec.m. rewrite qz_of_nat.
  destruct (Z.leb_spec (Z.of_nat K) 0) as [H0|H0].
  - assert (K = O) by lia. subst K. destruct Hi as [Hi|[Hi _]]; [|lia].
    cbn [Nat.mul Nat.add]. rewrite Hleft by exact Hi. rewrite Qc_two_eq. unfold Qcdiv. ring.
  - destruct (Z.ltb_spec (Z.of_nat M - 1) (Z.of_nat K)) as [H1|H1].
    + assert (K = M) by lia. subst K. rewrite Nat2Z.id.
      destruct (Nat.eq_dec i 0) as [->|Hi0].
      * replace (M * n + 0)%nat with (n + (M - 1) * n)%nat by nia.
        rewrite Hmid by lia. rewrite Hk by lia. rewrite Qc_of_nat_0. unfold Qcdiv. ring.
      * replace (M * n + i)%nat with (M * n + 1 + (i - 1))%nat by lia.
        rewrite Hright by lia. replace (i - 1 + 1)%nat with i by lia.
        rewrite Qc_two_eq. unfold Qcdiv. ring.
    + destruct Hi as [Hi|[Hi _]]; [|lia]. rewrite Nat2Z.id.
      replace (K * n + i)%nat with (n + ((K - 1) * n + i))%nat by nia.
      rewrite Hmid by (rewrite Hlen; nia).
      rewrite Hki by lia. replace (K - 1 + 1)%nat with K by lia. reflexivity.
Qed.

Hypothesis Hs : ssorted x.
Notation nz := (Z.of_nat n).
Notation Mz := (Z.of_nat M).

Lemma len_xe : length (xe e) = ((M + 1) * n + 1)%nat.
Proof. now destruct xe_spec as (H & _). Qed.

Lemma nfull_e : nfull e = (Mz + 1)%Z.
Proof.
  change (nfull e) with (Z.of_nat (length (xe e) / n)). rewrite len_xe.
  replace (((M + 1) * n + 1) / n)%nat with (M + 1)%nat; [lia|].
  apply (Nat.div_unique _ n (M + 1) 1); lia.
Qed.

Lemma intervals_e : intervals e = zrange 1 Mz.
Proof. unfold intervals. rewrite nfull_e. f_equal. lia. Qed.

Lemma qn_neq0 : qn n <> 0.
Proof. unfold qn. apply Qc_of_nat_neq0. lia. Qed.

Lemma dK_pos : forall K, 0 < dK x K.
Proof.
  intros K. unfold dK, RfaSpec.m.
  destruct (Z.leb_spec K 0).
  - pose proof (ssorted_nth_lt x 0 1 Hs) as H1. assert (nthq 0 x < nthq 1 x) by (apply H1; lia). qclra.
  - destruct (Z.ltb_spec (Mz - 1) K).
    + pose proof (ssorted_nth_lt x (M - 2) (M - 1) Hs) as H1.
      assert (nthq (M - 2) x < nthq (M - 1) x) by (apply H1; lia). qclra.
    + pose proof (ssorted_nth_lt x (Z.to_nat K - 1) (Z.to_nat K) Hs) as H1.
      assert (nthq (Z.to_nat K - 1) x < nthq (Z.to_nat K) x) by (apply H1; lia). qclra.
Qed.

Lemma dK_neq0 : forall K, dK x K <> 0.
Proof. intros K E. pose proof (dK_pos K) as H. rewrite E in H. exact (Qclt_not_eq _ _ H eq_refl). Qed.

Lemma x0K_next : forall K, (0 <= K < Mz)%Z -> x0K x K + dK x K = x0K x (K + 1).
Proof.
  intros K HK. unfold x0K, dK, RfaSpec.m.
  destruct (Z.leb_spec (K + 1) 0); [lia|].
  destruct (Z.leb_spec K 0).
  - assert (K = 0%Z) by lia. subst K. change (Z.to_nat (0 + 1) - 1)%nat with 0%nat. ring.
  - destruct (Z.ltb_spec (Mz - 1) K); [lia|].
    replace (Z.to_nat (K + 1) - 1)%nat with (Z.to_nat K) by lia. ring.
Qed.

Lemma flat_nat : forall K i, (0 <= K)%Z -> (0 <= i)%Z ->
  Z.to_nat (K * nz + i) = (Z.to_nat K * n + Z.to_nat i)%nat.
Proof. intros K i HK Hi. rewrite Z2Nat.inj_add, Z2Nat.inj_mul, Nat2Z.id by nia. reflexivity. Qed.

Lemma Xg0 : forall K i, (0 <= K <= Mz)%Z -> (0 <= i < nz)%Z \/ (K = Mz /\ 0 <= i <= nz)%Z ->
  X e K i = XK x n K i.
Proof.
  intros K i HK Hi. unfold X. change (en e) with nz.
  rewrite getz_in by (rewrite len_xe; nia).
  rewrite flat_nat by lia. rewrite xe_nth by lia. now rewrite !Z2Nat.id by lia.
Qed.

Lemma XK_end : forall K, (0 <= K < Mz)%Z -> XK x n K nz = XK x n (K + 1) 0.
Proof.
  intros K HK. unfold XK. rewrite <- x0K_next by exact HK. rewrite qz_0.
  change (Qc_of_Z nz) with (qn n). field. exact qn_neq0.
Qed.

Lemma Xg : forall K i, (0 <= K <= Mz)%Z -> (0 <= i <= nz)%Z -> X e K i = XK x n K i.
Proof.
  intros K i HK Hi.
  destruct (Z.eq_dec K Mz) as [E|E]; [apply Xg0; lia|].
  destruct (Z.eq_dec i nz) as [Ei|Ei]; [|apply Xg0; lia].
  subst i. rewrite XK_end by lia. rewrite <- Xg0 by lia.
  unfold X. f_equal. change (en e) with nz. ring.
Qed.

Lemma X_flat : forall K i K' i', (K * nz + i = K' * nz + i')%Z -> X e K i = X e K' i'.
Proof. intros K i K' i' H. unfold X. change (en e) with nz. now rewrite H. Qed.

Lemma Yg : forall K i, (0 <= K <= Mz)%Z -> (0 <= i < nz)%Z -> Y e K i = avg x y K.
Proof.
  intros K i HK Hi. unfold Y. change (en e) with nz.
  rewrite getz_in by (rewrite len_ye; nia).
  rewrite flat_nat by lia. rewrite ye_spec by lia. now rewrite Z2Nat.id by lia.
Qed.

(** fits between grid points of one extended interval *)
Lemma XK_lin_fit : forall K i j l y0 y1, (l <> j)%Z ->
  lin_fit (XK x n K i) (XK x n K j) y0 (XK x n K l) y1 = y0 + (y1 - y0) * Qc_of_Z (i - j) / Qc_of_Z (l - j).
Proof.
  intros K i j l y0 y1 H. unfold XK. rewrite !qz_sub.
  apply lin_fit_lin; [apply dK_neq0|apply qn_neq0|].
  rewrite <- qz_sub. apply qz_neq0. lia.
Qed.

Lemma XK_exp_lin_fit : forall pw K i j l y0 y1, (l <> j)%Z ->
  exp_lin_fit pw (XK x n K i) (XK x n K j) y0 (XK x n K l) y1
  = y0 + (y1 - y0) * g_exp_lin pw (Qc_of_Z (i - j) / Qc_of_Z (l - j)).
Proof.
  intros pw K i j l y0 y1 H. unfold XK. rewrite !qz_sub.
  apply exp_lin_fit_lin; [apply dK_neq0|apply qn_neq0|].
  rewrite <- qz_sub. apply qz_neq0. lia.
Qed.

Lemma XK_lin_exp_xy_fit : forall pw K i j l y0 y1, (l <> j)%Z ->
  lin_exp_xy_fit pw (XK x n K i) (XK x n K j) y0 (XK x n K l) y1
  = y0 + (y1 - y0) * g_lin_exp_xy pw (Qc_of_Z (i - j) / Qc_of_Z (l - j)).
Proof.
  intros pw K i j l y0 y1 H. unfold XK. rewrite !qz_sub.
  apply lin_exp_xy_fit_lin; [apply dK_neq0|apply qn_neq0|].
  rewrite <- qz_sub. apply qz_neq0. lia.
Qed.

Lemma x0K_prev : forall K, (1 <= K <= Mz)%Z -> x0K x K = x0K x (K - 1) + dK x (K - 1).
Proof.
  intros K HK. rewrite x0K_next by lia. f_equal. lia.
Qed.

Lemma getz_ye : forall K i, (0 <= K <= Mz)%Z -> (0 <= i < nz)%Z -> getz (ye e) (K * nz + i) = avg x y K.
Proof. intros K i HK Hi. now rewrite <- (Yg K i HK Hi). Qed.

Lemma cut_assemble : forall zf out fin, length zf = ((M + 1) * n + 1)%nat ->
  (forall K i, (1 <= K < Mz)%Z -> (0 <= i < nz)%Z -> getz zf (K * nz + i) = out K i) ->
  getz zf (Mz * nz + 0) = fin ->
  cut n zf = assemble x n out fin.
Proof.
  intros zf out fin Hlen Hpos Hfin.
  destruct (assemble_spec x n out fin) as (Hki & Hf & Hal).
  unfold cut. apply nthq_ext.
  - rewrite slice_len_in by lia. rewrite Hal, Hlen. nia.
  - intros i Hi. rewrite slice_len_in in Hi by lia. rewrite nthq_slice_in by lia.
    rewrite <- getz_nat by lia.
    destruct (Nat.eq_dec i ((M - 1) * n)) as [E|E].
    + subst i. rewrite Hf. replace (Z.of_nat (n + (M - 1) * n)) with (Mz * nz + 0)%Z by nia.
      exact Hfin.
    + destruct (block_index n (M - 1) i) as (b & j & Hb & Hj & ->); [lia|].
      rewrite Hki by lia.
      replace (Z.of_nat (n + (b * n + j))) with ((Z.of_nat b + 1) * nz + Z.of_nat j)%Z by nia.
      apply Hpos; lia.
Qed.

(** ---------- window lists ---------- *)

Section Windows.
Variables als ars : list Z.
Hypothesis Hok : adaptive_ok n M als ars.
Notation al K := (nthZ als K).
Notation ar K := (nthZ ars K).
Notation L := ((M + 1) * n + 1)%nat.

Lemma ok_K : forall K, (0 <= K <= Mz)%Z -> (0 <= al K)%Z /\ (0 <= ar K)%Z /\ (al K + ar K <= nz)%Z.
Proof. intros K HK. destruct Hok as (_ & _ & H). now apply H. Qed.

Lemma z0_border : forall K, (1 <= K <= Mz)%Z ->
  ad_z0 e als ars K = border x y n K (ar (K - 1)) (al K).
Proof.
  intros K HK. unfold ad_z0, border.
  destruct (ok_K K) as (Hal & Har1 & Hs1); [lia|]. destruct (ok_K (K - 1)) as (Hal2 & Har & Hs2); [lia|].
  destruct ((ar (K - 1) =? 0)%Z && (al K =? 0)%Z); [apply Yg; lia|].
  rewrite !Yg by lia.
  rewrite (X_flat K (- ar (K - 1)) (K - 1) (nz - ar (K - 1))) by ring.
  rewrite !Xg by lia. unfold lin_fit, XK.
  cbv zeta.
  assert (E1 : x0K x K + Qc_of_Z 0 * dK x K / qn n
               - (x0K x (K - 1) + Qc_of_Z (nz - ar (K - 1)) * dK x (K - 1) / qn n)
               = Qc_of_Z (ar (K - 1)) * dK x (K - 1) / qn n).
  { rewrite (x0K_prev K) by lia. rewrite qz_sub, qz_0. change (Qc_of_Z nz) with (qn n).
    field. exact qn_neq0. }
  assert (E2 : x0K x K + Qc_of_Z (al K) * dK x K / qn n
               - (x0K x (K - 1) + Qc_of_Z (nz - ar (K - 1)) * dK x (K - 1) / qn n)
               = Qc_of_Z (ar (K - 1)) * dK x (K - 1) / qn n + Qc_of_Z (al K) * dK x K / qn n).
  { rewrite (x0K_prev K) by lia. rewrite qz_sub. change (Qc_of_Z nz) with (qn n).
    field. exact qn_neq0. }
  rewrite E1, E2. reflexivity.
Qed.

Lemma z1_border : forall K, (0 <= K < Mz)%Z -> (ar K <> 0 \/ al (K + 1) <> 0)%Z ->
  ad_z1 e als ars K = border x y n (K + 1) (ar K) (al (K + 1)).
Proof.
  intros K HK Hnz.
  pose proof (z0_border (K + 1)) as H0. replace (K + 1 - 1)%Z with K in H0 by lia.
  rewrite <- H0 by lia. unfold ad_z1, ad_z0. replace (K + 1 - 1)%Z with K by lia.
  change (en e) with nz.
  assert (Hc : (ar K =? 0)%Z && (al (K + 1) =? 0)%Z = false).
  { destruct (Z.eqb_spec (ar K) 0); destruct (Z.eqb_spec (al (K + 1)) 0); try reflexivity. lia. }
  rewrite Hc. f_equal. apply X_flat. ring.
Qed.

Lemma border_r0 : forall K a, (1 <= K <= Mz)%Z -> (a <> 0)%Z -> border x y n K a 0 = avg x y K.
Proof.
  intros K a HK Ha. unfold border.
  destruct (Z.eqb_spec a 0); [lia|]. cbn [andb]. rewrite qz_0.
  field. repeat split; [exact qn_neq0|apply dK_neq0|now apply qz_neq0].
Qed.

Lemma left_val : forall K j z0, (1 <= K < Mz)%Z -> (0 <= j <= al K)%Z -> (al K <> 0)%Z ->
  lin_fit (X e K j) (X e K 0) z0 (X e K (al K)) (Y e K 0)
  = z0 + (avg x y K - z0) * Qc_of_Z j / Qc_of_Z (al K).
Proof.
  intros K j z0 HK Hj Hnz. destruct (ok_K K) as (Hal & Har & Hsum); [lia|].
  rewrite !Xg, Yg by lia. rewrite XK_lin_fit by lia.
  now rewrite !Z.sub_0_r.
Qed.

Lemma right_val : forall K j z1, (1 <= K < Mz)%Z -> (nz - ar K <= j <= nz)%Z -> (ar K <> 0)%Z ->
  lin_fit (X e K j) (X e K (nz - ar K)) (Y e K 0) (X e K nz) z1
  = avg x y K + (z1 - avg x y K) * Qc_of_Z (j - (nz - ar K)) / Qc_of_Z (ar K).
Proof.
  intros K j z1 HK Hj Hnz. destruct (ok_K K) as (Hal & Har & Hsum); [lia|].
  rewrite !Xg, Yg by lia. rewrite XK_lin_fit by lia.
  replace (nz - (nz - ar K))%Z with (ar K) by lia. reflexivity.
Qed.

(** ---------- linear shape ---------- *)

Notation outl := (out_linear_adaptive x y n als ars).

Lemma outl_left : forall K i, (0 <= i < al K)%Z ->
  outl K i = border x y n K (ar (K - 1)) (al K)
             + (avg x y K - border x y n K (ar (K - 1)) (al K)) * Qc_of_Z i / Qc_of_Z (al K).
Proof.
  intros K i Hi. unfold out_linear_adaptive, shape_linear.
  destruct (Z.ltb_spec i (al K)); [reflexivity|lia].
Qed.

Lemma outl_mid : forall K i, (al K <= i <= nz - ar K)%Z -> outl K i = avg x y K.
Proof.
  intros K i Hi. unfold out_linear_adaptive, shape_linear.
  destruct (Z.ltb_spec i (al K)); [lia|]. destruct (Z.leb_spec i (nz - ar K)); [reflexivity|lia].
Qed.

Lemma outl_right : forall K i, (0 <= K <= Mz)%Z -> (nz - ar K < i)%Z ->
  outl K i = avg x y K + (border x y n (K + 1) (ar K) (al (K + 1)) - avg x y K)
                         * Qc_of_Z (i - (nz - ar K)) / Qc_of_Z (ar K).
Proof.
  intros K i HK Hi. destruct (ok_K K) as (Hal & Har & Hsum); [lia|].
  unfold out_linear_adaptive, shape_linear.
  destruct (Z.ltb_spec i (al K)); [lia|]. destruct (Z.leb_spec i (nz - ar K)); [lia|reflexivity].
Qed.

Lemma outl_0 : forall K, (1 <= K <= Mz)%Z -> (ar (K - 1) <> 0)%Z ->
  outl K 0 = border x y n K (ar (K - 1)) (al K).
Proof.
  intros K HK Ha. destruct (ok_K K) as (Hal & Har & Hsum); [lia|].
  destruct (Z.eq_dec (al K) 0) as [E|E].
  - rewrite outl_mid by lia. rewrite E. symmetry. now apply border_r0.
  - rewrite outl_left by lia. rewrite qz_0. unfold Qcdiv. ring.
Qed.

Lemma la_spec : forall z k p, length z = L -> (0 <= k)%Z -> (0 <= ar k <= nz)%Z ->
  (0 <= p < Z.of_nat L)%Z ->
  getz (la_interval e als ars z k) p =
  let j := (p - k * nz)%Z in
  if (nz - ar k + 1 <=? j)%Z && (j <? nz + 1)%Z
  then lin_fit (X e k j) (X e k (nz - ar k)) (Y e k 0) (X e k nz) (ad_z1 e als ars k)
  else if (0 <=? j)%Z && (j <? al k)%Z
  then lin_fit (X e k j) (X e k 0) (ad_z0 e als ars k) (X e k (al k)) (Y e k 0)
  else getz z p.
Proof.
  intros z k p Hz Hk Har Hp. unfold la_interval. cbv zeta. change (en e) with nz.
  rewrite write_run_spec; [|change (en e) with nz; nia|rewrite write_run_length, Hz; exact Hp].
  rewrite write_run_spec; [|change (en e) with nz; nia|rewrite Hz; exact Hp].
  reflexivity.
Qed.

Lemma la_step_val : forall z k K i, length z = L -> (1 <= k < Mz)%Z -> (1 <= K < Mz)%Z -> (0 <= i < nz)%Z ->
  let v := getz (la_interval e als ars z k) (K * nz + i) in
  (v = outl K i \/ v = getz z (K * nz + i)) /\
  (k = K -> (i < al K \/ nz - ar K < i)%Z -> v = outl K i).
Proof.
  intros z k K i Hz Hk HK Hi.
  destruct (ok_K k) as (Hal & Har & Hsum); [lia|].
  cbv zeta. rewrite la_spec; [|exact Hz|lia|lia|nia]. cbv zeta.
  set (j := (K * nz + i - k * nz)%Z).
  destruct (Z.leb_spec (nz - ar k + 1) j) as [HR1|HR1];
    [destruct (Z.ltb_spec j (nz + 1)) as [HR2|HR2]|]; cbn [andb].
  - (* right run *)
    assert (Hcase : (k = K /\ j = i) \/ (k = K - 1 /\ j = nz /\ i = 0)%Z)
      by (apply (block_cases nz k K i j); [lia|lia|lia|reflexivity]).
    assert (Hv : lin_fit (X e k j) (X e k (nz - ar k)) (Y e k 0) (X e k nz) (ad_z1 e als ars k) = outl K i).
    { destruct Hcase as [[-> ->]|(-> & -> & ->)].
      - rewrite right_val by lia. rewrite outl_right by lia. rewrite z1_border by lia. reflexivity.
      - rewrite right_val by lia. rewrite z1_border by lia.
        replace (K - 1 + 1)%Z with K by lia. rewrite outl_0 by lia.
        replace (nz - (nz - ar (K - 1)))%Z with (ar (K - 1)) by lia.
        field. apply qz_neq0. lia. }
    split; [left; exact Hv|intros _ _; exact Hv].
  - (* beyond the right run *)
    destruct (Z.leb_spec 0 j); [destruct (Z.ltb_spec j (al k))|]; cbn [andb]; try lia.
    split; [right; reflexivity|]. intros -> _. subst j. lia.
  - destruct (Z.leb_spec 0 j) as [HL1|HL1]; [destruct (Z.ltb_spec j (al k)) as [HL2|HL2]|]; cbn [andb].
    + (* left run *)
      assert (Hcase : k = K /\ j = i) by (apply (block_same nz k K i j); [lia|lia|lia|reflexivity]). destruct Hcase as [-> ->].
      assert (Hv : lin_fit (X e K i) (X e K 0) (ad_z0 e als ars K) (X e K (al K)) (Y e K 0) = outl K i).
      { rewrite left_val by lia. rewrite outl_left by lia. rewrite z0_border by lia. reflexivity. }
      split; [left; exact Hv|intros _ _; exact Hv].
    + split; [right; reflexivity|]. intros -> H. subst j. lia.
    + split; [right; reflexivity|]. intros -> H. subst j. lia.
Qed.

Notation finl := (if (ar (Mz - 1) =? 0)%Z then avg x y Mz else border x y n Mz (ar (Mz - 1)) (al Mz)).

Lemma la_step_final : forall z k, length z = L -> (1 <= k < Mz)%Z ->
  let v := getz (la_interval e als ars z k) (Mz * nz + 0) in
  (v = finl \/ v = getz z (Mz * nz + 0)) /\
  (k = (Mz - 1)%Z -> (ar (Mz - 1) <> 0)%Z -> v = finl).
Proof.
  intros z k Hz Hk.
  destruct (ok_K k) as (Hal & Har & Hsum); [lia|].
  cbv zeta. rewrite la_spec; [|exact Hz|lia|lia|nia]. cbv zeta.
  set (j := (Mz * nz + 0 - k * nz)%Z).
  destruct (Z.leb_spec (nz - ar k + 1) j) as [HR1|HR1];
    [destruct (Z.ltb_spec j (nz + 1)) as [HR2|HR2]|]; cbn [andb].
  - assert (Hcase : ((k = Mz /\ j = 0) \/ (k = Mz - 1 /\ j = nz /\ 0 = 0))%Z)
      by (apply (block_cases nz k Mz 0 j); [lia|lia|lia|reflexivity]).
    destruct Hcase as [[-> _]|(-> & -> & _)]; [lia|].
    assert (Hv : lin_fit (X e (Mz - 1) nz) (X e (Mz - 1) (nz - ar (Mz - 1))) (Y e (Mz - 1) 0)
                   (X e (Mz - 1) nz) (ad_z1 e als ars (Mz - 1)) = finl).
    { rewrite right_val by lia. rewrite z1_border by lia.
      replace (Mz - 1 + 1)%Z with Mz by lia.
      destruct (Z.eqb_spec (ar (Mz - 1)) 0); [lia|].
      replace (nz - (nz - ar (Mz - 1)))%Z with (ar (Mz - 1)) by lia.
      field. apply qz_neq0. lia. }
    split; [left; exact Hv|intros _ _; exact Hv].
  - destruct (Z.leb_spec 0 j); [destruct (Z.ltb_spec j (al k))|]; cbn [andb]; try lia.
    split; [right; reflexivity|]. intros -> _. subst j. lia.
  - destruct (Z.leb_spec 0 j) as [HL1|HL1]; [destruct (Z.ltb_spec j (al k)) as [HL2|HL2]|]; cbn [andb].
    + assert (Hcase : k = Mz /\ j = 0%Z) by (apply (block_same nz k Mz 0 j); [lia|lia|lia|reflexivity]).
      lia.
    + split; [right; reflexivity|]. intros -> H. subst j. lia.
    + split; [right; reflexivity|]. intros -> H. subst j. lia.
Qed.

Notation zfl := (fold_left (la_interval e als ars) (intervals e) (ye e)).

Lemma linear_pos : forall K i, (1 <= K < Mz)%Z -> (0 <= i < nz)%Z -> getz zfl (K * nz + i) = outl K i.
Proof.
  intros K i HK Hi. destruct (ok_K K) as (Hal & Har & Hsum); [lia|].
  apply (fold_writes (la_interval e als ars) L).
  - intros k z Hin Hz. rewrite intervals_e in Hin. apply in_zrange in Hin.
    split; [rewrite la_interval_length; exact Hz|].
    exact (proj1 (la_step_val z k K i Hz Hin HK Hi)).
  - exact len_ye.
  - destruct (Z.lt_ge_cases i (al K)) as [H1|H1]; [|destruct (Z.lt_ge_cases (nz - ar K) i) as [H2|H2]].
    + right. exists K. split; [rewrite intervals_e; apply in_zrange; lia|].
      intros z Hz. apply (proj2 (la_step_val z K K i Hz HK HK Hi)); [reflexivity|now left].
    + right. exists K. split; [rewrite intervals_e; apply in_zrange; lia|].
      intros z Hz. apply (proj2 (la_step_val z K K i Hz HK HK Hi)); [reflexivity|now right].
    + left. rewrite getz_ye by lia. rewrite outl_mid by lia. reflexivity.
Qed.

Lemma linear_fin : getz zfl (Mz * nz + 0) = finl.
Proof.
  apply (fold_writes (la_interval e als ars) L).
  - intros k z Hin Hz. rewrite intervals_e in Hin. apply in_zrange in Hin.
    split; [rewrite la_interval_length; exact Hz|].
    exact (proj1 (la_step_final z k Hz Hin)).
  - exact len_ye.
  - destruct (Z.eqb_spec (ar (Mz - 1)) 0) as [E|E].
    + left. apply getz_ye; lia.
    + right. exists (Mz - 1)%Z. split; [rewrite intervals_e; apply in_zrange; lia|].
      intros z Hz.
      pose proof (proj2 (la_step_final z (Mz - 1) Hz ltac:(lia)) eq_refl E) as H.
      destruct (Z.eqb_spec (ar (Mz - 1)) 0); [lia|exact H].
Qed.

Theorem linear_general : cut n zfl = cf_linear_adaptive x y n als ars.
Proof.
  unfold cf_linear_adaptive. cbv zeta. unfold RfaSpec.m.
  apply cut_assemble.
  - rewrite fold_left_length_inv; [exact len_ye|]. intros z k. apply la_interval_length.
  - exact linear_pos.
  - exact linear_fin.
Qed.

(** ---------- exponential shape ---------- *)

Section Exp.
Variable pw : Qc -> Qc.
Variable beta : Qc.
Hypothesis Hb0 : 0 <= beta.
Hypothesis Hb1 : beta <= 1.
Notation bl K := (lin_part beta (al K)).
Notation br K := (lin_part beta (ar K)).

Lemma lin_part_range : forall a, (0 <= a)%Z -> (0 <= lin_part beta a <= a)%Z.
Proof.
  intros a Ha. unfold lin_part. pose proof (qz_nonneg a Ha) as Hq.
  split; [apply trunc_nonneg|apply trunc_le_Z]; set (q := Qc_of_Z a) in *; clearbody q; qcnra.
Qed.

Lemma ok_b : forall K, (0 <= K <= Mz)%Z ->
  (0 <= bl K <= al K)%Z /\ (0 <= br K <= ar K)%Z /\ (al K + ar K <= nz)%Z.
Proof.
  intros K HK. destruct (ok_K K HK) as (Hal & Har & Hsum).
  split; [now apply lin_part_range|]. split; [now apply lin_part_range|exact Hsum].
Qed.

Notation bz0 K := (border x y n K (ar (K - 1)) (al K)).
Notation bz1 K := (border x y n (K + 1) (ar K) (al (K + 1))).
Notation zlb K := (if (bl K =? 0)%Z then bz0 K
                   else bz0 K + (avg x y K - bz0 K) * Qc_of_Z (bl K) / Qc_of_Z (al K)).
Notation zrb K := (if (br K =? 0)%Z then bz1 K
                   else avg x y K + (bz1 K - avg x y K) * Qc_of_Z (ar K - br K) / Qc_of_Z (ar K)).
Notation oute := (out_exp_adaptive pw x y n beta als ars).

Definition m_z0bl (k : Z) : Qc :=
  if (bl k =? 0)%Z then ad_z0 e als ars k
  else lin_fit (X e k (0 + bl k)) (X e k 0) (ad_z0 e als ars k) (X e k (al k)) (Y e k 0).
Definition m_z0br (k : Z) : Qc :=
  if (br k =? 0)%Z then ad_z1 e als ars k
  else lin_fit (X e k (nz - br k)) (X e k (nz - ar k)) (Y e k 0) (X e (k + 1) 0) (ad_z1 e als ars k).

Lemma m_z0bl_eq : forall K, (1 <= K < Mz)%Z -> m_z0bl K = zlb K.
Proof.
  intros K HK. destruct (ok_b K) as (Hbl & Hbr & Hsum); [lia|].
  unfold m_z0bl. rewrite z0_border by lia.
  destruct (Z.eqb_spec (bl K) 0); [reflexivity|].
  rewrite left_val by lia. now rewrite Z.add_0_l.
Qed.

Lemma m_z0br_eq : forall K, (1 <= K < Mz)%Z -> (ar K <> 0)%Z -> m_z0br K = zrb K.
Proof.
  intros K HK Hnz. destruct (ok_b K) as (Hbl & Hbr & Hsum); [lia|].
  unfold m_z0br. rewrite z1_border by lia.
  destruct (Z.eqb_spec (br K) 0); [reflexivity|].
  rewrite (X_flat (K + 1) 0 K nz) by ring.
  rewrite right_val by lia.
  replace (nz - br K - (nz - ar K))%Z with (ar K - br K)%Z by lia. reflexivity.
Qed.

Lemma ea_spec : forall z k p, length z = L -> (0 <= k)%Z ->
  (0 <= bl k)%Z -> (ar k <= nz)%Z -> (br k <= nz)%Z -> (0 <= p < Z.of_nat L)%Z ->
  getz (ea_interval pw e beta als ars z k) p =
  let j := (p - k * nz)%Z in
  if (nz - br k <=? j)%Z && (j <? nz)%Z
  then lin_fit (X e k j) (X e k (nz - br k)) (m_z0br k) (X e k nz) (ad_z1 e als ars k)
  else if (nz - ar k <=? j)%Z && (j <? nz - br k)%Z
  then exp_lin_fit pw (X e k j) (X e k (nz - ar k)) (Y e k 0) (X e k (nz - br k)) (m_z0br k)
  else if (bl k <=? j)%Z && (j <? al k)%Z
  then lin_exp_xy_fit pw (X e k j) (X e k (bl k)) (m_z0bl k) (X e k (al k)) (Y e k 0)
  else if (0 <=? j)%Z && (j <? bl k)%Z
  then lin_fit (X e k j) (X e k 0) (ad_z0 e als ars k) (X e k (bl k)) (m_z0bl k)
  else getz z p.
Proof.
  intros z k p Hz Hk Hbl Har Hbr Hp. unfold ea_interval. cbv zeta. change (en e) with nz.
  rewrite write_run_spec; [|change (en e) with nz; nia|rewrite !write_run_length, Hz; exact Hp].
  rewrite write_run_spec; [|change (en e) with nz; nia|rewrite !write_run_length, Hz; exact Hp].
  rewrite write_run_spec; [|change (en e) with nz; nia|rewrite !write_run_length, Hz; exact Hp].
  rewrite write_run_spec; [|change (en e) with nz; nia|rewrite Hz; exact Hp].
  reflexivity.
Qed.

Lemma oute_1 : forall K i, (0 <= i < bl K)%Z ->
  oute K i = bz0 K + (zlb K - bz0 K) * Qc_of_Z i / Qc_of_Z (bl K).
Proof.
  intros K i Hi. unfold out_exp_adaptive, shape_exp. cbv zeta.
  destruct (Z.ltb_spec i (bl K)); [reflexivity|lia].
Qed.

Lemma oute_2 : forall K i, (bl K <= i < al K)%Z ->
  oute K i = zlb K + (avg x y K - zlb K) * g_lin_exp_xy pw (Qc_of_Z (i - bl K) / Qc_of_Z (al K - bl K)).
Proof.
  intros K i Hi. unfold out_exp_adaptive, shape_exp. cbv zeta.
  destruct (Z.ltb_spec i (bl K)); [lia|]. destruct (Z.ltb_spec i (al K)); [reflexivity|lia].
Qed.

Lemma oute_mid : forall K i, (0 <= K <= Mz)%Z -> (al K <= i < nz - ar K)%Z -> oute K i = avg x y K.
Proof.
  intros K i HK Hi. destruct (ok_b K HK) as (Hbl & Hbr & Hsum).
  unfold out_exp_adaptive, shape_exp. cbv zeta.
  destruct (Z.ltb_spec i (bl K)); [lia|]. destruct (Z.ltb_spec i (al K)); [lia|].
  destruct (Z.ltb_spec i (nz - ar K)); [reflexivity|lia].
Qed.

Lemma oute_3 : forall K i, (0 <= K <= Mz)%Z -> (nz - ar K <= i < nz - br K)%Z ->
  oute K i = avg x y K + (zrb K - avg x y K) * g_exp_lin pw (Qc_of_Z (i - (nz - ar K)) / Qc_of_Z (ar K - br K)).
Proof.
  intros K i HK Hi. destruct (ok_b K HK) as (Hbl & Hbr & Hsum).
  unfold out_exp_adaptive, shape_exp. cbv zeta.
  destruct (Z.ltb_spec i (bl K)); [lia|]. destruct (Z.ltb_spec i (al K)); [lia|].
  destruct (Z.ltb_spec i (nz - ar K)); [lia|].
  destruct (Z.ltb_spec i (nz - br K)); [reflexivity|lia].
Qed.

Lemma oute_4 : forall K i, (0 <= K <= Mz)%Z -> (nz - br K <= i)%Z ->
  oute K i = zrb K + (bz1 K - zrb K) * Qc_of_Z (i - (nz - br K)) / Qc_of_Z (br K).
Proof.
  intros K i HK Hi. destruct (ok_b K HK) as (Hbl & Hbr & Hsum).
  unfold out_exp_adaptive, shape_exp. cbv zeta.
  destruct (Z.ltb_spec i (bl K)); [lia|]. destruct (Z.ltb_spec i (al K)); [lia|].
  destruct (Z.ltb_spec i (nz - ar K)); [lia|].
  destruct (Z.ltb_spec i (nz - br K)); [lia|reflexivity].
Qed.

Lemma ea_step_val : forall z k K i, length z = L -> (1 <= k < Mz)%Z -> (1 <= K < Mz)%Z -> (0 <= i < nz)%Z ->
  let v := getz (ea_interval pw e beta als ars z k) (K * nz + i) in
  (v = oute K i \/ v = getz z (K * nz + i)) /\
  (k = K -> (i < al K \/ nz - ar K <= i)%Z -> v = oute K i).
Proof.
  intros z k K i Hz Hk HK Hi.
  destruct (ok_b k) as (Hbl & Hbr & Hsum); [lia|].
  cbv zeta. rewrite ea_spec; [|exact Hz|lia|lia|lia|lia|nia]. cbv zeta.
  set (j := (K * nz + i - k * nz)%Z).
  assert (Hsame : (0 <= j < nz)%Z -> k = K /\ j = i)
    by (intros Hj; apply (block_same nz k K i j); [lia|lia|lia|reflexivity]).
  destruct (Z.leb_spec (nz - br k) j) as [H41|H41];
    [destruct (Z.ltb_spec j nz) as [H42|H42]|]; cbn [andb].
  - (* linear part on the right *)
    destruct Hsame as [-> ->]; [lia|].
    assert (Hv : lin_fit (X e K i) (X e K (nz - br K)) (m_z0br K) (X e K nz) (ad_z1 e als ars K) = oute K i).
    { rewrite m_z0br_eq by lia. rewrite z1_border by lia. rewrite oute_4 by lia.
      rewrite !Xg by lia. rewrite XK_lin_fit by lia.
      replace (nz - (nz - br K))%Z with (br K) by lia. reflexivity. }
    split; [left; exact Hv|intros _ _; exact Hv].
  - (* at or beyond the end of the interval *)
    assert (Hf : (nz - ar k <=? j)%Z && (j <? nz - br k)%Z = false).
    { destruct (Z.leb_spec (nz - ar k) j); destruct (Z.ltb_spec j (nz - br k)); try reflexivity. lia. }
    rewrite Hf.
    assert (Hf2 : (bl k <=? j)%Z && (j <? al k)%Z = false).
    { destruct (Z.leb_spec (bl k) j); destruct (Z.ltb_spec j (al k)); try reflexivity. lia. }
    rewrite Hf2.
    assert (Hf3 : (0 <=? j)%Z && (j <? bl k)%Z = false).
    { destruct (Z.leb_spec 0 j); destruct (Z.ltb_spec j (bl k)); try reflexivity. lia. }
    rewrite Hf3.
    split; [right; reflexivity|]. intros -> _. subst j. lia.
  - destruct (Z.leb_spec (nz - ar k) j) as [H31|H31]; cbn [andb].
    + (* exponential part on the right *)
      destruct (Z.ltb_spec j (nz - br k)) as [_|H32]; [|lia].
      destruct Hsame as [-> ->]; [lia|].
      assert (Hv : exp_lin_fit pw (X e K i) (X e K (nz - ar K)) (Y e K 0) (X e K (nz - br K)) (m_z0br K) = oute K i).
      { rewrite m_z0br_eq by lia. rewrite oute_3 by lia.
        rewrite !Xg, Yg by lia. rewrite XK_exp_lin_fit by lia.
        replace (nz - br K - (nz - ar K))%Z with (ar K - br K)%Z by lia. reflexivity. }
      split; [left; exact Hv|intros _ _; exact Hv].
    + destruct (Z.leb_spec (bl k) j) as [H21|H21];
        [destruct (Z.ltb_spec j (al k)) as [H22|H22]|]; cbn [andb].
      * (* exponential part on the left *)
        destruct Hsame as [-> ->]; [lia|].
        assert (Hv : lin_exp_xy_fit pw (X e K i) (X e K (bl K)) (m_z0bl K) (X e K (al K)) (Y e K 0) = oute K i).
        { rewrite m_z0bl_eq by lia. rewrite oute_2 by lia.
          rewrite !Xg, Yg by lia. rewrite XK_lin_exp_xy_fit by lia. reflexivity. }
        split; [left; exact Hv|intros _ _; exact Hv].
      * (* plateau *)
        assert (Hf3 : (0 <=? j)%Z && (j <? bl k)%Z = false).
        { destruct (Z.leb_spec 0 j); destruct (Z.ltb_spec j (bl k)); try reflexivity. lia. }
        rewrite Hf3.
        split; [right; reflexivity|]. intros -> H. subst j. lia.
      * destruct (Z.leb_spec 0 j) as [H11|H11]; cbn [andb].
        -- (* linear part on the left *)
           destruct (Z.ltb_spec j (bl k)) as [_|H12]; [|lia].
           destruct Hsame as [-> ->]; [lia|].
           assert (Hv : lin_fit (X e K i) (X e K 0) (ad_z0 e als ars K) (X e K (bl K)) (m_z0bl K) = oute K i).
           { rewrite m_z0bl_eq by lia. rewrite z0_border by lia. rewrite oute_1 by lia.
             rewrite !Xg by lia. rewrite XK_lin_fit by lia. now rewrite !Z.sub_0_r. }
           split; [left; exact Hv|intros _ _; exact Hv].
        -- split; [right; reflexivity|]. intros -> H. subst j. lia.
Qed.

Lemma ea_step_final : forall z k, length z = L -> (1 <= k < Mz)%Z ->
  getz (ea_interval pw e beta als ars z k) (Mz * nz + 0) = getz z (Mz * nz + 0).
Proof.
  intros z k Hz Hk.
  destruct (ok_b k) as (Hbl & Hbr & Hsum); [lia|].
  rewrite ea_spec; [|exact Hz|lia|lia|lia|lia|nia]. cbv zeta.
  set (j := (Mz * nz + 0 - k * nz)%Z).
  assert (Hj : (nz <= j)%Z) by (subst j; nia).
  destruct (Z.leb_spec (nz - br k) j); destruct (Z.ltb_spec j nz); cbn [andb]; try lia;
  destruct (Z.leb_spec (nz - ar k) j); destruct (Z.ltb_spec j (nz - br k)); cbn [andb]; try lia;
  destruct (Z.leb_spec (bl k) j); destruct (Z.ltb_spec j (al k)); cbn [andb]; try lia;
  destruct (Z.leb_spec 0 j); destruct (Z.ltb_spec j (bl k)); cbn [andb]; try lia; reflexivity.
Qed.

Notation zfe := (fold_left (ea_interval pw e beta als ars) (intervals e) (ye e)).

Lemma exp_pos : forall K i, (1 <= K < Mz)%Z -> (0 <= i < nz)%Z -> getz zfe (K * nz + i) = oute K i.
Proof.
  intros K i HK Hi. destruct (ok_K K) as (Hal & Har & Hsum); [lia|].
  apply (fold_writes (ea_interval pw e beta als ars) L).
  - intros k z Hin Hz. rewrite intervals_e in Hin. apply in_zrange in Hin.
    split; [rewrite ea_interval_length; exact Hz|].
    exact (proj1 (ea_step_val z k K i Hz Hin HK Hi)).
  - exact len_ye.
  - destruct (Z.lt_ge_cases i (al K)) as [H1|H1]; [|destruct (Z.le_gt_cases (nz - ar K) i) as [H2|H2]].
    + right. exists K. split; [rewrite intervals_e; apply in_zrange; lia|].
      intros z Hz. apply (proj2 (ea_step_val z K K i Hz HK HK Hi)); [reflexivity|now left].
    + right. exists K. split; [rewrite intervals_e; apply in_zrange; lia|].
      intros z Hz. apply (proj2 (ea_step_val z K K i Hz HK HK Hi)); [reflexivity|now right].
    + left. rewrite getz_ye by lia. rewrite oute_mid by lia. reflexivity.
Qed.

Lemma exp_fin : getz zfe (Mz * nz + 0) = avg x y Mz.
Proof.
  apply (fold_writes (ea_interval pw e beta als ars) L).
  - intros k z Hin Hz. rewrite intervals_e in Hin. apply in_zrange in Hin.
    split; [rewrite ea_interval_length; exact Hz|].
    right. now apply ea_step_final.
  - exact len_ye.
  - left. apply getz_ye; lia.
Qed.

Theorem exp_general : cut n zfe = cf_exp_adaptive pw x y n beta als ars.
Proof.
  unfold cf_exp_adaptive. unfold RfaSpec.m.
  apply cut_assemble.
  - rewrite fold_left_length_inv; [exact len_ye|]. intros z k. apply ea_interval_length.
  - exact exp_pos.
  - exact exp_fin.
Qed.

End Exp.
End Windows.
End Core.
