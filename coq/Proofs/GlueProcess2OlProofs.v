(** Process2 glue proofs, one source function per file: oversample_linspace (sorted_array_utils.py).  See Proofs/GlueProcess2Common.v. *)
From Coq Require Import Lia Bool.
From TW Require Import Model.GlueLeaves_Process2 Gen.Process2Glue.
From TW Require Import Proofs.ListLemmas Proofs.ListLemmas4 Proofs.ListLemmas7.
From TW Require Import Proofs.GlueFunLemmas Proofs.GlueProcess2Common.
Open Scope Qc_scope.
Open Scope string_scope.

(** ======================= C17: oversample_linspace ======================= *)
(** ---- list facts: rows / columns of the 2-D linspace ---- *)
Lemma removelast_map : forall {A B} (f : A -> B) l, removelast (map f l) = map f (removelast l).
Proof.
  intros A B f. induction l as [|a l IH]; [reflexivity|]. destruct l as [|b l]; [reflexivity|].
  change (removelast (a :: b :: l)) with (a :: removelast (b :: l)).
  change (map f (a :: b :: l)) with (f a :: map f (b :: l)).
  change (map f (a :: removelast (b :: l))) with (f a :: map f (removelast (b :: l))). rewrite <- IH. reflexivity.
Qed.
Lemma removelast_map_seq : forall {B} (f : nat -> B) k, removelast (map f (seq 0 (S k))) = map f (seq 0 k).
Proof. intros B f k. rewrite seq_S, map_app. cbn [map]. apply removelast_last. Qed.
Lemma nth_map2 : forall {A B C} (f : A -> B -> C) l1 l2 j dA dB dC, (j < length l1)%nat -> (j < length l2)%nat ->
  nth j (map2 f l1 l2) dC = f (nth j l1 dA) (nth j l2 dB).
Proof.
  intros A B C f. induction l1 as [|a l1 IH]; intros [|b l2] j dA dB dC H1 H2; cbn [length] in *; try lia.
  destruct j as [|j]; [reflexivity|]. cbn [map2 nth]. apply IH; lia.
Qed.
Lemma map2_length_min : forall {A B C} (f : A -> B -> C) l1 l2, length (map2 f l1 l2) = Nat.min (length l1) (length l2).
Proof.
  intros A B C f. induction l1 as [|a l1 IH]; intros [|b l2]; cbn [map2 length]; try reflexivity. now rewrite IH.
Qed.
Lemma map2_as_map_seq : forall {C} (f : Qc -> Qc -> C) l1 l2,
  map2 f l1 l2 = map (fun j => f (nthq j l1) (nthq j l2)) (seq 0 (Nat.min (length l1) (length l2))).
Proof.
  intros C f. induction l1 as [|a l1 IH]; intros [|b l2]; cbn [map2 length Nat.min seq map]; try reflexivity.
  rewrite <- seq_shift, map_map. f_equal. apply IH.
Qed.
Lemma map_map2 : forall {A B C D} (g : C -> D) (f : A -> B -> C) l1 l2, map g (map2 f l1 l2) = map2 (fun u v => g (f u v)) l1 l2.
Proof.
  intros A B C D g f. induction l1 as [|a l1 IH]; intros [|b l2]; cbn [map2 map]; try reflexivity. now rewrite IH.
Qed.

(** the transpose of the rows i |-> [F i u v | (u, v) in zip(a, b)] is, column by column, i |-> F i u v *)
Lemma transpose_rows : forall (F : nat -> Qc -> Qc -> Qc) a b k, (1 <= k)%nat ->
  transpose (map (fun i => map2 (fun u v => Some (F i u v)) a b) (seq 0 k))
  = map (map Some) (map2 (fun u v => map (fun i => F i u v) (seq 0 k)) a b).
Proof.
  intros F a b k Hk. destruct k as [|k]; [lia|].
  set (R := fun i : nat => map2 (fun u v => Some (F i u v)) a b).
  change (transpose (map R (seq 0 (S k))))
    with (map (fun j => map (fun r => nth j r None) (map R (seq 0 (S k)))) (seq 0 (length (R 0%nat)))).
  unfold R at 2. rewrite map2_length_min, map_map2, (map2_as_map_seq (fun u v => map Some (map (fun i => F i u v) (seq 0 (S k))))).
  apply map_ext_in. intros j Hj. apply in_seq in Hj.
  rewrite !map_map. apply map_ext. intros i. unfold R.
  apply (nth_map2 (fun u v => Some (F i u v)) a b j 0 0 None); lia.
Qed.

Lemma all_some_map_Some : forall l, all_some (map Some l) = Some l.
Proof. induction l as [|a l IH]; [reflexivity|]. cbn [map all_some]. now rewrite IH. Qed.

(** one column of np.linspace(u, v, k + 1)[:-1] is the model's lin_pts *)
Lemma linspace_init_pts : forall u v k, (1 <= k)%nat ->
  map (fun i => nthq i (linspace u v (S k))) (seq 0 k) = lin_pts u v k.
Proof.
  intros u v k Hk. destruct k as [|k]; [lia|]. unfold lin_pts, linspace.
  apply map_ext_in. intros i Hi. apply in_seq in Hi.
  rewrite (nthq_map_seq (fun i0 => u + Qc_of_nat i0 * (v - u) / Qc_of_nat (S k)) 0 (S (S k)) i) by lia. reflexivity.
Qed.

(** the model, segment by segment *)
Lemma oversample_go_segments : forall a k, a <> [] ->
  oversample_linspace_go a k = (concat (map2 (fun u v => lin_pts u v k) (removelast a) (tl a)) ++ [lastq a])%list.
Proof.
  intros a k. induction a as [|x a IH]; intros Ha; [congruence|].
  destruct a as [|y r]; [reflexivity|].
  change (removelast (x :: y :: r)) with (x :: removelast (y :: r)).
  cbn [tl map2 concat oversample_linspace_go]. rewrite <- app_assoc. f_equal.
  rewrite (lastq_cons x (y :: r)) by discriminate. apply IH. discriminate.
Qed.

Section OversampleLinspace.
Variable pw : Qc -> Qc -> Qc.
Variable normal : Qc -> noise_scale -> nat -> list Qc.

Definition ol_run (a : list Qc) (num : Z) : res (list Qc) :=
  outcome_arr (call_fun (p2_callf normal) p2_methf no_apply (p2_powf pw) utils2_functions "oversample_linspace"
     [("a", VArr a); ("num", VInt num)]).

(** the code accepts every factor below 2 (the array comes back as it is) and, from 2 on, every non-empty array *)
Definition ol_guard (a : list Qc) (num : nat) : bool := (num <? 2)%nat || negb (match a with [] => true | _ => false end).

Ltac ol_leaf :=
  match goal with
  | |- context [slice_val (VArr ?l) VNoneV (VInt (-1)) VNoneV] => rewrite (slice_val_init l)
  | |- context [slice_val (VArr ?l) (VInt 1) VNoneV VNoneV] => rewrite (slice_val_tail l)
  | |- context [length (removelast ?l)] => rewrite (removelast_length l)
  | |- context [length (tl ?l)] => rewrite (tl_length l)
  | |- context [(?n =? ?n)%nat] => rewrite (Nat.eqb_refl n)
  | |- context [rows_of (map row_val ?r)] => rewrite (rows_of_rows r)
  | |- context [GlueFun.py_slice_step1 ?l 0 (-1)] => rewrite (slice1_init l)
  | |- context [removelast (map ?f ?l)] => rewrite (removelast_map f l)
  | |- context [py_index ?l (-1)%Z] => rewrite (py_index_last l) by assumption
  end.

Lemma glue_oversample_linspace : forall a num, ol_guard a num = true ->
  ol_run a (Z.of_nat num) = Ok (oversample_linspace a num).
Proof.
  intros a num Hg. unfold ol_run, oversample_linspace, ol_guard in *. p2_call utils2_functions.
  destruct (Nat.ltb_spec num 2) as [Hlt|Hge].
  - assert (Hz : (Z.of_nat num <? 2)%Z = true) by (apply Z.ltb_lt; lia).
    p2_run. reflexivity.
  - cbn [orb] in Hg. assert (Ha : a <> []) by (destruct a; [discriminate Hg|discriminate]).
    assert (Hz : (Z.of_nat num <? 2)%Z = false) by (apply Z.ltb_ge; lia).
    assert (Hk : (Z.of_nat num + 1 <? 0)%Z = false) by (apply Z.ltb_ge; lia).
    repeat (p2_cbn; first [ol_leaf | p2_step]); p2_cbn.
    replace (Z.to_nat (Z.of_nat num + 1)) with (S num) by lia.
    unfold linspace2d. rewrite removelast_map_seq.
    rewrite (transpose_rows (fun i u v => nthq i (linspace u v (S num)))) by lia.
    rewrite <- concat_map, all_some_map_Some.
    repeat (p2_cbn; first [ol_leaf | p2_step]); p2_cbn.
    rewrite oversample_go_segments by exact Ha. do 3 f_equal.
    clear -Hge. generalize (removelast a) (tl a). intros l1. induction l1 as [|u l1 IH]; intros [|v l2]; cbn [map2]; try reflexivity.
    rewrite IH. f_equal. apply linspace_init_pts. lia.
Qed.
End OversampleLinspace.



(** oversample_linspace: the docstring's example; below the factor 2 the array comes back; outside the guard (an empty
    array, factor >= 2) the code raises IndexError at a[-1] where the model answers the empty list (the docstring's "if n is
    lower than 2, the original array is returned" holds for n = 1 only) *)
Example oversample_linspace_example :
  res_arr_eqb (ol_run pw_ex normal_ex (qzs [1; 2; 3]%Z) 4)
              [qz 1; Q2Qc (5 # 4); Q2Qc (3 # 2); Q2Qc (7 # 4); qz 2; Q2Qc (9 # 4); Q2Qc (5 # 2); Q2Qc (11 # 4); qz 3] = true /\
  res_arr_eqb (ol_run pw_ex normal_ex (qzs [1; 2; 3]%Z) 1) (qzs [1; 2; 3]%Z) = true /\
  res_arr_eqb (ol_run pw_ex normal_ex (qzs [7]%Z) 4) (qzs [7]%Z) = true /\
  ol_guard (qzs [1; 2; 3]%Z) 4 = true /\ ol_guard [] 1 = true.
Proof. repeat split; vm_compute; reflexivity. Qed.
Example oversample_linspace_outside_guard :
  res_is_raise (ol_run pw_ex normal_ex [] 4) IndexError = true /\ oversample_linspace [] 4 = [] /\ ol_guard [] 4 = false.
Proof. repeat split; vm_compute; reflexivity. Qed.

Print Assumptions glue_oversample_linspace.
