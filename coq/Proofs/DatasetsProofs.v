(** Proofs for C18 over the GENERATED registry / description tables / bundled
    files: the domain is finite, so each statement is a boolean check evaluated
    by vm_compute and lifted with forallb_forall; the bound (the generated
    lists) is part of the statement. *)
From Coq Require Import String List Bool.
From TW Require Import Lib.Base Model.Datasets Gen.Bundled.
Import ListNotations.
Open Scope string_scope.

Definition resolves_in_family (t : string * string * string) : bool :=
  let '(fam, name, _) := t in
  match resolve name, resolve (underscore name), resolve (hyphenate name) with
  | Ok l1, Ok l2, Ok l3 =>
      String.eqb (family_of l1) fam && String.eqb (family_of l2) fam && String.eqb (family_of l3) fam
  | _, _, _ => false
  end.

Lemma all_documented_names_resolve_b : forallb resolves_in_family doc_names = true.
Proof. vm_compute. reflexivity. Qed.

Lemma all_documented_names_resolve : forall fam name file, In (fam, name, file) doc_names ->
  exists l1 l2 l3, resolve name = Ok l1 /\ resolve (underscore name) = Ok l2 /\ resolve (hyphenate name) = Ok l3 /\
                family_of l1 = fam /\ family_of l2 = fam /\ family_of l3 = fam.
Proof.
  intros fam name file Hin.
  pose proof (proj1 (forallb_forall _ _) all_documented_names_resolve_b _ Hin) as H.
  unfold resolves_in_family in H.
  destruct (resolve name) as [l1|]; [|discriminate].
  destruct (resolve (underscore name)) as [l2|]; [|discriminate].
  destruct (resolve (hyphenate name)) as [l3|]; [|discriminate].
  apply andb_prop in H. destruct H as [H12 H3]. apply andb_prop in H12. destruct H12 as [H1 H2].
  exists l1, l2, l3. repeat split; auto; now apply String.eqb_eq.
Qed.


(** the loader reached through a name belongs to the dataset's family directory and validates the
    checksum; bundled: its own CSV.  (Cache-file and remote-file *names* follow no uniform convention in the
    registry - e.g. "..._yearly-input" is cached as "..._yearly_input", one entry carries ".csv" - so only
    their pairwise distinctness is claimed, in remote_distinct.) *)
Definition own_identity (t : string * string * string) : bool :=
  let '(fam, name, _) := t in
  match resolve name with
  | Ok (Remote fname _ _ dsfile folder v) => String.eqb folder fam && v
  | Ok (Bundled folder file) => String.eqb ("sandvine_" ++ file) (name ++ ".csv")
  | _ => false
  end.
Lemma each_dataset_own_identity_b : forallb own_identity doc_names = true.
Proof. vm_compute. reflexivity. Qed.
Lemma each_dataset_own_identity : forall t, In t doc_names -> own_identity t = true.
Proof. apply forallb_forall. exact each_dataset_own_identity_b. Qed.

Lemma doc_counts : length doc_names = 95%nat /\ length remotes = 76%nat /\
  length (filter (fun t => String.eqb (fst (fst t)) "sandvine") doc_names) = 19%nat.
Proof. vm_compute. repeat split. Qed.

Lemma nodupb_NoDup : forall l, nodupb l = true -> NoDup l.
Proof.
  induction l as [|a l IH]; intros H; [constructor|].
  cbn [nodupb] in H. apply andb_prop in H. destruct H as [H1 H2].
  constructor; [|auto].
  intro Hin. apply negb_true_iff in H1.
  assert (existsb (String.eqb a) l = true) as E.
  { apply existsb_exists. exists a. split; [exact Hin|apply String.eqb_refl]. }
  congruence.
Qed.

Lemma remote_distinct :
  NoDup (map r_url remotes) /\ NoDup (map r_checksum remotes) /\
  NoDup (map r_filename remotes) /\ NoDup (map r_slot remotes).
Proof. repeat split; apply nodupb_NoDup; vm_compute; reflexivity. Qed.

Lemma all_remote_validate : forallb r_validate remotes = true.
Proof. vm_compute. reflexivity. Qed.

(** every documented dataset is served by a different loader (no two names share a remote) *)
Lemma documented_loaders_distinct :
  nodupb (map (fun t => match resolve (snd (fst t)) with
                        | Ok (Remote _ u _ _ _ _) => u
                        | Ok (Bundled f g) => f ++ "/" ++ g
                        | _ => "" end) doc_names) = true.
Proof. vm_compute. reflexivity. Qed.

(** bundled loaders: the CSV is among the generated files, has >= 2 rows, equal
    columns (two columns per row is enforced by the translator) and a strictly
    increasing first column *)
Definition bundled_ok (p : string * loader) : bool :=
  match snd p with
  | Bundled folder file =>
      existsb (fun b => let '(f, g, xs, ys) := b in
                        String.eqb f folder && String.eqb g file &&
                        Nat.eqb (length xs) (length ys) && Nat.leb 2 (length xs) && ssortedb xs) bundled_files
  | _ => true
  end.
Lemma bundled_files_wellformed : forallb bundled_ok loaders = true.
Proof. vm_compute. reflexivity. Qed.

Lemma unknown_rejected : forall ds, assoc (fun_name ds) exports = None -> resolve ds = Raise ValueError.
Proof. intros ds H. unfold resolve. now rewrite H. Qed.

Lemma unknown_example : resolve "no-such-dataset" = Raise ValueError /\ resolve "sandvine_nothing" = Raise ValueError.
Proof. vm_compute. split; reflexivity. Qed.

Lemma data_home_env : forall d, data_home None (Some d) = d /\ data_home (Some d) None = d /\
  data_home None None = "~/.traffic-weaver-data".
Proof. intros; repeat split. Qed.

(** every bundled series meets the hypotheses of the pipeline theorems (C02): strictly increasing abscissae, >= 2 points,
    equal lengths *)
Lemma bundled_meet_pipeline_hyps : forall f g xs ys, In (f, g, xs, ys) bundled_files ->
  ssortedb xs = true /\ (2 <= length xs)%nat /\ length xs = length ys.
Proof.
  assert (H : forallb (fun b => let '(_, _, xs, ys) := b in ssortedb xs && Nat.leb 2 (length xs) && Nat.eqb (length xs) (length ys)) bundled_files = true)
    by (vm_compute; reflexivity).
  intros f g xs ys Hin. pose proof (proj1 (forallb_forall _ _) H _ Hin) as Hb. cbn in Hb.
  apply andb_prop in Hb. destruct Hb as [Hb H3]. apply andb_prop in Hb. destruct Hb as [H1 H2].
  repeat split; [exact H1 | now apply Nat.leb_le | now apply Nat.eqb_eq].
Qed.

Lemma ssortedb_sound : forall l, ssortedb l = true -> ssorted l.
Proof.
  induction l as [|a [|b l] IH]; intros H; cbn in *; auto.
  apply andb_prop in H. destruct H as [H1 H2]. split; [now apply Qc_ltb_true | apply IH; exact H2].
Qed.

Lemma bundled_pipeline_hyps : forall f g xs ys, In (f, g, xs, ys) bundled_files ->
  ssorted xs /\ (2 <= length xs)%nat /\ length xs = length ys.
Proof. intros f g xs ys H. destruct (bundled_meet_pipeline_hyps f g xs ys H) as [H1 [H2 H3]]. repeat split; auto. now apply ssortedb_sound. Qed.

(** ---- load_dataset's name dispatch and get_data_home, REGENERATED from datasets/_base.py (Gen/Dispatch.v) ---- *)
From TW Require Import Gen.Dispatch.
Lemma gen_replace_eq : forall a b s, gen_replace a b s = replace_char a b s.
Proof. intros a b s; induction s as [|c s IH]; simpl; [reflexivity | rewrite IH; reflexivity]. Qed.
Lemma gen_fun_name_eq : forall d, gen_fun_name d = fun_name d.
Proof. intros d. unfold gen_fun_name, fun_name. rewrite gen_replace_eq. destruct (String.prefix "sandvine" d); reflexivity. Qed.
Lemma gen_data_home_eq : forall a e, gen_data_home a e = data_home a e.
Proof. intros [a|] [e|]; reflexivity. Qed.
Lemma gen_dispatch_constants : gen_unknown_exn = "ValueError" /\ gen_env_var = "TRAFFIC_WEAVER_DATA" /\ gen_default_home = "~/.traffic-weaver-data".
Proof. repeat split; reflexivity. Qed.
