(** The regenerated bodies of LinearAdaptiveRFA.rfa and ExpAdaptiveRFA.rfa (Gen/RfaGlue.v), run by the function-level
    interpreter of Model/GlueFun.v with the leaves of Model/GlueLeaves.v (Section RfaLeaves), against the write-loop models
    [rfa_linear_adaptive] / [rfa_exp_adaptive] of Model/Rfa.v (C06).

    Nothing of the generated bodies is restated: the method bodies and the bodies of their outer loops are whatever
    [assoc <method> rfa_methods] computes to ([table_lookup], [la_body], [ea_body]); a proof is a symbolic execution, one
    statement at a time.
      - the straight-line prologue (oversampling, the three IntervalArrays and their extensions, the window lists, for
        the exp strategy the two comprehensions [listcomp_idx]) and the return statement are run in the main theorems
        ([rf_run]); the model's side stays hidden behind [M] meanwhile;
      - the outer loop is an induction over the interval indices ([la_loop], [ea_loop]) whose step is the symbolic
        execution of the regenerated loop body from ANY environment described by the values it binds ([la_env], [ea_env];
        environments are lists with shadowing) -- [la_body_run], [ea_body_run], written in weakest-precondition style
        ([post], [post_step], [post_inner], [post_nil]);
      - an if/else that assigns the same name in both branches is run once per branch and folded back into one value
        ([rf_if]), so that the case splits do not multiply;
      - an inner loop `for i in range(lo, hi): z[k, i] = rhs` is the model's [write_run] as soon as rhs evaluates to
        [f i] in every environment that binds i and agrees with the loop-entry environment on the names other than i
        and z ([inner_run], [fexec1_inner], [agree]).
    Index reads a_ls[k], a_rs[k-1], a_ls[k+1], b_ls[k] raise IndexError out of range in the interpreter where the model's
    [nthZ] answers 0: for k in [intervals e] the positions k-1, k, k+1 are inside the window lists, whose length is
    2 + length (intervals e) ([window_index_bounds]; when the loop range is empty nothing is read).

    Side conditions: of the two offered hypotheses only [1 <= n] is used (by [py_slice_cut]: for n = 0 the Python slice
    a[0:-0] is empty where the model's [cut 0] keeps everything); [2 <= length x] is not needed.  The variants
    [glue_rfa_linear_adaptive_n1] / [glue_rfa_exp_adaptive_n1] state exactly that.

    Evaluation is kept call-by-value as in Proofs/GlueProcessProofs.v: the primitives that inspect their arguments
    ([fbinop], [fcall], [store], [index_val], [fslice_val]) are never unfolded by [rf_cbn]; an application of one of them
    to values is switched to a convertible copy ([..._run]) that [rf_cbn] does compute.  Numbers, list functions and all
    model functions stay folded. *)
From Coq Require Import Lia Bool.
From TW Require Import Model.GlueLeaves Gen.RfaGlue.
From TW Require Import Proofs.ListLemmas Proofs.ListLemmas4 Proofs.ListLemmas7.
Open Scope Qc_scope.
Open Scope string_scope.

(** ---------------- sequencing ---------------- *)
Definition fexec_k (r : fenv * outcome) (k : fenv -> fenv * outcome) : fenv * outcome :=
  match snd r with ONormal => k (fst r) | _ => r end.

Section Loop.
Variable cf : string -> list gval -> list (string * gval) -> res gval.
Variable mf : gval -> string -> list gval -> res gval.
Variable af : gval -> list gval -> res gval.
Variable pf : gval -> gval -> res gval.
Variable vars : list string.
Variable body : list gstmt.
Fixpoint floop (items : list gval) (en : fenv) {struct items} : fenv * outcome :=
  match items with
  | [] => (en, ONormal)
  | item :: rest =>
      let bound := match vars with
                   | [x] => Some ((x, item) :: en)
                   | _ => match item with VTup vs => bind_vars vars vs en | _ => None end
                   end in
      match bound with
      | None => (en, ORaise ValueError)
      | Some en' => let r := fexec cf mf af pf en' body in match snd r with ONormal => floop rest (fst r) | _ => r end
      end
  end.
End Loop.

Lemma fexec_cons : forall cf mf af pf en st l,
  fexec cf mf af pf en (st :: l) = fexec_k (fexec1 cf mf af pf en st) (fun en' => fexec cf mf af pf en' l).
Proof. reflexivity. Qed.
Lemma fexec_nil : forall cf mf af pf en, fexec cf mf af pf en [] = (en, ONormal).
Proof. reflexivity. Qed.
Lemma fexec1_if : forall cf mf af pf en c th el,
  fexec1 cf mf af pf en (SIf c th el) =
  match feval cf mf af pf en c with
  | Raise x => (en, ORaise x)
  | Ok (VBoolV true) => fexec cf mf af pf en th
  | Ok (VBoolV false) => fexec cf mf af pf en el
  | Ok _ => (en, ORaise TypeError)
  end.
Proof. reflexivity. Qed.
Lemma fexec1_for : forall cf mf af pf en vars it body,
  fexec1 cf mf af pf en (SFor vars it body) =
  match feval cf mf af pf en it with
  | Raise x => (en, ORaise x)
  | Ok v => match vals_of v with
            | None => (en, ORaise TypeError)
            | Some items => floop cf mf af pf vars body items en
            end
  end.
Proof. reflexivity. Qed.
Lemma floop_nil : forall cf mf af pf vars body en, floop cf mf af pf vars body [] en = (en, ONormal).
Proof. reflexivity. Qed.
Lemma floop_cons1 : forall cf mf af pf x body item rest en,
  floop cf mf af pf [x] body (item :: rest) en =
  fexec_k (fexec cf mf af pf ((x, item) :: en) body) (fun en' => floop cf mf af pf [x] body rest en').
Proof. reflexivity. Qed.

Lemma fexec_k_normal : forall en k, fexec_k (en, ONormal) k = k en.
Proof. reflexivity. Qed.
Lemma fexec_k_raise : forall en e k, fexec_k (en, ORaise e) k = (en, ORaise e).
Proof. reflexivity. Qed.
Lemma fexec_k_return : forall en v k, fexec_k (en, OReturn v) k = (en, OReturn v).
Proof. reflexivity. Qed.

(** strict primitives: run only once their arguments are values *)
Definition fbinop_run := Eval cbv delta [fbinop] in fbinop.
Definition fcall_run := Eval cbv delta [fcall] in fcall.
Definition store_run := Eval cbv delta [store] in store.
Definition index_val_run := Eval cbv delta [index_val] in index_val.
Definition fslice_val_run := Eval cbv delta [fslice_val] in fslice_val.
Lemma fbinop_run_eq : forall pf op a b, fbinop pf op a b = fbinop_run pf op a b. Proof. reflexivity. Qed.
Lemma fcall_run_eq : forall cf fn vs ks, fcall cf fn vs ks = fcall_run cf fn vs ks. Proof. reflexivity. Qed.
Lemma store_run_eq : forall en lc v, store en lc v = store_run en lc v. Proof. reflexivity. Qed.
Lemma index_val_run_eq : forall a i, index_val a i = index_val_run a i. Proof. reflexivity. Qed.
Lemma fslice_val_run_eq : forall a lo hi st, fslice_val a lo hi st = fslice_val_run a lo hi st. Proof. reflexivity. Qed.

Lemma Z_1_le_0 : (1 <=? 0)%Z = false. Proof. reflexivity. Qed.

(** everything that is not interpreter stays folded: numbers, list functions, integer arithmetic and comparison, the
    model's functions and records, the statement sequencing and the strict primitives *)
Ltac rf_cbn :=
  cbn -[Qcplus Qcmult Qcdiv Qcminus Qcopp Qcinv Q2Qc Qc_eqb Qc_ltb Qc_leb Qc_of_Z Qc_of_nat Qc_trunc
        map map2 seq GlueSem.py_index Interval.py_index length firstn skipn app nth nth_error fold_left
        py_slice take_stride clampZ norm_bound range_list GlueFun.set_nth Interval.set_nth
        Z.of_nat Z.to_nat Z.add Z.sub Z.mul Z.opp Z.ltb Z.leb Z.eqb Z.max Z.min Z.quot Nat.div Nat.sub Nat.add Nat.mul
        getz setz zrange window_a half_window lin_part prepare xe ye en nfull X Y cut intervals write_run
        lin_fit lin_exp_xy_fit exp_lin_fit extend_linspace extend_constant oversample_linspace oversample_pc
        adaptive_windows nthZ ad_z0 ad_z1 la_interval ea_interval ext_of
        fexec fexec_k floop rfa_methods
        fbinop fcall store index_val fslice_val].

(** one step: focus on the head statement (the remaining statements are a variable, [pose_tails]); stop in front of a
    comprehension (it is run by [listcomp_idx]); drop the focus once a statement has run; run a strict primitive whose
    arguments are known *)
Ltac rf_step :=
  match goal with
  | |- context [flookup _ _] => unfold flookup
  | |- context [Z.to_nat (Z.of_nat ?n)] => rewrite (Nat2Z.id n)
  | |- context [fexec ?cf ?mf ?af ?pf ?en ?L] => is_var L; unfold L; try clear L
  | |- context [fexec _ _ _ _ _ (SAssign _ (GListComp _ _ _) :: _)] => fail 1
  | |- context [fexec ?cf ?mf ?af ?pf ?en (SIf ?c ?th ?el :: ?l)] =>
      rewrite (fexec_cons cf mf af pf en (SIf c th el) l), (fexec1_if cf mf af pf en c th el)
  | |- context [fexec ?cf ?mf ?af ?pf ?en (SFor ?vs ?it ?b :: ?l)] =>
      rewrite (fexec_cons cf mf af pf en (SFor vs it b) l), (fexec1_for cf mf af pf en vs it b)
  | |- context [fexec ?cf ?mf ?af ?pf ?en (?st :: ?l)] => rewrite (fexec_cons cf mf af pf en st l)
  | |- context [fexec ?cf ?mf ?af ?pf ?en []] => rewrite (fexec_nil cf mf af pf en)
  | |- context [fexec_k (?en, ONormal) ?k] => rewrite (fexec_k_normal en k)
  | |- context [fexec_k (?en, ORaise ?e) ?k] => rewrite (fexec_k_raise en e k)
  | |- context [fexec_k (?en, OReturn ?v) ?k] => rewrite (fexec_k_return en v k)
  | |- context [fbinop ?pf ?op ?a ?b] => rewrite (fbinop_run_eq pf op a b)
  | |- context [fcall ?cf ?fn ?vs ?ks] => rewrite (fcall_run_eq cf fn vs ks)
  | |- context [store ?en ?lc ?v] => rewrite (store_run_eq en lc v)
  | |- context [index_val ?a ?i] => rewrite (index_val_run_eq a i)
  | |- context [fslice_val ?a ?lo ?hi ?st] => rewrite (fslice_val_run_eq a lo hi st)
  | |- context [(?a =? ?a)%Z] => rewrite (Z.eqb_refl a)
  | |- context [(1 <=? 0)%Z] => rewrite Z_1_le_0
  end.

(** the body of the called method, with every suffix of its statement list named *)
Ltac pose_tails l k :=
  lazymatch l with
  | @nil _ => k (@nil gstmt)
  | ?st :: ?l' => pose_tails l' ltac:(fun t => let L := fresh "L" in pose (L := st :: t); k L)
  end.
Ltac table_lookup :=
  match goal with |- context [assoc ?n rfa_methods] =>
    let t := eval vm_compute in (assoc n rfa_methods) in
    lazymatch t with
    | Some (?formals, ?body) =>
        pose_tails body ltac:(fun L =>
          let H := fresh "Htbl" in
          assert (H : assoc n rfa_methods = Some (formals, L)) by (vm_compute; reflexivity);
          rewrite H; clear H)
    end
  end.


(** ---------------- leaves ---------------- *)
Lemma py_index_nth_error : forall {A} (l : list A) k, (0 <= k < Z.of_nat (length l))%Z ->
  GlueSem.py_index l k = nth_error l (Z.to_nat k).
Proof.
  intros A l k H. unfold GlueSem.py_index. cbv zeta.
  destruct (Z.ltb_spec k 0) as [H0|H0]; [lia|].
  destruct (Z.ltb_spec k 0) as [H1|H1]; [lia|].
  destruct (Z.leb_spec (Z.of_nat (length l)) k) as [H2|H2]; [lia|]. reflexivity.
Qed.
Lemma py_index_nthZ : forall (l : list Z) k, (0 <= k < Z.of_nat (length l))%Z ->
  GlueSem.py_index l k = Some (nthZ l k).
Proof.
  intros l k H. rewrite py_index_nth_error by exact H. unfold nthZ. apply nth_error_nth'. lia.
Qed.
Lemma py_index_map_nthZ : forall (g : Z -> gval) (l : list Z) k, (0 <= k < Z.of_nat (length l))%Z ->
  GlueSem.py_index (map g l) k = Some (g (nthZ l k)).
Proof.
  intros g l k H. rewrite py_index_nth_error by (rewrite map_length; exact H).
  rewrite nth_error_map. unfold nthZ. rewrite (nth_error_nth' l 0%Z) by lia. reflexivity.
Qed.

(** two environments that differ at most in what they bind to i and z (what an inner loop assigns) *)
Definition agree (en' en : fenv) : Prop := forall s, s <> "i" -> s <> "z" -> assoc s en' = assoc s en.
Lemma agree_refl : forall en, agree en en. Proof. intros en s _ _. reflexivity. Qed.
Lemma agree_trans : forall a b c, agree a b -> agree b c -> agree a c.
Proof. intros a b c H1 H2 s Hi Hz. rewrite H1, H2 by assumption. reflexivity. Qed.
Lemma agree_push_i : forall en' en v, agree en' en -> agree (("i", v) :: en') en.
Proof.
  intros en' en v H s Hi Hz. cbn [assoc]. destruct (seq_eqb s "i") eqn:E; [apply String.eqb_eq in E; congruence|].
  apply H; assumption.
Qed.
Lemma agree_push_z : forall en' en v, agree en' en -> agree (("z", v) :: en') en.
Proof.
  intros en' en v H s Hi Hz. cbn [assoc]. destruct (seq_eqb s "z") eqn:E; [apply String.eqb_eq in E; congruence|].
  apply H; assumption.
Qed.

Section Generic.
Variable cf : string -> list gval -> list (string * gval) -> res gval.
Variable mf : gval -> string -> list gval -> res gval.
Variable af : gval -> list gval -> res gval.
Variable pf : gval -> gval -> res gval.

(** z[k, i] = rhs *)
Lemma assign_z_run : forall en rhs k i zc N q,
  assoc "k" en = Some (VInt k) -> assoc "i" en = Some (VInt i) -> assoc "z" en = Some (ivl zc N) ->
  feval cf mf af pf en rhs = Ok (VNum q) ->
  fexec1 cf mf af pf en (SAssign [LIdx "z" (GTuple [GVar "k"; GVar "i"])] rhs)
  = (("z", ivl (setz zc (k * N + i) q) N) :: en, ONormal).
Proof.
  intros en rhs k i zc N q Hk Hi Hz Hr. cbn [fexec1]. rewrite Hr.
  cbn [resolve_lhs feval bind flookup]. unfold flookup. rewrite Hk, Hi. cbn [bind store_all store].
  unfold flookup. rewrite Hz. cbn [bind ivl as_num]. reflexivity.
Qed.

(** for i in <is>: z[k, i] = rhs, when rhs means [f i] whatever the loop has done to i and z so far *)
Lemma inner_run : forall rhs N k f (is : list Z) en0 en zc,
  agree en en0 -> assoc "z" en = Some (ivl zc N) -> assoc "k" en0 = Some (VInt k) ->
  (forall i en', agree en' en0 -> feval cf mf af pf (("i", VInt i) :: en') rhs = Ok (VNum (f i))) ->
  exists en', floop cf mf af pf ["i"] [SAssign [LIdx "z" (GTuple [GVar "k"; GVar "i"])] rhs] (map VInt is) en = (en', ONormal) /\
     assoc "z" en' = Some (ivl (fold_left (fun z i => setz z (k * N + i) (f i)) is zc) N) /\ agree en' en0.
Proof.
  intros rhs N k f is en0. induction is as [|i is IH]; intros en zc Hag Hz Hk Hf.
  - exists en. cbn [map fold_left]. rewrite floop_nil. repeat split; assumption.
  - cbn [map fold_left]. rewrite floop_cons1, fexec_cons.
    rewrite (assign_z_run (("i", VInt i) :: en) rhs k i zc N (f i)).
    + rewrite fexec_k_normal, fexec_nil, fexec_k_normal. apply IH.
      * apply agree_push_z, agree_push_i, Hag.
      * reflexivity.
      * exact Hk.
      * exact Hf.
    + cbn [assoc seq_eqb String.eqb Ascii.eqb Bool.eqb]. rewrite (Hag "k") by discriminate. exact Hk.
    + reflexivity.
    + cbn [assoc seq_eqb String.eqb Ascii.eqb Bool.eqb]. exact Hz.
    + apply Hf, Hag.
Qed.

Lemma fexec1_inner : forall it rhs N k lo hi f en zc,
  feval cf mf af pf en it = Ok (VIdxArr (range_list lo hi)) ->
  assoc "z" en = Some (ivl zc N) -> assoc "k" en = Some (VInt k) ->
  (forall i en', agree en' en -> feval cf mf af pf (("i", VInt i) :: en') rhs = Ok (VNum (f i))) ->
  exists en', fexec1 cf mf af pf en (SFor ["i"] it [SAssign [LIdx "z" (GTuple [GVar "k"; GVar "i"])] rhs]) = (en', ONormal) /\
     assoc "z" en' = Some (ivl (fold_left (fun z i => setz z (k * N + i) (f i)) (zrange lo hi) zc) N) /\ agree en' en.
Proof.
  intros it rhs N k lo hi f en zc Hit Hz Hk Hf. rewrite fexec1_for, Hit. cbn [vals_of].
  apply inner_run; [apply agree_refl|assumption..].
Qed.

Lemma assign_var_run : forall en t e v, feval cf mf af pf en e = Ok v ->
  fexec1 cf mf af pf en (SAssign [LVar t] e) = ((t, v) :: en, ONormal).
Proof. intros en t e v H. cbn [fexec1]. rewrite H. reflexivity. Qed.

(** [body for v in it] over an integer array *)
Lemma listcomp_idx : forall en body v it l g,
  feval cf mf af pf en it = Ok (VIdxArr l) ->
  (forall a, feval cf mf af pf ((v, VInt a) :: en) body = Ok (g a)) ->
  feval cf mf af pf en (GListComp body v it) = Ok (VTup (map g l)).
Proof.
  intros en body v it l g Hit Hb. cbn [feval]. rewrite Hit. cbn [bind vals_of].
  assert (E : forall l, (fix each (items : list gval) : res (list gval) :=
             match items with
             | [] => Ok []
             | item :: rest => let? v0 := feval cf mf af pf ((v, item) :: en) body in let? r := each rest in Ok (v0 :: r)
             end) (map VInt l) = Ok (map g l)).
  { induction l0 as [|a l0 IH]; [reflexivity|]. cbn [map]. rewrite Hb. cbn [bind]. rewrite IH. reflexivity. }
  rewrite E. reflexivity.
Qed.

(** weakest-precondition style: the statements run normally and leave an environment satisfying Q *)
Definition post (Q : fenv -> Prop) (r : fenv * outcome) : Prop := exists env', r = (env', ONormal) /\ Q env'.

Lemma post_nil : forall (Q : fenv -> Prop) en, Q en -> post Q (fexec cf mf af pf en []).
Proof. intros Q en H. exists en. split; [reflexivity|exact H]. Qed.
Lemma post_step : forall en st l en1 Q, fexec1 cf mf af pf en st = (en1, ONormal) ->
  post Q (fexec cf mf af pf en1 l) -> post Q (fexec cf mf af pf en (st :: l)).
Proof. intros en st l en1 Q H1 H2. rewrite fexec_cons, H1, fexec_k_normal. exact H2. Qed.
Lemma post_inner : forall it rhs l N k lo hi f en zc Q,
  feval cf mf af pf en it = Ok (VIdxArr (range_list lo hi)) ->
  assoc "z" en = Some (ivl zc N) -> assoc "k" en = Some (VInt k) ->
  (forall i en', agree en' en -> feval cf mf af pf (("i", VInt i) :: en') rhs = Ok (VNum (f i))) ->
  (forall en', assoc "z" en' = Some (ivl (fold_left (fun z i => setz z (k * N + i) (f i)) (zrange lo hi) zc) N) ->
               agree en' en -> post Q (fexec cf mf af pf en' l)) ->
  post Q (fexec cf mf af pf en (SFor ["i"] it [SAssign [LIdx "z" (GTuple [GVar "k"; GVar "i"])] rhs] :: l)).
Proof.
  intros it rhs l N k lo hi f en zc Q Hit Hz Hk Hf Hl.
  destruct (fexec1_inner it rhs N k lo hi f en zc Hit Hz Hk Hf) as (en1 & Hrun & Hz1 & Hag1).
  eapply post_step; [exact Hrun|]. apply Hl; assumption.
Qed.
End Generic.

(** ---------------- the loop bodies, from the generated table ---------------- *)
Definition body_of (f : string) : list gstmt :=
  match assoc f rfa_methods with Some (_, b) => b | None => [] end.
Fixpoint first_for (l : list gstmt) : list gstmt :=
  match l with
  | SFor _ _ b :: _ => b
  | _ :: l' => first_for l'
  | [] => []
  end.
Definition la_body : list gstmt := Eval vm_compute in first_for (body_of "LinearAdaptiveRFA.rfa").
Definition ea_body : list gstmt := Eval vm_compute in first_for (body_of "ExpAdaptiveRFA.rfa").

(** reading a name from an environment known by the values it binds; a_ls[k] etc. inside the window lists (the bounds
    are in the context) *)
Ltac rf_lookup :=
  match goal with
  | H : agree ?en' _ |- context [assoc ?s ?en'] => rewrite (H s) by discriminate
  | H : assoc ?s ?en = _ |- context [assoc ?s ?en] => rewrite H
  | |- context [GlueSem.py_index (map ?g ?l) ?k] => rewrite (py_index_map_nthZ g l k) by lia
  | |- context [GlueSem.py_index ?l ?k] => rewrite (py_index_nthZ l k) by lia
  end.
Ltac rf_split :=
  match goal with
  | |- context [(?a =? 0)%Z] => destruct (a =? 0)%Z eqn:?
  end.
Ltac rf_run := repeat (rf_cbn; first [rf_step | rf_lookup]); rf_cbn.
Ltac rf_run_split := repeat (rf_cbn; first [rf_step | rf_lookup | rf_split]); rf_cbn.

Ltac rf_open :=
  match goal with |- post _ (fexec _ _ _ _ _ ?L) => is_var L; unfold L; try clear L end.
(** a plain assignment / tuple assignment *)
Ltac rf_assign :=
  rf_open; eapply post_step; [rf_run; reflexivity|].
(** if/else assigning the same name in both branches: the value is given *)
Ltac rf_if_gen unf val :=
  rf_open;
  match goal with |- post _ (fexec ?cf ?mf ?af ?pf ?en (SIf ?c [SAssign [LVar ?v] ?a] ?el :: ?l)) =>
    apply (post_step cf mf af pf en (SIf c [SAssign [LVar v] a] el) l ((v, VNum val) :: en));
    [ rewrite fexec1_if; unf; rf_run_split; reflexivity | ]
  end.
Ltac rf_if val := rf_if_gen ltac:(unfold ad_z0, ad_z1, X, Y) val.
Ltac rf_if' val := rf_if_gen ltac:(unfold X, Y) val.
Ltac rf_inner :=
  rf_open; eapply post_inner;
  [ rf_run; reflexivity | rf_run; reflexivity | rf_run; reflexivity
  | let i := fresh "i" in let en' := fresh "en'" in let H := fresh "Hag" in intros i en' H; rf_run; reflexivity
  | let en' := fresh "en1" in let Hz := fresh "Hz" in let H := fresh "Hag" in intros en' Hz H ].

Section Adaptive.
Variable pw : Qc -> Qc.
Variable gpow : Qc -> Qc.
Variables (sx sy : list Qc) (sn : nat).
Variable e : ext.
Variables als ars : list Z.
Notation cf := (rfa_callf pw (fun t => t)).
Notation mf := (rfa_methf gpow sx sy sn).

Definition la_env (zc : list Qc) (env : fenv) : Prop :=
  assoc "x" env = Some (ivl (xe e) (en e)) /\ assoc "y" env = Some (ivl (ye e) (en e)) /\
  assoc "n" env = Some (VInt (en e)) /\ assoc "a_ls" env = Some (VIdxArr als) /\ assoc "a_rs" env = Some (VIdxArr ars) /\
  assoc "z" env = Some (ivl zc (en e)).

Lemma la_body_run : forall env zc k, la_env zc env ->
  (1 <= k)%Z -> (k + 1 < Z.of_nat (length als))%Z -> (k + 1 < Z.of_nat (length ars))%Z ->
  post (la_env (la_interval e als ars zc k)) (fexec cf mf no_apply no_pow (("k", VInt k) :: env) la_body).
Proof.
  intros env zc k (Hx & Hy & Hn & Hal & Har & Hz) Hk1 Hk2 Hk3.
  set (M := la_interval e als ars zc k).
  unfold la_body.
  match goal with |- context [fexec _ _ _ _ _ ?b] => pose_tails b ltac:(fun L => change b with L) end.
  rf_assign.
  rf_if (ad_z0 e als ars k).
  rf_if (ad_z1 e als ars k).
  rf_inner.
  rf_inner.
  apply post_nil. subst M. unfold la_env.
  repeat split; rf_run; reflexivity.
Qed.

Lemma la_loop : forall ks env zc, la_env zc env ->
  (forall k, In k ks -> (1 <= k)%Z /\ (k + 1 < Z.of_nat (length als))%Z /\ (k + 1 < Z.of_nat (length ars))%Z) ->
  post (la_env (fold_left (la_interval e als ars) ks zc)) (floop cf mf no_apply no_pow ["k"] la_body (map VInt ks) env).
Proof.
  induction ks as [|k ks IH]; intros env zc Henv Hks.
  - exists env. split; [reflexivity|exact Henv].
  - cbn [map fold_left]. rewrite floop_cons1.
    destruct (Hks k (or_introl eq_refl)) as (H1 & H2 & H3).
    destruct (la_body_run env zc k Henv H1 H2 H3) as (env1 & Hrun & Henv1).
    rewrite Hrun, fexec_k_normal. apply IH; [exact Henv1|].
    intros k' Hk'. apply Hks. right. exact Hk'.
Qed.

(** ---------- ExpAdaptiveRFA ---------- *)
Variable beta : Qc.
Definition ea_env (zc : list Qc) (env : fenv) : Prop :=
  assoc "x" env = Some (ivl (xe e) (en e)) /\ assoc "y" env = Some (ivl (ye e) (en e)) /\
  assoc "n" env = Some (VInt (en e)) /\ assoc "a_ls" env = Some (VIdxArr als) /\ assoc "a_rs" env = Some (VIdxArr ars) /\
  assoc "b_ls" env = Some (VTup (map (fun a => VInt (lin_part beta a)) als)) /\
  assoc "b_rs" env = Some (VTup (map (fun a => VInt (lin_part beta a)) ars)) /\
  assoc "exp" env = Some (VOpaque "exp") /\
  assoc "z" env = Some (ivl zc (en e)).

Lemma ea_body_run : forall env zc k, ea_env zc env ->
  (1 <= k)%Z -> (k + 1 < Z.of_nat (length als))%Z -> (k + 1 < Z.of_nat (length ars))%Z ->
  post (ea_env (ea_interval pw e beta als ars zc k)) (fexec cf mf no_apply no_pow (("k", VInt k) :: env) ea_body).
Proof.
  intros env zc k (Hx & Hy & Hn & Hal & Har & Hbl & Hbr & Hexp & Hz) Hk1 Hk2 Hk3.
  set (M := ea_interval pw e beta als ars zc k).
  unfold ea_body.
  match goal with |- context [fexec _ _ _ _ _ ?b] => pose_tails b ltac:(fun L => change b with L) end.
  rf_assign.
  rf_if (ad_z0 e als ars k).
  rf_if (ad_z1 e als ars k).
  rf_if' (if (lin_part beta (nthZ als k) =? 0)%Z then ad_z0 e als ars k
          else lin_fit (X e k (0 + lin_part beta (nthZ als k))) (X e k 0) (ad_z0 e als ars k) (X e k (nthZ als k)) (Y e k 0)).
  rf_if' (if (lin_part beta (nthZ ars k) =? 0)%Z then ad_z1 e als ars k
          else lin_fit (X e k (en e - lin_part beta (nthZ ars k))) (X e k (en e - nthZ ars k)) (Y e k 0) (X e (k + 1) 0) (ad_z1 e als ars k)).
  rf_inner.
  rf_inner.
  rf_inner.
  rf_inner.
  apply post_nil. subst M. unfold ea_env.
  repeat split; rf_run; reflexivity.
Qed.

Lemma ea_loop : forall ks env zc, ea_env zc env ->
  (forall k, In k ks -> (1 <= k)%Z /\ (k + 1 < Z.of_nat (length als))%Z /\ (k + 1 < Z.of_nat (length ars))%Z) ->
  post (ea_env (fold_left (ea_interval pw e beta als ars) ks zc)) (floop cf mf no_apply no_pow ["k"] ea_body (map VInt ks) env).
Proof.
  induction ks as [|k ks IH]; intros env zc Henv Hks.
  - exists env. split; [reflexivity|exact Henv].
  - cbn [map fold_left]. rewrite floop_cons1.
    destruct (Hks k (or_introl eq_refl)) as (H1 & H2 & H3).
    destruct (ea_body_run env zc k Henv H1 H2 H3) as (env1 & Hrun & Henv1).
    rewrite Hrun, fexec_k_normal. apply IH; [exact Henv1|].
    intros k' Hk'. apply Hks. right. exact Hk'.
Qed.
End Adaptive.

(** ---------------- the prepared arrays, the windows, the cut ---------------- *)
Lemma ext_of_prepare : forall x y n,
  ext_of (extend_linspace (oversample_linspace x n) n Both None None) (extend_constant (oversample_pc y n) n Both) (Z.of_nat n)
  = prepare x y n.
Proof. intros x y n. unfold ext_of, prepare. rewrite Nat2Z.id. reflexivity. Qed.

Lemma in_zrange : forall lo hi k, In k (zrange lo hi) -> (lo <= k < hi)%Z.
Proof.
  intros lo hi k H. unfold zrange in H. apply in_map_iff in H. destruct H as (j & <- & Hj).
  apply in_seq in Hj. lia.
Qed.
Lemma zrange_length : forall lo hi, length (zrange lo hi) = Z.to_nat (hi - lo).
Proof. intros. unfold zrange. now rewrite map_length, seq_length. Qed.
Lemma adaptive_windows_length : forall gpow e a,
  length (fst (adaptive_windows gpow e a)) = S (S (length (intervals e))) /\
  length (snd (adaptive_windows gpow e a)) = S (S (length (intervals e))).
Proof.
  intros gpow e a. unfold adaptive_windows. cbn [fst snd length].
  rewrite !app_length, !map_length. cbn [length]. lia.
Qed.
Lemma window_index_bounds : forall gpow e a k, In k (intervals e) ->
  (1 <= k)%Z /\ (k + 1 < Z.of_nat (length (fst (adaptive_windows gpow e a))))%Z /\
  (k + 1 < Z.of_nat (length (snd (adaptive_windows gpow e a))))%Z.
Proof.
  intros gpow e a k H. destruct (adaptive_windows_length gpow e a) as [-> ->].
  unfold intervals in *. rewrite zrange_length. apply in_zrange in H. lia.
Qed.

Lemma py_slice_cut : forall l N n, N = Z.of_nat n -> (1 <= n)%nat ->
  py_slice l N (- N) 1 = Ok (cut n l).
Proof.
  intros l N n -> Hn. rewrite ListLemmas7.py_slice_step1. f_equal. unfold cut, sl_pos, clampZ.
  destruct (Z.ltb_spec (Z.of_nat n) 0) as [H|_]; [lia|].
  destruct (Z.ltb_spec (- Z.of_nat n) 0) as [_|H]; [|lia].
  set (len := length l).
  replace (Z.to_nat (Z.max 0 (Z.min (- Z.of_nat n + Z.of_nat len) (Z.of_nat len)))) with (len - n)%nat by lia.
  destruct (Nat.le_gt_cases n len) as [Hl|Hl].
  - replace (Z.to_nat (Z.max 0 (Z.min (Z.of_nat n) (Z.of_nat len)))) with n by lia. reflexivity.
  - replace (Z.to_nat (Z.max 0 (Z.min (Z.of_nat n) (Z.of_nat len)))) with len by lia.
    unfold slice. rewrite !skipn_all2 by (fold len; lia). now rewrite !firstn_nil.
Qed.

Lemma glue_rfa_linear_adaptive_n1 : forall gpow x y n alpha a, (1 <= n)%nat ->
  outcome_arr_pair (call_meth (rfa_callf (fun t => t) (fun t => t)) (rfa_methf gpow x y n) no_apply no_pow rfa_methods
     "LinearAdaptiveRFA.rfa" (rfa_attrs x y n (window_a n alpha a) 0 0 0) []) = Ok (rfa_linear_adaptive gpow x y n alpha a).
Proof.
  intros gpow x y n alpha a Hn. unfold call_meth. table_lookup.
  match goal with |- _ = ?rhs => set (M := rhs) end.
  cbn [fbind_params bind app]. unfold rfa_attrs.
  rf_run.
  rewrite ext_of_prepare.
  set (e := prepare x y n). set (w := adaptive_windows gpow e (window_a n alpha a)).
  match goal with |- context [floop ?cf ?mf ?af ?pf ?vs ?body (map VInt ?ks) ?env] =>
    destruct (la_loop (fun t => t) gpow x y n e (fst w) (snd w) ks env (ye e)) as (env' & Hrun & Henv')
  end.
  { unfold la_env. rf_cbn. repeat split; reflexivity. }
  { intros k Hk. apply window_index_bounds. exact Hk. }
  unfold la_body in Hrun. rewrite Hrun. clear Hrun.
  destruct Henv' as (Hx' & Hy' & Hn' & _ & _ & Hz').
  rf_run.
  rewrite !(py_slice_cut _ _ n eq_refl) by lia. rf_run.
  subst M. unfold rfa_linear_adaptive. reflexivity.
Qed.

Lemma glue_rfa_linear_adaptive : forall gpow x y n alpha a, (2 <= n)%nat -> (2 <= length x)%nat ->
  outcome_arr_pair (call_meth (rfa_callf (fun t => t) (fun t => t)) (rfa_methf gpow x y n) no_apply no_pow rfa_methods
     "LinearAdaptiveRFA.rfa" (rfa_attrs x y n (window_a n alpha a) 0 0 0) []) = Ok (rfa_linear_adaptive gpow x y n alpha a).
Proof. intros gpow x y n alpha a Hn _. apply glue_rfa_linear_adaptive_n1. lia. Qed.


Lemma glue_rfa_exp_adaptive_n1 : forall pw gpow x y n alpha beta a, (1 <= n)%nat ->
  outcome_arr_pair (call_meth (rfa_callf pw (fun t => t)) (rfa_methf gpow x y n) no_apply no_pow rfa_methods
     "ExpAdaptiveRFA.rfa" (rfa_attrs x y n (window_a n alpha a) 0 0 beta) []) = Ok (rfa_exp_adaptive pw gpow x y n alpha beta a).
Proof.
  intros pw gpow x y n alpha beta a Hn. unfold call_meth. table_lookup.
  match goal with |- _ = ?rhs => set (M := rhs) end.
  cbn [fbind_params bind app]. unfold rfa_attrs.
  rf_run.
  rewrite ext_of_prepare.
  set (e := prepare x y n). set (w := adaptive_windows gpow e (window_a n alpha a)).
  do 2 (match goal with |- context [fexec ?cf ?mf ?af ?pf ?en (SAssign [LVar ?t] (GListComp ?body ?v ?it) :: ?l)] =>
    rewrite (fexec_cons cf mf af pf en (SAssign [LVar t] (GListComp body v it)) l);
    erewrite (assign_var_run cf mf af pf en t (GListComp body v it));
    [ rewrite fexec_k_normal
    | eapply (listcomp_idx cf mf af pf en body v it _ (fun a => VInt (lin_part beta a)));
      [ rf_run; reflexivity | intro; rf_run; reflexivity ] ]
  end; rf_run).
  match goal with |- context [floop ?cf ?mf ?af ?pf ?vs ?body (map VInt ?ks) ?env] =>
    destruct (ea_loop pw gpow x y n e (fst w) (snd w) beta ks env (ye e)) as (env' & Hrun & Henv')
  end.
  { unfold ea_env. rf_cbn. repeat split; reflexivity. }
  { intros k Hk. apply window_index_bounds. exact Hk. }
  unfold ea_body in Hrun. rewrite Hrun. clear Hrun.
  destruct Henv' as (Hx' & Hy' & Hn' & _ & _ & _ & _ & _ & Hz').
  rf_run.
  rewrite !(py_slice_cut _ _ n eq_refl) by lia. rf_run.
  subst M. unfold rfa_exp_adaptive. reflexivity.
Qed.

Lemma glue_rfa_exp_adaptive : forall pw gpow x y n alpha beta a, (2 <= n)%nat -> (2 <= length x)%nat ->
  outcome_arr_pair (call_meth (rfa_callf pw (fun t => t)) (rfa_methf gpow x y n) no_apply no_pow rfa_methods
     "ExpAdaptiveRFA.rfa" (rfa_attrs x y n (window_a n alpha a) 0 0 beta) []) = Ok (rfa_exp_adaptive pw gpow x y n alpha beta a).
Proof. intros pw gpow x y n alpha beta a Hn _. apply glue_rfa_exp_adaptive_n1. lia. Qed.
