(** Proofs about the two-pointer scans of Model/Search.v (property C10). *)
From TW Require Import Model.Search.
Open Scope Qc_scope.
Open Scope Z_scope.

(** ---------- generic facts on counts and sorted lists ---------- *)

Lemma count_le_app : forall a b q, count_le (a ++ b) q = count_le a q + count_le b q.
Proof.
  induction a as [|h a IH]; intros b q; cbn [count_le app]; [lia|].
  rewrite IH. lia.
Qed.

Lemma count_lt_app : forall a b q, count_lt (a ++ b) q = count_lt a q + count_lt b q.
Proof.
  induction a as [|h a IH]; intros b q; cbn [count_lt app]; [lia|].
  rewrite IH. lia.
Qed.

Lemma count_le_bounds : forall x q, 0 <= count_le x q <= Z.of_nat (length x).
Proof.
  induction x as [|a x IH]; intros q; cbn [count_le length]; [lia|].
  specialize (IH q). destruct (Qc_leb a q); lia.
Qed.

Lemma count_lt_bounds : forall x q, 0 <= count_lt x q <= Z.of_nat (length x).
Proof.
  induction x as [|a x IH]; intros q; cbn [count_lt length]; [lia|].
  specialize (IH q). destruct (Qc_ltb a q); lia.
Qed.

Lemma ssorted_tail : forall a l, ssorted (a :: l) -> ssorted l.
Proof. intros a [|b l] H; [exact I|]. destruct H as [_ H]. exact H. Qed.

Lemma nondecr_tail : forall a l, nondecr (a :: l) -> nondecr l.
Proof. intros a [|b l] H; [exact I|]. destruct H as [_ H]. exact H. Qed.

Lemma ssorted_head_lt : forall l a, ssorted (a :: l) -> Forall (fun b => (a < b)%Qc) l.
Proof.
  induction l as [|b l IH]; intros a H; [constructor|].
  destruct H as [Hab Hs]. constructor; [exact Hab|].
  specialize (IH b Hs).
  eapply Forall_impl; [|exact IH]. cbn beta. intros c Hc. qclra.
Qed.

Lemma nondecr_head_le : forall l a, nondecr (a :: l) -> Forall (fun b => (a <= b)%Qc) l.
Proof.
  induction l as [|b l IH]; intros a H; [constructor|].
  destruct H as [Hab Hs]. constructor; [exact Hab|].
  specialize (IH b Hs).
  eapply Forall_impl; [|exact IH]. cbn beta. intros c Hc. qclra.
Qed.

Lemma ssorted_app_r : forall a b, ssorted (a ++ b) -> ssorted b.
Proof.
  induction a as [|h a IH]; intros b H; [exact H|].
  apply IH. eapply ssorted_tail. exact H.
Qed.

(* all elements above q  ->  count 0 *)
Lemma count_le_zero : forall l q, Forall (fun b => (q < b)%Qc) l -> count_le l q = 0.
Proof.
  induction l as [|b l IH]; intros q H; [reflexivity|].
  inversion H as [|? ? Hb Hl]; subst. cbn [count_le]. rewrite (IH q Hl).
  qc_case (Qc_leb b q); [exfalso; qclra|reflexivity].
Qed.

Lemma count_lt_zero : forall l q, Forall (fun b => (q <= b)%Qc) l -> count_lt l q = 0.
Proof.
  induction l as [|b l IH]; intros q H; [reflexivity|].
  inversion H as [|? ? Hb Hl]; subst. cbn [count_lt]. rewrite (IH q Hl).
  qc_case (Qc_ltb b q); [exfalso; qclra|reflexivity].
Qed.

Lemma count_le_full : forall l q, Forall (fun b => (b <= q)%Qc) l -> count_le l q = Z.of_nat (length l).
Proof.
  induction l as [|b l IH]; intros q H; [reflexivity|].
  inversion H as [|? ? Hb Hl]; subst. cbn [count_le length]. rewrite (IH q Hl).
  qc_case (Qc_leb b q); [lia|exfalso; qclra].
Qed.

Lemma count_lt_full : forall l q, Forall (fun b => (b < q)%Qc) l -> count_lt l q = Z.of_nat (length l).
Proof.
  induction l as [|b l IH]; intros q H; [reflexivity|].
  inversion H as [|? ? Hb Hl]; subst. cbn [count_lt length]. rewrite (IH q Hl).
  qc_case (Qc_ltb b q); [lia|exfalso; qclra].
Qed.

(* sorted list whose head is above q *)
Lemma count_le_sorted_zero : forall a l q, ssorted (a :: l) -> (q < a)%Qc -> count_le (a :: l) q = 0.
Proof.
  intros a l q Hs Hq. apply count_le_zero. constructor; [exact Hq|].
  eapply Forall_impl; [|exact (ssorted_head_lt l a Hs)]. cbn beta. intros c Hc. qclra.
Qed.

Lemma count_lt_sorted_zero : forall a l q, ssorted (a :: l) -> (q <= a)%Qc -> count_lt (a :: l) q = 0.
Proof.
  intros a l q Hs Hq. apply count_lt_zero. constructor; [exact Hq|].
  eapply Forall_impl; [|exact (ssorted_head_lt l a Hs)]. cbn beta. intros c Hc. qclra.
Qed.

Lemma Forall_nth_q : forall (P : Qc -> Prop) l i, Forall P l -> (i < length l)%nat -> P (nthq i l).
Proof.
  intros P l i H Hi. unfold nthq. rewrite Forall_forall in H. apply H. apply nth_In. exact Hi.
Qed.

(** key lemma: on a sorted list, element i is <= q iff i < count_le *)
Lemma nth_le_count : forall x q i, ssorted x -> (i < length x)%nat ->
  ((nthq i x <= q)%Qc <-> Z.of_nat i < count_le x q).
Proof.
  induction x as [|a x IH]; intros q i Hs Hi; cbn [length] in Hi; [lia|].
  pose proof (count_le_bounds x q) as Hb.
  qc_case (Qc_leb a q).
  - cbn [count_le]. rewrite (proj2 (Qc_leb_true a q) Hle). destruct i as [|i].
    + unfold nthq; cbn [nth]. split; intros; [lia|exact Hle].
    + unfold nthq; cbn [nth]. fold (nthq i x).
      rewrite (IH q i (ssorted_tail _ _ Hs)) by lia. lia.
  - rewrite (count_le_sorted_zero a x q Hs Hle). split; [|lia].
    intros H. exfalso. destruct i as [|i].
    + unfold nthq in H; cbn [nth] in H. qclra.
    + unfold nthq in H; cbn [nth] in H. fold (nthq i x) in H.
      pose proof (Forall_nth_q _ x i (ssorted_head_lt x a Hs)) as Hn. cbn beta in Hn.
      assert (Hi' : (i < length x)%nat) by lia. specialize (Hn Hi'). qclra.
Qed.

Lemma nth_lt_count : forall x q i, ssorted x -> (i < length x)%nat ->
  ((nthq i x < q)%Qc <-> Z.of_nat i < count_lt x q).
Proof.
  induction x as [|a x IH]; intros q i Hs Hi; cbn [length] in Hi; [lia|].
  pose proof (count_lt_bounds x q) as Hb.
  qc_case (Qc_ltb a q).
  - cbn [count_lt]. rewrite (proj2 (Qc_ltb_true a q) Hlt). destruct i as [|i].
    + unfold nthq; cbn [nth]. split; intros; [lia|exact Hlt].
    + unfold nthq; cbn [nth]. fold (nthq i x).
      rewrite (IH q i (ssorted_tail _ _ Hs)) by lia. lia.
  - rewrite (count_lt_sorted_zero a x q Hs Hlt). split; [|lia].
    intros H. exfalso. destruct i as [|i].
    + unfold nthq in H; cbn [nth] in H. qclra.
    + unfold nthq in H; cbn [nth] in H. fold (nthq i x) in H.
      pose proof (Forall_nth_q _ x i (ssorted_head_lt x a Hs)) as Hn. cbn beta in Hn.
      assert (Hi' : (i < length x)%nat) by lia. specialize (Hn Hi'). qclra.
Qed.

Lemma nth_mono : forall x i j, ssorted x -> (i < j)%nat -> (j < length x)%nat ->
  (nthq i x < nthq j x)%Qc.
Proof.
  induction x as [|a x IH]; intros i j Hs Hij Hj; cbn [length] in Hj; [lia|].
  destruct j as [|j]; [lia|]. destruct i as [|i].
  - unfold nthq; cbn [nth]. fold (nthq j x).
    pose proof (Forall_nth_q _ x j (ssorted_head_lt x a Hs)) as Hn. cbn beta in Hn.
    apply Hn. lia.
  - unfold nthq; cbn [nth]. fold (nthq i x) (nthq j x).
    apply IH; [exact (ssorted_tail _ _ Hs)|lia|lia].
Qed.

(** ---------- lower scan ---------- *)

Lemma adv_le_spec : forall xs idx q xs' idx',
  ssorted xs -> adv_le xs idx q = (xs', idx') ->
  exists p, xs = p ++ xs' /\ idx' = idx + Z.of_nat (length p) /\
            Forall (fun a => (a <= q)%Qc) p /\ count_le xs' q = 0.
Proof.
  induction xs as [|xn xs IH]; intros idx q xs' idx' Hs H; cbn [adv_le] in H.
  - inversion H; subst. exists []. cbn. repeat split; [lia|constructor].
  - qc_case (Qc_leb xn q).
    + destruct (IH _ _ _ _ (ssorted_tail _ _ Hs) H) as (p & Hp & Hi & Hf & Hc).
      exists (xn :: p). cbn [app length]. rewrite <- Hp.
      repeat split; [lia|constructor; assumption|exact Hc].
    + inversion H; subst. exists []. cbn [app length].
      repeat split; [lia|constructor|apply count_le_sorted_zero; assumption].
Qed.

Lemma Forall_le_trans : forall p q q', Forall (fun a => (a <= q)%Qc) p -> (q <= q')%Qc ->
  Forall (fun a => (a <= q')%Qc) p.
Proof. intros p q q' H Hq. eapply Forall_impl; [|exact H]. cbn beta. intros a Ha. qclra. Qed.

Lemma Forall_lt_trans : forall p q q', Forall (fun a => (a < q)%Qc) p -> (q <= q')%Qc ->
  Forall (fun a => (a < q')%Qc) p.
Proof. intros p q q' H Hq. eapply Forall_impl; [|exact H]. cbn beta. intros a Ha. qclra. Qed.

Lemma lower_main_spec : forall ls xs idx, ssorted xs -> nondecr ls ->
  lower_main ls xs idx = map (fun q => idx + count_le xs q) ls.
Proof.
  induction ls as [|q ls IH]; intros xs idx Hs Hn; [reflexivity|].
  cbn [lower_main map].
  destruct (adv_le xs idx q) as [xs' idx'] eqn:E.
  destruct (adv_le_spec _ _ _ _ _ Hs E) as (p & Hp & Hi & Hf & Hc).
  assert (Hs' : ssorted xs') by (apply (ssorted_app_r p); rewrite <- Hp; exact Hs).
  rewrite (IH xs' idx' Hs' (nondecr_tail _ _ Hn)).
  f_equal.
  - rewrite Hp, count_le_app, Hc, (count_le_full p q Hf). lia.
  - apply map_ext_in. intros q' Hq'.
    pose proof (nondecr_head_le ls q Hn) as Hall. rewrite Forall_forall in Hall.
    specialize (Hall q' Hq').
    rewrite Hp, count_le_app, (count_le_full p q' (Forall_le_trans _ _ _ Hf Hall)). lia.
Qed.

Lemma lower_pre_correct : forall x0 xs fill ls, ssorted (x0 :: xs) -> nondecr ls ->
  (let '(o, r) := lower_pre x0 fill ls in o ++ lower_main r xs 0)
  = map (lower_spec (x0 :: xs) fill) ls.
Proof.
  intros x0 xs fill. induction ls as [|q ls IH]; intros Hs Hn; [reflexivity|].
  cbn [lower_pre]. qc_case (Qc_ltb q x0).
  - specialize (IH Hs (nondecr_tail _ _ Hn)).
    destruct (lower_pre x0 fill ls) as [o r]. cbn [app map]. f_equal; [|exact IH].
    unfold lower_spec. rewrite (count_le_sorted_zero x0 xs q Hs Hlt). reflexivity.
  - cbn [app]. rewrite (lower_main_spec _ _ _ (ssorted_tail _ _ Hs) Hn).
    apply map_ext_in. intros q' Hq'.
    assert (Hx : (x0 <= q')%Qc).
    { destruct Hq' as [->|Hq']; [exact Hlt|].
      pose proof (nondecr_head_le ls q Hn) as Hall. rewrite Forall_forall in Hall.
      specialize (Hall q' Hq'). qclra. }
    unfold lower_spec. cbn [count_le]. rewrite (proj2 (Qc_leb_true x0 q') Hx).
    pose proof (count_le_bounds xs q') as Hb.
    destruct (1 + count_le xs q' =? 0) eqn:E0; [apply Z.eqb_eq in E0; lia|lia].
Qed.

Theorem lower_scan_correct : forall x lookup fill,
  ssorted x -> nondecr lookup -> x <> [] -> lookup <> [] ->
  find_lower x lookup fill = Ok (map (lower_spec x fill) lookup).
Proof.
  intros x lookup fill Hs Hn Hx Hl.
  destruct x as [|x0 xs]; [congruence|]. destruct lookup as [|l0 ls]; [congruence|].
  unfold find_lower.
  pose proof (lower_pre_correct x0 xs fill (l0 :: ls) Hs Hn) as H.
  destruct (lower_pre x0 fill (l0 :: ls)) as [o r]. rewrite H. reflexivity.
Qed.

(** ---------- shared machinery for the higher / closest scans ---------- *)

Lemma nth_pred_last : forall (p : list Qc) d, p <> [] -> nth (length p - 1) p d = last p d.
Proof.
  induction p as [|a p IH]; intros d Hp; [congruence|].
  destruct p as [|b p]; [reflexivity|].
  assert (Hne : b :: p <> []) by discriminate.
  specialize (IH d Hne).
  replace (length (a :: b :: p) - 1)%nat with (S (length (b :: p) - 1))%nat
    by (cbn [length]; lia).
  exact IH.
Qed.

Lemma nthq_pred_app : forall pre xs, pre <> [] ->
  nthq (length pre - 1) (pre ++ xs) = last pre 0%Qc.
Proof.
  intros pre xs Hp. unfold nthq. rewrite app_nth1.
  - apply nth_pred_last. exact Hp.
  - destruct pre; [congruence|cbn [length]; lia].
Qed.

Lemma nthq_len_app : forall pre xn t, nthq (length pre) (pre ++ xn :: t) = xn.
Proof.
  intros pre xn t. unfold nthq. rewrite app_nth2 by lia.
  replace (length pre - length pre)%nat with 0%nat by lia. reflexivity.
Qed.

Definition head_ge (q : Qc) (xs : list Qc) : Prop :=
  match xs with [] => True | xn :: _ => (q <= xn)%Qc end.

Lemma adv_lt_inv : forall xs pre xv idx q xv' xs' idx',
  adv_lt xv xs idx q = (xv', xs', idx') ->
  pre <> [] -> xv = last pre 0%Qc -> idx = Z.of_nat (length pre) - 1 ->
  Forall (fun a => (a < q)%Qc) pre ->
  exists pre', pre ++ xs = pre' ++ xs' /\ pre' <> [] /\ xv' = last pre' 0%Qc /\
               idx' = Z.of_nat (length pre') - 1 /\
               Forall (fun a => (a < q)%Qc) pre' /\ head_ge q xs'.
Proof.
  induction xs as [|xn xs IH]; intros pre xv idx q xv' xs' idx' H Hp Hv Hi Hf;
    cbn [adv_lt] in H.
  - inversion H; subst. exists pre. repeat split; try assumption.
  - qc_case (Qc_ltb xn q).
    + destruct (IH (pre ++ [xn]) xn (idx + 1) q xv' xs' idx' H) as (pre' & Hx & R).
      * intros Hc. apply app_eq_nil in Hc. destruct Hc as [_ Hc]. discriminate.
      * rewrite last_last. reflexivity.
      * rewrite app_length. cbn [length]. lia.
      * apply Forall_app. split; [exact Hf|]. constructor; [exact Hlt|constructor].
      * exists pre'. split; [|exact R]. rewrite <- Hx, <- app_assoc. reflexivity.
    + inversion H; subst. exists pre. repeat split; try assumption.
Qed.

Lemma count_lt_split : forall pre xs q, ssorted (pre ++ xs) ->
  Forall (fun a => (a < q)%Qc) pre -> head_ge q xs ->
  count_lt (pre ++ xs) q = Z.of_nat (length pre).
Proof.
  intros pre xs q Hs Hf Hh. rewrite count_lt_app, (count_lt_full pre q Hf).
  destruct xs as [|xn t]; [cbn [count_lt]; lia|].
  rewrite (count_lt_sorted_zero xn t q (ssorted_app_r _ _ Hs) Hh). lia.
Qed.

Lemma le_pre_correct : forall x0 (f : Qc -> Z) (main : list Qc -> list Z),
  (forall q, (q <= x0)%Qc -> f q = 0) ->
  (forall r, nondecr r -> (forall q, In q r -> (x0 < q)%Qc) -> main r = map f r) ->
  forall ls, nondecr ls ->
  (let '(o, r) := le_pre x0 ls in o ++ main r) = map f ls.
Proof.
  intros x0 f main Hf0 Hmain. induction ls as [|q ls IH]; intros Hn.
  - cbn [le_pre app map]. rewrite (Hmain [] I); [reflexivity|]. intros q [].
  - cbn [le_pre]. qc_case (Qc_leb q x0).
    + specialize (IH (nondecr_tail _ _ Hn)).
      destruct (le_pre x0 ls) as [o r]. cbn [app map]. rewrite (Hf0 q Hle), IH. reflexivity.
    + cbn [app]. apply Hmain; [exact Hn|].
      intros q' [->|Hq']; [exact Hle|].
      pose proof (nondecr_head_le ls q Hn) as Hall. rewrite Forall_forall in Hall.
      specialize (Hall q' Hq'). qclra.
Qed.

(** ---------- higher scan ---------- *)

Lemma higher_spec_split : forall pre xs fill q, ssorted (pre ++ xs) -> pre <> [] ->
  Forall (fun a => (a < q)%Qc) pre -> head_ge q xs ->
  higher_spec (pre ++ xs) fill q =
  match xs with
  | [] => if fill then Z.of_nat (length pre) - 1 else Z.of_nat (length (pre ++ xs))
  | _ => Z.of_nat (length pre) - 1 + 1
  end.
Proof.
  intros pre xs fill q Hs Hp Hf Hh. unfold higher_spec.
  rewrite (count_lt_split pre xs q Hs Hf Hh).
  destruct xs as [|xn t].
  - rewrite app_nil_r. rewrite Z.eqb_refl. reflexivity.
  - rewrite app_length. cbn [length].
    destruct (Z.of_nat (length pre) =? Z.of_nat (length pre + S (length t))) eqn:E;
      [apply Z.eqb_eq in E; lia|lia].
Qed.

Lemma higher_main_spec : forall lenx fill ls pre xs xv idx,
  ssorted (pre ++ xs) -> nondecr ls -> pre <> [] ->
  lenx = Z.of_nat (length (pre ++ xs)) ->
  xv = last pre 0%Qc -> idx = Z.of_nat (length pre) - 1 ->
  (forall q, In q ls -> Forall (fun a => (a < q)%Qc) pre) ->
  higher_main lenx fill ls xv xs idx = map (higher_spec (pre ++ xs) fill) ls.
Proof.
  intros lenx fill. induction ls as [|q ls IH];
    intros pre xs xv idx Hs Hn Hp Hlen Hv Hi Hall; [reflexivity|].
  cbn [higher_main map].
  destruct (adv_lt xv xs idx q) as [[xv' xs'] idx'] eqn:E.
  destruct (adv_lt_inv _ _ _ _ _ _ _ _ E Hp Hv Hi (Hall q (or_introl eq_refl)))
    as (pre' & Hx & Hp' & Hv' & Hi' & Hf' & Hh').
  rewrite Hx in *.
  f_equal.
  - rewrite (higher_spec_split pre' xs' fill q Hs Hp' Hf' Hh').
    destruct xs' as [|xn t]; [destruct fill; lia|lia].
  - apply (IH pre' xs' xv' idx' Hs (nondecr_tail _ _ Hn) Hp' Hlen Hv' Hi').
    intros q' Hq'.
    pose proof (nondecr_head_le ls q Hn) as Hle. rewrite Forall_forall in Hle.
    exact (Forall_lt_trans _ _ _ Hf' (Hle q' Hq')).
Qed.

Theorem higher_scan_correct : forall x lookup fill,
  ssorted x -> nondecr lookup -> x <> [] -> lookup <> [] ->
  find_higher x lookup fill = Ok (map (higher_spec x fill) lookup).
Proof.
  intros x lookup fill Hs Hn Hx Hl.
  destruct x as [|x0 xs]; [congruence|]. destruct lookup as [|l0 ls]; [congruence|].
  unfold find_higher.
  pose proof (le_pre_correct x0 (higher_spec (x0 :: xs) fill)
    (fun r => higher_main (Z.of_nat (length (x0 :: xs))) fill r x0 xs 0)) as H.
  cbv beta in H.
  assert (H0 : forall q, (q <= x0)%Qc -> higher_spec (x0 :: xs) fill q = 0).
  { intros q Hq. unfold higher_spec. rewrite (count_lt_sorted_zero x0 xs q Hs Hq).
    cbn [length]. destruct (0 =? Z.of_nat (S (length xs))) eqn:E0;
      [apply Z.eqb_eq in E0; lia|reflexivity]. }
  assert (H1 : forall r, nondecr r -> (forall q, In q r -> (x0 < q)%Qc) ->
    higher_main (Z.of_nat (length (x0 :: xs))) fill r x0 xs 0
    = map (higher_spec (x0 :: xs) fill) r).
  { intros r Hr Hall.
    apply (higher_main_spec _ fill r [x0] xs x0 0); try reflexivity; try assumption.
    - discriminate.
    - intros q Hq. constructor; [exact (Hall q Hq)|constructor]. }
  specialize (H H0 H1 (l0 :: ls) Hn).
  destruct (le_pre x0 (l0 :: ls)) as [o r]. rewrite H. reflexivity.
Qed.

(** ---------- closest scan ---------- *)

Lemma closest_spec_split : forall pre xs q, ssorted (pre ++ xs) -> pre <> [] ->
  Forall (fun a => (a < q)%Qc) pre -> head_ge q xs ->
  closest_spec (pre ++ xs) q =
  match xs with
  | [] => Z.of_nat (length pre) - 1
  | xn :: _ => if Qc_leb (q - last pre 0%Qc) (xn - q)
               then Z.of_nat (length pre) - 1 else Z.of_nat (length pre) - 1 + 1
  end.
Proof.
  intros pre xs q Hs Hp Hf Hh. unfold closest_spec.
  rewrite (count_lt_split pre xs q Hs Hf Hh).
  assert (Hpos : 0 < Z.of_nat (length pre)) by (destruct pre; [congruence|cbn [length]; lia]).
  destruct (Z.of_nat (length pre) =? 0) eqn:E0; [apply Z.eqb_eq in E0; lia|].
  destruct xs as [|xn t].
  - rewrite app_nil_r. rewrite Z.eqb_refl. reflexivity.
  - destruct (Z.of_nat (length pre) =? Z.of_nat (length (pre ++ xn :: t))) eqn:E;
      [apply Z.eqb_eq in E; rewrite app_length in E; cbn [length] in E; lia|].
    replace (Z.to_nat (Z.of_nat (length pre) - 1)) with (length pre - 1)%nat by lia.
    rewrite Nat2Z.id.
    rewrite (nthq_pred_app pre (xn :: t) Hp), nthq_len_app.
    destruct (Qc_leb (q - last pre 0%Qc) (xn - q)); lia.
Qed.

Lemma closest_main_spec : forall ls pre xs xv idx,
  ssorted (pre ++ xs) -> nondecr ls -> pre <> [] ->
  xv = last pre 0%Qc -> idx = Z.of_nat (length pre) - 1 ->
  (forall q, In q ls -> Forall (fun a => (a < q)%Qc) pre) ->
  closest_main ls xv xs idx = map (closest_spec (pre ++ xs)) ls.
Proof.
  induction ls as [|q ls IH];
    intros pre xs xv idx Hs Hn Hp Hv Hi Hall; [reflexivity|].
  cbn [closest_main map].
  destruct (adv_lt xv xs idx q) as [[xv' xs'] idx'] eqn:E.
  destruct (adv_lt_inv _ _ _ _ _ _ _ _ E Hp Hv Hi (Hall q (or_introl eq_refl)))
    as (pre' & Hx & Hp' & Hv' & Hi' & Hf' & Hh').
  rewrite Hx in *.
  f_equal.
  - rewrite (closest_spec_split pre' xs' q Hs Hp' Hf' Hh').
    destruct xs' as [|xn t]; [lia|]. rewrite <- Hv'.
    destruct (Qc_leb (q - xv') (xn - q)); lia.
  - apply (IH pre' xs' xv' idx' Hs (nondecr_tail _ _ Hn) Hp' Hv' Hi').
    intros q' Hq'.
    pose proof (nondecr_head_le ls q Hn) as Hle. rewrite Forall_forall in Hle.
    exact (Forall_lt_trans _ _ _ Hf' (Hle q' Hq')).
Qed.

Theorem closest_scan_correct : forall x lookup,
  ssorted x -> nondecr lookup -> x <> [] -> lookup <> [] ->
  find_closest x lookup = Ok (map (closest_spec x) lookup).
Proof.
  intros x lookup Hs Hn Hx Hl.
  destruct x as [|x0 xs]; [congruence|]. destruct lookup as [|l0 ls]; [congruence|].
  unfold find_closest.
  pose proof (le_pre_correct x0 (closest_spec (x0 :: xs))
    (fun r => closest_main r x0 xs 0)) as H.
  cbv beta in H.
  assert (H0 : forall q, (q <= x0)%Qc -> closest_spec (x0 :: xs) q = 0).
  { intros q Hq. unfold closest_spec. rewrite (count_lt_sorted_zero x0 xs q Hs Hq).
    reflexivity. }
  assert (H1 : forall r, nondecr r -> (forall q, In q r -> (x0 < q)%Qc) ->
    closest_main r x0 xs 0 = map (closest_spec (x0 :: xs)) r).
  { intros r Hr Hall.
    apply (closest_main_spec r [x0] xs x0 0); try reflexivity; try assumption.
    - discriminate.
    - intros q Hq. constructor; [exact (Hall q Hq)|constructor]. }
  specialize (H H0 H1 (l0 :: ls) Hn).
  destruct (le_pre x0 (l0 :: ls)) as [o r]. rewrite H. reflexivity.
Qed.

(** ---------- meaning of the per-query specifications ---------- *)

Lemma zn_le_count : forall x q i, ssorted x -> in_range i x ->
  ((zn i x <= q)%Qc <-> i < count_le x q).
Proof.
  intros x q i Hs [Hi0 Hi1]. unfold zn.
  rewrite (nth_le_count x q (Z.to_nat i) Hs) by lia.
  rewrite Z2Nat.id by lia. reflexivity.
Qed.

Lemma zn_lt_count : forall x q i, ssorted x -> in_range i x ->
  ((zn i x < q)%Qc <-> i < count_lt x q).
Proof.
  intros x q i Hs [Hi0 Hi1]. unfold zn.
  rewrite (nth_lt_count x q (Z.to_nat i) Hs) by lia.
  rewrite Z2Nat.id by lia. reflexivity.
Qed.

Lemma zn_mono : forall x i j, ssorted x -> in_range i x -> in_range j x -> i < j ->
  (zn i x < zn j x)%Qc.
Proof.
  intros x i j Hs [Hi0 Hi1] [Hj0 Hj1] Hij. unfold zn. apply nth_mono; [exact Hs|lia|lia].
Qed.

Theorem lower_spec_is_lower : forall x fill q,
  ssorted x -> x <> [] -> is_lower x fill q (lower_spec x fill q).
Proof.
  intros x fill q Hs Hx. unfold lower_spec, is_lower.
  pose proof (count_le_bounds x q) as Hb.
  destruct (count_le x q =? 0) eqn:E.
  - apply Z.eqb_eq in E. right. split; [|reflexivity].
    intros j Hj. pose proof (zn_le_count x q j Hs Hj) as Hk.
    apply Qcnot_le_lt. intros Hc. apply Hk in Hc. unfold in_range in Hj. lia.
  - apply Z.eqb_neq in E. left.
    assert (Hr : in_range (count_le x q - 1) x) by (unfold in_range; lia).
    split; [exact Hr|]. split.
    + apply (zn_le_count x q _ Hs Hr). lia.
    + intros j Hj Hle. apply (zn_le_count x q j Hs Hj) in Hle. lia.
Qed.

Theorem higher_spec_is_higher : forall x fill q,
  ssorted x -> x <> [] -> is_higher x fill q (higher_spec x fill q).
Proof.
  intros x fill q Hs Hx. unfold higher_spec, is_higher.
  pose proof (count_lt_bounds x q) as Hb.
  destruct (count_lt x q =? Z.of_nat (length x)) eqn:E.
  - apply Z.eqb_eq in E. right. split; [|reflexivity].
    intros j Hj. apply (zn_lt_count x q j Hs Hj). unfold in_range in Hj. lia.
  - apply Z.eqb_neq in E. left.
    assert (Hr : in_range (count_lt x q) x) by (unfold in_range; lia).
    split; [exact Hr|]. split.
    + apply Qcnot_lt_le. intros Hc. apply (zn_lt_count x q _ Hs Hr) in Hc. lia.
    + intros j Hj Hle.
      destruct (Z_lt_le_dec j (count_lt x q)) as [Hlt|Hge]; [|exact Hge].
      apply (zn_lt_count x q j Hs Hj) in Hlt. exfalso. qclra.
Qed.

Ltac abs_cases :=
  unfold Qc_abs;
  repeat match goal with
  | |- context [Qc_leb ?a ?b] => qc_case (Qc_leb a b)
  end.

Ltac hide_zn :=
  repeat match goal with
  | |- context [zn ?i ?x] => let a := fresh "z" in set (a := zn i x) in *; clearbody a
  | H : context [zn ?i ?x] |- _ => let a := fresh "z" in set (a := zn i x) in *; clearbody a
  end.

Ltac closest_finish :=
  abs_cases;
  first [ left; qclra | right; split; [qclra | lia] ].

Theorem closest_spec_is_closest : forall x q,
  ssorted x -> x <> [] -> is_closest x q (closest_spec x q).
Proof.
  intros x q Hs Hx. unfold closest_spec, is_closest.
  pose proof (count_lt_bounds x q) as Hb.
  assert (Hn : 0 < Z.of_nat (length x)) by (destruct x; [congruence|cbn [length]; lia]).
  set (c := count_lt x q) in *. set (n := Z.of_nat (length x)) in *.
  assert (Hlow : forall j, in_range j x -> j < c -> (zn j x < q)%Qc).
  { intros j Hj Hjc. apply (zn_lt_count x q j Hs Hj). exact Hjc. }
  assert (Hhigh : forall j, in_range j x -> c <= j -> (q <= zn j x)%Qc).
  { intros j Hj Hjc. apply Qcnot_lt_le. intros Hc.
    apply (zn_lt_count x q j Hs Hj) in Hc. fold c in Hc. lia. }
  destruct (c =? 0) eqn:E0.
  { apply Z.eqb_eq in E0.
    assert (Hr : in_range 0 x) by (unfold in_range; fold n; lia).
    split; [exact Hr|]. intros j Hj.
    pose proof (Hhigh 0 Hr ltac:(lia)) as H0.
    destruct (Z.eq_dec j 0) as [->|Hne].
    - right. split; [reflexivity|lia].
    - assert (Hj0 : 0 < j) by (unfold in_range in Hj; lia).
      pose proof (zn_mono x 0 j Hs Hr Hj Hj0) as Hm.
      clear Hlow Hhigh. hide_zn. closest_finish. }
  apply Z.eqb_neq in E0.
  destruct (c =? n) eqn:En.
  { apply Z.eqb_eq in En.
    assert (Hr : in_range (n - 1) x) by (unfold in_range; fold n; lia).
    split; [exact Hr|]. intros j Hj.
    pose proof (Hlow (n - 1) Hr ltac:(lia)) as H0.
    destruct (Z.eq_dec j (n - 1)) as [->|Hne].
    - right. split; [reflexivity|lia].
    - assert (Hj0 : j < n - 1) by (unfold in_range in Hj; fold n in Hj; lia).
      pose proof (zn_mono x j (n - 1) Hs Hj Hr Hj0) as Hm.
      clear Hlow Hhigh. hide_zn. closest_finish. }
  apply Z.eqb_neq in En.
  assert (Hr1 : in_range (c - 1) x) by (unfold in_range; fold n; lia).
  assert (Hr2 : in_range c x) by (unfold in_range; fold n; lia).
  pose proof (Hlow (c - 1) Hr1 ltac:(lia)) as Hlo.
  pose proof (Hhigh c Hr2 ltac:(lia)) as Hhi.
  fold (zn (c - 1) x) (zn c x).
  assert (Hcmp : forall j, in_range j x ->
     (j < c - 1 /\ (zn j x < zn (c - 1) x)%Qc) \/ j = c - 1 \/ j = c \/
     (c < j /\ (zn c x < zn j x)%Qc)).
  { intros j Hj.
    destruct (Z_lt_le_dec j (c - 1)) as [H1|H1].
    - left. split; [exact H1|]. apply zn_mono; assumption.
    - destruct (Z.eq_dec j (c - 1)) as [H2|H2]; [right; left; exact H2|].
      destruct (Z.eq_dec j c) as [H3|H3]; [right; right; left; exact H3|].
      right; right; right. assert (H4 : c < j) by lia.
      split; [exact H4|]. apply zn_mono; assumption. }
  clear Hlow Hhigh.
  qc_case (Qc_leb (q - zn (c - 1) x) (zn c x - q)).
  - split; [exact Hr1|]. intros j Hj.
    destruct (Hcmp j Hj) as [[Hjc Hm]|[->|[->|[Hjc Hm]]]].
    + hide_zn. left. abs_cases; qclra.
    + right. split; [reflexivity|lia].
    + set (lo := zn (c - 1) x) in *. set (hi := zn c x) in *. clearbody lo hi.
      destruct (Qc_dec (q - lo) (hi - q)) as [[Hd|Hd]|Hd].
      * left. abs_cases; qclra.
      * exfalso. qclra.
      * right. split; [abs_cases; qclra|lia].
    + hide_zn. left. abs_cases; qclra.
  - split; [exact Hr2|]. intros j Hj.
    destruct (Hcmp j Hj) as [[Hjc Hm]|[->|[->|[Hjc Hm]]]].
    + hide_zn. left. abs_cases; qclra.
    + hide_zn. left. abs_cases; qclra.
    + right. split; [reflexivity|lia].
    + hide_zn. left. abs_cases; qclra.
Qed.

(** ---------- the characterisations pin the index ---------- *)

Theorem is_lower_unique : forall x fill q i j,
  x <> [] -> is_lower x fill q i -> is_lower x fill q j -> i = j.
Proof.
  intros x fill q i j _ Hi Hj. unfold is_lower in *.
  destruct Hi as [(Ri & Li & Mi)|(Ai & Ei)]; destruct Hj as [(Rj & Lj & Mj)|(Aj & Ej)].
  - pose proof (Mi j Rj Lj). pose proof (Mj i Ri Li). lia.
  - exfalso. specialize (Aj i Ri). qclra.
  - exfalso. specialize (Ai j Rj). qclra.
  - congruence.
Qed.

Theorem is_higher_unique : forall x fill q i j,
  x <> [] -> is_higher x fill q i -> is_higher x fill q j -> i = j.
Proof.
  intros x fill q i j _ Hi Hj. unfold is_higher in *.
  destruct Hi as [(Ri & Li & Mi)|(Ai & Ei)]; destruct Hj as [(Rj & Lj & Mj)|(Aj & Ej)].
  - pose proof (Mi j Rj Lj). pose proof (Mj i Ri Li). lia.
  - exfalso. specialize (Aj i Ri). qclra.
  - exfalso. specialize (Ai j Rj). qclra.
  - congruence.
Qed.

Theorem is_closest_unique : forall x q i j,
  is_closest x q i -> is_closest x q j -> i = j.
Proof.
  intros x q i j [Ri Hi] [Rj Hj].
  specialize (Hi j Rj). specialize (Hj i Ri).
  set (A := Qc_abs (zn i x - q)) in *. set (B := Qc_abs (zn j x - q)) in *.
  clearbody A B.
  destruct Hi as [Hi|[Hi Li]]; destruct Hj as [Hj|[Hj Lj]].
  - exfalso. qclra.
  - exfalso. qclra.
  - exfalso. qclra.
  - lia.
Qed.
