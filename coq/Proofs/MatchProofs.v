(** Proofs for C01 / C03: the integral-matching kernel, the window loop and the
    entry point of Model/Match.v. *)
From TW Require Import Model.MatchSpec Proofs.ListLemmas Proofs.ListLemmas4.
Open Scope Qc_scope.

(** ---------- constants ---------- *)

Lemma Qc_half_eq : Qc_half = / (1 + 1).
Proof. apply Qc_is_canon. reflexivity. Qed.

Lemma Qc_two_half : Qc_two * Qc_half = 1.
Proof. rewrite Qc_two_eq, Qc_half_eq. field. intro H. discriminate H. Qed.

(** ---------- 1. integer powers ---------- *)

Lemma pw_int_one : forall k, pw_int k 1 = 1.
Proof. induction k as [|k IH]; cbn [pw_int]; [reflexivity|]. rewrite IH. ring. Qed.

Lemma pw_int_range : forall k t, 0 <= t -> t <= 1 -> 0 <= pw_int k t /\ pw_int k t <= 1.
Proof.
  induction k as [|k IH]; intros t H0 H1; cbn [pw_int].
  - split; qclra.
  - destruct (IH t H0 H1) as [Ha Hb]. set (p := pw_int k t) in *. clearbody p. split; qcnra.
Qed.

Lemma pw_int_mono : forall k s t, 0 <= s -> s <= t -> t <= 1 -> pw_int k s <= pw_int k t.
Proof.
  induction k as [|k IH]; intros s t H0 Hst H1; cbn [pw_int].
  - apply Qcle_refl.
  - pose proof (IH s t H0 Hst H1) as Hm.
    assert (Hs1 : s <= 1) by qclra.
    destruct (pw_int_range k s H0 Hs1) as [Ha _].
    set (p := pw_int k s) in *. set (q := pw_int k t) in *. clearbody p q. qcnra.
Qed.

Theorem pw_int_ok : forall k, (1 <= k)%nat -> PwOk (pw_int k).
Proof.
  intros k Hk. constructor.
  - apply pw_int_one.
  - apply pw_int_range.
  - intros t H0 H1. destruct k as [|k]; [lia|]. cbn [pw_int].
    assert (H1' : t <= 1) by qclra.
    destruct (pw_int_range k t H0 H1') as [Ha Hb].
    set (p := pw_int k t) in *. clearbody p. qcnra.
  - apply pw_int_mono.
Qed.

(** ---------- 4. the displacement profile ---------- *)

Section Profile.
Variable pw : Qc -> Qc.
Hypothesis Hpw : PwOk pw.

Definition parg (a b xi : Qc) : Qc := Qc_two * Qc_abs ((b + a) * Qc_half - xi) / (b - a).

Lemma parg_mul : forall a b xi, a < b -> parg a b xi * (b - a) = Qc_two * Qc_abs ((b + a) * Qc_half - xi).
Proof. intros a b xi Hab. unfold parg. field. intro E. qclra. Qed.

Lemma parg_end_l : forall a b, a < b -> parg a b a = 1.
Proof.
  intros a b Hab. pose proof (parg_mul a b a Hab) as H. set (r := parg a b a) in *. clearbody r.
  unfold Qc_abs, Qc_two, Qc_half in H. qc_case (Qc_leb 0 ((b + a) * Q2Qc (1 # 2) - a)); qcnra.
Qed.

Lemma parg_end_r : forall a b, a < b -> parg a b b = 1.
Proof.
  intros a b Hab. pose proof (parg_mul a b b Hab) as H. set (r := parg a b b) in *. clearbody r.
  unfold Qc_abs, Qc_two, Qc_half in H. qc_case (Qc_leb 0 ((b + a) * Q2Qc (1 # 2) - b)); qcnra.
Qed.

Lemma parg_range : forall a b xi, a < b -> a <= xi -> xi <= b -> 0 <= parg a b xi /\ parg a b xi <= 1.
Proof.
  intros a b xi Hab H1 H2. pose proof (parg_mul a b xi Hab) as H. set (r := parg a b xi) in *. clearbody r.
  unfold Qc_abs, Qc_two, Qc_half in H. qc_case (Qc_leb 0 ((b + a) * Q2Qc (1 # 2) - xi)); split; qcnra.
Qed.

Lemma parg_lt1 : forall a b xi, a < b -> a < xi -> xi < b -> parg a b xi < 1.
Proof.
  intros a b xi Hab H1 H2. pose proof (parg_mul a b xi Hab) as H. set (r := parg a b xi) in *. clearbody r.
  unfold Qc_abs, Qc_two, Qc_half in H. qc_case (Qc_leb 0 ((b + a) * Q2Qc (1 # 2) - xi)); qcnra.
Qed.

Lemma parg_mono : forall a b xi xj, a < b ->
  Qc_abs ((b + a) * Qc_half - xi) <= Qc_abs ((b + a) * Qc_half - xj) -> parg a b xi <= parg a b xj.
Proof.
  intros a b xi xj Hab Hle.
  pose proof (parg_mul a b xi Hab) as Hi. pose proof (parg_mul a b xj Hab) as Hj.
  set (ri := parg a b xi) in *. set (rj := parg a b xj) in *. clearbody ri rj.
  set (Ai := Qc_abs ((b + a) * Qc_half - xi)) in *. set (Aj := Qc_abs ((b + a) * Qc_half - xj)) in *.
  clearbody Ai Aj. unfold Qc_two in *. qcnra.
Qed.

Lemma profile_parg : forall a b xi, profile pw a b xi = 1 - pw (parg a b xi).
Proof. reflexivity. Qed.

Lemma profile_end_l : forall a b, a < b -> profile pw a b a = 0.
Proof. intros a b Hab. rewrite profile_parg, parg_end_l by exact Hab. rewrite (pw_one pw Hpw). ring. Qed.

Lemma profile_end_r : forall a b, a < b -> profile pw a b b = 0.
Proof. intros a b Hab. rewrite profile_parg, parg_end_r by exact Hab. rewrite (pw_one pw Hpw). ring. Qed.

Lemma profile_nonneg : forall a b xi, a < b -> a <= xi -> xi <= b -> 0 <= profile pw a b xi.
Proof.
  intros a b xi Hab H1 H2. rewrite profile_parg.
  destruct (parg_range a b xi Hab H1 H2) as [Ha Hb].
  destruct (pw_range pw Hpw _ Ha Hb) as [_ Hc]. set (p := pw (parg a b xi)) in *. clearbody p. qclra.
Qed.

Lemma profile_pos : forall a b xi, a < b -> a < xi -> xi < b -> 0 < profile pw a b xi.
Proof.
  intros a b xi Hab H1 H2. rewrite profile_parg.
  assert (H1' : a <= xi) by qclra. assert (H2' : xi <= b) by qclra.
  destruct (parg_range a b xi Hab H1' H2') as [Ha _].
  pose proof (pw_lt1 pw Hpw _ Ha (parg_lt1 a b xi Hab H1 H2)) as Hc.
  set (p := pw (parg a b xi)) in *. clearbody p. qclra.
Qed.

Theorem profile_shape_sec : forall a b, a < b ->
  profile pw a b a = 0 /\ profile pw a b b = 0 /\
  (forall xi, a <= xi -> xi <= b -> 0 <= profile pw a b xi) /\
  (forall xi, a < xi -> xi < b -> 0 < profile pw a b xi) /\
  (forall xi xj, a <= xi -> xi <= b -> a <= xj -> xj <= b ->
     Qc_abs ((b + a) * Qc_half - xi) = Qc_abs ((b + a) * Qc_half - xj) -> profile pw a b xi = profile pw a b xj) /\
  (forall xi xj, a <= xi -> xi <= b -> a <= xj -> xj <= b ->
     Qc_abs ((b + a) * Qc_half - xi) <= Qc_abs ((b + a) * Qc_half - xj) -> profile pw a b xj <= profile pw a b xi).
Proof.
  intros a b Hab. split; [now apply profile_end_l|]. split; [now apply profile_end_r|].
  split; [intros; now apply profile_nonneg|]. split; [intros; now apply profile_pos|]. split.
  - intros xi xj _ _ _ _ E. unfold profile. rewrite E. reflexivity.
  - intros xi xj Hi1 Hi2 Hj1 Hj2 Hle. rewrite !profile_parg.
    destruct (parg_range a b xi Hab Hi1 Hi2) as [Ha _].
    destruct (parg_range a b xj Hab Hj1 Hj2) as [_ Hb].
    pose proof (pw_mono pw Hpw _ _ Ha (parg_mono a b xi xj Hab Hle) Hb) as Hm.
    set (p := pw (parg a b xi)) in *. set (q := pw (parg a b xj)) in *. clearbody p q. qclra.
Qed.

End Profile.

Theorem profile_shape : forall pw a b, PwOk pw -> a < b ->
  profile pw a b a = 0 /\ profile pw a b b = 0 /\
  (forall xi, a <= xi -> xi <= b -> 0 <= profile pw a b xi) /\
  (forall xi, a < xi -> xi < b -> 0 < profile pw a b xi) /\
  (forall xi xj, a <= xi -> xi <= b -> a <= xj -> xj <= b ->
     Qc_abs ((b + a) * Qc_half - xi) = Qc_abs ((b + a) * Qc_half - xj) -> profile pw a b xi = profile pw a b xj) /\
  (forall xi xj, a <= xi -> xi <= b -> a <= xj -> xj <= b ->
     Qc_abs ((b + a) * Qc_half - xi) <= Qc_abs ((b + a) * Qc_half - xj) -> profile pw a b xj <= profile pw a b xi).
Proof. intros pw a b Hpw Hab. now apply profile_shape_sec. Qed.

(** ---------- integration rules: unfolding, linearity, sign ---------- *)

Lemma trap_cons2 : forall x0 x1 x a0 a1 y,
  trapezoid_integral (x0 :: x1 :: x) (a0 :: a1 :: y)
  = (a0 + a1) * Qc_half * (x1 - x0) :: trapezoid_integral (x1 :: x) (a1 :: y).
Proof. reflexivity. Qed.

Lemma rect_cons2 : forall x0 x1 x a0 y,
  rectangle_integral (x0 :: x1 :: x) (a0 :: y) = a0 * (x1 - x0) :: rectangle_integral (x1 :: x) y.
Proof. reflexivity. Qed.

Lemma trap_affine : forall c d x y1 y2, length y1 = length y2 ->
  sumq (trapezoid_integral x (map2 (fun a b => c * a + d * b) y1 y2))
  = c * sumq (trapezoid_integral x y1) + d * sumq (trapezoid_integral x y2).
Proof.
  intros c d. induction x as [|x0 x IH]; intros y1 y2 Hl.
  - cbn. ring.
  - destruct x as [|x1 x]; [cbn; ring|].
    destruct y1 as [|a0 y1], y2 as [|b0 y2]; try discriminate Hl; [cbn; ring|].
    destruct y1 as [|a1 y1], y2 as [|b1 y2]; try discriminate Hl; [cbn; ring|].
    assert (Hl' : length (a1 :: y1) = length (b1 :: y2)) by (cbn [length] in *; lia).
    specialize (IH (a1 :: y1) (b1 :: y2) Hl'). cbn [map2] in IH |- *.
    rewrite !trap_cons2. cbn [sumq]. rewrite IH. ring.
Qed.

Lemma rect_affine : forall c d x y1 y2, length y1 = length y2 ->
  sumq (rectangle_integral x (map2 (fun a b => c * a + d * b) y1 y2))
  = c * sumq (rectangle_integral x y1) + d * sumq (rectangle_integral x y2).
Proof.
  intros c d. induction x as [|x0 x IH]; intros y1 y2 Hl.
  - cbn. ring.
  - destruct x as [|x1 x]; [cbn; ring|].
    destruct y1 as [|a0 y1], y2 as [|b0 y2]; try discriminate Hl; [cbn; ring|].
    assert (Hl' : length y1 = length y2) by (cbn [length] in *; lia).
    specialize (IH y1 y2 Hl'). cbn [map2].
    rewrite !rect_cons2. cbn [sumq]. rewrite IH. ring.
Qed.

Lemma total_affine : forall r c d x y1 y2, length y1 = length y2 ->
  total r x (map2 (fun a b => c * a + d * b) y1 y2) = c * total r x y1 + d * total r x y2.
Proof.
  intros r c d x y1 y2 Hl. unfold total, integ.
  destruct r; [now apply trap_affine|now apply rect_affine|now apply rect_affine].
Qed.

Lemma wsum_trap_total : forall x w, wsum_trap w x = Qc_two * sumq (trapezoid_integral x w).
Proof.
  induction x as [|x0 x IH]; intros w.
  - destruct w as [|w0 [|w1 w]]; cbn; ring.
  - destruct x as [|x1 x]; [destruct w as [|w0 [|w1 w]]; cbn; ring|].
    destruct w as [|w0 w]; [cbn; ring|]. destruct w as [|w1 w]; [cbn; ring|].
    rewrite trap_cons2. cbn [sumq].
    change (wsum_trap (w0 :: w1 :: w) (x0 :: x1 :: x)) with ((w1 + w0) * (x1 - x0) + wsum_trap (w1 :: w) (x1 :: x)).
    rewrite IH.
    transitivity ((w1 + w0) * (x1 - x0) * (Qc_two * Qc_half) + Qc_two * sumq (trapezoid_integral (x1 :: x) (w1 :: w))).
    + rewrite Qc_two_half. ring.
    + ring.
Qed.

Lemma wsum_rect_total : forall x w, wsum_rect w x = sumq (rectangle_integral x w).
Proof.
  induction x as [|x0 x IH]; intros w.
  - destruct w as [|w0 w]; reflexivity.
  - destruct x as [|x1 x]; [destruct w as [|w0 w]; reflexivity|].
    destruct w as [|w0 w]; [reflexivity|].
    rewrite rect_cons2. cbn [sumq].
    change (wsum_rect (w0 :: w) (x0 :: x1 :: x)) with (w0 * (x1 - x0) + wsum_rect w (x1 :: x)).
    now rewrite IH.
Qed.

Lemma trap_nonneg : forall x w, ssorted x -> Forall (fun v => 0 <= v) w ->
  0 <= sumq (trapezoid_integral x w).
Proof.
  induction x as [|x0 x IH]; intros w Hs Hw.
  - cbn. apply Qcle_refl.
  - destruct x as [|x1 x]; [cbn; apply Qcle_refl|].
    destruct w as [|w0 w]; [cbn; apply Qcle_refl|]. destruct w as [|w1 w]; [cbn; apply Qcle_refl|].
    rewrite trap_cons2. cbn [sumq].
    destruct Hs as [H01 Hs]. inversion Hw as [|? ? Hw0 Hw']; subst.
    pose proof (IH (w1 :: w) Hs Hw') as Hr.
    inversion Hw' as [|? ? Hw1 _]; subst.
    set (R := sumq (trapezoid_integral (x1 :: x) (w1 :: w))) in *. clearbody R.
    unfold Qc_half. qcnra.
Qed.

Lemma rect_nonneg : forall x w, ssorted x -> Forall (fun v => 0 <= v) w ->
  0 <= sumq (rectangle_integral x w).
Proof.
  induction x as [|x0 x IH]; intros w Hs Hw.
  - cbn. apply Qcle_refl.
  - destruct x as [|x1 x]; [cbn; apply Qcle_refl|].
    destruct w as [|w0 w]; [cbn; apply Qcle_refl|].
    rewrite rect_cons2. cbn [sumq].
    destruct Hs as [H01 Hs]. inversion Hw as [|? ? Hw0 Hw']; subst.
    pose proof (IH w Hs Hw') as Hr.
    set (R := sumq (rectangle_integral (x1 :: x) w)) in *. clearbody R. qcnra.
Qed.

(** with at least three abscissae and a positive second weight the sums are positive *)
Lemma trap_pos : forall x0 x1 x w0 w1 w, ssorted (x0 :: x1 :: x) -> Forall (fun v => 0 <= v) (w0 :: w1 :: w) ->
  0 < w1 -> 0 < sumq (trapezoid_integral (x0 :: x1 :: x) (w0 :: w1 :: w)).
Proof.
  intros x0 x1 x w0 w1 w Hs Hw H1. rewrite trap_cons2. cbn [sumq].
  destruct Hs as [H01 Hs]. inversion Hw as [|? ? Hw0 Hw']; subst.
  pose proof (trap_nonneg (x1 :: x) (w1 :: w) Hs Hw') as Hr.
  set (R := sumq (trapezoid_integral (x1 :: x) (w1 :: w))) in *. clearbody R.
  unfold Qc_half. qcnra.
Qed.

Lemma rect_pos : forall x0 x1 x2 x w0 w1 w, ssorted (x0 :: x1 :: x2 :: x) -> Forall (fun v => 0 <= v) (w0 :: w1 :: w) ->
  0 < w1 -> 0 < sumq (rectangle_integral (x0 :: x1 :: x2 :: x) (w0 :: w1 :: w)).
Proof.
  intros x0 x1 x2 x w0 w1 w Hs Hw H1. rewrite !rect_cons2. cbn [sumq].
  destruct Hs as [H01 [H12 Hs]]. inversion Hw as [|? ? Hw0 Hw']; subst. inversion Hw' as [|? ? Hw1 Hw'']; subst.
  pose proof (rect_nonneg (x2 :: x) w Hs Hw'') as Hr.
  set (R := sumq (rectangle_integral (x2 :: x) w)) in *. clearbody R. qcnra.
Qed.

(** ---------- weights ---------- *)

Lemma weights_profile : forall pw x, length x <> 2%nat ->
  weights pw x = map (profile pw (headq x) (lastq x)) x.
Proof.
  intros pw x H. unfold weights. destruct (length x =? 2)%nat eqn:E; [apply Nat.eqb_eq in E; contradiction|].
  reflexivity.
Qed.

Lemma weights_length : forall pw x, length (weights pw x) = length x.
Proof.
  intros pw x. unfold weights. destruct (length x =? 2)%nat eqn:E.
  - apply Nat.eqb_eq in E. now rewrite E.
  - apply map_length.
Qed.

Lemma ssorted_ends_lt : forall x, ssorted x -> (2 <= length x)%nat -> headq x < lastq x.
Proof.
  intros x Hs Hl. rewrite headq_nthq, lastq_nthq by (apply length_pos_not_nil; lia).
  apply ssorted_nth_lt; [exact Hs|lia|lia].
Qed.

Lemma ssorted_in_range : forall x v, ssorted x -> In v x -> headq x <= v /\ v <= lastq x.
Proof.
  intros x v Hs Hin. destruct (In_nth x v 0 Hin) as [i [Hi E]]. fold (nthq i x) in E. subst v.
  rewrite headq_nthq, lastq_nthq by (apply length_pos_not_nil; lia).
  split; apply ssorted_nth_le; try exact Hs; lia.
Qed.

Lemma weights_nonneg : forall pw x, PwOk pw -> ssorted x -> (3 <= length x)%nat ->
  Forall (fun v => 0 <= v) (weights pw x).
Proof.
  intros pw x Hpw Hs Hl. rewrite weights_profile by lia.
  apply Forall_forall. intros w Hin. apply in_map_iff in Hin. destruct Hin as [v [<- Hv]].
  destruct (ssorted_in_range x v Hs Hv) as [H1 H2].
  apply profile_nonneg; try assumption. apply ssorted_ends_lt; [exact Hs|lia].
Qed.

Lemma nthq_weights : forall pw x i, length x <> 2%nat -> (i < length x)%nat ->
  nthq i (weights pw x) = profile pw (headq x) (lastq x) (nthq i x).
Proof. intros pw x i H Hi. rewrite weights_profile by exact H. now apply nthq_map. Qed.

Lemma weights_head : forall pw x, PwOk pw -> ssorted x -> (3 <= length x)%nat -> nthq 0 (weights pw x) = 0.
Proof.
  intros pw x Hpw Hs Hl. rewrite nthq_weights by lia. rewrite <- headq_nthq.
  apply profile_end_l; [exact Hpw|]. apply ssorted_ends_lt; [exact Hs|lia].
Qed.

Lemma weights_last : forall pw x, PwOk pw -> ssorted x -> (3 <= length x)%nat ->
  nthq (length x - 1) (weights pw x) = 0.
Proof.
  intros pw x Hpw Hs Hl. rewrite nthq_weights by lia.
  rewrite <- lastq_nthq by (apply length_pos_not_nil; lia).
  apply profile_end_r; [exact Hpw|]. apply ssorted_ends_lt; [exact Hs|lia].
Qed.

Lemma weights_second_pos : forall pw x, PwOk pw -> ssorted x -> (3 <= length x)%nat ->
  0 < nthq 1 (weights pw x).
Proof.
  intros pw x Hpw Hs Hl. rewrite nthq_weights by lia.
  rewrite headq_nthq, lastq_nthq by (apply length_pos_not_nil; lia).
  apply profile_pos; [exact Hpw| | |]; apply ssorted_nth_lt; try exact Hs; lia.
Qed.

(** the normalising sums are positive *)
Lemma total_weights_pos : forall pw r x, PwOk pw -> ssorted x -> (3 <= length x)%nat ->
  0 < total r x (weights pw x).
Proof.
  intros pw r x Hpw Hs Hl.
  pose proof (weights_nonneg pw x Hpw Hs Hl) as Hnn.
  pose proof (weights_second_pos pw x Hpw Hs Hl) as H1.
  pose proof (weights_length pw x) as Hwl.
  destruct x as [|x0 [|x1 [|x2 x]]]; cbn [length] in Hl; try lia.
  destruct (weights pw (x0 :: x1 :: x2 :: x)) as [|w0 [|w1 w]]; cbn [length] in Hwl; try lia.
  rewrite nthq_cons_S, nthq_cons_0 in H1.
  unfold total, integ. destruct r; [now apply trap_pos|now apply rect_pos|now apply rect_pos].
Qed.

(** ---------- 2./3. the stretching kernel ---------- *)

Lemma stretch_length : forall pw r x y t, length x = length y -> length (stretch pw r x y t) = length y.
Proof. intros pw r x y t Hl. unfold stretch. rewrite map2_len, weights_length. lia. Qed.

Lemma nthq_stretch : forall pw r x y t i, length x = length y -> (i < length y)%nat ->
  nthq i (stretch pw r x y t) = nthq i y + y_hat pw r x y t * nthq i (weights pw x).
Proof.
  intros pw r x y t i Hl Hi. unfold stretch. rewrite nthq_map2_in; [reflexivity|exact Hi|].
  rewrite weights_length. lia.
Qed.

Theorem stretch_fixes_ends : forall pw r x y t, PwOk pw ->
  ssorted x -> (3 <= length x)%nat -> length x = length y ->
  length (stretch pw r x y t) = length y /\
  headq (stretch pw r x y t) = headq y /\ lastq (stretch pw r x y t) = lastq y.
Proof.
  intros pw r x y t Hpw Hs Hl Hxy.
  pose proof (stretch_length pw r x y t Hxy) as Hsl.
  split; [exact Hsl|]. split.
  - rewrite !headq_nthq, nthq_stretch by lia. rewrite weights_head by assumption. ring.
  - rewrite !lastq_nthq by (apply length_pos_not_nil; lia). rewrite Hsl.
    rewrite nthq_stretch by lia. rewrite <- Hxy. rewrite weights_last by assumption. ring.
Qed.

Lemma stretch_total : forall pw r x y t, length x = length y ->
  total r x (stretch pw r x y t) = total r x y + y_hat pw r x y t * total r x (weights pw x).
Proof.
  intros pw r x y t Hl. unfold stretch. set (h := y_hat pw r x y t). clearbody h.
  rewrite (map2_ext_in _ (fun a b => 1 * a + h * b)) by (intros; ring).
  rewrite total_affine by (rewrite weights_length; lia). ring.
Qed.

Theorem stretch_hits_target : forall pw r x y t, PwOk pw -> known_rule r ->
  ssorted x -> (3 <= length x)%nat -> length x = length y ->
  stretch_defined pw r x = true /\ total r x (stretch pw r x y t) = t.
Proof.
  intros pw r x y t Hpw Hr Hs Hl Hxy.
  pose proof (total_weights_pos pw r x Hpw Hs Hl) as Hpos.
  assert (Hne : total r x (weights pw x) <> 0) by (intro E; rewrite E in Hpos; exact (Qclt_not_eq _ _ Hpos eq_refl)).
  assert (Hends : negb (Qc_eqb (lastq x - headq x) 0) = true).
  { apply negb_true_iff. apply Qc_eqb_false. pose proof (ssorted_ends_lt x Hs ltac:(lia)) as He. intro E. qclra. }
  split.
  - destruct Hr as [-> | ->]; unfold stretch_defined; rewrite Hends, orb_true_r, andb_true_l;
      apply negb_true_iff; apply Qc_eqb_false.
    + rewrite wsum_trap_total. unfold total, integ in Hne. intro E.
      apply Qcmult_integral in E. destruct E as [E|E]; [discriminate E|contradiction].
    + rewrite wsum_rect_total. exact Hne.
  - rewrite stretch_total by exact Hxy. unfold y_hat.
    destruct Hr as [-> | ->].
    + rewrite wsum_trap_total. fold (integ Trapezoid x (weights pw x)). fold (total Trapezoid x (weights pw x)).
      set (W := total Trapezoid x (weights pw x)) in *. set (T := total Trapezoid x y). clearbody W T.
      rewrite Qc_two_eq. field. split; [exact Hne|intro E; discriminate E].
    + rewrite wsum_rect_total. fold (integ Rectangle x (weights pw x)). fold (total Rectangle x (weights pw x)).
      set (W := total Rectangle x (weights pw x)) in *. set (T := total Rectangle x y). clearbody W T.
      field. exact Hne.
Qed.

(** ---------- 5. the kernel is affine ---------- *)

Lemma y_hat_affine : forall pw r x y1 y2 t1 t2 c, length y1 = length y2 ->
  y_hat pw r x (map2 (fun a b => c * a + (1 - c) * b) y1 y2) (c * t1 + (1 - c) * t2)
  = c * y_hat pw r x y1 t1 + (1 - c) * y_hat pw r x y2 t2.
Proof.
  intros pw r x y1 y2 t1 t2 c Hl. unfold y_hat. rewrite total_affine by exact Hl.
  destruct r; unfold Qcdiv; ring.
Qed.

Lemma map2_affine_stretch : forall c h1 h2 (y1 y2 w : list Qc),
  map2 (fun yi wi => yi + (c * h1 + (1 - c) * h2) * wi) (map2 (fun a b => c * a + (1 - c) * b) y1 y2) w
  = map2 (fun a b => c * a + (1 - c) * b) (map2 (fun yi wi => yi + h1 * wi) y1 w) (map2 (fun yi wi => yi + h2 * wi) y2 w).
Proof.
  intros c h1 h2. induction y1 as [|a y1 IH]; intros y2 w; [reflexivity|].
  destruct y2 as [|b y2]; [cbn [map2]; now rewrite map2_nil_r|].
  destruct w as [|w0 w]; [reflexivity|].
  cbn [map2]. f_equal; [ring|apply IH].
Qed.

Theorem kernel_affine : forall pw r x y1 y2 t1 t2 c, known_rule r ->
  length y1 = length x -> length y2 = length x ->
  stretch pw r x (map2 (fun a b => c * a + (1 - c) * b) y1 y2) (c * t1 + (1 - c) * t2)
  = map2 (fun a b => c * a + (1 - c) * b) (stretch pw r x y1 t1) (stretch pw r x y2 t2).
Proof.
  intros pw r x y1 y2 t1 t2 c _ H1 H2. unfold stretch.
  rewrite y_hat_affine by congruence. apply map2_affine_stretch.
Qed.

(** ---------- index lists ---------- *)

Lemma fx_cons_S : forall a f j, fx (a :: f) (S j) = fx f j.
Proof. reflexivity. Qed.

Lemma window_cons_S : forall l a f j, window l (a :: f) (S j) = window l f j.
Proof. reflexivity. Qed.

Lemma gaps_increasing : forall f, gaps_ok f -> increasing f.
Proof.
  induction f as [|a f IH]; intros H; [exact I|].
  destruct f as [|b f]; [exact I|]. destruct H as [Hab H]. split; [lia|now apply IH].
Qed.

Lemma increasing_fx_le : forall f j, increasing f -> (j < length f)%nat -> (fx f 0 <= fx f j)%nat.
Proof.
  induction f as [|a f IH]; intros j H Hj; cbn [length] in Hj; [lia|].
  destruct j as [|j]; [lia|]. rewrite fx_cons_S.
  destruct f as [|b f]; cbn [length] in Hj; [lia|]. destruct H as [Hab H].
  specialize (IH j H ltac:(cbn [length]; lia)). unfold fx in *. cbn [nth] in IH |- *. lia.
Qed.

Lemma all_below_cons : forall a f N, all_below (a :: f) N -> (a < N)%nat /\ all_below f N.
Proof.
  intros a f N H. split; [apply H; now left|]. intros i Hi. apply H. now right.
Qed.

(** ---------- one step of the window loop ---------- *)

Definition step (pw : Qc -> Qc) (r : rule) (x y : list Qc) (s e : nat) (t : Qc) : list Qc :=
  splice y s (stretch pw r (slice x s (e + 1)) (slice y s (e + 1)) t).

Section Step.
Variable pw : Qc -> Qc.
Variable r : rule.
Variables x y : list Qc.
Variables s e : nat.
Variable t : Qc.
Hypothesis Hxy : length x = length y.
Hypothesis Hse : (s < e)%nat.
Hypothesis He : (e < length x)%nat.

Lemma step_slices_len : length (slice x s (e + 1)) = length (slice y s (e + 1)).
Proof. rewrite !slice_len. lia. Qed.

Lemma step_w_len : length (stretch pw r (slice x s (e + 1)) (slice y s (e + 1)) t) = (e + 1 - s)%nat.
Proof. rewrite stretch_length by apply step_slices_len. rewrite slice_len. lia. Qed.

Lemma step_len : length (step pw r x y s e t) = length y.
Proof. unfold step. apply splice_len. rewrite step_w_len. lia. Qed.

Lemma step_out : forall i, (i < s)%nat \/ (e < i)%nat -> nthq i (step pw r x y s e t) = nthq i y.
Proof.
  intros i [Hi|Hi]; unfold step.
  - apply nthq_splice_lt; lia.
  - apply nthq_splice_ge; [lia|]. rewrite step_w_len. lia.
Qed.

Lemma step_slice : slice (step pw r x y s e t) s (e + 1) = stretch pw r (slice x s (e + 1)) (slice y s (e + 1)) t.
Proof. unfold step. apply slice_splice_same; [lia|]. rewrite step_w_len. lia. Qed.

Hypothesis Hpw : PwOk pw.
Hypothesis Hs : ssorted x.
Hypothesis Hgap : (s + 2 <= e)%nat.

Lemma step_in : forall i, (s <= i)%nat -> (i <= e)%nat ->
  nthq i (step pw r x y s e t)
  = nthq i y + y_hat pw r (slice x s (e + 1)) (slice y s (e + 1)) t * profile pw (nthq s x) (nthq e x) (nthq i x).
Proof.
  intros i H1 H2. unfold step.
  rewrite nthq_splice_in by (try rewrite step_w_len; lia).
  rewrite nthq_stretch by (try apply step_slices_len; rewrite slice_len; lia).
  rewrite nthq_weights by (rewrite slice_len; lia).
  rewrite !nthq_slice_in by lia.
  rewrite headq_slice by lia. rewrite lastq_slice by lia.
  replace (e + 1 - 1)%nat with e by lia. replace (s + (i - s))%nat with i by lia. reflexivity.
Qed.

Lemma step_x_ends : nthq s x < nthq e x.
Proof. apply ssorted_nth_lt; [exact Hs|lia|lia]. Qed.

Lemma step_closed_out : forall i, (i <= s)%nat \/ (e <= i)%nat -> nthq i (step pw r x y s e t) = nthq i y.
Proof.
  intros i Hi.
  destruct (Nat.eq_dec i s) as [->|Hns].
  { rewrite step_in by lia. rewrite profile_end_l; [ring|exact Hpw|exact step_x_ends]. }
  destruct (Nat.eq_dec i e) as [->|Hne].
  { rewrite step_in by lia. rewrite profile_end_r; [ring|exact Hpw|exact step_x_ends]. }
  apply step_out. lia.
Qed.

Lemma step_window_sorted : ssorted (slice x s (e + 1)) /\ (3 <= length (slice x s (e + 1)))%nat.
Proof. split; [now apply ssorted_slice|]. rewrite slice_len. lia. Qed.

Lemma step_defined : known_rule r -> stretch_defined pw r (slice x s (e + 1)) = true.
Proof.
  intros Hr. destruct step_window_sorted as [H1 H2].
  exact (proj1 (stretch_hits_target pw r _ (slice y s (e + 1)) t Hpw Hr H1 H2 step_slices_len)).
Qed.

Lemma step_total : known_rule r ->
  total r (slice x s (e + 1)) (slice (step pw r x y s e t) s (e + 1)) = t.
Proof.
  intros Hr. rewrite step_slice. destruct step_window_sorted as [H1 H2].
  exact (proj2 (stretch_hits_target pw r _ (slice y s (e + 1)) t Hpw Hr H1 H2 step_slices_len)).
Qed.

End Step.

(** ---------- 6./7. the window loop ---------- *)

Lemma interval_loop_cons : forall pw r x y t ts s e f,
  interval_loop pw r x y (t :: ts) (s :: e :: f) = interval_loop pw r x (step pw r x y s e t) ts (e :: f).
Proof. reflexivity. Qed.

Lemma interval_loop_nil_t : forall pw r x y f, interval_loop pw r x y [] f = y.
Proof. reflexivity. Qed.

Lemma interval_loop_short : forall pw r x y ts, interval_loop pw r x y ts [] = y /\
  forall s, interval_loop pw r x y ts [s] = y.
Proof. intros pw r x y [|t ts]; split; reflexivity. Qed.

(** weak invariant: only samples strictly inside the union of the windows move *)
Lemma loop_outside : forall pw r x f targets y, length x = length y ->
  increasing f -> all_below f (length x) ->
  length (interval_loop pw r x y targets f) = length y /\
  forall i, (i < fx f 0)%nat \/ (fx f (length f - 1) < i)%nat ->
    nthq i (interval_loop pw r x y targets f) = nthq i y.
Proof.
  intros pw r x. induction f as [|s f IH]; intros targets y Hxy Hinc Hbel.
  { rewrite (proj1 (interval_loop_short pw r x y targets)). split; reflexivity. }
  destruct f as [|e f].
  { rewrite (proj2 (interval_loop_short pw r x y targets)). split; reflexivity. }
  destruct targets as [|t ts]; [rewrite interval_loop_nil_t; split; reflexivity|].
  rewrite interval_loop_cons. destruct Hinc as [Hse Hinc].
  destruct (all_below_cons _ _ _ Hbel) as [Hs Hbel']. destruct (all_below_cons _ _ _ Hbel') as [He _].
  pose proof (step_len pw r x y s e t Hxy Hse He) as Hlen.
  destruct (IH ts (step pw r x y s e t) ltac:(congruence) Hinc Hbel') as [IH1 IH2].
  split; [congruence|]. intros i Hi.
  pose proof (increasing_fx_le (e :: f) (length (e :: f) - 1) Hinc ltac:(cbn [length]; lia)) as Hlast.
  replace (length (s :: e :: f) - 1)%nat with (S (length (e :: f) - 1)) in Hi by (cbn [length]; lia).
  rewrite fx_cons_S in Hi. change (fx (s :: e :: f) 0) with s in Hi. change (fx (e :: f) 0) with e in *.
  rewrite IH2 by (change (fx (e :: f) 0) with e; lia).
  apply step_out; try assumption. lia.
Qed.

Section Loop.
Variable pw : Qc -> Qc.
Variable r : rule.
Variable x : list Qc.
Hypothesis Hpw : PwOk pw.
Hypothesis Hs : ssorted x.

Lemma loop_spec : forall f targets y, length x = length y -> gaps_ok f -> all_below f (length x) ->
  length (interval_loop pw r x y targets f) = length y /\
  (forall i, (i <= fx f 0)%nat -> nthq i (interval_loop pw r x y targets f) = nthq i y) /\
  (forall j, (j < length f)%nat -> nthq (fx f j) (interval_loop pw r x y targets f) = nthq (fx f j) y) /\
  (forall j, (j + 1 < length f)%nat -> (j < length targets)%nat -> known_rule r ->
     total r (window x f j) (window (interval_loop pw r x y targets f) f j) = nthq j targets) /\
  (forall j, (j + 1 < length f)%nat -> exists h,
     forall i, (fx f j <= i)%nat -> (i <= fx f (j + 1))%nat ->
       nthq i (interval_loop pw r x y targets f) - nthq i y
       = h * profile pw (nthq (fx f j) x) (nthq (fx f (j + 1)) x) (nthq i x)).
Proof.
  induction f as [|s f IH]; intros targets y Hxy Hgap Hbel.
  { rewrite (proj1 (interval_loop_short pw r x y targets)).
    repeat split; try reflexivity; cbn [length]; intros; lia. }
  destruct f as [|e f].
  { rewrite (proj2 (interval_loop_short pw r x y targets)).
    repeat split; try reflexivity; cbn [length]; intros; lia. }
  destruct targets as [|t ts].
  { rewrite interval_loop_nil_t. repeat split; try reflexivity; cbn [length]; intros; try lia.
    exists 0. intros. ring. }
  rewrite interval_loop_cons. destruct Hgap as [Hse Hgap].
  destruct (all_below_cons _ _ _ Hbel) as [Hsb Hbel']. destruct (all_below_cons _ _ _ Hbel') as [He _].
  assert (Hse' : (s < e)%nat) by lia.
  pose proof (step_len pw r x y s e t Hxy Hse' He) as Hlen.
  pose proof (step_closed_out pw r x y s e t Hxy Hse' He Hpw Hs Hse) as Hout.
  pose proof (step_in pw r x y s e t Hxy Hse' He) as Hin.
  set (y' := step pw r x y s e t) in *.
  destruct (IH ts y' ltac:(congruence) Hgap Hbel') as [IH1 [IH2 [IH3 [IH4 IH5]]]].
  set (res := interval_loop pw r x y' ts (e :: f)) in *.
  pose proof (gaps_increasing _ Hgap) as Hinc.
  change (fx (e :: f) 0) with e in IH2.
  assert (Hge : forall j, (j < length (e :: f))%nat -> (e <= fx (e :: f) j)%nat).
  { intros j Hj. exact (increasing_fx_le (e :: f) j Hinc Hj). }
  split; [congruence|]. split; [|split; [|split]].
  - intros i Hi. change (fx (s :: e :: f) 0) with s in Hi. rewrite IH2 by lia. apply Hout. lia.
  - intros [|j] Hj.
    + change (fx (s :: e :: f) 0) with s. rewrite IH2 by lia. apply Hout. lia.
    + rewrite fx_cons_S. cbn [length] in Hj. rewrite IH3 by (cbn [length]; lia).
      apply Hout. right. apply Hge. cbn [length]. lia.
  - intros [|j] Hj Hjt Hr.
    + cbn [nthq nth]. unfold window. change (fx (s :: e :: f) 0) with s. change (fx (s :: e :: f) (0 + 1)) with e.
      rewrite (slice_ext res y' s (e + 1)) by (try congruence; intros i Hi1 Hi2; apply IH2; lia).
      now apply step_total.
    + rewrite !window_cons_S. rewrite nthq_cons_S. cbn [length] in Hj, Hjt.
      apply IH4; [cbn [length]; lia|lia|exact Hr].
  - intros [|j] Hj.
    + change (fx (s :: e :: f) 0) with s. change (fx (s :: e :: f) (0 + 1)) with e.
      exists (y_hat pw r (slice x s (e + 1)) (slice y s (e + 1)) t). intros i Hi1 Hi2.
      rewrite IH2 by lia. rewrite Hin by lia. ring.
    + change (S j + 1)%nat with (S (j + 1)). rewrite !fx_cons_S. cbn [length] in Hj.
      destruct (IH5 j ltac:(cbn [length]; lia)) as [h Hh]. exists h. intros i Hi1 Hi2.
      rewrite <- (Hh i Hi1 Hi2). f_equal. symmetry. apply Hout. right.
      pose proof (Hge j ltac:(cbn [length]; lia)). lia.
Qed.

Lemma loop_defined : known_rule r -> forall f targets, gaps_ok f -> all_below f (length x) ->
  interval_defined pw r x targets f = true.
Proof.
  intros Hr. induction f as [|s f IH]; intros targets Hgap Hbel.
  { destruct targets; reflexivity. }
  destruct f as [|e f]; [destruct targets; reflexivity|].
  destruct targets as [|t ts]; [reflexivity|].
  change (interval_defined pw r x (t :: ts) (s :: e :: f))
    with (stretch_defined pw r (slice x s (e + 1)) && interval_defined pw r x ts (e :: f)).
  destruct Hgap as [Hse Hgap].
  destruct (all_below_cons _ _ _ Hbel) as [Hsb Hbel']. destruct (all_below_cons _ _ _ Hbel') as [He _].
  rewrite (IH ts Hgap Hbel'), andb_true_r.
  apply (step_defined pw r x x s e 0 eq_refl ltac:(lia) He Hpw Hs Hse Hr).
Qed.

End Loop.

Lemma interval_match_known : forall pw r x y targets f res, known_rule r ->
  interval_match pw r x y targets f = Ok res -> res = interval_loop pw r x y targets f.
Proof.
  intros pw r x y targets f res [-> | ->] H; unfold interval_match in H;
    destruct (interval_defined pw _ x targets f); congruence.
Qed.

Theorem interval_windows : forall pw r x y targets f, PwOk pw -> known_rule r ->
  ssorted x -> length x = length y -> gaps_ok f -> all_below f (length x) ->
  length targets = (length f - 1)%nat ->
  exists res, interval_match pw r x y targets f = Ok res /\ length res = length y /\
    forall j, (j + 1 < length f)%nat -> total r (window x f j) (window res f j) = nthq j targets.
Proof.
  intros pw r x y targets f Hpw Hr Hs Hxy Hgap Hbel Ht.
  exists (interval_loop pw r x y targets f).
  destruct (loop_spec pw r x Hpw Hs f targets y Hxy Hgap Hbel) as [H1 [_ [_ [H4 _]]]].
  split; [|split; [exact H1|]].
  - pose proof (loop_defined pw r x Hpw Hs Hr f targets Hgap Hbel) as Hd.
    destruct Hr as [-> | ->]; unfold interval_match; rewrite Hd; reflexivity.
  - intros j Hj. apply H4; [exact Hj|lia|exact Hr].
Qed.

Theorem outside_unchanged : forall pw r x y targets f res, known_rule r ->
  length x = length y -> increasing f -> all_below f (length x) ->
  interval_match pw r x y targets f = Ok res ->
  forall i, (i < fx f 0)%nat \/ (fx f (length f - 1) < i)%nat -> nthq i res = nthq i y.
Proof.
  intros pw r x y targets f res Hr Hxy Hinc Hbel Hm i Hi.
  rewrite (interval_match_known _ _ _ _ _ _ _ Hr Hm).
  now apply (proj2 (loop_outside pw r x f targets y Hxy Hinc Hbel)).
Qed.

Theorem fixed_unchanged : forall pw r x y targets f res, PwOk pw -> known_rule r ->
  ssorted x -> length x = length y -> gaps_ok f -> all_below f (length x) ->
  interval_match pw r x y targets f = Ok res ->
  forall j, (j < length f)%nat -> nthq (fx f j) res = nthq (fx f j) y.
Proof.
  intros pw r x y targets f res Hpw Hr Hs Hxy Hgap Hbel Hm j Hj.
  rewrite (interval_match_known _ _ _ _ _ _ _ Hr Hm).
  destruct (loop_spec pw r x Hpw Hs f targets y Hxy Hgap Hbel) as [_ [_ [H3 _]]]. now apply H3.
Qed.

Theorem displacement_profile : forall pw r x y targets f res, PwOk pw -> known_rule r ->
  ssorted x -> length x = length y -> gaps_ok f -> all_below f (length x) ->
  length targets = (length f - 1)%nat ->
  interval_match pw r x y targets f = Ok res ->
  forall j, (j + 1 < length f)%nat -> exists h,
    forall i, (fx f j <= i)%nat -> (i <= fx f (j + 1))%nat ->
      nthq i res - nthq i y = h * profile pw (nthq (fx f j) x) (nthq (fx f (j + 1)) x) (nthq i x).
Proof.
  intros pw r x y targets f res Hpw Hr Hs Hxy Hgap Hbel _ Hm j Hj.
  rewrite (interval_match_known _ _ _ _ _ _ _ Hr Hm).
  destruct (loop_spec pw r x Hpw Hs f targets y Hxy Hgap Hbel) as [_ [_ [_ [_ H5]]]]. now apply H5.
Qed.

(** ---------- 8. the entry point ---------- *)

Lemma soi_length : forall a idx, length (sum_over_indices a idx) = (length idx - 1)%nat.
Proof.
  intros a. induction idx as [|i idx IH]; [reflexivity|].
  destruct idx as [|j idx]; [reflexivity|].
  change (sum_over_indices a (i :: j :: idx)) with (sumq (slice a i j) :: sum_over_indices a (j :: idx)).
  cbn [length] in *. rewrite IH. lia.
Qed.

Lemma nthq_soi : forall a idx j, (j + 1 < length idx)%nat ->
  nthq j (sum_over_indices a idx) = sumq (slice a (fx idx j) (fx idx (j + 1))).
Proof.
  intros a. induction idx as [|i idx IH]; intros j Hj; cbn [length] in Hj; [lia|].
  destruct idx as [|k idx]; cbn [length] in Hj; [lia|].
  change (sum_over_indices a (i :: k :: idx)) with (sumq (slice a i k) :: sum_over_indices a (k :: idx)).
  destruct j as [|j]; [reflexivity|].
  rewrite nthq_cons_S. change (S j + 1)%nat with (S (j + 1)). rewrite !fx_cons_S.
  apply IH. cbn [length]. lia.
Qed.

Lemma integral_known : forall x y r, known_rule r -> integral x y r = Ok (integ r x y).
Proof. intros x y r [-> | ->]; reflexivity. Qed.

(* since the repair of D11 (target rule validated first) this needs [known_rule rt]:
   for rt = UnknownRule and no window the right-hand side is [Ok y], the left one raises *)
Lemma match_ref_eq : forall pw x y xr yr m rt rr fi ridx, known_rule rt -> known_rule rr ->
  resolve_fixed x xr m = Ok (fi, ridx) ->
  match_ref pw x y xr yr m rt rr
  = interval_match pw rt x y (sum_over_indices (integ rr xr yr) ridx) fi.
Proof.
  intros pw x y xr yr m rt rr fi ridx Hrt Hrr Hres. unfold match_ref.
  destruct Hrt as [-> | ->]; rewrite Hres, (integral_known xr yr rr Hrr); reflexivity.
Qed.

Theorem match_ref_windows : forall pw x y xr yr m rt rr fi ridx, PwOk pw -> known_rule rt -> known_rule rr ->
  ssorted x -> length x = length y -> length xr = length yr ->
  resolve_fixed x xr m = Ok (fi, ridx) ->
  gaps_ok fi -> all_below fi (length x) -> length ridx = length fi ->
  exists res, match_ref pw x y xr yr m rt rr = Ok res /\ length res = length y /\
    forall j, (j + 1 < length fi)%nat ->
      total rt (window x fi j) (window res fi j) = ref_integral rr xr yr ridx j.
Proof.
  intros pw x y xr yr m rt rr fi ridx Hpw Hrt Hrr Hs Hxy _ Hres Hgap Hbel Hlen.
  rewrite (match_ref_eq pw x y xr yr m rt rr fi ridx Hrt Hrr Hres).
  destruct (interval_windows pw rt x y (sum_over_indices (integ rr xr yr) ridx) fi Hpw Hrt Hs Hxy Hgap Hbel)
    as [res [H1 [H2 H3]]].
  { rewrite soi_length. lia. }
  exists res. split; [exact H1|]. split; [exact H2|].
  intros j Hj. rewrite (H3 j Hj). unfold ref_integral. apply nthq_soi. lia.
Qed.

(** ---------- 9. idempotence ---------- *)

Lemma y_hat_zero : forall pw r x y t, total r x y = t -> y_hat pw r x y t = 0.
Proof. intros pw r x y t <-. unfold y_hat. destruct r; unfold Qcdiv; ring. Qed.

Lemma stretch_id : forall pw r x y t, length x = length y -> total r x y = t -> stretch pw r x y t = y.
Proof.
  intros pw r x y t Hl Ht. unfold stretch. rewrite (y_hat_zero pw r x y t Ht).
  apply map2_id_l; [rewrite weights_length; lia|]. intros. ring.
Qed.

Lemma loop_fixpoint : forall pw r x f targets y, length x = length y ->
  increasing f -> all_below f (length x) ->
  (forall j, (j + 1 < length f)%nat -> (j < length targets)%nat ->
     total r (window x f j) (window y f j) = nthq j targets) ->
  interval_loop pw r x y targets f = y.
Proof.
  intros pw r x. induction f as [|s f IH]; intros targets y Hxy Hinc Hbel Hw.
  { apply (proj1 (interval_loop_short pw r x y targets)). }
  destruct f as [|e f]; [apply (proj2 (interval_loop_short pw r x y targets))|].
  destruct targets as [|t ts]; [reflexivity|].
  rewrite interval_loop_cons. destruct Hinc as [Hse Hinc].
  destruct (all_below_cons _ _ _ Hbel) as [Hsb Hbel']. destruct (all_below_cons _ _ _ Hbel') as [He _].
  assert (Hstep : step pw r x y s e t = y).
  { unfold step. rewrite stretch_id.
    - apply splice_slice_id; lia.
    - rewrite !slice_len. lia.
    - apply (Hw O); cbn [length]; lia. }
  rewrite Hstep. apply IH; try assumption.
  intros j Hj Hjt. specialize (Hw (S j)). rewrite !window_cons_S, nthq_cons_S in Hw.
  apply Hw; cbn [length] in *; lia.
Qed.

Theorem match_idempotent : forall pw x y xr yr m rt rr fi ridx res, PwOk pw -> known_rule rt -> known_rule rr ->
  ssorted x -> length x = length y -> length xr = length yr ->
  resolve_fixed x xr m = Ok (fi, ridx) ->
  gaps_ok fi -> all_below fi (length x) -> length ridx = length fi ->
  match_ref pw x y xr yr m rt rr = Ok res ->
  match_ref pw x res xr yr m rt rr = Ok res.
Proof.
  intros pw x y xr yr m rt rr fi ridx res Hpw Hrt Hrr Hs Hxy Hxr Hres Hgap Hbel Hlen Hm.
  rewrite (match_ref_eq pw x y xr yr m rt rr fi ridx Hrt Hrr Hres) in Hm.
  rewrite (match_ref_eq pw x res xr yr m rt rr fi ridx Hrt Hrr Hres).
  set (T := sum_over_indices (integ rr xr yr) ridx) in *.
  destruct (interval_windows pw rt x y T fi Hpw Hrt Hs Hxy Hgap Hbel) as [res' [H1 [H2 H3]]].
  { unfold T. rewrite soi_length. lia. }
  assert (res' = res) by congruence. subst res'.
  pose proof (loop_defined pw rt x Hpw Hs Hrt fi T Hgap Hbel) as Hd.
  assert (Hloop : interval_loop pw rt x res T fi = res).
  { apply loop_fixpoint; [congruence|now apply gaps_increasing|exact Hbel|]. intros j Hj _. now apply H3. }
  destruct Hrt as [-> | ->]; unfold interval_match; rewrite Hd, Hloop; reflexivity.
Qed.

(** ---------- 10. the integral between the outermost fixed points ---------- *)

Lemma trap_len : forall x y, length (trapezoid_integral x y) = (Nat.min (length x) (length y) - 1)%nat.
Proof.
  induction x as [|x0 x IH]; intros y; [reflexivity|].
  destruct x as [|x1 x]; [destruct y as [|y0 [|y1 y]]; reflexivity|].
  destruct y as [|y0 y]; [reflexivity|]. destruct y as [|y1 y]; [reflexivity|].
  rewrite trap_cons2. cbn [length] in *. rewrite IH. cbn [length]. lia.
Qed.

Lemma trap_nth : forall x y i, (i + 1 < length x)%nat -> (i + 1 < length y)%nat ->
  nthq i (trapezoid_integral x y)
  = (nthq i y + nthq (i + 1) y) * Qc_half * (nthq (i + 1) x - nthq i x).
Proof.
  induction x as [|x0 x IH]; intros y i Hx Hy; cbn [length] in Hx; [lia|].
  destruct x as [|x1 x]; cbn [length] in Hx; [lia|].
  destruct y as [|y0 y]; cbn [length] in Hy; [lia|]. destruct y as [|y1 y]; cbn [length] in Hy; [lia|].
  rewrite trap_cons2. destruct i as [|i]; [reflexivity|].
  change (S i + 1)%nat with (S (i + 1)). rewrite !nthq_cons_S. apply IH; cbn [length]; lia.
Qed.

Lemma rect_len : forall x y, length (rectangle_integral x y) = Nat.min (length x - 1) (length y).
Proof.
  induction x as [|x0 x IH]; intros y; [reflexivity|].
  destruct x as [|x1 x]; [destruct y; reflexivity|].
  destruct y as [|y0 y]; [reflexivity|].
  rewrite rect_cons2. cbn [length] in *. rewrite IH. cbn [length]. lia.
Qed.

Lemma rect_nth : forall x y i, (i + 1 < length x)%nat -> (i < length y)%nat ->
  nthq i (rectangle_integral x y) = nthq i y * (nthq (i + 1) x - nthq i x).
Proof.
  induction x as [|x0 x IH]; intros y i Hx Hy; cbn [length] in Hx; [lia|].
  destruct x as [|x1 x]; cbn [length] in Hx; [lia|].
  destruct y as [|y0 y]; cbn [length] in Hy; [lia|].
  rewrite rect_cons2. destruct i as [|i]; [reflexivity|].
  change (S i + 1)%nat with (S (i + 1)). rewrite !nthq_cons_S. apply IH; cbn [length]; lia.
Qed.

Lemma integ_slice : forall r x y a b, length x = length y -> (a <= b)%nat -> (b < length x)%nat ->
  integ r (slice x a (b + 1)) (slice y a (b + 1)) = slice (integ r x y) a b.
Proof.
  intros r x y a b Hxy Hab Hb.
  assert (Hlx : length (slice x a (b + 1)) = (b + 1 - a)%nat) by (rewrite slice_len; lia).
  assert (Hly : length (slice y a (b + 1)) = (b + 1 - a)%nat) by (rewrite slice_len; lia).
  assert (Htrap : trapezoid_integral (slice x a (b + 1)) (slice y a (b + 1)) = slice (trapezoid_integral x y) a b).
  { apply nthq_ext.
    - rewrite slice_len, !trap_len, Hlx, Hly. lia.
    - intros i Hi. rewrite trap_len, Hlx, Hly in Hi.
      rewrite trap_nth by lia. rewrite !nthq_slice_in by lia. rewrite trap_nth by lia.
      replace (a + (i + 1))%nat with (a + i + 1)%nat by lia. reflexivity. }
  assert (Hrect : rectangle_integral (slice x a (b + 1)) (slice y a (b + 1)) = slice (rectangle_integral x y) a b).
  { apply nthq_ext.
    - rewrite slice_len, !rect_len, Hlx, Hly. lia.
    - intros i Hi. rewrite rect_len, Hlx, Hly in Hi.
      rewrite rect_nth by lia. rewrite !nthq_slice_in by lia. rewrite rect_nth by lia.
      replace (a + (i + 1))%nat with (a + i + 1)%nat by lia. reflexivity. }
  destruct r; assumption.
Qed.

Lemma soi_sum : forall a idx, increasing idx ->
  sumq (sum_over_indices a idx) = sumq (slice a (fx idx 0) (fx idx (length idx - 1))).
Proof.
  intros a. induction idx as [|i idx IH]; intros Hinc.
  { cbn [sum_over_indices length Nat.sub]. unfold fx. cbn [nth]. now rewrite slice_empty. }
  destruct idx as [|j idx].
  { cbn [sum_over_indices length Nat.sub]. unfold fx. cbn [nth]. now rewrite slice_empty. }
  change (sum_over_indices a (i :: j :: idx)) with (sumq (slice a i j) :: sum_over_indices a (j :: idx)).
  destruct Hinc as [Hij Hinc]. cbn [sumq]. rewrite (IH Hinc).
  pose proof (increasing_fx_le (j :: idx) (length (j :: idx) - 1) Hinc ltac:(cbn [length]; lia)) as Hlast.
  replace (length (i :: j :: idx) - 1)%nat with (S (length (j :: idx) - 1)) by (cbn [length]; lia).
  rewrite fx_cons_S. change (fx (i :: j :: idx) 0) with i. change (fx (j :: idx) 0) with j in *.
  symmetry. apply sumq_slice_split; lia.
Qed.

Lemma all_below_fx : forall f N j, all_below f N -> (j < length f)%nat -> (fx f j < N)%nat.
Proof. intros f N j H Hj. apply H. unfold fx. now apply nth_In. Qed.

Lemma increasing_fx_step : forall f j, increasing f -> (j + 1 < length f)%nat -> (fx f j < fx f (j + 1))%nat.
Proof.
  induction f as [|a f IH]; intros j H Hj; cbn [length] in Hj; [lia|].
  destruct f as [|b f]; cbn [length] in Hj; [lia|]. destruct H as [Hab H].
  destruct j as [|j]; [exact Hab|].
  change (S j + 1)%nat with (S (j + 1)). rewrite !fx_cons_S. apply IH; [exact H|cbn [length]; lia].
Qed.

Theorem match_ref_total : forall pw x y xr yr m rt rr fi ridx res, PwOk pw -> known_rule rt -> known_rule rr ->
  ssorted x -> length x = length y -> length xr = length yr ->
  resolve_fixed x xr m = Ok (fi, ridx) ->
  gaps_ok fi -> all_below fi (length x) -> length ridx = length fi -> increasing ridx ->
  all_below ridx (length xr) -> (2 <= length fi)%nat ->
  match_ref pw x y xr yr m rt rr = Ok res ->
  total rt (slice x (fx fi 0) (fx fi (length fi - 1) + 1)) (slice res (fx fi 0) (fx fi (length fi - 1) + 1))
  = sumq (slice (integ rr xr yr) (fx ridx 0) (fx ridx (length ridx - 1))).
Proof.
  intros pw x y xr yr m rt rr fi ridx res Hpw Hrt Hrr Hs Hxy Hxr Hres Hgap Hbel Hlen Hrinc _ H2 Hm.
  destruct (match_ref_windows pw x y xr yr m rt rr fi ridx Hpw Hrt Hrr Hs Hxy Hxr Hres Hgap Hbel Hlen)
    as [res' [H1 [Hl Hw]]].
  assert (res' = res) by congruence. subst res'.
  pose proof (gaps_increasing _ Hgap) as Hinc.
  assert (Hxres : length x = length res) by congruence.
  unfold total. rewrite integ_slice; [|exact Hxres| |].
  - rewrite <- (soi_sum _ fi Hinc), <- (soi_sum _ ridx Hrinc). f_equal.
    apply nthq_ext; [rewrite !soi_length; lia|].
    intros j Hj. rewrite soi_length in Hj. rewrite !nthq_soi by lia.
    specialize (Hw j ltac:(lia)). unfold ref_integral in Hw. rewrite <- Hw.
    unfold total, window. rewrite integ_slice; [reflexivity|exact Hxres| |].
    + pose proof (increasing_fx_step fi j Hinc ltac:(lia)). lia.
    + apply all_below_fx; [exact Hbel|lia].
  - apply increasing_fx_le; [exact Hinc|lia].
  - apply all_below_fx; [exact Hbel|lia].
Qed.

(** ---------- 11. fixed points by search strategy ---------- *)

From TW Require Import Proofs.SearchProofs.
Open Scope Qc_scope.

Lemma ssorted_nondecr' : forall l, ssorted l -> nondecr l.
Proof.
  induction l as [|a l IH]; intros H; [exact I|].
  destruct l as [|b l]; [exact I|]. destruct H as [Hab H]. split; [now apply Qclt_le_weak|now apply IH].
Qed.

Lemma memq_spec : forall v l, memq v l = true <-> In v l.
Proof.
  intros v l. unfold memq. rewrite existsb_exists. split.
  - intros [u [Hu E]]. apply Qc_eqb_true in E. now subst.
  - intros H. exists v. split; [exact H|now apply Qc_eqb_true].
Qed.

Lemma insert_sorted_in : forall u v l, In u (insert_sorted v l) <-> u = v \/ In u l.
Proof.
  intros u v. induction l as [|a l IH]; cbn [insert_sorted].
  - cbn [In]. intuition.
  - qc_case (Qc_ltb v a).
    + cbn [In]. intuition.
    + qc_case (Qc_eqb v a).
      * subst a. cbn [In]. intuition.
      * cbn [In]. rewrite IH. intuition.
Qed.

Lemma unique_in : forall u l, In u (unique l) <-> In u l.
Proof.
  intros u. induction l as [|a l IH]; [reflexivity|].
  unfold unique in *. cbn [fold_right]. rewrite insert_sorted_in, IH. cbn [In]. intuition.
Qed.

Lemma where_isin_from_in : forall x s k i,
  In i (where_isin_from k x s) <-> exists j, i = (k + j)%nat /\ (j < length x)%nat /\ In (nthq j x) s.
Proof.
  induction x as [|a x IH]; intros s k i; cbn [where_isin_from].
  - split; [intros []|]. intros [j [_ [Hj _]]]. cbn [length] in Hj. lia.
  - assert (Hrec : In i (where_isin_from (S k) x s) <->
                   exists j, i = (k + S j)%nat /\ (S j < length (a :: x))%nat /\ In (nthq (S j) (a :: x)) s).
    { rewrite IH. split; intros [j [H1 [H2 H3]]]; exists j; cbn [length] in *; rewrite ?nthq_cons_S in *;
        (split; [lia|split; [lia|assumption]]). }
    destruct (memq a s) eqn:E.
    + cbn [In]. rewrite Hrec. split.
      * intros [<-|[j H]]; [exists O|exists (S j); exact H].
        split; [lia|]. split; [cbn [length]; lia|]. rewrite nthq_cons_0. now apply memq_spec.
      * intros [[|j] [H1 H2]]; [left; lia|right; exists j; split; assumption].
    + rewrite Hrec. split.
      * intros [j H]. exists (S j). exact H.
      * intros [[|j] [H1 [H2 H3]]]; [|exists j; repeat split; assumption].
        rewrite nthq_cons_0 in H3. apply memq_spec in H3. congruence.
Qed.

Lemma increasing_cons : forall a l, (forall b, In b l -> (a < b)%nat) -> increasing l -> increasing (a :: l).
Proof. intros a [|b l] H Hl; [exact I|]. split; [apply H; now left|exact Hl]. Qed.

Lemma where_isin_from_increasing : forall x s k, increasing (where_isin_from k x s).
Proof.
  induction x as [|a x IH]; intros s k; cbn [where_isin_from]; [exact I|].
  destruct (memq a s); [|apply IH].
  apply increasing_cons; [|apply IH]. intros b Hb. apply where_isin_from_in in Hb.
  destruct Hb as [j [-> _]]. lia.
Qed.

Lemma where_isin_in : forall x s i, In i (where_isin x s) <-> (i < length x)%nat /\ In (nthq i x) s.
Proof.
  intros x s i. unfold where_isin. rewrite where_isin_from_in. split.
  - intros [j [-> H]]. exact H.
  - intros H. exists i. split; [reflexivity|exact H].
Qed.

Lemma take_in : forall x (spec : Qc -> Z) l v,
  In v (take x (map spec l)) <-> exists q, In q l /\ v = nthq (Z.to_nat (spec q)) x.
Proof.
  intros x spec l v. unfold take. rewrite map_map, in_map_iff. split; intros [q [H1 H2]]; exists q; split; auto.
Qed.

Lemma find_indices_spec : forall x s, ssorted x -> x <> [] -> s <> UnknownStrategy ->
  exists spec : Qc -> Z,
    (forall lookup, nondecr lookup -> lookup <> [] -> find_indices x lookup s true = Ok (map spec lookup)) /\
    (forall q, in_range (spec q) x).
Proof.
  intros x s Hs Hx Hk.
  assert (Hlen : (0 < Z.of_nat (length x))%Z).
  { destruct x; [congruence|]. cbn [length]. lia. }
  destruct s; [| | |congruence].
  - exists (closest_spec x). split.
    + intros lookup Hl Hn. now apply closest_scan_correct.
    + intros q. exact (proj1 (closest_spec_is_closest x q Hs Hx)).
  - exists (lower_spec x true). split.
    + intros lookup Hl Hn. now apply lower_scan_correct.
    + intros q. destruct (lower_spec_is_lower x true q Hs Hx) as [[H _]|[_ H]]; [exact H|].
      rewrite H. unfold in_range. lia.
  - exists (higher_spec x true). split.
    + intros lookup Hl Hn. now apply higher_scan_correct.
    + intros q. destruct (higher_spec_is_higher x true q Hs Hx) as [[H _]|[_ H]]; [exact H|].
      rewrite H. unfold in_range. lia.
Qed.

Theorem resolve_strategy_spec : forall x xr s fi ridx, ssorted x -> ssorted xr -> x <> [] -> xr <> [] ->
  resolve_fixed x xr (ByStrategy s) = Ok (fi, ridx) ->
  ridx = seq 0 (length xr) /\ increasing fi /\ all_below fi (length x) /\
  forall i, In i fi <-> exists q, In q xr /\ find_indices x [q] s true = Ok [Z.of_nat i].
Proof.
  intros x xr s fi ridx Hs Hsr Hx Hxr H.
  assert (Hk : s <> UnknownStrategy).
  { intros ->. unfold resolve_fixed, find_indices, bind in H. discriminate H. }
  destruct (find_indices_spec x s Hs Hx Hk) as [spec [Hfind Hrange]].
  unfold resolve_fixed in H.
  rewrite (Hfind xr (ssorted_nondecr' xr Hsr) Hxr) in H. cbn [bind] in H.
  destruct (length (where_isin x (unique (take x (map spec xr)))) =? length (unique (take x (map spec xr))))%nat;
    [|discriminate H].
  injection H as <- <-.
  split; [reflexivity|]. split; [apply where_isin_from_increasing|]. split.
  { intros i Hi. apply where_isin_in in Hi. tauto. }
  intros i. rewrite where_isin_in. split.
  - intros [Hi Hin]. apply unique_in, take_in in Hin. destruct Hin as [q [Hq E]].
    exists q. split; [exact Hq|].
    rewrite (Hfind [q] I ltac:(discriminate)). cbn [map]. do 2 f_equal.
    destruct (Hrange q) as [H0 H1].
    apply ssorted_nth_inj in E; [lia|exact Hs|exact Hi|lia].
  - intros [q [Hq E]]. rewrite (Hfind [q] I ltac:(discriminate)) in E. cbn [map] in E.
    injection E as E. destruct (Hrange q) as [H0 H1]. split; [lia|].
    apply unique_in, take_in. exists q. split; [exact Hq|]. rewrite E, Nat2Z.id. reflexivity.
Qed.
