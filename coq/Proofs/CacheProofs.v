(** Proofs for C19 (remote dataset cache).  Statements are restated in Properties/C19.v. *)
From TW Require Import Model.CacheSpec.
From Coq Require Import Lia.
Open Scope nat_scope.

(** * generic list helpers *)
Lemma Forall_nth_d : forall {A} (P : A -> Prop) (l : list A) (i : nat) (d : A),
  P d -> Forall P l -> P (nth i l d).
Proof.
  intros A P l i d Hd Hl. revert i.
  induction Hl as [|a l Ha Hl IH]; intros [|i]; cbn; auto.
Qed.

Lemma Forall_upd : forall {A} (P : A -> Prop) (l : list A) (i : nat) (v : A),
  Forall P l -> P v -> Forall P (upd l i v).
Proof.
  intros A P l i v Hl Hv. revert i.
  induction Hl as [|a l Ha Hl IH]; intros [|i]; cbn; auto.
Qed.

Section Proofs.
Variable sha : blob -> nat.
Variable parse : bool -> blob -> option data.

(** * one-step unfoldings of [run_load] *)
Lemma run_load_done : forall r fl f x evs,
  run_load sha parse r fl f (PDone x) evs = (f, Some (PDone x), evs).
Proof. intros r fl f x [|e evs]; reflexivity. Qed.

Lemma run_load_nil : forall r fl f p, run_load sha parse r fl f p [] = (f, Some p, []).
Proof. intros r fl f p; destruct p; reflexivity. Qed.

Lemma run_load_step : forall r fl f p e evs, (forall x, p <> PDone x) ->
  run_load sha parse r fl f p (e :: evs) =
  match pstep sha parse r fl f p e with
  | (f', Some p') => run_load sha parse r fl f' p' evs
  | (f', None) => (f', None, evs)
  end.
Proof.
  intros r fl f p e evs Hp. destruct p; try reflexivity.
  exfalso. eapply Hp. reflexivity.
Qed.

Lemma done_dec : forall p : pc, (exists x, p = PDone x) \/ (forall x, p <> PDone x).
Proof. intros p; destruct p; try (right; intros x; discriminate). left; eexists; reflexivity. Qed.

(** * retries *)
Lemma retries_absorbed_gen : forall r fl f b rest k n, k <= n ->
  run_load sha parse r fl f (PFetching n) (fails k ++ ENetOk b :: rest)
  = run_load sha parse r fl f (PFetched b) rest.
Proof.
  intros r fl f b rest k. induction k as [|k IH]; intros n Hk.
  - cbn [fails repeat app]. rewrite run_load_step by (intros x; discriminate). reflexivity.
  - destruct n as [|n]; [lia|].
    cbn [fails repeat app]. rewrite run_load_step by (intros x; discriminate).
    cbn [pstep]. apply (IH n). lia.
Qed.

Lemma retries_absorbed : forall r fl f k b rest, k <= n_retries fl ->
  run_load sha parse r fl f (PFetching (n_retries fl)) (fails k ++ ENetOk b :: rest)
  = run_load sha parse r fl f (PFetched b) rest.
Proof. intros r fl f k b rest Hk. apply retries_absorbed_gen. exact Hk. Qed.

Lemma retries_exhausted_gen : forall r fl f rest n,
  run_load sha parse r fl f (PFetching n) (fails (S n) ++ rest)
  = (f, Some (PDone (Raise OSError)), rest).
Proof.
  intros r fl f rest n. induction n as [|n IH].
  - cbn [fails repeat app]. rewrite run_load_step by (intros x; discriminate).
    cbn [pstep]. apply run_load_done.
  - change (fails (S (S n)) ++ rest) with (ENetFail :: (fails (S n) ++ rest)).
    rewrite run_load_step by (intros x; discriminate).
    cbn [pstep]. exact IH.
Qed.

Lemma retries_exhausted : forall r fl f rest,
  run_load sha parse r fl f (PFetching (n_retries fl)) (fails (S (n_retries fl)) ++ rest)
  = (f, Some (PDone (Raise OSError)), rest).
Proof. intros r fl f rest. apply retries_exhausted_gen. Qed.

(** * checksum gate *)
Lemma checksum_gate : forall r fl f b rest, validate_checksum fl = true -> sha b <> r_digest r ->
  run_load sha parse r fl f (PFetched b) (EStep :: rest) = (f, Some (PDone (Raise OSError)), rest).
Proof.
  intros r fl f b rest Hv Hne.
  rewrite run_load_step by (intros x; discriminate).
  cbn [pstep]. rewrite Hv.
  destruct (Nat.eqb_spec (sha b) (r_digest r)) as [He|_]; [contradiction|].
  cbn [andb negb]. apply run_load_done.
Qed.

(** * crash *)
Lemma crash_keeps_cache : forall r fl f p,
  cache (fst (pstep sha parse r fl f p ECrash)) = cache f /\ snd (pstep sha parse r fl f p ECrash) = None.
Proof. intros r fl f p. destruct p; cbn; split; reflexivity. Qed.

(** * flags table *)
Lemma flags_table : forall r fl f,
  let available := match cache f (r_slot r) with Some _ => true | None => false end in
  snd (pstep sha parse r fl f PStart EStep) =
  Some (match download_if_missing fl, download_even_if_available fl, available with
        | true, _, false => PFetching (n_retries fl)
        | true, true, true => PFetching (n_retries fl)
        | true, false, true => PReadCache
        | false, _, true => PReadCache
        | false, _, false => PDone (Raise OSError)
        end).
Proof.
  intros r fl f. cbn [pstep].
  destruct (cache f (r_slot r)); destruct (download_if_missing fl);
    destruct (download_even_if_available fl); reflexivity.
Qed.

(** * cache hit / later load *)
Lemma cache_hit_no_network : forall r gz n f d rest, cache f (r_slot r) = Some d ->
  load sha parse r (default_flags gz n) f (EStep :: EStep :: rest) = (f, Some (PDone (Ok d)), rest).
Proof.
  intros r gz n f d rest Hc. unfold load.
  rewrite run_load_step by (intros x; discriminate).
  cbn [pstep default_flags download_if_missing download_even_if_available]. rewrite Hc.
  cbn [negb andb orb].
  rewrite run_load_step by (intros x; discriminate).
  cbn [pstep]. rewrite Hc. apply run_load_done.
Qed.

Lemma later_load_succeeds : forall r gz n f k b d rest, cache f (r_slot r) = None -> k <= n ->
  sha b = r_digest r -> parse gz b = Some d ->
  load sha parse r (default_flags gz n) f (EStep :: fails k ++ ENetOk b :: EStep :: EStep :: EStep :: EStep :: EStep :: rest)
  = (fs_set f (r_slot r) d, Some (PDone (Ok d)), rest).
Proof.
  intros r gz n f k b d rest Hc Hk Hsha Hparse. unfold load.
  rewrite run_load_step by (intros x; discriminate).
  cbn [pstep default_flags download_if_missing download_even_if_available n_retries]. rewrite Hc.
  cbn [negb andb orb].
  rewrite retries_absorbed_gen by exact Hk.
  rewrite run_load_step by (intros x; discriminate).
  cbn [pstep]. change (validate_checksum (default_flags gz n)) with true.
  rewrite Hsha, Nat.eqb_refl. cbn [negb andb].
  rewrite run_load_step by (intros x; discriminate).
  cbn [pstep]. change (gzip (default_flags gz n)) with gz. rewrite Hparse.
  rewrite run_load_step by (intros x; discriminate). cbn [pstep].
  rewrite run_load_step by (intros x; discriminate). cbn [pstep].
  rewrite run_load_step by (intros x; discriminate). cbn [pstep].
  apply run_load_done.
Qed.

(** * frame and independence *)
Lemma step_frame : forall r fl f p e s, s <> r_slot r ->
  cache (fst (pstep sha parse r fl f p e)) s = cache f s.
Proof.
  intros r fl f p e s Hs.
  assert (Hset : forall d, cache (fs_set f (r_slot r) d) s = cache f s).
  { intros d. cbn [fs_set cache]. destruct (Nat.eqb_spec s (r_slot r)); [contradiction|reflexivity]. }
  destruct p as [|k|b|b|d|d|d| |x]; destruct e; cbn [pstep];
    repeat match goal with
           | |- context [if ?c then _ else _] => destruct c
           | |- context [match ?c with _ => _ end] => destruct c
           end; cbn [fst]; auto.
Qed.

Lemma pstep_indep : forall r fl f1 f2 p e, cache f1 (r_slot r) = cache f2 (r_slot r) ->
  snd (pstep sha parse r fl f1 p e) = snd (pstep sha parse r fl f2 p e) /\
  cache (fst (pstep sha parse r fl f1 p e)) (r_slot r) = cache (fst (pstep sha parse r fl f2 p e)) (r_slot r).
Proof.
  intros r fl f1 f2 p e H.
  destruct p as [|k|b|b|d|d|d| |x]; destruct e; cbn [pstep]; try rewrite H;
    repeat match goal with
           | |- context [if ?c then _ else _] => destruct c eqn:?
           | |- context [match ?c with _ => _ end] => destruct c eqn:?
           end; cbn [fst snd fs_set fs_leftover cache]; try rewrite Nat.eqb_refl;
    split; congruence.
Qed.

Lemma run_load_indep : forall r fl evs p f1 f2, cache f1 (r_slot r) = cache f2 (r_slot r) ->
  snd (fst (run_load sha parse r fl f1 p evs)) = snd (fst (run_load sha parse r fl f2 p evs)) /\
  cache (fst (fst (run_load sha parse r fl f1 p evs))) (r_slot r)
  = cache (fst (fst (run_load sha parse r fl f2 p evs))) (r_slot r).
Proof.
  intros r fl evs. induction evs as [|e evs IH]; intros p f1 f2 H.
  - rewrite !run_load_nil. cbn [fst snd]. auto.
  - destruct (done_dec p) as [[x ->]|Hp].
    + rewrite !run_load_done. cbn [fst snd]. auto.
    + rewrite !run_load_step by exact Hp.
      destruct (pstep_indep r fl f1 f2 p e H) as [Hs Hc].
      destruct (pstep sha parse r fl f1 p e) as [f1' o1].
      destruct (pstep sha parse r fl f2 p e) as [f2' o2].
      cbn [fst snd] in Hs, Hc. subst o2.
      destruct o1 as [p'|].
      * apply IH. exact Hc.
      * cbn [fst snd]. auto.
Qed.

Lemma load_independence : forall r fl f1 f2 evs, cache f1 (r_slot r) = cache f2 (r_slot r) ->
  snd (fst (load sha parse r fl f1 evs)) = snd (fst (load sha parse r fl f2 evs)) /\
  cache (fst (fst (load sha parse r fl f1 evs))) (r_slot r) = cache (fst (fst (load sha parse r fl f2 evs))) (r_slot r).
Proof. intros r fl f1 f2 evs H. unfold load. apply run_load_indep. exact H. Qed.

(** * the invariant *)
Variable digest_of : slot -> nat.

Lemma pstep_inv : forall r fl f p e,
  honest digest_of r fl -> CacheInv sha parse digest_of f -> pc_ok sha parse digest_of r fl p ->
  CacheInv sha parse digest_of (fst (pstep sha parse r fl f p e)) /\
  match snd (pstep sha parse r fl f p e) with
  | Some p' => pc_ok sha parse digest_of r fl p'
  | None => True
  end.
Proof.
  intros r fl f p e [Hd Hv] Hf Hp.
  destruct e as [|b0| |].
  4:{ destruct p; cbn [pstep fst snd]; split; auto. }
  all: destruct p as [|k|b|b|d|d|d| |x]; cbn [pstep].
  all: try (cbn [fst snd pc_ok]; split; auto; fail).
  all: try (destruct (cache f (r_slot r)) as [d0|] eqn:Hc;
            destruct (download_if_missing fl); destruct (download_even_if_available fl);
            cbn [negb andb orb fst snd pc_ok]; split; auto; fail).
  all: try (destruct k; cbn [fst snd pc_ok]; split; auto; fail).
  all: try (rewrite Hv; destruct (Nat.eqb_spec (sha b) (r_digest r)) as [He|He];
            cbn [negb andb fst snd pc_ok]; split; auto; congruence).
  all: try (destruct (parse (gzip fl) b) as [d0|] eqn:Hpa; cbn [fst snd pc_ok]; split; auto;
            exists (gzip fl), b; split; auto; fail).
  all: try (cbn [fst snd]; split; [|exact Hp];
            intros s d' Hs; cbn [fs_set cache] in Hs;
            destruct (Nat.eqb_spec s (r_slot r)) as [->|Hne];
            [inversion Hs; subst; exact Hp | apply Hf; exact Hs]).
  all: try (destruct (cache f (r_slot r)) as [d0|] eqn:Hc; cbn [fst snd pc_ok]; split; auto; fail).
Qed.

Lemma inv_gstep : forall g pe, GInv sha parse digest_of g -> GInv sha parse digest_of (gstep sha parse g pe).
Proof.
  intros [f ps] [i e] [Hf Hps]. cbn [fst snd] in Hf, Hps. unfold gstep.
  destruct (nth i ps None) as [q|] eqn:Hn; [|split; assumption].
  assert (Hq : proc_ok sha parse digest_of (Some q)).
  { rewrite <- Hn. apply Forall_nth_d; [exact I | exact Hps]. }
  destruct Hq as [Hh Hp].
  destruct (pstep_inv (p_remote q) (p_flags q) f (p_pc q) e Hh Hf Hp) as [H1 H2].
  destruct (pstep sha parse (p_remote q) (p_flags q) f (p_pc q) e) as [f' [p'|]];
    cbn [fst snd] in H1, H2; split; cbn [fst snd]; auto; apply Forall_upd; auto;
    try exact I; cbn [proc_ok p_remote p_flags p_pc]; split; assumption.
Qed.

Lemma inv_grun : forall sched g, GInv sha parse digest_of g -> GInv sha parse digest_of (grun sha parse g sched).
Proof.
  intros sched. unfold grun. induction sched as [|pe sched IH]; intros g Hg; cbn [fold_left]; auto.
  apply IH. apply inv_gstep. exact Hg.
Qed.

Lemma inv_reachable : forall f procs sched,
  CacheInv sha parse digest_of f -> Forall (fun p => exists r fl, p = fresh r fl /\ honest digest_of r fl) procs ->
  CacheInv sha parse digest_of (fst (grun sha parse (f, procs) sched)).
Proof.
  intros f procs sched Hf Hps.
  apply (inv_grun sched (f, procs)). split; cbn [fst snd]; [exact Hf|].
  eapply Forall_impl; [|exact Hps].
  intros p [r [fl [-> Hh]]]. cbn. split; auto.
Qed.

Lemma returns_verified : forall g sched i q d, GInv sha parse digest_of g ->
  nth i (snd (grun sha parse g sched)) None = Some q -> p_pc q = PDone (Ok d) ->
  verified sha parse digest_of (r_slot (p_remote q)) d.
Proof.
  intros g sched i q d Hg Hn Hpc.
  destruct (inv_grun sched g Hg) as [_ Hps].
  assert (Hq : proc_ok sha parse digest_of (Some q)).
  { rewrite <- Hn. apply Forall_nth_d; [exact I | exact Hps]. }
  destruct Hq as [_ Hp]. rewrite Hpc in Hp. exact Hp.
Qed.

End Proofs.
