(** General lemmas for the window-strategy link proofs (C05):
    [Qc_of_Z] arithmetic, [Qc_trunc] on non-negative rationals, reads/writes with
    Python flat indices ([getz] / [setz] / [write_run]), a "every writer writes the
    final value" fold lemma, and blocks of a [flat_map]. *)
From TW Require Import Model.Rfa Proofs.ListLemmas Proofs.HelpersProofs Proofs.RfaGridProofs.
Open Scope Qc_scope.

(** ---------- Qc_of_Z ---------- *)

Lemma qz_0 : Qc_of_Z 0 = 0.
Proof. apply Qc_is_canon. reflexivity. Qed.

Lemma qz_1 : Qc_of_Z 1 = 1.
Proof. apply Qc_is_canon. reflexivity. Qed.

Lemma qz_add : forall a b, Qc_of_Z (a + b) = Qc_of_Z a + Qc_of_Z b.
Proof.
  intros a b. apply Qc_is_canon. unfold Qc_of_Z.
  rewrite this_add, !this_Q2Qc, inject_Z_plus. reflexivity.
Qed.

Lemma qz_opp : forall a, Qc_of_Z (- a) = - Qc_of_Z a.
Proof.
  intros a. apply Qc_is_canon. unfold Qc_of_Z.
  rewrite this_opp, !this_Q2Qc, inject_Z_opp. reflexivity.
Qed.

Lemma qz_sub : forall a b, Qc_of_Z (a - b) = Qc_of_Z a - Qc_of_Z b.
Proof. intros a b. unfold Z.sub, Qcminus. now rewrite qz_add, qz_opp. Qed.

Lemma qz_of_nat : forall n, Qc_of_Z (Z.of_nat n) = Qc_of_nat n.
Proof. reflexivity. Qed.

Lemma qz_le : forall a b, (a <= b)%Z <-> Qc_of_Z a <= Qc_of_Z b.
Proof.
  intros a b. unfold Qc_of_Z, Qcle. rewrite !this_Q2Qc. rewrite <- Zle_Qle. reflexivity.
Qed.

Lemma qz_lt : forall a b, (a < b)%Z <-> Qc_of_Z a < Qc_of_Z b.
Proof.
  intros a b. unfold Qc_of_Z, Qclt. rewrite !this_Q2Qc. rewrite <- Zlt_Qlt. reflexivity.
Qed.

Lemma qz_inj : forall a b, Qc_of_Z a = Qc_of_Z b -> a = b.
Proof.
  intros a b H. apply Z.le_antisymm; apply qz_le; rewrite H; apply Qcle_refl.
Qed.

Lemma qz_neq0 : forall a, a <> 0%Z -> Qc_of_Z a <> 0.
Proof. intros a H E. apply H. apply qz_inj. rewrite qz_0. exact E. Qed.

Lemma qz_pos : forall a, (0 < a)%Z -> 0 < Qc_of_Z a.
Proof. intros a H. apply qz_lt in H. rewrite qz_0 in H. exact H. Qed.

Lemma qz_nonneg : forall a, (0 <= a)%Z -> 0 <= Qc_of_Z a.
Proof. intros a H. apply qz_le in H. rewrite qz_0 in H. exact H. Qed.

(** ---------- Qc_trunc on non-negative rationals ---------- *)

Lemma Qc_num_nonneg : forall v : Qc, 0 <= v -> (0 <= Qnum v)%Z.
Proof.
  intros v H. unfold Qcle, Qle in H. cbn in H. lia.
Qed.

Lemma trunc_nonneg : forall v : Qc, 0 <= v -> (0 <= Qc_trunc v)%Z.
Proof.
  intros v H. unfold Qc_trunc. apply Z.quot_pos; [now apply Qc_num_nonneg|lia].
Qed.

Lemma trunc_le : forall v : Qc, 0 <= v -> Qc_of_Z (Qc_trunc v) <= v.
Proof.
  intros v H. pose proof (Qc_num_nonneg v H) as Hn.
  unfold Qc_trunc, Qc_of_Z, Qcle. rewrite this_Q2Qc.
  rewrite Z.quot_div_nonneg by lia.
  unfold Qle, inject_Z. cbn [Qnum Qden]. rewrite Z.mul_1_r.
  rewrite Z.mul_comm. apply Z.mul_div_le. lia.
Qed.

Lemma trunc_le_Z : forall (v : Qc) a, 0 <= v -> v <= Qc_of_Z a -> (Qc_trunc v <= a)%Z.
Proof.
  intros v a H0 H. apply qz_le. eapply Qcle_trans; [now apply trunc_le|exact H].
Qed.

(** ---------- getz / setz ---------- *)

Lemma py_index_in : forall len i, (0 <= i < Z.of_nat len)%Z -> py_index len i = Some (Z.to_nat i).
Proof.
  intros len i H. unfold py_index.
  destruct (Z.leb_spec 0 i); [|lia]. destruct (Z.ltb_spec i (Z.of_nat len)); [|lia]. reflexivity.
Qed.

Lemma py_index_ge : forall len i, (Z.of_nat len <= i)%Z -> py_index len i = None.
Proof.
  intros len i H. unfold py_index.
  destruct (Z.leb_spec 0 i); [|lia]. destruct (Z.ltb_spec i (Z.of_nat len)); [lia|].
  cbn [andb]. destruct (Z.ltb_spec i 0); [lia|]. reflexivity.
Qed.

Lemma getz_in : forall l p, (0 <= p < Z.of_nat (length l))%Z -> getz l p = nthq (Z.to_nat p) l.
Proof. intros l p H. unfold getz. now rewrite py_index_in. Qed.

Lemma getz_nat : forall l p, (p < length l)%nat -> getz l (Z.of_nat p) = nthq p l.
Proof. intros l p H. rewrite getz_in by lia. now rewrite Nat2Z.id. Qed.

Lemma getz_setz : forall l i v p, (0 <= i)%Z -> (0 <= p < Z.of_nat (length l))%Z ->
  getz (setz l i v) p = if (i =? p)%Z then v else getz l p.
Proof.
  intros l i v p Hi Hp.
  destruct (Z.eqb_spec i p) as [E|E].
  - subst i. unfold setz. rewrite py_index_in by exact Hp.
    unfold getz. rewrite set_nth_length, py_index_in by exact Hp.
    apply nthq_set_nth_same. lia.
  - unfold setz. destruct (Z.lt_ge_cases i (Z.of_nat (length l))) as [Hlt|Hge].
    + rewrite py_index_in by lia. unfold getz. rewrite set_nth_length, py_index_in by exact Hp.
      apply nthq_set_nth_other. intro E'. apply E. apply Z2Nat.inj; lia.
    + now rewrite py_index_ge.
Qed.

(** ---------- runs of writes ---------- *)

Lemma fold_setz_length : forall (c : Z) (f : Z -> Qc) (l : list Z) z,
  length (fold_left (fun z i => setz z (c + i) (f i)) l z) = length z.
Proof. intros c f l z. apply fold_left_length_inv. intros z' i. apply setz_length. Qed.

Lemma fold_setz_spec : forall (c : Z) (f : Z -> Qc) len lo z p,
  (0 <= c + lo)%Z -> (0 <= p < Z.of_nat (length z))%Z ->
  getz (fold_left (fun z i => setz z (c + i) (f i)) (map (fun i => (lo + Z.of_nat i)%Z) (seq 0 len)) z) p
  = if (lo <=? p - c)%Z && (p - c <? lo + Z.of_nat len)%Z then f (p - c)%Z else getz z p.
Proof.
  intros c f len lo z p Hc Hp. induction len as [|len IH].
  - cbn [seq map fold_left].
    destruct (Z.leb_spec lo (p - c)); destruct (Z.ltb_spec (p - c) (lo + Z.of_nat 0)); cbn [andb];
      try reflexivity. lia.
  - rewrite seq_S, map_app, fold_left_app. cbn [map fold_left Nat.add].
    rewrite getz_setz; [|lia|rewrite fold_setz_length; exact Hp].
    rewrite IH.
    destruct (Z.eqb_spec (c + (lo + Z.of_nat len)) p) as [E|E].
    + destruct (Z.leb_spec lo (p - c)); [|lia].
      destruct (Z.ltb_spec (p - c) (lo + Z.of_nat (S len))); [|lia].
      cbn [andb]. f_equal. lia.
    + destruct (Z.leb_spec lo (p - c)); cbn [andb]; [|reflexivity].
      destruct (Z.ltb_spec (p - c) (lo + Z.of_nat len));
        destruct (Z.ltb_spec (p - c) (lo + Z.of_nat (S len))); try reflexivity; lia.
Qed.

Lemma write_run_spec : forall e k lo hi f z p,
  (0 <= k * en e + lo)%Z -> (0 <= p < Z.of_nat (length z))%Z ->
  getz (write_run e k lo hi f z) p
  = if (lo <=? p - k * en e)%Z && (p - k * en e <? hi)%Z then f (p - k * en e)%Z else getz z p.
Proof.
  intros e k lo hi f z p Hc Hp. unfold write_run, zrange.
  rewrite fold_setz_spec by assumption.
  destruct (Z.leb_spec lo (p - k * en e)); cbn [andb]; [|reflexivity].
  destruct (Z.ltb_spec (p - k * en e) (lo + Z.of_nat (Z.to_nat (hi - lo))));
    destruct (Z.ltb_spec (p - k * en e) hi); try reflexivity; lia.
Qed.

(** ---------- a fold of steps each of which writes the final value or nothing ---------- *)

Lemma fold_writes : forall (step : list Qc -> Z -> list Qc) (L : nat) (p : Z) (g : Qc) ks z,
  (forall k z, In k ks -> length z = L ->
     length (step z k) = L /\ (getz (step z k) p = g \/ getz (step z k) p = getz z p)) ->
  length z = L ->
  (getz z p = g \/ exists k, In k ks /\ forall z, length z = L -> getz (step z k) p = g) ->
  getz (fold_left step ks z) p = g.
Proof.
  intros step L p g ks. induction ks as [|k ks IH]; intros z Hstep Hz Hini.
  - cbn [fold_left]. destruct Hini as [H|[k [[] _]]]. exact H.
  - cbn [fold_left].
    destruct (Hstep k z (or_introl eq_refl) Hz) as [Hlen Hk].
    apply IH.
    + intros k' z' Hin Hz'. apply Hstep; [now right|exact Hz'].
    + exact Hlen.
    + destruct Hini as [H|[k0 [[E|Hin] Hk0]]].
      * left. destruct Hk as [Hk|Hk]; [exact Hk|now rewrite Hk].
      * subst k0. left. now apply Hk0.
      * right. exists k0. split; assumption.
Qed.

Lemma fold_left_ext_in : forall {A B} (f g : A -> B -> A) (l : list B) (a : A),
  (forall a b, In b l -> f a b = g a b) -> fold_left f l a = fold_left g l a.
Proof.
  intros A B f g l. induction l as [|b l IH]; intros a H; [reflexivity|].
  cbn [fold_left]. rewrite H by now left. apply IH. intros a' b' Hin. apply H. now right.
Qed.

Lemma in_zrange : forall lo hi k, In k (zrange lo hi) <-> (lo <= k < hi)%Z.
Proof.
  intros lo hi k. unfold zrange. rewrite in_map_iff. split.
  - intros [i [<- Hi]]. apply in_seq in Hi. lia.
  - intros H. exists (Z.to_nat (k - lo)). split; [lia|]. apply in_seq. lia.
Qed.

Lemma zrange_length : forall lo hi, length (zrange lo hi) = Z.to_nat (hi - lo).
Proof. intros. unfold zrange. now rewrite map_length, seq_length. Qed.

Lemma nth_map_in : forall {A B} (g : A -> B) l i d d', (i < length l)%nat ->
  nth i (map g l) d = g (nth i l d').
Proof.
  intros A B g l. induction l as [|a l IH]; intros i d d' H; [cbn [length] in H; lia|].
  destruct i as [|i]; [reflexivity|]. cbn [map nth]. apply IH. cbn [length] in H. lia.
Qed.

Lemma zrange_nth : forall lo hi i d, (i < Z.to_nat (hi - lo))%nat ->
  nth i (zrange lo hi) d = (lo + Z.of_nat i)%Z.
Proof.
  intros lo hi i d H. unfold zrange.
  rewrite (nth_map_in _ _ _ _ O) by (now rewrite seq_length).
  rewrite seq_nth by exact H. reflexivity.
Qed.

(** ---------- blocks of a flat_map ---------- *)

Lemma flat_map_block_length : forall (f : nat -> list Qc) n r s,
  (forall k, length (f k) = n) -> length (flat_map f (seq s r)) = (r * n)%nat.
Proof.
  intros f n r. induction r as [|r IH]; intros s H; [reflexivity|].
  cbn [seq flat_map]. rewrite app_length, H, IH by exact H. lia.
Qed.

Lemma flat_map_block_nth : forall (f : nat -> list Qc) n r s k i,
  (forall k, length (f k) = n) -> (k < r)%nat -> (i < n)%nat ->
  nthq (k * n + i) (flat_map f (seq s r)) = nthq i (f (s + k)%nat).
Proof.
  intros f n r. induction r as [|r IH]; intros s k i H Hk Hi; [lia|].
  cbn [seq flat_map]. destruct k as [|k].
  - cbn [Nat.mul Nat.add]. rewrite nthq_app_l by (rewrite H; exact Hi). now rewrite Nat.add_0_r.
  - replace (S k * n + i)%nat with (n + (k * n + i))%nat by lia.
    rewrite nthq_app_r_len by apply H. rewrite IH by (try assumption; lia).
    f_equal. f_equal. lia.
Qed.
