(** Properties of the closed forms of Model/RfaSpec.v used by C05:
    border values and window shapes are convex combinations of the
    neighbouring averages, the blends are monotone for convex-like and
    concave-like powers (and not for every PwOk power), piecewise constant
    strategy, constant series. *)
From TW Require Import Model.RfaSpec Proofs.ListLemmas Proofs.ListLemmas4 Proofs.MatchProofs Proofs.HelpersProofs.
Open Scope Qc_scope.

(** ---------- Qc_of_Z ---------- *)

Lemma Qc_of_Z_0 : Qc_of_Z 0 = 0.
Proof. apply Qc_is_canon. reflexivity. Qed.

Lemma Qc_of_Z_le : forall a b, (a <= b)%Z -> Qc_of_Z a <= Qc_of_Z b.
Proof. intros a b H. unfold Qc_of_Z, Qcle. rewrite !this_Q2Qc. rewrite <- Zle_Qle. exact H. Qed.

Lemma Qc_of_Z_le_iff : forall a b, Qc_of_Z a <= Qc_of_Z b <-> (a <= b)%Z.
Proof.
  intros a b. split; [|apply Qc_of_Z_le].
  unfold Qc_of_Z, Qcle. rewrite !this_Q2Qc. now rewrite <- Zle_Qle.
Qed.

Lemma Qc_of_Z_nonneg : forall a, (0 <= a)%Z -> 0 <= Qc_of_Z a.
Proof. intros a H. rewrite <- Qc_of_Z_0. now apply Qc_of_Z_le. Qed.

(** ---------- division by a non-negative number (x / 0 = 0 in Qc) ---------- *)

Lemma Qcinv_0 : / 0 = 0.
Proof. apply Qc_is_canon. reflexivity. Qed.

Lemma inv_facts : forall q, 0 <= q -> 0 <= / q /\ ((q = 0 /\ / q = 0) \/ q * / q = 1).
Proof.
  intros q Hq. destruct (Qc_eq_dec q 0) as [E|E].
  - subst q. rewrite Qcinv_0. split; [apply Qcle_refl|left; split; reflexivity].
  - assert (Hm : q * / q = 1) by (field; exact E).
    split; [|right; exact Hm].
    destruct (Qclt_le_dec (/ q) 0) as [Hn|Hn]; [|exact Hn].
    exfalso. set (iv := / q) in *. clearbody iv. qcnra.
Qed.

Lemma ratio01 : forall p q, 0 <= p -> p <= q -> 0 <= p / q /\ p / q <= 1.
Proof.
  intros p q Hp Hpq. assert (Hq : 0 <= q) by qclra.
  destruct (inv_facts q Hq) as [Hi [[E0 E1]|E]]; unfold Qcdiv.
  - rewrite E1. split; qclra.
  - set (iv := / q) in *. clearbody iv. split; qcnra.
Qed.

Lemma ratio_mono : forall p1 p2 q, p1 <= p2 -> 0 <= q -> p1 / q <= p2 / q.
Proof.
  intros p1 p2 q Hp Hq. destruct (inv_facts q Hq) as [Hi _]. unfold Qcdiv.
  set (iv := / q) in *. clearbody iv. qcnra.
Qed.

Lemma ratio_self : forall q, 0 <= q -> q / q = 1 \/ q = 0.
Proof.
  intros q Hq. destruct (inv_facts q Hq) as [_ [[E _]|E]]; [right; exact E|left; exact E].
Qed.

Lemma ratioZ01 : forall p q, (0 <= p)%Z -> (p <= q)%Z ->
  0 <= Qc_of_Z p / Qc_of_Z q /\ Qc_of_Z p / Qc_of_Z q <= 1.
Proof.
  intros p q Hp Hpq. apply ratio01; [now apply Qc_of_Z_nonneg|now apply Qc_of_Z_le].
Qed.

Lemma ratioZ_mono : forall p1 p2 q, (p1 <= p2)%Z -> (0 <= q)%Z ->
  Qc_of_Z p1 / Qc_of_Z q <= Qc_of_Z p2 / Qc_of_Z q.
Proof.
  intros p1 p2 q Hp Hq. apply ratio_mono; [now apply Qc_of_Z_le|now apply Qc_of_Z_nonneg].
Qed.

Lemma muldiv_assoc : forall a b c, a * b / c = a * (b / c).
Proof. intros. unfold Qcdiv. ring. Qed.

(** ---------- between / toward ---------- *)

Lemma between_conv : forall a b r, 0 <= r -> r <= 1 -> between a b (a + (b - a) * r).
Proof.
  intros a b r H0 H1. unfold between.
  destruct (Qclt_le_dec b a) as [H|H]; [right|left]; split; qcnra.
Qed.

Lemma between_left : forall a b, between a b a.
Proof. intros a b. unfold between. destruct (Qclt_le_dec b a) as [H|H]; [right|left]; split; qclra. Qed.

Lemma between_right : forall a b, between a b b.
Proof. intros a b. unfold between. destruct (Qclt_le_dec b a) as [H|H]; [right|left]; split; qclra. Qed.

Lemma between_trans_r : forall a b z v, between a b z -> between z b v -> between a b v.
Proof. unfold between. intros a b z v [[H1 H2]|[H1 H2]] [[H3 H4]|[H3 H4]]; [left|left|right|right]; split; qclra. Qed.

Lemma between_trans_l : forall a b z v, between a b z -> between a z v -> between a b v.
Proof. unfold between. intros a b z v [[H1 H2]|[H1 H2]] [[H3 H4]|[H3 H4]]; [left|left|right|right]; split; qclra. Qed.

(** ---------- the border value ---------- *)

Lemma dK_nonneg : forall x K, ssorted x -> (2 <= length x)%nat -> 0 <= dK x K.
Proof.
  intros x K Hs Hl. unfold dK, m.
  assert (Hle : forall i j, (i <= j)%nat -> (j < length x)%nat -> 0 <= nthq j x - nthq i x).
  { intros i j Hij Hj. pose proof (ssorted_nth_le x i j Hs Hij Hj). qclra. }
  destruct (K <=? 0)%Z eqn:E1; [apply Hle; lia|].
  destruct (Z.of_nat (length x) - 1 <? K)%Z eqn:E2; [apply Hle; lia|].
  apply Z.leb_gt in E1. apply Z.ltb_ge in E2. apply Hle; lia.
Qed.

Theorem border_between : forall x y n K ar al, ssorted x -> (2 <= length x)%nat -> (1 <= n)%nat ->
  (0 <= ar)%Z -> (0 <= al)%Z -> between (avg x y (K - 1)) (avg x y K) (border x y n K ar al).
Proof.
  intros x y n K ar al Hs Hl Hn Har Hal. unfold border.
  destruct ((ar =? 0)%Z && (al =? 0)%Z); [apply between_left|].
  cbv zeta. rewrite muldiv_assoc.
  assert (Hqn : 0 < qn n) by (apply Qc_of_nat_pos; lia).
  assert (Hiq : 0 <= / qn n) by (apply inv_facts; qclra).
  pose proof (dK_nonneg x (K - 1) Hs Hl) as Hd1. pose proof (dK_nonneg x K Hs Hl) as Hd2.
  pose proof (Qc_of_Z_nonneg ar Har) as Hqa. pose proof (Qc_of_Z_nonneg al Hal) as Hql.
  unfold Qcdiv at 2 3 4.
  set (iq := / qn n) in *. clearbody iq.
  set (d1 := dK x (K - 1)) in *. set (d2 := dK x K) in *. clearbody d1 d2.
  set (qa := Qc_of_Z ar) in *. set (ql := Qc_of_Z al) in *. clearbody qa ql.
  assert (Hwl : 0 <= qa * d1 * iq).
  { assert (H1 : 0 <= qa * d1) by qcnra. set (u := qa * d1) in *. clearbody u. qcnra. }
  assert (Hwr : 0 <= ql * d2 * iq).
  { assert (H1 : 0 <= ql * d2) by qcnra. set (u := ql * d2) in *. clearbody u. qcnra. }
  set (wl := qa * d1 * iq) in *. set (wr := ql * d2 * iq) in *. clearbody wl wr.
  destruct (ratio01 wl (wl + wr)) as [R0 R1]; [exact Hwl|qclra|].
  apply between_conv; assumption.
Qed.

(** ---------- boundedness of the linear shape ---------- *)

Theorem linear_bounded : forall x y n K i al ar z0 z1, (0 <= al)%Z -> (0 <= ar)%Z -> (al + ar <= Z.of_nat n)%Z ->
  (0 <= i)%Z -> (i < Z.of_nat n)%Z ->
  between (avg x y (K - 1)) (avg x y K) z0 -> between (avg x y K) (avg x y (K + 1)) z1 ->
  let v := shape_linear x y n K i al ar z0 z1 in
  ((i < al)%Z -> between (avg x y (K - 1)) (avg x y K) v) /\
  ((al <= i)%Z -> (i <= Z.of_nat n - ar)%Z -> v = avg x y K) /\
  ((Z.of_nat n - ar < i)%Z -> between (avg x y K) (avg x y (K + 1)) v).
Proof.
  intros x y n K i al ar z0 z1 Hal Har Hsum Hi0 Hin Hz0 Hz1. cbv zeta. unfold shape_linear.
  set (A := avg x y K) in *. set (A0 := avg x y (K - 1)) in *. set (A1 := avg x y (K + 1)) in *.
  clearbody A A0 A1. cbv zeta.
  destruct (i <? al)%Z eqn:E1; [apply Z.ltb_lt in E1|apply Z.ltb_ge in E1].
  - split; [|split]; [intros _|intros; lia|intros; lia].
    rewrite muldiv_assoc. destruct (ratioZ01 i al Hi0) as [R0 R1]; [lia|].
    apply (between_trans_r A0 A z0); [exact Hz0|]. apply between_conv; assumption.
  - destruct (i <=? Z.of_nat n - ar)%Z eqn:E2; [apply Z.leb_le in E2|apply Z.leb_gt in E2].
    + split; [|split]; [intros; lia|intros; reflexivity|intros; lia].
    + split; [|split]; [intros; lia|intros; lia|intros _].
      rewrite muldiv_assoc. destruct (ratioZ01 (i - (Z.of_nat n - ar)) ar) as [R0 R1]; [lia|lia|].
      apply (between_trans_l A A1 z1); [exact Hz1|]. apply between_conv; assumption.
Qed.

(** ---------- the blends ---------- *)

Lemma g_lin_exp_xy_flip : forall pw t, g_lin_exp_xy pw t = 1 - g_exp_lin pw (1 - t).
Proof. intros pw t. unfold g_lin_exp_xy, g_exp_lin. rewrite Qc_two_eq. ring. Qed.

Lemma g_exp_lin_range : forall pw t, PwOk pw -> 0 <= t -> t <= 1 ->
  0 <= g_exp_lin pw t /\ g_exp_lin pw t <= 1.
Proof.
  intros pw t Hpw H0 H1. unfold g_exp_lin.
  destruct (pw_range pw Hpw t H0 H1) as [Pa Pb].
  set (p := pw t) in *. clearbody p. split; qcnra.
Qed.

Theorem blend_range : forall pw t, PwOk pw -> 0 <= t -> t <= 1 ->
  0 <= g_exp_lin pw t /\ g_exp_lin pw t <= 1 /\ 0 <= g_lin_exp_xy pw t /\ g_lin_exp_xy pw t <= 1.
Proof.
  intros pw t Hpw H0 H1.
  destruct (g_exp_lin_range pw t Hpw H0 H1) as [Ga Gb].
  assert (H0' : 0 <= 1 - t) by qclra. assert (H1' : 1 - t <= 1) by qclra.
  destruct (g_exp_lin_range pw (1 - t) Hpw H0' H1') as [Fa Fb].
  rewrite g_lin_exp_xy_flip. set (f := g_exp_lin pw (1 - t)) in *. clearbody f.
  repeat split; try assumption; qclra.
Qed.

Lemma g_exp_lin_0 : forall pw, PwZero pw -> g_exp_lin pw 0 = 0.
Proof. intros pw H. unfold g_exp_lin. rewrite H. ring. Qed.

(** ---------- boundedness of the exponential shape ---------- *)

Theorem exp_bounded : forall pw x y n K i al ar bl br z0 z1, PwOk pw -> PwZero pw ->
  (0 <= al)%Z -> (0 <= ar)%Z -> (al + ar <= Z.of_nat n)%Z -> (0 <= bl)%Z -> (bl <= al)%Z -> (0 <= br)%Z -> (br <= ar)%Z ->
  (0 <= i)%Z -> (i < Z.of_nat n)%Z ->
  between (avg x y (K - 1)) (avg x y K) z0 -> between (avg x y K) (avg x y (K + 1)) z1 ->
  let v := shape_exp pw x y n K i al ar bl br z0 z1 in
  ((i < al)%Z -> between (avg x y (K - 1)) (avg x y K) v) /\
  ((al <= i)%Z -> (i <= Z.of_nat n - ar)%Z -> v = avg x y K) /\
  ((Z.of_nat n - ar < i)%Z -> between (avg x y K) (avg x y (K + 1)) v).
Proof.
  intros pw x y n K i al ar bl br z0 z1 Hpw Hpz Hal Har Hsum Hbl0 Hbl Hbr0 Hbr Hi0 Hin Hz0 Hz1.
  cbv zeta. unfold shape_exp.
  set (A := avg x y K) in *. set (A0 := avg x y (K - 1)) in *. set (A1 := avg x y (K + 1)) in *.
  clearbody A A0 A1. cbv zeta.
  set (zlb := if (bl =? 0)%Z then z0 else z0 + (A - z0) * Qc_of_Z bl / Qc_of_Z al).
  set (zrb := if (br =? 0)%Z then z1 else A + (z1 - A) * Qc_of_Z (ar - br) / Qc_of_Z ar).
  assert (Hzlb : between z0 A zlb).
  { subst zlb. destruct (bl =? 0)%Z; [apply between_left|].
    rewrite muldiv_assoc. destruct (ratioZ01 bl al Hbl0 Hbl) as [R0 R1]. apply between_conv; assumption. }
  assert (Hzrb : between A z1 zrb).
  { subst zrb. destruct (br =? 0)%Z; [apply between_right|].
    rewrite muldiv_assoc. destruct (ratioZ01 (ar - br) ar) as [R0 R1]; [lia|lia|]. apply between_conv; assumption. }
  assert (Hzrb_eq : br = ar -> (0 < ar)%Z -> zrb = A).
  { intros E Hpos. subst zrb. destruct (br =? 0)%Z eqn:E0; [apply Z.eqb_eq in E0; lia|].
    replace (ar - br)%Z with 0%Z by lia. rewrite Qc_of_Z_0. unfold Qcdiv. ring. }
  clearbody zlb zrb.
  destruct (i <? bl)%Z eqn:E1; [apply Z.ltb_lt in E1|apply Z.ltb_ge in E1].
  { split; [|split]; [intros _|intros; lia|intros; lia].
    rewrite muldiv_assoc. destruct (ratioZ01 i bl Hi0) as [R0 R1]; [lia|].
    apply (between_trans_r A0 A z0); [exact Hz0|].
    apply (between_trans_l z0 A zlb); [exact Hzlb|]. apply between_conv; assumption. }
  destruct (i <? al)%Z eqn:E2; [apply Z.ltb_lt in E2|apply Z.ltb_ge in E2].
  { split; [|split]; [intros _|intros; lia|intros; lia].
    destruct (ratioZ01 (i - bl) (al - bl)) as [R0 R1]; [lia|lia|].
    destruct (blend_range pw _ Hpw R0 R1) as [_ [_ [G0 G1]]].
    apply (between_trans_r A0 A z0); [exact Hz0|].
    apply (between_trans_r z0 A zlb); [exact Hzlb|]. apply between_conv; assumption. }
  destruct (i <? Z.of_nat n - ar)%Z eqn:E3; [apply Z.ltb_lt in E3|apply Z.ltb_ge in E3].
  { split; [|split]; [intros; lia|intros; reflexivity|intros; lia]. }
  destruct (i <? Z.of_nat n - br)%Z eqn:E4; [apply Z.ltb_lt in E4|apply Z.ltb_ge in E4].
  { split; [|split]; [intros; lia| |].
    - intros _ Hle. assert (Ei : (i - (Z.of_nat n - ar) = 0)%Z) by lia.
      rewrite Ei, Qc_of_Z_0. replace (0 / Qc_of_Z (ar - br)) with 0 by (unfold Qcdiv; ring).
      rewrite g_exp_lin_0 by exact Hpz. ring.
    - intros _. destruct (ratioZ01 (i - (Z.of_nat n - ar)) (ar - br)) as [R0 R1]; [lia|lia|].
      destruct (blend_range pw _ Hpw R0 R1) as [G0 [G1 _]].
      apply (between_trans_l A A1 z1); [exact Hz1|].
      apply (between_trans_l A z1 zrb); [exact Hzrb|]. apply between_conv; assumption. }
  split; [|split]; [intros; lia| |].
  - intros _ Hle. assert (Eb : br = ar) by lia. assert (Hpos : (0 < ar)%Z) by lia.
    rewrite (Hzrb_eq Eb Hpos). replace (i - (Z.of_nat n - br))%Z with 0%Z by lia.
    rewrite Qc_of_Z_0. unfold Qcdiv. ring.
  - intros _. rewrite muldiv_assoc.
    destruct (ratioZ01 (i - (Z.of_nat n - br)) br) as [R0 R1]; [lia|lia|].
    apply (between_trans_l A A1 z1); [exact Hz1|].
    apply (between_trans_r A z1 zrb); [exact Hzrb|]. apply between_conv; assumption.
Qed.

(** ---------- monotone movement, linear shape ---------- *)

Lemma Qc_sq_nonneg : forall d : Qc, 0 <= d * d.
Proof. intros d. destruct (Qclt_le_dec d 0) as [H|H]; qcnra. Qed.

Theorem linear_monotone : forall x y n K i j al ar z0 z1, (0 <= al)%Z -> (0 <= ar)%Z -> (al + ar <= Z.of_nat n)%Z ->
  (0 <= i)%Z -> (i <= j)%Z -> (j < Z.of_nat n)%Z ->
  ((j <= al)%Z -> toward z0 (avg x y K) (shape_linear x y n K i al ar z0 z1) (shape_linear x y n K j al ar z0 z1)) /\
  ((Z.of_nat n - ar <= i)%Z -> toward (avg x y K) z1 (shape_linear x y n K i al ar z0 z1) (shape_linear x y n K j al ar z0 z1)).
Proof.
  intros x y n K i j al ar z0 z1 Hal Har Hsum Hi0 Hij Hjn. unfold toward, shape_linear.
  set (A := avg x y K). clearbody A. cbv zeta. split.
  - intros Hj.
    destruct (ratioZ01 i al Hi0) as [Ri0 Ri1]; [lia|].
    pose proof (ratioZ_mono i j al Hij Hal) as Rij.
    rewrite !muldiv_assoc.
    set (ri := Qc_of_Z i / Qc_of_Z al) in *. set (rj := Qc_of_Z j / Qc_of_Z al) in *. clearbody ri rj.
    pose proof (Qc_sq_nonneg (A - z0)) as Hsq.
    set (d := A - z0) in *.
    destruct (i <? al)%Z eqn:E1; [apply Z.ltb_lt in E1|apply Z.ltb_ge in E1].
    + destruct (j <? al)%Z eqn:E2; [apply Z.ltb_lt in E2|apply Z.ltb_ge in E2].
      * replace (d * (z0 + d * rj - (z0 + d * ri))) with (d * d * (rj - ri)) by ring.
        set (dd := d * d) in *. clearbody dd d. qcnra.
      * destruct (j <=? Z.of_nat n - ar)%Z eqn:E3; [|apply Z.leb_gt in E3; lia].
        replace (d * (A - (z0 + d * ri))) with (d * d * (1 - ri)) by (unfold d; ring).
        set (dd := d * d) in *. clearbody dd d. qcnra.
    + destruct (j <? al)%Z eqn:E2; [apply Z.ltb_lt in E2; lia|].
      destruct (i <=? Z.of_nat n - ar)%Z eqn:E3; [|apply Z.leb_gt in E3; lia].
      destruct (j <=? Z.of_nat n - ar)%Z eqn:E4; [|apply Z.leb_gt in E4; lia].
      replace (d * (A - A)) with 0 by ring. apply Qcle_refl.
  - intros Hi.
    destruct (i <? al)%Z eqn:E1; [apply Z.ltb_lt in E1; lia|].
    destruct (j <? al)%Z eqn:E2; [apply Z.ltb_lt in E2; lia|].
    destruct (ratioZ01 (i - (Z.of_nat n - ar)) ar) as [Ri0 Ri1]; [lia|lia|].
    destruct (ratioZ01 (j - (Z.of_nat n - ar)) ar) as [Rj0 Rj1]; [lia|lia|].
    assert (Rij : Qc_of_Z (i - (Z.of_nat n - ar)) / Qc_of_Z ar <= Qc_of_Z (j - (Z.of_nat n - ar)) / Qc_of_Z ar)
      by (apply ratioZ_mono; lia).
    rewrite !muldiv_assoc.
    set (ri := Qc_of_Z (i - (Z.of_nat n - ar)) / Qc_of_Z ar) in *.
    set (rj := Qc_of_Z (j - (Z.of_nat n - ar)) / Qc_of_Z ar) in *. clearbody ri rj.
    pose proof (Qc_sq_nonneg (z1 - A)) as Hsq.
    set (d := z1 - A) in *.
    destruct (i <=? Z.of_nat n - ar)%Z eqn:E3; [apply Z.leb_le in E3|apply Z.leb_gt in E3].
    + destruct (j <=? Z.of_nat n - ar)%Z eqn:E4; [apply Z.leb_le in E4|apply Z.leb_gt in E4].
      * replace (d * (A - A)) with 0 by ring. apply Qcle_refl.
      * replace (d * (A + d * rj - A)) with (d * d * rj) by ring.
        set (dd := d * d) in *. clearbody dd d. qcnra.
    + destruct (j <=? Z.of_nat n - ar)%Z eqn:E4; [apply Z.leb_le in E4; lia|].
      replace (d * (A + d * rj - (A + d * ri))) with (d * d * (rj - ri)) by ring.
      set (dd := d * d) in *. clearbody dd d. qcnra.
Qed.

(** ---------- monotone blends ---------- *)

Lemma g_exp_lin_mono_convex : forall pw t s, PwConvexLike pw -> 0 <= t -> t <= s -> s <= 1 ->
  g_exp_lin pw t <= g_exp_lin pw s.
Proof.
  intros pw t s [Hpw Hcx] H0 Hts H1. unfold g_exp_lin.
  assert (Ht1 : t <= 1) by qclra. assert (Hs0 : 0 <= s) by qclra.
  pose proof (Hcx t H0 Ht1) as Hpt.
  pose proof (pw_mono pw Hpw t s H0 Hts H1) as Hm.
  destruct (pw_range pw Hpw t H0 Ht1) as [Pa Pb].
  destruct (pw_range pw Hpw s Hs0 H1) as [Qa Qb].
  set (p := pw t) in *. set (q := pw s) in *. clearbody p q.
  assert (Hid : s * s + (1 - s) * q - (t * t + (1 - t) * p)
                = (s - t) * s + (s - t) * (t - p) + (1 - s) * (q - p)) by ring.
  assert (T1 : 0 <= (s - t) * s) by qcnra.
  assert (T2 : 0 <= (s - t) * (t - p)) by qcnra.
  assert (T3 : 0 <= (1 - s) * (q - p)) by qcnra.
  set (u1 := (s - t) * s) in *. set (u2 := (s - t) * (t - p)) in *. set (u3 := (1 - s) * (q - p)) in *.
  clearbody u1 u2 u3. qclra.
Qed.

Theorem blend_monotone_convex : forall pw t s, PwConvexLike pw -> 0 <= t -> t <= s -> s <= 1 ->
  g_exp_lin pw t <= g_exp_lin pw s /\ g_lin_exp_xy pw t <= g_lin_exp_xy pw s.
Proof.
  intros pw t s Hpw H0 Hts H1. split; [now apply g_exp_lin_mono_convex|].
  rewrite !g_lin_exp_xy_flip.
  assert (G : g_exp_lin pw (1 - s) <= g_exp_lin pw (1 - t)) by (apply g_exp_lin_mono_convex; [exact Hpw|qclra..]).
  set (a := g_exp_lin pw (1 - s)) in *. set (b := g_exp_lin pw (1 - t)) in *. clearbody a b. qclra.
Qed.

Lemma g_exp_lin_1 : forall pw, PwOk pw -> g_exp_lin pw 1 = 1.
Proof. intros pw H. unfold g_exp_lin. rewrite (pw_one pw H). ring. Qed.

Lemma g_exp_lin_mono_concave : forall pw t s, PwConcaveLike pw -> 0 <= t -> t <= s -> s <= 1 ->
  g_exp_lin pw t <= g_exp_lin pw s.
Proof.
  intros pw t s [Hpw [Hch Hhalf]] H0 Hts H1.
  assert (Ht1 : t <= 1) by qclra. assert (Hs0 : 0 <= s) by qclra.
  destruct (Qc_eq_dec t s) as [E|Ne]; [subst s; apply Qcle_refl|].
  assert (Hlt : t < s) by (destruct (Qclt_le_dec t s) as [L|L]; [exact L|exfalso; apply Ne; qclra]).
  destruct (Qc_eq_dec s 1) as [E1|Ne1].
  { subst s. rewrite g_exp_lin_1 by exact Hpw. now apply g_exp_lin_range. }
  assert (Hs1 : s < 1) by (destruct (Qclt_le_dec s 1) as [L|L]; [exact L|exfalso; apply Ne1; qclra]).
  pose proof (Hch t s H0 Hlt Hs1) as Hc.
  pose proof (Hhalf t H0 Ht1) as Hp2. pose proof (Hhalf s Hs0 H1) as Hq2.
  unfold g_exp_lin.
  assert (Hh : Qc_half + Qc_half = 1) by (apply Qc_is_canon; reflexivity).
  set (hf := Qc_half) in *. clearbody hf.
  set (p := pw t) in *. set (q := pw s) in *. clearbody p q.
  assert (Hid : s * s + (1 - s) * q - (t * t + (1 - t) * p)
                = (s - t) * (s + t + 1 - q - p) + ((q - p) * (1 - s) - (s - t) * (1 - q))) by ring.
  assert (T1 : 0 <= (s - t) * (s + t + 1 - q - p)) by qcnra.
  set (u1 := (s - t) * (s + t + 1 - q - p)) in *.
  set (u2 := (q - p) * (1 - s)) in *. set (u3 := (s - t) * (1 - q)) in *.
  clearbody u1 u2 u3. qclra.
Qed.

Theorem blend_monotone_concave : forall pw t s, PwConcaveLike pw -> 0 <= t -> t <= s -> s <= 1 ->
  g_exp_lin pw t <= g_exp_lin pw s /\ g_lin_exp_xy pw t <= g_lin_exp_xy pw s.
Proof.
  intros pw t s Hpw H0 Hts H1. split; [now apply g_exp_lin_mono_concave|].
  rewrite !g_lin_exp_xy_flip.
  assert (G : g_exp_lin pw (1 - s) <= g_exp_lin pw (1 - t)) by (apply g_exp_lin_mono_concave; [exact Hpw|qclra..]).
  set (a := g_exp_lin pw (1 - s)) in *. set (b := g_exp_lin pw (1 - t)) in *. clearbody a b. qclra.
Qed.

(** ---------- not every PwOk power gives a monotone blend ---------- *)

Definition pw_step (t : Qc) : Qc :=
  if Qc_eqb t 0 then 0 else if Qc_ltb t 1 then qf 9 10 else 1.

Lemma qf_9_10 : 0 < qf 9 10 /\ qf 9 10 < 1.
Proof. split; apply Qc_ltb_true; vm_compute; reflexivity. Qed.

Lemma pw_step_ok : PwOk pw_step.
Proof.
  destruct qf_9_10 as [Ha Hb]. set (c := qf 9 10) in *.
  constructor.
  - vm_compute. reflexivity.
  - intros t H0 H1. unfold pw_step. fold c.
    qc_case (Qc_eqb t 0); [split; qclra|]. qc_case (Qc_ltb t 1); split; qclra.
  - intros t H0 H1. unfold pw_step. fold c.
    qc_case (Qc_eqb t 0); [qclra|]. qc_case (Qc_ltb t 1); qclra.
  - intros s t H0 Hst H1. unfold pw_step. fold c.
    qc_case (Qc_eqb s 0).
    + qc_case (Qc_eqb t 0); [qclra|]. qc_case (Qc_ltb t 1); qclra.
    + assert (Hs : 0 < s) by (destruct (Qclt_le_dec 0 s) as [L|L]; [exact L|exfalso; apply Heq; qclra]).
      qc_case (Qc_eqb t 0); [exfalso; qclra|].
      qc_case (Qc_ltb s 1); qc_case (Qc_ltb t 1); qclra.
Qed.

Theorem monotone_exp_refuted : exists pw t s, PwOk pw /\ PwZero pw /\ 0 <= t /\ t < s /\ s <= 1 /\
  g_exp_lin pw s < g_exp_lin pw t.
Proof.
  exists pw_step, (qf 1 10), (qf 1 2).
  split; [exact pw_step_ok|]. split; [vm_compute; reflexivity|].
  split; [apply Qc_leb_true; vm_compute; reflexivity|].
  split; [apply Qc_ltb_true; vm_compute; reflexivity|].
  split; [apply Qc_leb_true; vm_compute; reflexivity|].
  apply Qc_ltb_true. vm_compute. reflexivity.
Qed.

(** ---------- integer powers ---------- *)

Theorem pw_int_convex : forall k, (1 <= k)%nat -> PwConvexLike (pw_int k) /\ PwZero (pw_int k).
Proof.
  intros k Hk. split; [split|].
  - now apply pw_int_ok.
  - intros t H0 H1. destruct k as [|k]; [lia|]. cbn [pw_int].
    destruct (pw_int_range k t H0 H1) as [Pa Pb].
    set (p := pw_int k t) in *. clearbody p. qcnra.
  - destruct k as [|k]; [lia|]. unfold PwZero. cbn [pw_int]. ring.
Qed.

(** ---------- piecewise constant strategy ---------- *)

Theorem piecewise_constant_exact : forall x y n k i, (2 <= n)%nat -> y <> [] -> (k + 1 < length y)%nat -> (i < n)%nat ->
  nthq (k * n + i) (snd (rfa_pc x y n)) = nthq k y.
Proof.
  intros x y n k i Hn Hy Hk Hi. unfold rfa_pc. cbn [snd].
  destruct (oversample_pc_spec y n Hn Hy) as [_ [H _]]. now apply H.
Qed.

(** ---------- constant series ---------- *)

Lemma avg_const : forall x c K, (2 <= length x)%nat -> avg x (repeatq c (length x)) K = c.
Proof.
  intros x c K Hl. unfold avg, m.
  destruct (K <=? 0)%Z eqn:E1; [apply nthq_repeatq; lia|].
  destruct (Z.of_nat (length x) - 1 <? K)%Z eqn:E2; [apply nthq_repeatq; lia|].
  apply Z.leb_gt in E1. apply Z.ltb_ge in E2. apply nthq_repeatq. lia.
Qed.

Lemma border_const : forall x c n K ar al, (2 <= length x)%nat ->
  border x (repeatq c (length x)) n K ar al = c.
Proof.
  intros x c n K ar al Hl. unfold border. rewrite !avg_const by exact Hl.
  destruct ((ar =? 0)%Z && (al =? 0)%Z); [reflexivity|]. cbv zeta. unfold Qcdiv. ring.
Qed.

Theorem constant_series : forall pw x c n K i al ar bl br,
  let y := repeatq c (length x) in
  (2 <= length x)%nat ->
  shape_linear x y n K i al ar (border x y n K ar al) (border x y n (K + 1) ar al) = c /\
  shape_exp pw x y n K i al ar bl br (border x y n K ar al) (border x y n (K + 1) ar al) = c.
Proof.
  intros pw x c n K i al ar bl br y Hl. subst y.
  rewrite !border_const by exact Hl. unfold shape_linear, shape_exp.
  rewrite !avg_const by exact Hl. cbv zeta. split.
  - destruct (i <? al)%Z; [unfold Qcdiv; ring|].
    destruct (i <=? Z.of_nat n - ar)%Z; [reflexivity|unfold Qcdiv; ring].
  - destruct (bl =? 0)%Z; destruct (br =? 0)%Z;
      (destruct (i <? bl)%Z; [unfold Qcdiv; ring|]);
      (destruct (i <? al)%Z; [unfold Qcdiv; ring|]);
      (destruct (i <? Z.of_nat n - ar)%Z; [reflexivity|]);
      (destruct (i <? Z.of_nat n - br)%Z; unfold Qcdiv; ring).
Qed.
