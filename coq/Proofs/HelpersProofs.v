(** Proofs about the array helpers of Model/SortedUtils.v and the interval
    view / block averaging of Model/Interval.v (property C17). *)
From TW Require Import Model.Interval Proofs.ListLemmas.
Open Scope Qc_scope.

(** ---------- lin_pts / lin_pts_tail ---------- *)

Lemma lin_pts_length : forall a b n, length (lin_pts a b n) = n.
Proof. intros a b n. unfold lin_pts. now rewrite map_length, seq_length. Qed.

Lemma lin_pts_tail_length : forall a b n, length (lin_pts_tail a b n) = n.
Proof. intros a b n. unfold lin_pts_tail. now rewrite map_length, seq_length. Qed.

Lemma nthq_lin_pts : forall a b n i, (i < n)%nat ->
  nthq i (lin_pts a b n) = a + Qc_of_nat i * (b - a) / Qc_of_nat n.
Proof.
  intros a b n i H. unfold lin_pts.
  rewrite nthq_map_seq by exact H. reflexivity.
Qed.

Lemma nthq_lin_pts_tail : forall a b n i, (i < n)%nat ->
  nthq i (lin_pts_tail a b n) = a + Qc_of_nat (i + 1) * (b - a) / Qc_of_nat n.
Proof.
  intros a b n i H. unfold lin_pts_tail.
  rewrite nthq_map_seq by exact H. rewrite (Nat.add_comm 1 i). reflexivity.
Qed.

Lemma lin_start : forall a b n, a + Qc_of_nat 0 * (b - a) / Qc_of_nat n = a.
Proof. intros a b n. rewrite Qc_of_nat_0. unfold Qcdiv. ring. Qed.

Lemma headq_lin_pts : forall a b n, (0 < n)%nat -> headq (lin_pts a b n) = a.
Proof.
  intros a b n H. rewrite headq_nthq, nthq_lin_pts by exact H. apply lin_start.
Qed.

(** ---------- oversample_linspace ---------- *)

Lemma oversample_linspace_go_cons2 : forall a b l n,
  oversample_linspace_go (a :: b :: l) n = lin_pts a b n ++ oversample_linspace_go (b :: l) n.
Proof. reflexivity. Qed.

Lemma oversample_linspace_go_length : forall l n, l <> [] ->
  length (oversample_linspace_go l n) = ((length l - 1) * n + 1)%nat.
Proof.
  induction l as [|a l IH]; intros n H; [congruence|].
  destruct l as [|b l]; [reflexivity|].
  rewrite oversample_linspace_go_cons2, app_length, lin_pts_length, IH by congruence.
  cbn [length]. lia.
Qed.

Lemma oversample_linspace_go_nth : forall l n k i, (k + 1 < length l)%nat -> (i < n)%nat ->
  nthq (k * n + i) (oversample_linspace_go l n)
  = nthq k l + Qc_of_nat i * (nthq (k + 1) l - nthq k l) / Qc_of_nat n.
Proof.
  induction l as [|a l IH]; intros n k i Hk Hi; [cbn [length] in Hk; lia|].
  destruct l as [|b l]; [cbn [length] in Hk; lia|].
  rewrite oversample_linspace_go_cons2.
  destruct k as [|k].
  - cbn [Nat.mul Nat.add]. rewrite nthq_app_l by (rewrite lin_pts_length; exact Hi).
    rewrite nthq_lin_pts by exact Hi. reflexivity.
  - replace (S k * n + i)%nat with (n + (k * n + i))%nat by lia.
    rewrite nthq_app_r_len by apply lin_pts_length.
    rewrite IH; [|cbn [length] in *; lia|exact Hi].
    cbn [Nat.add]. rewrite !nthq_cons_S. reflexivity.
Qed.

Lemma oversample_linspace_go_last : forall l n, l <> [] ->
  nthq ((length l - 1) * n) (oversample_linspace_go l n) = lastq l.
Proof.
  induction l as [|a l IH]; intros n H; [congruence|].
  destruct l as [|b l]; [reflexivity|].
  rewrite oversample_linspace_go_cons2, lastq_cons by congruence.
  replace ((length (a :: b :: l) - 1) * n)%nat with (n + (length (b :: l) - 1) * n)%nat
    by (cbn [length]; lia).
  rewrite nthq_app_r_len by apply lin_pts_length. apply IH. congruence.
Qed.

Lemma oversample_linspace_ge2 : forall a num, (2 <= num)%nat ->
  oversample_linspace a num = oversample_linspace_go a num.
Proof.
  intros a num H. unfold oversample_linspace.
  destruct (Nat.ltb_spec num 2); [lia|reflexivity].
Qed.

Lemma oversample_pc_ge2 : forall a num, (2 <= num)%nat ->
  oversample_pc a num = oversample_pc_go a num.
Proof.
  intros a num H. unfold oversample_pc.
  destruct (Nat.ltb_spec num 2); [lia|reflexivity].
Qed.

Theorem oversample_linspace_spec : forall a num, (2 <= num)%nat -> a <> [] ->
  length (oversample_linspace a num) = ((length a - 1) * num + 1)%nat /\
  (forall k, (k < length a)%nat -> nthq (k * num) (oversample_linspace a num) = nthq k a) /\
  (forall k i, (k + 1 < length a)%nat -> (i < num)%nat ->
     nthq (k * num + i) (oversample_linspace a num)
     = nthq k a + Qc_of_nat i * (nthq (k + 1) a - nthq k a) / Qc_of_nat num).
Proof.
  intros a num Hnum Ha. rewrite oversample_linspace_ge2 by exact Hnum.
  split; [now apply oversample_linspace_go_length|]. split.
  - intros k Hk.
    destruct (Nat.eq_dec (k + 1) (length a)) as [E|E].
    + replace k with (length a - 1)%nat by lia.
      rewrite oversample_linspace_go_last by exact Ha. now apply lastq_nthq.
    + replace (k * num)%nat with (k * num + 0)%nat by lia.
      rewrite oversample_linspace_go_nth by lia. apply lin_start.
  - intros k i Hk Hi. now apply oversample_linspace_go_nth.
Qed.

(** ---------- oversample_pc ---------- *)

Lemma oversample_pc_go_cons2 : forall a b l n,
  oversample_pc_go (a :: b :: l) n = repeatq a n ++ oversample_pc_go (b :: l) n.
Proof. reflexivity. Qed.

Lemma oversample_pc_go_length : forall l n, l <> [] ->
  length (oversample_pc_go l n) = ((length l - 1) * n + 1)%nat.
Proof.
  induction l as [|a l IH]; intros n H; [congruence|].
  destruct l as [|b l]; [reflexivity|].
  rewrite oversample_pc_go_cons2, app_length, repeatq_length, IH by congruence.
  cbn [length]. lia.
Qed.

Lemma oversample_pc_go_nth : forall l n k i, (k + 1 < length l)%nat -> (i < n)%nat ->
  nthq (k * n + i) (oversample_pc_go l n) = nthq k l.
Proof.
  induction l as [|a l IH]; intros n k i Hk Hi; [cbn [length] in Hk; lia|].
  destruct l as [|b l]; [cbn [length] in Hk; lia|].
  rewrite oversample_pc_go_cons2.
  destruct k as [|k].
  - cbn [Nat.mul Nat.add]. rewrite nthq_app_l by (rewrite repeatq_length; exact Hi).
    rewrite nthq_repeatq by exact Hi. reflexivity.
  - replace (S k * n + i)%nat with (n + (k * n + i))%nat by lia.
    rewrite nthq_app_r_len by apply repeatq_length.
    rewrite IH; [|cbn [length] in *; lia|exact Hi].
    rewrite nthq_cons_S. reflexivity.
Qed.

Lemma oversample_pc_go_last : forall l n, l <> [] ->
  nthq ((length l - 1) * n) (oversample_pc_go l n) = lastq l.
Proof.
  induction l as [|a l IH]; intros n H; [congruence|].
  destruct l as [|b l]; [reflexivity|].
  rewrite oversample_pc_go_cons2, lastq_cons by congruence.
  replace ((length (a :: b :: l) - 1) * n)%nat with (n + (length (b :: l) - 1) * n)%nat
    by (cbn [length]; lia).
  rewrite nthq_app_r_len by apply repeatq_length. apply IH. congruence.
Qed.

Theorem oversample_pc_spec : forall a num, (2 <= num)%nat -> a <> [] ->
  length (oversample_pc a num) = ((length a - 1) * num + 1)%nat /\
  (forall k i, (k + 1 < length a)%nat -> (i < num)%nat ->
     nthq (k * num + i) (oversample_pc a num) = nthq k a) /\
  nthq ((length a - 1) * num) (oversample_pc a num) = lastq a.
Proof.
  intros a num Hnum Ha. rewrite oversample_pc_ge2 by exact Hnum.
  split; [now apply oversample_pc_go_length|]. split.
  - intros k i Hk Hi. now apply oversample_pc_go_nth.
  - now apply oversample_pc_go_last.
Qed.

Theorem oversample_below_2 : forall a num, (num < 2)%nat ->
  oversample_linspace a num = a /\ oversample_pc a num = a.
Proof.
  intros a num H. unfold oversample_linspace, oversample_pc.
  destruct (Nat.ltb_spec num 2); [split; reflexivity|lia].
Qed.

(** ---------- extend_linspace ---------- *)

(* the default right mirror point computed on the left-extended array is the
   one computed on the original array *)
Lemma extend_rstop_eq : forall (L a : list Qc) n rs, (n + 1 <= length a)%nat -> length L = n ->
  match rs with Some v => v
  | None => Qc_two * lastq (L ++ a) - nthq (length (L ++ a) - n - 1) (L ++ a) end
  = match rs with Some v => v
    | None => Qc_two * lastq a - nthq (length a - n - 1) a end.
Proof.
  intros L a n rs Hlen HL. destruct rs as [v|]; [reflexivity|].
  assert (Ha : a <> []) by (apply length_pos_not_nil; lia).
  rewrite lastq_app by exact Ha. rewrite app_length, HL.
  replace (n + length a - n - 1)%nat with (n + (length a - n - 1))%nat by lia.
  rewrite nthq_app_r_len by exact HL. reflexivity.
Qed.

Theorem extend_linspace_spec : forall a n d ls rs, (n + 1 <= length a)%nat ->
  let nl := if goes_left d then n else O in
  let nr := if goes_right d then n else O in
  let out := extend_linspace a n d ls rs in
  let lstart := match ls with Some v => v | None => Qc_two * headq a - nthq n a end in
  let rstop := match rs with Some v => v | None => Qc_two * lastq a - nthq (length a - n - 1) a end in
  length out = (nl + length a + nr)%nat /\
  (forall i, (i < length a)%nat -> nthq (nl + i) out = nthq i a) /\
  (goes_left d = true -> forall i, (i < n)%nat ->
     nthq i out = lstart + Qc_of_nat i * (headq a - lstart) / Qc_of_nat n) /\
  (goes_right d = true -> forall i, (i < n)%nat ->
     nthq (nl + length a + i) out = lastq a + Qc_of_nat (i + 1) * (rstop - lastq a) / Qc_of_nat n).
Proof.
  intros a n d ls rs Hlen nl nr out lstart rstop.
  assert (Ha : a <> []) by (apply length_pos_not_nil; lia).
  set (L := lin_pts lstart (headq a) n).
  assert (HL : length L = n) by apply lin_pts_length.
  destruct d; subst nl nr out; unfold extend_linspace; cbn [goes_left goes_right];
    fold lstart; fold L.
  - (* Both *)
    rewrite (extend_rstop_eq L a n rs Hlen HL). fold rstop.
    rewrite (lastq_app L a Ha).
    set (R := lin_pts_tail (lastq a) rstop n).
    assert (HR : length R = n) by apply lin_pts_tail_length.
    assert (HLa : length (L ++ a) = (n + length a)%nat) by (rewrite app_length; lia).
    repeat split.
    + rewrite app_length, HLa, HR. reflexivity.
    + intros i Hi. rewrite nthq_app_l by lia. now apply nthq_app_r_len.
    + intros _ i Hi. rewrite nthq_app_l by lia. rewrite nthq_app_l by lia.
      now apply nthq_lin_pts.
    + intros _ i Hi. rewrite nthq_app_r_len by exact HLa. now apply nthq_lin_pts_tail.
  - (* Left *)
    repeat split.
    + rewrite app_length. lia.
    + intros i Hi. now apply nthq_app_r_len.
    + intros _ i Hi. rewrite nthq_app_l by lia. now apply nthq_lin_pts.
    + discriminate.
  - (* Right *)
    fold rstop.
    set (R := lin_pts_tail (lastq a) rstop n).
    assert (HR : length R = n) by apply lin_pts_tail_length.
    repeat split.
    + rewrite app_length. lia.
    + intros i Hi. cbn [Nat.add]. now apply nthq_app_l.
    + discriminate.
    + intros _ i Hi. cbn [Nat.add]. rewrite nthq_app_r. now apply nthq_lin_pts_tail.
Qed.

(** ---------- extend_constant ---------- *)

Theorem extend_constant_spec : forall a n d, a <> [] ->
  let nl := if goes_left d then n else O in
  let nr := if goes_right d then n else O in
  let out := extend_constant a n d in
  length out = (nl + length a + nr)%nat /\
  (forall i, (i < length a)%nat -> nthq (nl + i) out = nthq i a) /\
  (forall i, (i < nl)%nat -> nthq i out = headq a) /\
  (forall i, (i < nr)%nat -> nthq (nl + length a + i) out = lastq a).
Proof.
  intros a n d Ha nl nr out.
  set (L := repeatq (headq a) n).
  assert (HL : length L = n) by apply repeatq_length.
  destruct d; subst nl nr out; unfold extend_constant; cbn [goes_left goes_right]; fold L.
  - (* Both *)
    rewrite (lastq_app L a Ha).
    set (R := repeatq (lastq a) n).
    assert (HR : length R = n) by apply repeatq_length.
    assert (HLa : length (L ++ a) = (n + length a)%nat) by (rewrite app_length; lia).
    repeat split.
    + rewrite app_length, HLa, HR. reflexivity.
    + intros i Hi. rewrite nthq_app_l by lia. now apply nthq_app_r_len.
    + intros i Hi. rewrite nthq_app_l by lia. rewrite nthq_app_l by lia.
      now apply nthq_repeatq.
    + intros i Hi. rewrite nthq_app_r_len by exact HLa. now apply nthq_repeatq.
  - (* Left *)
    repeat split.
    + rewrite app_length. lia.
    + intros i Hi. now apply nthq_app_r_len.
    + intros i Hi. rewrite nthq_app_l by lia. now apply nthq_repeatq.
    + intros i Hi. lia.
  - (* Right *)
    set (R := repeatq (lastq a) n).
    assert (HR : length R = n) by apply repeatq_length.
    repeat split.
    + rewrite app_length. lia.
    + intros i Hi. cbn [Nat.add]. now apply nthq_app_l.
    + intros i Hi. lia.
    + intros i Hi. cbn [Nat.add]. rewrite nthq_app_r. now apply nthq_repeatq.
Qed.

(** ---------- append_one_sample ---------- *)

Theorem append_one_sample_spec : forall x y p, (2 <= length x)%nat -> y <> [] ->
  let r := append_one_sample x y p in
  fst r = x ++ [lastq x + (lastq x - nthq (length x - 2) x)] /\
  snd r = y ++ [if p then headq y else lastq y].
Proof.
  intros x y p Hx Hy r. subst r. unfold append_one_sample. cbn [fst snd].
  split; [|reflexivity].
  assert (Hx' : x <> []) by (apply length_pos_not_nil; lia).
  rewrite <- (lastq_nthq x Hx'). rewrite Qc_two_eq.
  f_equal. f_equal. ring.
Qed.

(** ---------- interval view ---------- *)

Lemma set_nth_length : forall l p v, length (set_nth l p v) = length l.
Proof.
  induction l as [|a l IH]; intros p v; [reflexivity|].
  destruct p as [|p]; cbn [set_nth length]; [reflexivity|]. now rewrite IH.
Qed.

Lemma nthq_set_nth_same : forall l p v, (p < length l)%nat -> nthq p (set_nth l p v) = v.
Proof.
  induction l as [|a l IH]; intros p v H; [cbn [length] in H; lia|].
  destruct p as [|p]; cbn [set_nth]; [reflexivity|].
  rewrite nthq_cons_S. apply IH. cbn [length] in H. lia.
Qed.

Lemma nthq_set_nth_other : forall l p v p', p' <> p -> nthq p' (set_nth l p v) = nthq p' l.
Proof.
  induction l as [|a l IH]; intros p v p' H; [reflexivity|].
  destruct p as [|p]; cbn [set_nth].
  - destruct p' as [|p']; [congruence|reflexivity].
  - destruct p' as [|p']; [reflexivity|]. rewrite !nthq_cons_S. apply IH. congruence.
Qed.

Lemma py_index_lt : forall len i p, py_index len i = Some p -> (p < len)%nat.
Proof.
  intros len i p. unfold py_index.
  destruct (Z.leb_spec 0 i); destruct (Z.ltb_spec i (Z.of_nat len)); cbn [andb].
  - intros [= <-]. lia.
  - destruct (Z.ltb_spec i 0); cbn [andb]; [lia|discriminate].
  - destruct (Z.ltb_spec i 0); destruct (Z.leb_spec 0 (i + Z.of_nat len)); cbn [andb];
      try discriminate. intros [= <-]. lia.
  - destruct (Z.ltb_spec i 0); destruct (Z.leb_spec 0 (i + Z.of_nat len)); cbn [andb];
      try discriminate. intros [= <-]. lia.
Qed.

Theorem interval_get_set : forall a i j v a',
  iset a (KPair i j) v = Ok a' ->
  iget a' (KPair i j) = Ok v /\
  isize a' = isize a /\ length (arr a') = length (arr a) /\
  exists p, py_index (length (arr a)) (i * Z.of_nat (isize a) + j)%Z = Some p /\
            forall p', p' <> p -> nthq p' (arr a') = nthq p' (arr a).
Proof.
  intros a i j v a' H. unfold iset in H. cbn [flat_index bind] in H.
  destruct (py_index (length (arr a)) (i * Z.of_nat (isize a) + j)) as [p|] eqn:E;
    [|discriminate].
  injection H as <-. cbn [arr isize].
  pose proof (py_index_lt _ _ _ E) as Hp.
  split; [|split; [reflexivity|split; [apply set_nth_length|]]].
  - unfold iget. cbn [flat_index bind arr isize]. rewrite set_nth_length, E.
    now rewrite nthq_set_nth_same.
  - exists p. split; [reflexivity|]. intros p' Hp'. now apply nthq_set_nth_other.
Qed.

Theorem interval_get_flat : forall a i j, (0 <= i)%Z -> (0 <= j)%Z ->
  (i * Z.of_nat (isize a) + j < Z.of_nat (length (arr a)))%Z ->
  iget a (KPair i j) = Ok (nthq (Z.to_nat i * isize a + Z.to_nat j) (arr a)).
Proof.
  intros a i j Hi Hj H. unfold iget. cbn [flat_index bind]. unfold py_index.
  destruct (Z.leb_spec 0 (i * Z.of_nat (isize a) + j)); [|nia].
  destruct (Z.ltb_spec (i * Z.of_nat (isize a) + j) (Z.of_nat (length (arr a)))); [|lia].
  cbn [andb]. do 2 f_equal.
  rewrite Z2Nat.inj_add by nia. rewrite Z2Nat.inj_mul by lia. now rewrite Nat2Z.id.
Qed.

Theorem interval_bad_key : forall a v,
  iget a KOther = Raise IndexError /\ iset a KOther v = Raise IndexError.
Proof. intros a v. split; reflexivity. Qed.

(** ---------- to_2d_array ---------- *)

Lemma pad_row_length : forall n l, length (pad_row l n) = n.
Proof.
  induction n as [|n IH]; intros l; [reflexivity|].
  destruct l as [|a l]; cbn [pad_row length]; now rewrite IH.
Qed.

Lemma pad_row_nil_nth : forall n c, nth c (pad_row [] n) None = None.
Proof.
  induction n as [|n IH]; intros c; cbn [pad_row]; [destruct c; reflexivity|].
  destruct c as [|c]; [reflexivity|]. apply IH.
Qed.

Lemma pad_row_nth : forall n l c, (c < n)%nat ->
  nth c (pad_row l n) None = if (c <? length l)%nat then Some (nthq c l) else None.
Proof.
  induction n as [|n IH]; intros l c H; [lia|].
  destruct l as [|a l]; cbn [pad_row].
  - cbn [length]. destruct c as [|c]; [reflexivity|]. cbn [nth]. apply pad_row_nil_nth.
  - destruct c as [|c]; [reflexivity|]. cbn [nth]. rewrite IH by lia.
    rewrite nthq_cons_S. cbn [length].
    destruct (Nat.ltb_spec c (length l)); destruct (Nat.ltb_spec (S c) (S (length l)));
      try lia; reflexivity.
Qed.

Lemma rows_go_length : forall rows l n, length (rows_go l n rows) = rows.
Proof.
  induction rows as [|r IH]; intros l n; [reflexivity|]. cbn [rows_go length]. now rewrite IH.
Qed.

Lemma rows_go_nth : forall rows l n r, (r < rows)%nat ->
  nth r (rows_go l n rows) [] = pad_row (skipn (r * n) l) n.
Proof.
  induction rows as [|rows IH]; intros l n r H; [lia|].
  cbn [rows_go]. destruct r as [|r]; [reflexivity|].
  cbn [nth]. rewrite IH by lia. rewrite skipn_add.
  reflexivity.
Qed.

Lemma rows_go_In : forall rows l n row, In row (rows_go l n rows) -> length row = n.
Proof.
  induction rows as [|rows IH]; intros l n row H; [destruct H|].
  cbn [rows_go] in H. destruct H as [<-|H]; [apply pad_row_length|]. eapply IH; exact H.
Qed.

Theorem to_2d_layout : forall a r c, (0 < isize a)%nat ->
  (r < nrows (length (arr a)) (isize a))%nat -> (c < isize a)%nat ->
  nth c (nth r (to_2d_array a) []) None =
  if (r * isize a + c <? length (arr a))%nat then Some (nthq (r * isize a + c) (arr a)) else None.
Proof.
  intros a r c Hn Hr Hc. unfold to_2d_array.
  rewrite rows_go_nth by exact Hr. rewrite pad_row_nth by exact Hc.
  rewrite skipn_length, nthq_skipn.
  destruct (Nat.ltb_spec c (length (arr a) - r * isize a));
    destruct (Nat.ltb_spec (r * isize a + c) (length (arr a))); try lia; reflexivity.
Qed.

Theorem to_2d_shape : forall a, (0 < isize a)%nat ->
  length (to_2d_array a) = nrows (length (arr a)) (isize a) /\
  forall row, In row (to_2d_array a) -> length row = isize a.
Proof.
  intros a Hn. unfold to_2d_array. split; [apply rows_go_length|].
  intros row H. eapply rows_go_In; exact H.
Qed.

(** ---------- average of an oversampled signal ---------- *)

Lemma nrows_blocks_plus_one : forall m n, (2 <= n)%nat -> nrows (m * n + 1) n = (m + 1)%nat.
Proof.
  intros m n Hn. unfold nrows.
  assert (Hd : ((m * n + 1) / n = m)%nat).
  { symmetry. apply (Nat.div_unique (m * n + 1) n m 1); lia. }
  assert (Hm : ((m * n + 1) mod n = 1)%nat).
  { symmetry. apply (Nat.mod_unique (m * n + 1) n m 1); lia. }
  rewrite Hd, Hm. reflexivity.
Qed.

Lemma pad_row_app_exact : forall n l1 l2, length l1 = n -> pad_row (l1 ++ l2) n = map Some l1.
Proof.
  induction n as [|n IH]; intros l1 l2 H.
  - destruct l1; [reflexivity|discriminate].
  - destruct l1 as [|a l1]; [discriminate|]. cbn [app pad_row map]. f_equal.
    apply IH. cbn [length] in H. congruence.
Qed.

Lemma row_sum_pad_nil : forall n, row_sum (pad_row [] n) = 0.
Proof. induction n as [|n IH]; [reflexivity|exact IH]. Qed.

Lemma row_cnt_pad_nil : forall n, row_cnt (pad_row [] n) = O.
Proof. induction n as [|n IH]; [reflexivity|exact IH]. Qed.

Lemma row_sum_map_Some : forall l, row_sum (map Some l) = sumq l.
Proof. induction l as [|a l IH]; [reflexivity|]. cbn [map row_sum sumq]. now rewrite IH. Qed.

Lemma row_cnt_map_Some : forall l, row_cnt (map Some l) = length l.
Proof. induction l as [|a l IH]; [reflexivity|]. cbn [map row_cnt length]. now rewrite IH. Qed.

Lemma row_first_pad_single : forall a n, (0 < n)%nat -> row_first (pad_row [a] n) = a.
Proof. intros a [|n] H; [lia|reflexivity]. Qed.

Lemma Qcinv_1_eq : / 1 = 1.
Proof. apply Qc_is_canon. reflexivity. Qed.

Lemma nanmean_pad_single : forall a n, (0 < n)%nat -> nanmean (pad_row [a] n) = a.
Proof.
  intros a [|n] H; [lia|]. unfold nanmean. cbn [pad_row row_sum row_cnt].
  rewrite row_sum_pad_nil, row_cnt_pad_nil, Qc_of_nat_1.
  unfold Qcdiv. rewrite Qcinv_1_eq. ring.
Qed.

Lemma nanmean_repeatq : forall v n, (0 < n)%nat -> nanmean (map Some (repeatq v n)) = v.
Proof.
  intros v n H. unfold nanmean.
  rewrite row_sum_map_Some, row_cnt_map_Some, repeatq_length, sumq_repeatq.
  apply Qc_div_mul_cancel. now apply Qc_of_nat_neq0.
Qed.

Lemma rows_first_oversample_linspace_go : forall x n, (0 < n)%nat ->
  map row_first (rows_go (oversample_linspace_go x n) n (length x)) = x.
Proof.
  induction x as [|a x IH]; intros n Hn; [reflexivity|].
  destruct x as [|b x].
  - cbn [oversample_linspace_go length rows_go map]. now rewrite row_first_pad_single.
  - rewrite oversample_linspace_go_cons2.
    change (length (a :: b :: x)) with (S (length (b :: x))).
    cbn [rows_go map].
    rewrite skipn_app_exact by apply lin_pts_length.
    rewrite IH by exact Hn. f_equal.
    rewrite pad_row_app_exact by apply lin_pts_length.
    unfold lin_pts. destruct n as [|n]; [lia|].
    cbn [seq map row_first]. apply lin_start.
Qed.

Lemma rows_mean_oversample_pc_go : forall y n, (0 < n)%nat ->
  map nanmean (rows_go (oversample_pc_go y n) n (length y)) = y.
Proof.
  induction y as [|a y IH]; intros n Hn; [reflexivity|].
  destruct y as [|b y].
  - cbn [oversample_pc_go length rows_go map]. now rewrite nanmean_pad_single.
  - rewrite oversample_pc_go_cons2.
    change (length (a :: b :: y)) with (S (length (b :: y))).
    cbn [rows_go map].
    rewrite skipn_app_exact by apply repeatq_length.
    rewrite IH by exact Hn. f_equal.
    rewrite pad_row_app_exact by apply repeatq_length.
    now apply nanmean_repeatq.
Qed.

Lemma nrows_oversampled : forall (l : list Qc) n, (2 <= n)%nat -> l <> [] ->
  nrows ((length l - 1) * n + 1) n = length l.
Proof.
  intros l n Hn Hl. rewrite nrows_blocks_plus_one by exact Hn.
  apply length_pos_not_nil in Hl. lia.
Qed.

Theorem average_of_pc_oversample : forall x y n, (2 <= n)%nat -> x <> [] -> length x = length y ->
  average (oversample_linspace x n) (oversample_pc y n) n = (x, y).
Proof.
  intros x y n Hn Hx Hxy.
  assert (Hy : y <> []).
  { apply length_pos_not_nil. rewrite <- Hxy. now apply length_pos_not_nil. }
  unfold average, to_2d_array. cbn [arr isize].
  rewrite oversample_linspace_ge2, oversample_pc_ge2 by exact Hn.
  rewrite oversample_linspace_go_length by exact Hx.
  rewrite oversample_pc_go_length by exact Hy.
  rewrite !nrows_oversampled by assumption.
  rewrite rows_first_oversample_linspace_go by lia.
  rewrite rows_mean_oversample_pc_go by lia.
  reflexivity.
Qed.

(** ---------- integration rules ---------- *)

Lemma rectangle_integral_cons2 : forall x0 x1 x y0 y,
  rectangle_integral (x0 :: x1 :: x) (y0 :: y)
  = y0 * (x1 - x0) :: rectangle_integral (x1 :: x) y.
Proof. reflexivity. Qed.

Lemma trapezoid_integral_cons2 : forall x0 x1 x y0 y1 y,
  trapezoid_integral (x0 :: x1 :: x) (y0 :: y1 :: y)
  = (y0 + y1) * Qc_half * (x1 - x0) :: trapezoid_integral (x1 :: x) (y1 :: y).
Proof. reflexivity. Qed.

Lemma rectangle_integral_length : forall x y, length x = length y ->
  length (rectangle_integral x y) = (length x - 1)%nat.
Proof.
  induction x as [|x0 x IH]; intros y H; [reflexivity|].
  destruct y as [|y0 y]; [discriminate|].
  destruct x as [|x1 x]; [reflexivity|].
  rewrite rectangle_integral_cons2. cbn [length] in *. rewrite IH by lia.
  cbn [length]. lia.
Qed.

Lemma trapezoid_integral_length : forall x y, length x = length y ->
  length (trapezoid_integral x y) = (length x - 1)%nat.
Proof.
  induction x as [|x0 x IH]; intros y H; [reflexivity|].
  destruct y as [|y0 y]; [discriminate|].
  destruct x as [|x1 x]; [reflexivity|].
  destruct y as [|y1 y]; [discriminate|].
  rewrite trapezoid_integral_cons2. cbn [length] in *. rewrite IH by (cbn [length]; lia).
  cbn [length]. lia.
Qed.

Lemma rectangle_integral_nth : forall x y i, (i + 1 < length x)%nat -> length x = length y ->
  nthq i (rectangle_integral x y) = nthq i y * (nthq (i + 1) x - nthq i x).
Proof.
  induction x as [|x0 x IH]; intros y i Hi H; [cbn [length] in Hi; lia|].
  destruct y as [|y0 y]; [discriminate|].
  destruct x as [|x1 x]; [cbn [length] in Hi; lia|].
  rewrite rectangle_integral_cons2.
  destruct i as [|i]; [reflexivity|].
  cbn [Nat.add]. rewrite !nthq_cons_S. apply IH; cbn [length] in *; lia.
Qed.

Lemma trapezoid_integral_nth : forall x y i, (i + 1 < length x)%nat -> length x = length y ->
  nthq i (trapezoid_integral x y)
  = (nthq i y + nthq (i + 1) y) * Qc_half * (nthq (i + 1) x - nthq i x).
Proof.
  induction x as [|x0 x IH]; intros y i Hi H; [cbn [length] in Hi; lia|].
  destruct y as [|y0 y]; [discriminate|].
  destruct x as [|x1 x]; [cbn [length] in Hi; lia|].
  destruct y as [|y1 y]; [discriminate|].
  rewrite trapezoid_integral_cons2.
  destruct i as [|i]; [reflexivity|].
  cbn [Nat.add]. rewrite !nthq_cons_S. apply IH; cbn [length] in *; lia.
Qed.

Theorem integral_rules_spec : forall x y i, (i + 1 < length x)%nat -> length x = length y ->
  nthq i (rectangle_integral x y) = nthq i y * (nthq (i + 1) x - nthq i x) /\
  nthq i (trapezoid_integral x y) = (nthq i y + nthq (i + 1) y) * Qc_half * (nthq (i + 1) x - nthq i x) /\
  length (rectangle_integral x y) = (length x - 1)%nat /\
  length (trapezoid_integral x y) = (length x - 1)%nat.
Proof.
  intros x y i Hi H. repeat split.
  - now apply rectangle_integral_nth.
  - now apply trapezoid_integral_nth.
  - now apply rectangle_integral_length.
  - now apply trapezoid_integral_length.
Qed.

(** ---------- closed examples ---------- *)

(* Leibniz equality of a computed pair of Qc lists from the boolean check:
   [vm_compute] normalises the values but not the canonicity proofs carried
   by Qc records, so closed examples are decided through [Qc_eqb]. *)
Lemma pair_eq_by_eqb : forall (r : list Qc * list Qc) l1 l2,
  list_eqb Qc_eqb (fst r) l1 && list_eqb Qc_eqb (snd r) l2 = true -> r = (l1, l2).
Proof. exact pair_list_eqb_Qc_sound. Qed.
