(** The regenerated bodies of the rfa() methods of rfa.py (Gen/RfaGlue.v), run by the function-level interpreter of
    Model/GlueFun.v with the leaves of Model/GlueLeaves.v (Section RfaLeaves), against the write-loop model of
    Model/Rfa.v: PiecewiseConstantRFA / FunctionRFA and the _initial_*_oversample helpers (C04), LinearFixedRFA and
    ExpFixedRFA (C05).

    Nothing of the generated bodies is restated: a method body is whatever [assoc <method> rfa_methods] computes to, the
    loop bodies are obtained from the same table ([first_for]), and every proof is a symbolic execution, one statement at
    a time.  The value of an expression is computed on an isolated goal [feval .. en e = Ok ?v] ([ev]); evaluation is
    call-by-value (the primitives that inspect their arguments are unfolded only once applied to values, as in
    Proofs/GlueProcessProofs.v), arithmetic and all model functions stay folded.

    Environments inside the loops are described by the values they bind ([holds bs en]: every (name, value) of [bs] is
    what [assoc] finds in [en]); a binding of a name that is not in [bs] keeps [holds bs] ([holds_cons_env]).

    Shared with the adaptive strategies:
      rfa_wrap_run / rfa_wrap_run'   the prologue  z = np.array(y, copy=True); x, y, z = IntervalArray(..);
                                     x.extend_linspace(); y.extend_constant(); z.extend_constant()
      rfa_return_run                 the epilogue  return x.array[n:-n], z.array[n:-n]   (needs 1 <= n)
      inner_run                      for i in range(lo, hi): z[k, i] = rhs   is the model's write_run
      outer_run                      for k in ...: body   is a fold of the model's interval function
      holds, holds_cons_env, holds_assoc, holds_app_r; tactics ev, st_step, for_range_step, inner_step, meth_lookup

    Main results:
      glue_rfa_pc_function    (C04)
      glue_rfa_linear_fixed   (C05)   uses 1 <= n only
      glue_rfa_exp_fixed      (C05)   uses 1 <= n only *)
From Coq Require Import Lia Bool.
From TW Require Import Model.GlueLeaves Gen.RfaGlue.
From TW Require Import Proofs.ListLemmas Proofs.ListLemmas7 Proofs.GlueFunLemmas.
Open Scope Qc_scope.
Open Scope string_scope.

(** ---------------- leaves ---------------- *)
Lemma range_zrange : forall a b, range_list a b = zrange a b.
Proof. reflexivity. Qed.

(** l[n:-n] is the model's cut (for n = 0 it is not: l[0:-0] = l[0:0] is empty, cut 0 l = l) *)
Lemma cut_py_slice : forall l n, (1 <= n)%nat ->
  py_slice l (Z.of_nat n) (- Z.of_nat n) 1 = Ok (cut n l).
Proof.
  intros l n Hn. rewrite ListLemmas7.py_slice_step1. f_equal. unfold cut.
  rewrite <- (slice_clamp l n (length l - n)). unfold sl_pos, clampZ.
  destruct (Z.ltb_spec (Z.of_nat n) 0) as [H|_]; [lia|].
  destruct (Z.ltb_spec (- Z.of_nat n) 0) as [_|H]; [|lia].
  f_equal; lia.
Qed.

Lemma nums_of_nums : forall l, nums_of (map VNum l) = Some l.
Proof. induction l as [|a l IH]; [reflexivity|]. cbn [map nums_of as_num]. rewrite IH. reflexivity. Qed.

(** ---------------- environments described by the values they bind ---------------- *)
Fixpoint holds (bs : list (string * gval)) (en : fenv) : Prop :=
  match bs with
  | [] => True
  | (v, x) :: bs' => assoc v en = Some x /\ holds bs' en
  end.

Lemma assoc_cons_other : forall {A} v w (x : A) en, seq_eqb v w = false -> assoc v ((w, x) :: en) = assoc v en.
Proof. intros A v w x en H. cbn [assoc]. rewrite H. reflexivity. Qed.

Lemma holds_cons_env : forall bs en w x, assoc w bs = None -> holds bs en -> holds bs ((w, x) :: en).
Proof.
  induction bs as [|[v y] bs IH]; intros en w x Hw H; [exact I|].
  cbn [holds] in *. cbn [assoc] in Hw. destruct H as [H1 H2].
  destruct (seq_eqb w v) eqn:E; [discriminate Hw|].
  split; [|apply IH; assumption].
  rewrite assoc_cons_other; [exact H1|]. unfold seq_eqb in *. rewrite String.eqb_sym. exact E.
Qed.

Lemma holds_assoc : forall bs en v x, holds bs en -> assoc v bs = Some x -> assoc v en = Some x.
Proof.
  induction bs as [|[w y] bs IH]; intros en v x H Hv; [discriminate Hv|].
  cbn [holds] in H. destruct H as [H1 H2]. cbn [assoc] in Hv.
  destruct (seq_eqb v w) eqn:E.
  - injection Hv as <-. unfold seq_eqb in E. apply String.eqb_eq in E. subst w. exact H1.
  - eapply IH; eassumption.
Qed.

Lemma holds_app_r : forall b1 b2 en, holds (b1 ++ b2) en -> holds b2 en.
Proof.
  induction b1 as [|[v x] b1 IH]; intros b2 en H; [exact H|].
  cbn [app holds] in H. apply IH. exact (proj2 H).
Qed.

(** ---------------- statements ---------------- *)
Section Stmts.
Variable cf : string -> list gval -> list (string * gval) -> res gval.
Variable mf : gval -> string -> list gval -> res gval.
Variable af : gval -> list gval -> res gval.
Variable pf : gval -> gval -> res gval.

Lemma fexec_app : forall l1 l2 en,
  fexec cf mf af pf en (l1 ++ l2) = fexec_k (fexec cf mf af pf en l1) (fun en' => fexec cf mf af pf en' l2).
Proof.
  induction l1 as [|st l1 IH]; intros l2 en; [reflexivity|].
  cbn [app]. rewrite !fexec_cons. unfold fexec_k at 1 3.
  destruct (fexec1 cf mf af pf en st) as [en1 [| |]]; cbn [fst snd]; [apply IH|reflexivity|reflexivity].
Qed.

Lemma fexec1_assign1 : forall en x e v, feval cf mf af pf en e = Ok v ->
  fexec1 cf mf af pf en (SAssign [LVar x] e) = ((x, v) :: en, ONormal).
Proof. intros en x e v H. cbn [fexec1]. rewrite H. reflexivity. Qed.

Lemma fexec1_assign2 : forall en a b e v1 v2, feval cf mf af pf en e = Ok (VTup [v1; v2]) ->
  fexec1 cf mf af pf en (SAssign [LVar a; LVar b] e) = ((b, v2) :: (a, v1) :: en, ONormal).
Proof. intros en a b e v1 v2 H. cbn [fexec1]. rewrite H. reflexivity. Qed.

Lemma fexec1_return : forall en e v, feval cf mf af pf en e = Ok v ->
  fexec1 cf mf af pf en (SReturn e) = (en, OReturn v).
Proof. intros en e v H. cbn [fexec1]. rewrite H. reflexivity. Qed.

Lemma fexec1_for_range : forall en x it body l, feval cf mf af pf en it = Ok (VIdxArr l) ->
  fexec1 cf mf af pf en (SFor [x] it body) = floop cf mf af pf [x] body (map VInt l) en.
Proof. intros en x it body l H. rewrite fexec1_for, H. reflexivity. Qed.

Lemma feval_call_1_1 : forall en fn a kn k v w,
  feval cf mf af pf en a = Ok v -> feval cf mf af pf en k = Ok w ->
  feval cf mf af pf en (GCall fn [a] [(kn, k)]) = fcall cf fn [v] [(kn, w)].
Proof. intros en fn a kn k v w Ha Hk. cbn [feval fst snd]. rewrite Ha, Hk. reflexivity. Qed.

(** [body for x in it] over an array, when body computes g *)
Lemma feval_listcomp : forall en body x it (g : Qc -> Qc) l,
  feval cf mf af pf en it = Ok (VArr l) ->
  (forall q, feval cf mf af pf ((x, VNum q) :: en) body = Ok (VNum (g q))) ->
  feval cf mf af pf en (GListComp body x it) = Ok (VTup (map VNum (map g l))).
Proof.
  intros en body x it g l Hit Hb. cbn [feval]. rewrite Hit. cbn [bind vals_of]. clear Hit.
  match goal with |- context [?F (map VNum l)] =>
    assert (E : F (map VNum l) = Ok (map VNum (map g l))) end.
  { induction l as [|a l IH]; [reflexivity|]. cbn [map]. rewrite Hb. cbn [bind]. rewrite IH. reflexivity. }
  rewrite E. reflexivity.
Qed.

(** z[k, i] = rhs *)
Lemma fexec1_assign_zki : forall en rhs q k i zc N,
  feval cf mf af pf en rhs = Ok (VNum q) ->
  assoc "k" en = Some (VInt k) -> assoc "i" en = Some (VInt i) -> assoc "z" en = Some (ivl zc N) ->
  fexec1 cf mf af pf en (SAssign [LIdx "z" (GTuple [GVar "k"; GVar "i"])] rhs)
  = (("z", ivl (setz zc (k * N + i) q) N) :: en, ONormal).
Proof.
  intros en rhs q k i zc N H Hk Hi Hz. cbn [fexec1]. rewrite H.
  cbn [resolve_lhs feval bind]. unfold flookup. rewrite Hk, Hi. cbn [bind store_all store].
  unfold flookup. rewrite Hz. reflexivity.
Qed.

(** an inner write loop  for i in js: z[k, i] = rhs  is the model's fold ([write_run] when js = zrange lo hi), provided
    rhs evaluates to f i in every environment that binds i and what [bs] says ([bs] mentions neither z nor i, so rhs
    cannot read the array being written) *)
Lemma inner_run : forall bs rhs (f : Z -> Qc) k N,
  assoc "z" bs = None -> assoc "i" bs = None -> assoc "k" bs = Some (VInt k) ->
  (forall en i, holds bs en -> feval cf mf af pf (("i", VInt i) :: en) rhs = Ok (VNum (f i))) ->
  forall (js : list Z) en zc, holds bs en -> assoc "z" en = Some (ivl zc N) ->
  exists en', floop cf mf af pf ["i"] [SAssign [LIdx "z" (GTuple [GVar "k"; GVar "i"])] rhs] (map VInt js) en = (en', ONormal) /\
    holds bs en' /\ assoc "z" en' = Some (ivl (fold_left (fun z i => setz z (k * N + i) (f i)) js zc) N).
Proof.
  intros bs rhs f k N Bz Bi Bk Hrhs. induction js as [|i js IH]; intros en zc Hen Hz.
  - exists en. cbn [map fold_left]. rewrite floop_nil. repeat split; assumption.
  - cbn [map fold_left]. rewrite floop_cons1, fexec_cons.
    rewrite (fexec1_assign_zki _ rhs (f i) k i zc N).
    + rewrite fexec_k_normal, fexec_nil, fexec_k_normal. apply IH.
      * apply holds_cons_env; [exact Bz|]. apply holds_cons_env; [exact Bi|]. exact Hen.
      * reflexivity.
    + apply Hrhs. exact Hen.
    + rewrite assoc_cons_other by reflexivity. eapply holds_assoc; eassumption.
    + reflexivity.
    + rewrite assoc_cons_other by reflexivity. exact Hz.
Qed.

(** an outer loop  for k in ks: body  whose body turns the invariant for z into the invariant for step z k *)
Lemma outer_run : forall (Inv : fenv -> list Qc -> Prop) body (step : list Qc -> Z -> list Qc),
  (forall en zc k, Inv en zc -> exists en', fexec cf mf af pf (("k", VInt k) :: en) body = (en', ONormal) /\ Inv en' (step zc k)) ->
  forall (ks : list Z) en zc, Inv en zc ->
  exists en', floop cf mf af pf ["k"] body (map VInt ks) en = (en', ONormal) /\ Inv en' (fold_left step ks zc).
Proof.
  intros Inv body step Hstep. induction ks as [|k ks IH]; intros en zc H.
  - exists en. cbn [map fold_left]. rewrite floop_nil. split; [reflexivity|exact H].
  - cbn [map fold_left]. rewrite floop_cons1.
    destruct (Hstep en zc k H) as (en1 & Hrun & H1). rewrite Hrun, fexec_k_normal. apply IH. exact H1.
Qed.

Lemma call_meth_unfold : forall tbl f attrs formals body,
  assoc f tbl = Some (formals, body) -> fbind_params formals [] = Ok [] ->
  call_meth cf mf af pf tbl f attrs [] = snd (fexec cf mf af pf attrs body).
Proof. intros tbl f attrs formals body H H0. unfold call_meth. rewrite H, H0. reflexivity. Qed.
End Stmts.

(** ---------------- evaluation of an expression ---------------- *)
(** strict primitives of the rfa leaves: run only once their arguments are values *)
Definition findex_val_run := Eval cbv delta [findex_val] in findex_val.
Definition neg_val_run := Eval cbv delta [neg_val] in neg_val.
Definition rfa_callf_run := Eval cbv delta [rfa_callf] in rfa_callf.
Definition rfa_methf_run := Eval cbv delta [rfa_methf] in rfa_methf.
Lemma findex_val_run_eq : forall a i, findex_val a i = findex_val_run a i. Proof. reflexivity. Qed.
Lemma neg_val_run_eq : forall a, neg_val a = neg_val_run a. Proof. reflexivity. Qed.
Lemma rfa_callf_run_eq : forall pw sf fn vs ks, rfa_callf pw sf fn vs ks = rfa_callf_run pw sf fn vs ks. Proof. reflexivity. Qed.
Lemma rfa_methf_run_eq : forall gpow sx sy sn r m vs, rfa_methf gpow sx sy sn r m vs = rfa_methf_run gpow sx sy sn r m vs. Proof. reflexivity. Qed.

Ltac rf_cbn :=
  cbn -[Qcplus Qcmult Qcdiv Qcminus Qcopp Qcinv Q2Qc Qc_eqb Qc_ltb Qc_leb Qc_of_Z Qc_of_nat Qc_trunc
        map seq py_index length firstn skipn app nth nth_error Nat.div Nat.modulo
        getz setz lin_fit lin_exp_xy_fit exp_lin_fit extend_linspace extend_constant oversample_linspace oversample_pc
        adaptive_windows ext_of
        py_slice take_stride clampZ norm_bound range_list set_nth
        Z.of_nat Z.to_nat Z.add Z.sub Z.mul Z.opp Z.quot Z.ltb Z.leb Z.eqb Z.max Z.min
        fexec fexec_k floop rfa_methods
        fbinop fcall store index_val fslice_val array_methf findex_val neg_val rfa_callf rfa_methf].

Ltac ev_step :=
  match goal with
  | |- context [flookup _ _] => unfold flookup
  | H : assoc ?k ?en = _ |- context [assoc ?k ?en] => rewrite H
  | |- context [fbinop ?pf ?op ?a ?b] => rewrite (fbinop_run_eq pf op a b)
  | |- context [fcall ?cf ?fn ?vs ?ks] => rewrite (fcall_run_eq cf fn vs ks)
  | |- context [findex_val ?a ?i] => rewrite (findex_val_run_eq a i)
  | |- context [neg_val ?a] => rewrite (neg_val_run_eq a)
  | |- context [rfa_callf ?pw ?sf ?fn ?vs ?ks] => rewrite (rfa_callf_run_eq pw sf fn vs ks)
  | |- context [rfa_methf ?g ?sx ?sy ?sn ?r ?m ?vs] => rewrite (rfa_methf_run_eq g sx sy sn r m vs)
  | |- context [index_val ?a ?i] => rewrite (index_val_run_eq a i)
  | |- context [fslice_val ?a ?lo ?hi ?st] => rewrite (fslice_val_run_eq a lo hi st)
  | |- context [array_methf ?r ?m ?vs] => rewrite (array_methf_run_eq r m vs)
  end.
Ltac ev_run := repeat (rf_cbn; ev_step); rf_cbn.
(** solves [feval cf mf af pf en e = Ok ?v] *)
Ltac ev := ev_run; reflexivity.

(** ---------------- running a method body ---------------- *)
Definition rfa_body_of (f : string) : list gstmt :=
  match assoc f rfa_methods with Some (_, b) => b | None => [] end.

Ltac pose_tails l k :=
  lazymatch l with
  | @nil _ => k (@nil gstmt)
  | ?st :: ?l' => pose_tails l' ltac:(fun t => let L := fresh "L" in pose (L := st :: t); k L)
  end.
(** the body of the called method, with every suffix of its statement list named *)
Ltac meth_lookup :=
  match goal with |- context [call_meth ?cf ?mf ?af ?pf rfa_methods ?f ?attrs []] =>
    let t := eval vm_compute in (assoc f rfa_methods) in
    lazymatch t with
    | Some (?formals, ?body) =>
        pose_tails body ltac:(fun L =>
          rewrite (call_meth_unfold cf mf af pf rfa_methods f attrs formals L) by (vm_compute; reflexivity))
    end
  end.

(** one straight-line statement (t = e; t1, t2 = e; return e): its expression is evaluated on a goal of its own *)
Ltac st_unf := match goal with |- context [fexec ?cf ?mf ?af ?pf ?en ?L] => is_var L; unfold L; clear L end.
Ltac st_step :=
  try st_unf;
  match goal with
  | |- context [fexec ?cf ?mf ?af ?pf ?en (SAssign [LVar ?x] ?e :: ?l)] =>
      let H := fresh "Hev" in
      eassert (H : feval cf mf af pf en e = Ok _) by ev;
      rewrite (fexec_cons cf mf af pf en (SAssign [LVar x] e) l), (fexec1_assign1 cf mf af pf en x e _ H), fexec_k_normal;
      clear H
  | |- context [fexec ?cf ?mf ?af ?pf ?en (SAssign [LVar ?a; LVar ?b] ?e :: ?l)] =>
      let H := fresh "Hev" in
      eassert (H : feval cf mf af pf en e = Ok (VTup [_; _])) by ev;
      rewrite (fexec_cons cf mf af pf en (SAssign [LVar a; LVar b] e) l), (fexec1_assign2 cf mf af pf en a b e _ _ H), fexec_k_normal;
      clear H
  | |- context [fexec ?cf ?mf ?af ?pf ?en (SReturn ?e :: ?l)] =>
      let H := fresh "Hev" in
      eassert (H : feval cf mf af pf en e = Ok _) by ev;
      rewrite (fexec_cons cf mf af pf en (SReturn e) l), (fexec1_return cf mf af pf en e _ H), fexec_k_return;
      clear H
  end.
(** for x in range(..): the iterator is evaluated, the loop is left as [floop] *)
Ltac for_range_step :=
  try st_unf;
  match goal with |- context [fexec ?cf ?mf ?af ?pf ?en (SFor [?x] ?it ?body :: ?l)] =>
    let H := fresh "Hev" in
    eassert (H : feval cf mf af pf en it = Ok (VIdxArr _)) by ev;
    rewrite (fexec_cons cf mf af pf en (SFor [x] it body) l), (fexec1_for_range cf mf af pf en x it body _ H);
    clear H
  end.

(** ---------------- C04: PiecewiseConstantRFA, FunctionRFA, _initial_*_oversample ---------------- *)
Lemma glue_rfa_pc_function : forall sf x y n,
  outcome_arr_pair (call_meth (rfa_callf (fun t => t) sf) (rfa_methf (fun t => t) x y n) no_apply no_pow rfa_methods
     "PiecewiseConstantRFA.rfa" (rfa_attrs x y n 0 0 0 0) []) = Ok (rfa_pc x y n) /\
  outcome_arr_pair (call_meth (rfa_callf (fun t => t) sf) (rfa_methf (fun t => t) x y n) no_apply no_pow rfa_methods
     "FunctionRFA.rfa" (rfa_attrs x y n 0 0 0 0) []) = Ok (rfa_function sf x y n) /\
  outcome_arr_pair (call_meth (rfa_callf (fun t => t) sf) (rfa_methf (fun t => t) x y n) no_apply no_pow rfa_methods
     "AbstractRFA._initial_oversample" (rfa_attrs x y n 0 0 0 0) []) = Ok (oversample_linspace x n, oversample_pc y n) /\
  outcome_arr (call_meth (rfa_callf (fun t => t) sf) (rfa_methf (fun t => t) x y n) no_apply no_pow rfa_methods
     "AbstractRFA._initial_x_oversample" (rfa_attrs x y n 0 0 0 0) []) = Ok (oversample_linspace x n) /\
  outcome_arr (call_meth (rfa_callf (fun t => t) sf) (rfa_methf (fun t => t) x y n) no_apply no_pow rfa_methods
     "AbstractRFA._initial_y_oversample" (rfa_attrs x y n 0 0 0 0) []) = Ok (oversample_pc y n).
Proof.
  intros sf x y n. split; [|split; [|split; [|split]]].
  - meth_lookup. repeat st_step. reflexivity.
  - meth_lookup. do 2 st_step. st_unf.
    (* ys = np.array([function(x) for x in xs], dtype=float) *)
    match goal with |- context [fexec ?cf ?mf ?af ?pf ?en (SAssign [LVar ?v] (GCall ?fn [GListComp ?b ?w ?it] [(?kn, ?k)]) :: ?l)] =>
      rewrite (fexec_cons cf mf af pf en (SAssign [LVar v] (GCall fn [GListComp b w it] [(kn, k)])) l);
      rewrite (fexec1_assign1 cf mf af pf en v _ (VArr (map sf (oversample_linspace x n))))
    end.
    + rewrite fexec_k_normal. repeat st_step. reflexivity.
    + erewrite feval_call_1_1; [| apply (feval_listcomp _ _ _ _ _ _ _ _ sf (oversample_linspace x n)); [ev | intros q; ev] | ev].
      ev_run. rewrite nums_of_nums. reflexivity.
  - meth_lookup. repeat st_step. reflexivity.
  - meth_lookup. repeat st_step. rewrite Nat2Z.id. reflexivity.
  - meth_lookup. repeat st_step. rewrite Nat2Z.id. reflexivity.
Qed.

(** ---------------- prologue and epilogue shared by the four interval strategies ---------------- *)
(** z = np.array(y, copy=True); x = IntervalArray(x, n); y = IntervalArray(y, n); z = IntervalArray(y.array, n);
    x.extend_linspace(direction='both'); y.extend_constant(direction='both'); z.extend_constant(direction='both')
    -- the same seven statements in LinearFixedRFA, LinearAdaptiveRFA, ExpFixedRFA, ExpAdaptiveRFA *)
Definition rfa_wrap_stmts : list gstmt := Eval vm_compute in firstn 7 (skipn 4 (rfa_body_of "LinearFixedRFA.rfa")).
Definition rfa_wrap_env (E : fenv) (xs ys : list Qc) (n : nat) : fenv :=
  ("z", ivl (extend_constant ys n Both) (Z.of_nat n)) :: ("y", ivl (extend_constant ys n Both) (Z.of_nat n))
  :: ("x", ivl (extend_linspace xs n Both None None) (Z.of_nat n))
  :: ("z", ivl ys (Z.of_nat n)) :: ("y", ivl ys (Z.of_nat n)) :: ("x", ivl xs (Z.of_nat n)) :: ("z", VArr ys) :: E.

Lemma rfa_wrap_run : forall pw sf gpow sx sy sn E xs ys n rest,
  assoc "x" E = Some (VArr xs) -> assoc "y" E = Some (VArr ys) -> assoc "n" E = Some (VInt (Z.of_nat n)) ->
  fexec (rfa_callf pw sf) (rfa_methf gpow sx sy sn) no_apply no_pow E (rfa_wrap_stmts ++ rest)
  = fexec (rfa_callf pw sf) (rfa_methf gpow sx sy sn) no_apply no_pow (rfa_wrap_env E xs ys n) rest.
Proof.
  intros pw sf gpow sx sy sn E xs ys n rest Hx Hy Hn. unfold rfa_wrap_stmts. cbn [app].
  do 7 st_step. rewrite !Nat2Z.id. reflexivity.
Qed.
Lemma rfa_wrap_run' : forall pw sf gpow sx sy sn E xs ys n body,
  assoc "x" E = Some (VArr xs) -> assoc "y" E = Some (VArr ys) -> assoc "n" E = Some (VInt (Z.of_nat n)) ->
  firstn 7 body = rfa_wrap_stmts ->
  fexec (rfa_callf pw sf) (rfa_methf gpow sx sy sn) no_apply no_pow E body
  = fexec (rfa_callf pw sf) (rfa_methf gpow sx sy sn) no_apply no_pow (rfa_wrap_env E xs ys n) (skipn 7 body).
Proof.
  intros pw sf gpow sx sy sn E xs ys n body Hx Hy Hn Hb.
  rewrite <- (firstn_skipn 7 body) at 1. rewrite Hb. apply rfa_wrap_run; assumption.
Qed.
(** the seven statements at the head of the remaining body *)
Ltac wrap_step :=
  try st_unf;
  match goal with |- context [fexec (rfa_callf ?pw ?sf) (rfa_methf ?g ?sx ?sy ?sn) no_apply no_pow ?E ?body] =>
    erewrite (rfa_wrap_run' pw sf g sx sy sn E _ _ _ body); [| reflexivity | reflexivity | reflexivity | reflexivity];
    let r := eval cbv in (skipn 7 body) in change (skipn 7 body) with r
  end.

(** return x.array[n:-n], z.array[n:-n] *)
Definition rfa_ret_stmt : gstmt := Eval vm_compute in last (rfa_body_of "LinearFixedRFA.rfa") (SRaise "").

Lemma rfa_return_run : forall pw sf gpow sx sy sn E lx lz N N' n,
  assoc "x" E = Some (ivl lx N) -> assoc "z" E = Some (ivl lz N') -> assoc "n" E = Some (VInt (Z.of_nat n)) -> (1 <= n)%nat ->
  fexec (rfa_callf pw sf) (rfa_methf gpow sx sy sn) no_apply no_pow E [rfa_ret_stmt]
  = (E, OReturn (VTup [VArr (cut n lx); VArr (cut n lz)])).
Proof.
  intros pw sf gpow sx sy sn E lx lz N N' n Hx Hz Hn H1. unfold rfa_ret_stmt. rewrite fexec_cons.
  erewrite fexec1_return; [reflexivity|]. ev_run. rewrite !cut_py_slice by assumption. reflexivity.
Qed.

(** ---------------- C05: the fixed-window strategies ---------------- *)
Definition lf_loop_body : list gstmt := Eval vm_compute in first_for (rfa_body_of "LinearFixedRFA.rfa").
Definition ef_loop_body : list gstmt := Eval vm_compute in first_for (rfa_body_of "ExpFixedRFA.rfa").

(** what the loops read and never rebind *)
Definition fx_ro (e : ext) (al ar : Z) : list (string * gval) :=
  [("x", ivl (xe e) (en e)); ("y", ivl (ye e) (en e)); ("n", VInt (en e)); ("a_r", VInt ar); ("a_l", VInt al);
   ("self.a_l", VInt al); ("self.a_r", VInt ar); ("self.n", VInt (en e))].
Definition ef_ro (e : ext) (al ar b : Z) : list (string * gval) :=
  ("b", VInt b) :: ("exp", VOpaque "exp") :: fx_ro e al ar.

(** the invariant of the loop over the intervals: the read-only names, and z holds the current array *)
Definition loop_inv (ro : list (string * gval)) (N : Z) (E : fenv) (zc : list Qc) : Prop :=
  holds ro E /\ assoc "z" E = Some (ivl zc N).

Ltac split_ands := repeat match goal with H : _ /\ _ |- _ => destruct H end.

(** the bindings on top of the variable [en0] *)
Ltac env_prefix cur en0 :=
  lazymatch cur with
  | en0 => constr:(@nil (string * gval))
  | ?b :: ?rest => let p := env_prefix rest en0 in constr:(b :: p)
  end.

(** run an inner write loop from an environment [cur] of which [holds BS cur] is known: the value written at i is
    whatever the regenerated right-hand side evaluates to (a function of i found by unification) *)
Ltac inner_step BS k N :=
  match goal with |- context [floop ?cf ?mf ?af ?pf ["i"] [SAssign [LIdx "z" (GTuple [GVar "k"; GVar "i"])] ?rhs] (map VInt ?js) ?cur] =>
    let Hrhs := fresh "Hrhs" in let f := fresh "f" in
    evar (f : Z -> Qc);
    assert (Hrhs : forall en' i, holds BS en' -> feval cf mf af pf (("i", VInt i) :: en') rhs = Ok (VNum (f i)));
    [ let en' := fresh "en'" in let i := fresh "i" in let H := fresh "H" in
      intros en' i H; unfold BS in H; cbn [holds app fx_ro ef_ro] in H; split_ands; ev_run; unfold f; reflexivity
    | let en1 := fresh "en1" in let Hrun := fresh "Hrun" in let Hh := fresh "Hh" in let Hz1 := fresh "Hz1" in
      edestruct (inner_run cf mf af pf BS rhs f k N eq_refl eq_refl eq_refl Hrhs js cur) as (en1 & Hrun & Hh & Hz1);
      [ eassumption | rf_cbn; eassumption
      | rewrite Hrun, fexec_k_normal; clear Hrun Hrhs; subst f;
        let Hh' := fresh "Hh'" in
        pose proof Hh as Hh'; unfold BS in Hh'; cbn [holds app fx_ro ef_ro] in Hh'; split_ands ] ]
  end.

(** the body of the loop over the intervals: the scalar assignments, then the write loops; the array left in z is
    compared with the model's interval function by conversion (X, Y, write_run unfold to the reads and folds found) *)
Ltac interval_body_tac RO en0 Hro k N :=
  repeat st_step;
  match goal with |- context [fexec _ _ _ _ ?cur _] =>
    let p := env_prefix cur en0 in
    pose (BS := (p ++ RO)%list);
    assert (HB : holds BS cur)
      by (cbn [holds BS app]; repeat (split; [reflexivity|]); repeat (apply holds_cons_env; [reflexivity|]); exact Hro);
    repeat (for_range_step; inner_step BS k N);
    rewrite fexec_nil;
    match goal with Hh : holds BS ?E1 |- exists E', (?E1, ONormal) = (E', ONormal) /\ _ =>
      exists E1; split; [reflexivity|]; split;
      [ exact (holds_app_r p RO E1 Hh)
      | match goal with Hz' : assoc "z" E1 = _ |- _ => rewrite Hz' end; reflexivity ]
    end
  end.

Section Fixed.
Variable pw : Qc -> Qc.
Variable gpow : Qc -> Qc.
Variable sf : Qc -> Qc.
Variables (sx sy : list Qc) (sn : nat).
Notation cf := (rfa_callf pw sf).
Notation mf := (rfa_methf gpow sx sy sn).
Variable e : ext.
Variables al ar b : Z.

Lemma lf_body_step : forall E zc k, loop_inv (fx_ro e al ar) (en e) E zc ->
  exists E', fexec cf mf no_apply no_pow (("k", VInt k) :: E) lf_loop_body = (E', ONormal) /\
    loop_inv (fx_ro e al ar) (en e) E' (lf_interval e al ar zc k).
Proof.
  intros en0 zc k [Hro Hz].
  pose proof Hro as Hro'. cbn [holds fx_ro] in Hro'. split_ands.
  unfold lf_loop_body.
  interval_body_tac (fx_ro e al ar) en0 Hro k (en e).
Qed.

Lemma ef_body_step : forall E zc k, loop_inv (ef_ro e al ar b) (en e) E zc ->
  exists E', fexec cf mf no_apply no_pow (("k", VInt k) :: E) ef_loop_body = (E', ONormal) /\
    loop_inv (ef_ro e al ar b) (en e) E' (ef_interval pw e al ar b zc k).
Proof.
  intros en0 zc k [Hro Hz].
  pose proof Hro as Hro'. cbn [holds ef_ro fx_ro] in Hro'. split_ands.
  unfold ef_loop_body.
  interval_body_tac (ef_ro e al ar b) en0 Hro k (en e).
Qed.
End Fixed.

(** after the prologue and the loop over the intervals: the return statement, and the comparison with the model (the
    iteration list range_list 1 (nr_of_full_intervals - 1) is the model's [intervals] by conversion) *)
Ltac finish_fixed n e :=
  match goal with Hro : holds ?RO ?E1 |- context [fexec _ _ _ _ ?E1 _] =>
    let Hro' := fresh "Hro'" in
    pose proof Hro as Hro'; cbn [holds ef_ro fx_ro] in Hro'; split_ands;
    try st_unf; change (en e) with (Z.of_nat n) in *;
    erewrite rfa_return_run; [|eassumption|eassumption|eassumption|lia];
    reflexivity
  end.

Lemma glue_rfa_linear_fixed : forall x y n alpha a, (2 <= n)%nat -> (2 <= length x)%nat ->
  let A := window_a n alpha a in
  outcome_arr_pair (call_meth (rfa_callf (fun t => t) (fun t => t)) (rfa_methf (fun t => t) x y n) no_apply no_pow rfa_methods
     "LinearFixedRFA.rfa" (rfa_attrs x y n A (half_window A) 0 0) []) = Ok (rfa_linear_fixed x y n alpha a).
Proof.
  intros x y n alpha a Hn _ A. unfold rfa_linear_fixed. fold A. generalize (half_window A). intros al.
  match goal with |- _ = ?rhs => set (M := rhs) end.
  meth_lookup.
  do 4 st_step. wrap_step. unfold rfa_wrap_env.
  for_range_step. rewrite !Nat2Z.id.
  set (e := prepare x y n) in M.
  match goal with |- context [floop ?cf ?mf ?af ?pf ["k"] ?body (map VInt ?ks) ?cur] =>
    destruct (outer_run cf mf af pf (loop_inv (fx_ro e al al) (en e)) body (lf_interval e al al)
               (lf_body_step (fun t => t) (fun t => t) (fun t => t) x y n e al al) ks cur (ye e))
      as (E1 & Hrun & Hro & Hz)
  end.
  { split; [|reflexivity]. cbn [holds fx_ro]. repeat (split; [reflexivity|]). exact I. }
  rewrite Hrun, fexec_k_normal. clear Hrun.
  finish_fixed n e.
Qed.

Lemma glue_rfa_exp_fixed : forall pw x y n alpha beta a, (2 <= n)%nat -> (2 <= length x)%nat ->
  let A := window_a n alpha a in
  outcome_arr_pair (call_meth (rfa_callf pw (fun t => t)) (rfa_methf (fun t => t) x y n) no_apply no_pow rfa_methods
     "ExpFixedRFA.rfa" (rfa_attrs x y n A (half_window A) (lin_part beta (half_window A)) beta) []) = Ok (rfa_exp_fixed pw x y n alpha beta a).
Proof.
  intros pw x y n alpha beta a Hn _ A. unfold rfa_exp_fixed. fold A. generalize (half_window A). intros al.
  generalize (lin_part beta al). intros b.
  match goal with |- _ = ?rhs => set (M := rhs) end.
  meth_lookup.
  do 6 st_step. wrap_step. unfold rfa_wrap_env.
  for_range_step. rewrite !Nat2Z.id.
  set (e := prepare x y n) in M.
  match goal with |- context [floop ?cf ?mf ?af ?pf ["k"] ?body (map VInt ?ks) ?cur] =>
    destruct (outer_run cf mf af pf (loop_inv (ef_ro e al al b) (en e)) body (ef_interval pw e al al b)
               (ef_body_step pw (fun t => t) (fun t => t) x y n e al al b) ks cur (ye e))
      as (E1 & Hrun & Hro & Hz)
  end.
  { split; [|reflexivity]. cbn [holds ef_ro fx_ro]. repeat (split; [reflexivity|]). exact I. }
  rewrite Hrun, fexec_k_normal. clear Hrun.
  finish_fixed n e.
Qed.

Print Assumptions glue_rfa_pc_function.
Print Assumptions glue_rfa_linear_fixed.
Print Assumptions glue_rfa_exp_fixed.
