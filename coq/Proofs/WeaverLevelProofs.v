(** Weaver-level lemmas for C08 / C11 / C12 / C13 / C14: what one [step] of the
    state machine (Model/Weaver.v) does to the six series, stated on the state. *)
From TW Require Import Proofs.ListLemmas Proofs.ListLemmas2 Proofs.ListLemmas3 Proofs.ListLemmas4
  Proofs.SearchProofs Proofs.HelpersProofs Proofs.ProcessProofs Proofs.TruncInterpProofs
  Proofs.MatchProofs Proofs.RfaGridProofs Proofs.PipelineProofs Proofs.ListLemmas7 Proofs.WeaverProofs.
From TW Require Import Model.WeaverSpec Model.Interval.
Open Scope Qc_scope.

(** ====================================================================== *)
(** C11                                                                     *)
(** ====================================================================== *)

Lemma truncate_weaver_same_bounds : forall s l r lr rr s', step s (OTruncVal l r lr rr) = (s', Ok tt) ->
  truncate (wx s) (wy s) l r lr rr = Ok (wx s', wy s') /\ truncate (wrx s) (wry s) l r lr rr = Ok (wrx s', wry s') /\
  wox s' = wox s /\ woy s' = woy s.
Proof.
  intros s l r lr rr s' H. unfold step, fail, done in H.
  destruct (truncate (wx s) (wy s) l r lr rr) as [[a b]|e]; [|discriminate].
  destruct (truncate (wrx s) (wry s) l r lr rr) as [[c d]|e]; [|discriminate].
  injection H as <-. wsimpl. cbn [fst snd]. repeat split; reflexivity.
Qed.

Lemma sl_pos_in_range : forall len v, (0 <= v)%Z -> (v <= len)%Z -> sl_pos len v = Z.to_nat v.
Proof.
  intros len v H0 H1. unfold sl_pos, clampZ.
  destruct (Z.ltb_spec v 0) as [H|H]; [lia|]. f_equal. lia.
Qed.

Lemma py_slice_unit_step : forall l a b, (0 <= a)%Z -> (a <= b)%Z -> (b <= Z.of_nat (length l))%Z ->
  py_slice l a b 1 = Ok (slice l (Z.to_nat a) (Z.to_nat b)).
Proof.
  intros l a b Ha Hab Hb. rewrite py_slice_step1.
  rewrite !sl_pos_in_range by lia. reflexivity.
Qed.

Lemma truncate_by_index_spec : forall s a b s', (0 <= a)%Z -> (a <= b)%Z -> (b <= Z.of_nat (length (wx s)))%Z ->
  length (wx s) = length (wy s) -> step s (OTruncIdx a (Some b)) = (s', Ok tt) ->
  wx s' = slice (wx s) (Z.to_nat a) (Z.to_nat b) /\ wy s' = slice (wy s) (Z.to_nat a) (Z.to_nat b).
Proof.
  intros s a b s' Ha Hab Hb L H. unfold step, fail, done in H.
  destruct (Z.ltb_spec a 0) as [H0|H0]; [lia|].
  destruct (Z.ltb_spec (Z.of_nat (length (wx s))) b) as [H1|H1]; [lia|].
  rewrite (py_slice_unit_step (wx s) a b Ha Hab Hb) in H.
  rewrite (py_slice_unit_step (wy s) a b Ha Hab) in H by (rewrite <- L; exact Hb).
  rewrite (py_slice_step1 (wrx s)), (py_slice_step1 (wry s)) in H.
  injection H as <-. wsimpl. split; reflexivity.
Qed.

(** index_of returns a position holding the value *)
Lemma index_of_spec : forall v l i0 k, index_of v l i0 = Some k ->
  (i0 <= k)%nat /\ (k - i0 < length l)%nat /\ nthq (k - i0) l = v.
Proof.
  intros v. induction l as [|a l IH]; intros i0 k H; [discriminate|].
  cbn [index_of] in H. qc_case (Qc_eqb a v).
  - injection H as <-. replace (i0 - i0)%nat with O by lia. cbn [length].
    split; [lia|]. split; [lia|]. rewrite nthq_cons_0. exact Heq.
  - destruct (IH (S i0) k H) as (H1 & H2 & H3). cbn [length].
    replace (k - i0)%nat with (S (k - S i0)) by lia. rewrite nthq_cons_S.
    split; [lia|]. split; [lia|exact H3].
Qed.

Lemma slice_whole : forall l : list Qc, slice l 0 (length l) = l.
Proof.
  intros l. unfold slice. rewrite Nat.sub_0_r. cbn [skipn]. apply firstn_all.
Qed.

Lemma slice_by_value_exact : forall s a b, ssorted (wx s) -> length (wx s) = length (wy s) ->
  In a (wx s) -> In b (wx s) -> a <= b ->
  exists i j, slice_by_value s (Some a) (Some b) 1 = Ok (slice (wx s) i (j + 1), slice (wy s) i (j + 1)) /\
    (i <= j)%nat /\ (j < length (wx s))%nat /\ nthq i (wx s) = a /\ nthq j (wx s) = b /\
    forall k, (k < length (wx s))%nat -> ((a <= nthq k (wx s) /\ nthq k (wx s) <= b) <-> (i <= k /\ k <= j)%nat).
Proof.
  intros s a b Hs L Ha Hb Hab.
  destruct (index_of_present a (wx s) 0 Ha) as [i Ei].
  destruct (index_of_present b (wx s) 0 Hb) as [j Ej].
  destruct (index_of_spec a (wx s) 0 i Ei) as (_ & Hi & Hia).
  destruct (index_of_spec b (wx s) 0 j Ej) as (_ & Hj & Hjb).
  rewrite Nat.sub_0_r in Hi, Hia, Hj, Hjb.
  assert (Hij : (i <= j)%nat).
  { destruct (Nat.le_gt_cases i j) as [Hle|Hgt]; [exact Hle|].
    pose proof (ssorted_nth_lt (wx s) j i Hs Hgt Hi) as Hlt.
    rewrite Hia, Hjb in Hlt. exfalso. qclra. }
  exists i, j. split; [|split; [exact Hij|split; [exact Hj|split; [exact Hia|split; [exact Hjb|]]]]].
  - unfold slice_by_value. rewrite Ei, Ej. cbn [bind]. unfold slice_by_index.
    destruct (Z.ltb_spec (Z.of_nat i) 0) as [H0|H0]; [lia|].
    destruct (Z.ltb_spec (Z.of_nat (length (wx s))) (Z.of_nat j + 1)) as [H1|H1]; [lia|].
    rewrite (py_slice_unit_step (wx s)) by lia.
    rewrite (py_slice_unit_step (wy s)) by (try rewrite <- L; lia).
    cbn [bind]. rewrite Nat2Z.id.
    replace (Z.to_nat (Z.of_nat j + 1)) with (j + 1)%nat by lia. reflexivity.
  - intros k Hk. split.
    + intros [Hak Hkb]. split.
      * destruct (Nat.le_gt_cases i k) as [Hle|Hgt]; [exact Hle|].
        pose proof (ssorted_nth_lt (wx s) k i Hs Hgt Hi) as Hlt.
        rewrite Hia in Hlt. exfalso. qclra.
      * destruct (Nat.le_gt_cases k j) as [Hle|Hgt]; [exact Hle|].
        pose proof (ssorted_nth_lt (wx s) j k Hs Hgt Hk) as Hlt.
        rewrite Hjb in Hlt. exfalso. qclra.
    + intros [Hik Hkj]. split.
      * rewrite <- Hia. apply ssorted_nth_le; assumption.
      * rewrite <- Hjb. apply ssorted_nth_le; assumption.
Qed.

Lemma slice_by_value_omitted : forall s, length (wx s) = length (wy s) -> slice_by_value s None None 1 = Ok (wx s, wy s).
Proof.
  intros s L. unfold slice_by_value. cbn [bind]. unfold slice_by_index.
  change (0 <? 0)%Z with false. rewrite Z.ltb_irrefl. cbv iota.
  rewrite (py_slice_unit_step (wx s)) by lia.
  rewrite (py_slice_unit_step (wy s)) by (try rewrite <- L; lia).
  cbn [bind]. change (Z.to_nat 0) with O. rewrite Nat2Z.id.
  rewrite slice_whole. rewrite L. rewrite slice_whole. reflexivity.
Qed.

(** ====================================================================== *)
(** C12                                                                     *)
(** ====================================================================== *)

Lemma weaver_repeat : forall s r s', (0 <= r)%Z -> step s (ORepeat r) = (s', Ok tt) ->
  (wx s', wy s') = repeat_series (wx s) (wy s) (Z.to_nat r) /\
  (wrx s', wry s') = repeat_series (wrx s) (wry s) (Z.to_nat r) /\ wox s' = wox s /\ woy s' = woy s.
Proof.
  intros s r s' Hr H. unfold step, fail, done in H.
  destruct (repeat_res (wx s) (wy s) r) as [xy|e] eqn:E1; [|discriminate].
  wsimpl. destruct (repeat_res (wrx s) (wry s) r) as [rr|e] eqn:E2; [|discriminate].
  injection H as <-. wsimpl.
  apply repeat_res_ok in E1, E2. destruct E1 as [_ <-]. destruct E2 as [_ <-].
  repeat split; [now destruct xy|now destruct rr].
Qed.

(** ====================================================================== *)
(** C13                                                                     *)
(** ====================================================================== *)

Lemma nthq_linspace : forall a b m i, (i < S (S m))%nat ->
  nthq i (linspace a b (S (S m))) = a + Qc_of_nat i * (b - a) / Qc_of_nat (S m).
Proof.
  intros a b m i Hi. unfold linspace. rewrite nthq_map_seq by exact Hi. reflexivity.
Qed.

Lemma linspace_ends_steps : forall a b m,
  headq (linspace a b (S (S m))) = a /\ lastq (linspace a b (S (S m))) = b /\
  forall i, (i + 1 < S (S m))%nat ->
    nthq (i + 1) (linspace a b (S (S m))) - nthq i (linspace a b (S (S m))) = (b - a) / Qc_of_nat (S m).
Proof.
  intros a b m.
  assert (Hq : Qc_of_nat (S m) <> 0) by (apply Qc_of_nat_neq0; lia).
  split; [|split].
  - rewrite headq_nthq, nthq_linspace by lia. rewrite Qc_of_nat_0. field. exact Hq.
  - rewrite (lastq_nthq_len _ (S (S m))).
    + replace (S (S m) - 1)%nat with (S m) by lia. rewrite nthq_linspace by lia. field. exact Hq.
    + apply linspace_length.
    + apply length_pos_not_nil. rewrite linspace_length. lia.
  - intros i Hi. rewrite !nthq_linspace by lia.
    replace (i + 1)%nat with (S i) by lia. rewrite (Qc_of_nat_S i). field. exact Hq.
Qed.

Lemma weaver_interp_n : forall s n a s', (2 <= n)%Z -> step s (OInterpN n a) = (s', Ok tt) ->
  let N := Z.to_nat n in
  length (wx s') = N /\ headq (wx s') = headq (wx s) /\ lastq (wx s') = lastq (wx s) /\
  forall i, (i + 1 < N)%nat -> nthq (i + 1) (wx s') - nthq i (wx s') = (lastq (wx s) - headq (wx s)) / Qc_of_nat (N - 1).
Proof.
  intros s n a s' Hn H. cbv zeta.
  unfold step, fail, done in H.
  assert (HN : (2 <= Z.to_nat n)%nat) by lia.
  remember (Z.to_nat n) as N eqn:EN. clear EN.
  set (g := linspace (headq (wx s)) (lastq (wx s)) N) in H.
  destruct (interp_eval (wx s) (wy s) g a) as [y'|e]; [|discriminate].
  injection H as <-. wsimpl. subst g.
  destruct N as [|[|m]]; [lia|lia|].
  destruct (linspace_ends_steps (headq (wx s)) (lastq (wx s)) m) as (H1 & H2 & H3).
  split; [apply linspace_length|]. split; [exact H1|]. split; [exact H2|].
  replace (S (S m) - 1)%nat with (S m) by lia. exact H3.
Qed.

Lemma weaver_interp_grid : forall s g a,
  ((headq g = headq (wx s) /\ lastq g = lastq (wx s)) ->
     forall ys, interp_eval (wx s) (wy s) g a = Ok ys -> step s (OInterpGrid g a) = (set_xy s g ys, Ok tt)) /\
  ((headq g <> headq (wx s) \/ lastq g <> lastq (wx s)) -> step s (OInterpGrid g a) = (s, Raise ValueError)).
Proof.
  intros s g a. split.
  - intros [Hh Hl] ys E. unfold step.
    qc_case (Qc_eqb (headq g) (headq (wx s))); [|contradiction].
    qc_case (Qc_eqb (lastq g) (lastq (wx s))); [|contradiction].
    cbn [negb orb]. rewrite E. reflexivity.
  - apply reject_grid_end_points.
Qed.

Lemma weaver_interp_linear_values : forall s n s', step s (OInterpN n (IOwn MLinear)) = (s', Ok tt) ->
  wy s' = interp_linear (wx s) (wy s) (wx s').
Proof.
  intros s n s' H. unfold step, fail, done, interp_eval in H.
  injection H as <-. wsimpl. reflexivity.
Qed.

(** ====================================================================== *)
(** C14                                                                     *)
(** ====================================================================== *)

Lemma weaver_shift_scale : forall s v,
  step s (OShiftX v) = (set_rx (set_x s (map (fun a => a + v) (wx s))) (map (fun a => a + v) (wrx s)), Ok tt) /\
  step s (OShiftY v) = (set_ry (set_y s (map (fun a => a + v) (wy s))) (map (fun a => a + v) (wry s)), Ok tt) /\
  step s (OScaleX v) = (set_rx (set_x s (map (fun a => a * v) (wx s))) (map (fun a => a * v) (wrx s)), Ok tt) /\
  step s (OScaleY v) = (set_ry (set_y s (map (fun a => a * v) (wy s))) (map (fun a => a * v) (wry s)), Ok tt).
Proof. intros s v. repeat split; reflexivity. Qed.

Lemma weaver_trend : forall s f nrm s', step s (OTrend f nrm) = (s', Ok tt) ->
  wx s' = wx s /\ wy s' = snd (trend f nrm (wx s) (wy s)) /\ wrx s' = wrx s /\ wry s' = wry s /\ wox s' = wox s /\ woy s' = woy s.
Proof.
  intros s f nrm s' H. unfold step, fail, done in H.
  destruct (trend_defined nrm (wx s)); [|discriminate].
  injection H as <-. wsimpl. repeat split; reflexivity.
Qed.

Lemma weaver_normalize_x : forall s lo hi s', step s (ONormX lo hi) = (s', Ok tt) ->
  wx s' = normalize (wx s) lo hi /\ wrx s' = normalize (wrx s) lo hi /\ wox s' = normalize (wox s) lo hi /\
  wy s' = wy s /\ wry s' = wry s /\ woy s' = woy s.
Proof.
  intros s lo hi s' H. unfold step, fail, done in H.
  destruct (normalize_res (wx s) lo hi) as [x'|e] eqn:E1; [|discriminate].
  wsimpl. destruct (normalize_res (wox s) lo hi) as [ox'|e] eqn:E2; [|discriminate].
  wsimpl. destruct (normalize_res (wrx s) lo hi) as [rx'|e] eqn:E3; [|discriminate].
  injection H as <-. wsimpl.
  apply normalize_res_ok in E1, E2, E3. subst x' ox' rx'. repeat split; reflexivity.
Qed.

(** ====================================================================== *)
(** C08                                                                     *)
(** ====================================================================== *)

Lemma weaver_pipeline : forall pw pwr gpow k s n s1 rt, PwOk pw -> known_rule rt ->
  Inv s -> ssorted (wx s) -> (2 <= length (wx s))%nat -> length (wx s) = length (wy s) -> (2 <= n)%Z ->
  step s (ORecreate n pwr gpow k) = (s1, Ok tt) ->
  exists s2, step s1 (OMatch pw (ByStrategy Closest) rt Rectangle) = (s2, Ok tt) /\
    let N := Z.to_nat n in
    wx s2 = oversample_linspace (wx s) N /\ length (wy s2) = length (wx s2) /\
    wrx s2 = wrx s /\ wry s2 = wry s /\
    forall j, (j + 1 < length (wx s))%nat ->
      total rt (slice (wx s2) (j * N) ((j + 1) * N + 1)) (slice (wy s2) (j * N) ((j + 1) * N + 1))
      = nthq j (wry s) * (nthq (j + 1) (wrx s) - nthq j (wrx s)).
Proof.
  intros pw pwr gpow k s n s1 rt Hpw Hrt [Ix Iy] Hs Hm Hxy Hn H.
  unfold step, fail, done in H.
  destruct (rfa_grid pwr gpow k (wx s) (wy s) n Hn Hm Hxy) as (xs & ys & E & G).
  cbv zeta in G. destruct G as (Gx & Gl & Gy & _).
  rewrite E in H. injection H as <-. cbn [fst snd].
  assert (HN : (2 <= Z.to_nat n)%nat) by lia.
  assert (Hys : length ys = ((length (wx s) - 1) * Z.to_nat n + 1)%nat) by congruence.
  destruct (pipeline_main pw (wx s) (wy s) (Z.to_nat n) ys rt Hpw Hrt Hs Hm Hxy HN Hys)
    as (res & Hres & Hlen & Hwin).
  exists (set_y (set_xy s xs ys) res). split.
  - unfold step, fail, done. wsimpl. rewrite <- Ix, <- Iy, Gx, Hres. reflexivity.
  - cbv zeta. wsimpl. rewrite <- Ix, <- Iy.
    split; [exact Gx|]. split; [congruence|]. split; [reflexivity|]. split; [reflexivity|].
    intros j Hj. rewrite Gx. apply Hwin. exact Hj.
Qed.
