(** The guards of the remote loader and the order / scoping of its effects, REGENERATED from datasets/_base.py
    (Gen/CacheSkeleton.v), are the ones the small-step model of Model/Cache.v is built from. *)
From Coq Require Import String.
From TW Require Import Model.Cache Gen.CacheSkeleton.
Open Scope nat_scope.

Fixpoint sassoc (k : string) (l : list (string * string)) : option string :=
  match l with [] => None | (k', v) :: l' => if String.eqb k k' then Some v else sassoc k l' end.

Section Skeleton.
Variable sha : blob -> nat.
Variable parse : bool -> blob -> option data.

Definition avail (f : fsys) (r : remote) : bool := match cache f (r_slot r) with Some _ => true | None => false end.

(** the first step: which of download / refuse / read the cache — by the regenerated conditions *)
Lemma skeleton_start : forall r fl f,
  pstep sha parse r fl f PStart EStep =
    if gen_download_cond (download_if_missing fl) (download_even_if_available fl) (avail f r)
    then (f, Some (PFetching (n_retries fl)))
    else if gen_missing_cond (download_if_missing fl) (download_even_if_available fl) (avail f r)
    then (f, Some (PDone (Raise OSError)))
    else (f, Some PReadCache).
Proof. intros r fl f. unfold pstep, avail, gen_download_cond, gen_missing_cond. reflexivity. Qed.

(** a failed download attempt: give up iff the regenerated test says so, otherwise retry with the regenerated counter *)
Lemma skeleton_retry : forall r fl f k,
  pstep sha parse r fl f (PFetching k) ENetFail =
    if gen_giveup (Z.of_nat k) then (f, Some (PDone (Raise OSError)))
    else (f, Some (PFetching (Z.to_nat (gen_next_retries (Z.of_nat k))))).
Proof.
  intros r fl f k. unfold pstep, gen_giveup, gen_next_retries. destruct k as [|k'].
  - reflexivity.
  - replace (Z.of_nat (S k') =? 0)%Z with false by (symmetry; apply Z.eqb_neq; lia).
    replace (Z.to_nat (Z.of_nat (S k') - 1)) with k' by lia. reflexivity.
Qed.

(** the checksum test *)
Lemma skeleton_checksum : forall r fl f b,
  pstep sha parse r fl f (PFetched b) EStep =
    if gen_checksum_reject (validate_checksum fl) (Nat.eqb (sha b) (r_digest r))
    then (f, Some (PDone (Raise OSError))) else (f, Some (PVerified b)).
Proof. intros. unfold pstep, gen_checksum_reject. reflexivity. Qed.

(** a successful download passes the program points in the order of the regenerated effect list:
    fetch, (checksum inside fetch), parse, dump, rename — and only the rename step touches the cache *)
Lemma skeleton_chain : forall r fl f b d,
  (validate_checksum fl && negb (Nat.eqb (sha b) (r_digest r))) = false -> parse (gzip fl) b = Some d ->
  pstep sha parse r fl f (PFetching (n_retries fl)) (ENetOk b) = (f, Some (PFetched b)) /\
  pstep sha parse r fl f (PFetched b) EStep = (f, Some (PVerified b)) /\
  pstep sha parse r fl f (PVerified b) EStep = (f, Some (PParsed d)) /\
  pstep sha parse r fl f (PParsed d) EStep = (f, Some (PDumped d)) /\
  pstep sha parse r fl f (PDumped d) EStep = (fs_set f (r_slot r) d, Some (PRenamed d)) /\
  pstep sha parse r fl (fs_set f (r_slot r) d) (PRenamed d) EStep = (fs_set f (r_slot r) d, Some (PDone (Ok d))).
Proof.
  intros r fl f b d Hc Hp. unfold pstep. rewrite Hc, Hp. repeat split; reflexivity.
Qed.
End Skeleton.

(** the structural facts the model relies on, read off the regenerated skeleton *)
Lemma skeleton_structure :
  gen_download_effects = ["makedirs"; "tmpdir"; "fetch"; "parse"; "dump"; "rename"; "cleanup"]%string /\
  (* the staging directory is a fresh TemporaryDirectory INSIDE the dataset's own directory (same file system: the rename is atomic;
     one per call: concurrent loaders never share it) *)
  gen_tmp_parent = "dataset_dir"%string /\
  (* the download, the temp file and the pickle all live in that staging directory *)
  sassoc "dirname" gen_fetch_kwargs = Some gen_tmp_var /\ gen_fetch_path_in_dirname = true /\
  gen_tmp_file = (gen_tmp_var, "dataset_filename"%string) /\ gen_dump_to_tmp_file = true /\
  (* the caller's retry count and checksum flag reach _fetch_remote unchanged *)
  sassoc "n_retries" gen_fetch_kwargs = Some "n_retries"%string /\ sassoc "validate_checksum" gen_fetch_kwargs = Some "validate_checksum"%string /\
  (* both parse branches read the verified download *)
  gen_parse_sources = [("gzip", "archive_path"); ("plain", "archive_path")]%string /\
  (* the only write to the cache slot is the rename of the complete temp file, inside the with block; the slot is
     data_home/dataset_folder/dataset_filename and a cache hit reads exactly that path *)
  gen_rename = ["dataset_tmp_file_path"; "dataset_file_path"]%string /\
  gen_slot_path = ["data_home"; "dataset_folder"; "dataset_filename"]%string /\
  gen_read_cache = (true, "dataset_file_path"%string) /\
  (* transient errors absorbed by the retry loop; what is raised otherwise *)
  gen_retry_caught = ["URLError"; "TimeoutError"]%string /\ gen_checksum_exn = "OSError"%string /\ gen_missing_exn = "OSError"%string.
Proof. repeat split; reflexivity. Qed.
