(** Equivariance and locality of the recreate-from-average closed forms
    (property C07): the closed forms of Model/RfaSpec.v commute with affine
    changes of units of the values and of the time axis, read only the
    neighbouring averages, and the fixed-window strategies act linearly and
    monotonically on the values. *)
From TW Require Import Model.RfaSpec Proofs.ListLemmas Proofs.ListLemmas2 Proofs.ListLemmas4
  Proofs.HelpersProofs.
Open Scope Qc_scope.

Definition ymap (a b : Qc) (y : list Qc) : list Qc := map (fun v => a * v + b) y.
Definition xmap (c d : Qc) (x : list Qc) : list Qc := map (fun v => c * v + d) x.
Definition yadd (y y' : list Qc) : list Qc := map2 Qcplus y y'.

(** ---------- small arithmetic facts ---------- *)

Lemma E_Qc_of_Z_0 : Qc_of_Z 0 = 0.
Proof. apply Qc_is_canon. reflexivity. Qed.

Lemma E_Qc_of_Z_le : forall a b, (a <= b)%Z -> Qc_of_Z a <= Qc_of_Z b.
Proof. intros a b H. unfold Qc_of_Z, Qcle. rewrite !this_Q2Qc. rewrite <- Zle_Qle. exact H. Qed.

Lemma E_Qc_of_Z_nonneg : forall a, (0 <= a)%Z -> 0 <= Qc_of_Z a.
Proof. intros a H. rewrite <- E_Qc_of_Z_0. now apply E_Qc_of_Z_le. Qed.

Lemma E_Qcinv_0 : / 0 = 0.
Proof. apply Qc_is_canon. reflexivity. Qed.

Lemma E_inv_facts : forall q, 0 <= q -> 0 <= / q /\ ((q = 0 /\ / q = 0) \/ q * / q = 1).
Proof.
  intros q Hq. destruct (Qc_eq_dec q 0) as [E|E].
  - subst q. rewrite E_Qcinv_0. split; [apply Qcle_refl|left; split; reflexivity].
  - assert (Hm : q * / q = 1) by (field; exact E).
    split; [|right; exact Hm].
    destruct (Qclt_le_dec (/ q) 0) as [Hn|Hn]; [|exact Hn].
    exfalso. set (iv := / q) in *. clearbody iv. qcnra.
Qed.

Lemma E_ratio01 : forall p q, 0 <= p -> p <= q -> 0 <= p / q /\ p / q <= 1.
Proof.
  intros p q Hp Hpq. assert (Hq : 0 <= q) by qclra.
  destruct (E_inv_facts q Hq) as [Hi [[E0 E1]|E]]; unfold Qcdiv.
  - rewrite E1. split; qclra.
  - set (iv := / q) in *. clearbody iv. split; qcnra.
Qed.

Lemma E_ratioZ01 : forall p q, (0 <= p)%Z -> (p <= q)%Z ->
  0 <= Qc_of_Z p / Qc_of_Z q /\ Qc_of_Z p / Qc_of_Z q <= 1.
Proof.
  intros p q Hp Hpq. apply E_ratio01; [now apply E_Qc_of_Z_nonneg|now apply E_Qc_of_Z_le].
Qed.

Lemma E_muldiv_assoc : forall a b c, a * b / c = a * (b / c).
Proof. intros. unfold Qcdiv. ring. Qed.

(** (c*p)/(c*q) = p/q for c <> 0, also when q = 0 (x/0 = 0 in Qc) *)
Lemma E_scale_ratio : forall c p q, c <> 0 -> (c * p) / (c * q) = p / q.
Proof.
  intros c p q Hc. destruct (Qc_eq_dec q 0) as [E|E].
  - subst q. replace (c * 0) with 0 by ring. unfold Qcdiv. rewrite E_Qcinv_0. ring.
  - field. split; assumption.
Qed.

Lemma E_Qc_abs_mul : forall a u, Qc_abs (a * u) = Qc_abs a * Qc_abs u.
Proof.
  intros a u. unfold Qc_abs.
  qc_case (Qc_leb 0 (a * u)); qc_case (Qc_leb 0 a); qc_case (Qc_leb 0 u); qcnra.
Qed.

Lemma E_Qc_abs_neq0 : forall a, a <> 0 -> Qc_abs a <> 0.
Proof. intros a H. unfold Qc_abs. qc_case (Qc_leb 0 a); qclra. Qed.

Lemma E_mul_eq0 : forall s v, s <> 0 -> (s * v = 0 <-> v = 0).
Proof.
  intros s v Hs. split; intros H.
  - destruct (Qcmult_integral _ _ H) as [E|E]; [contradiction|exact E].
  - subst v. ring.
Qed.

Lemma E_eqb_scale : forall s v, s <> 0 -> Qc_eqb (s * v) 0 = Qc_eqb v 0.
Proof.
  intros s v Hs. pose proof (E_mul_eq0 s v Hs) as H.
  destruct (Qc_eqb_spec (s * v) 0) as [E|E]; destruct (Qc_eqb_spec v 0) as [F|F]; try reflexivity; tauto.
Qed.

(** ---------- 1. the grid commutes with x -> c*x + d ---------- *)

Lemma lin_pts_affine : forall c d a b n,
  lin_pts (c * a + d) (c * b + d) n = map (fun v => c * v + d) (lin_pts a b n).
Proof.
  intros c d a b n. unfold lin_pts. rewrite map_map. apply map_ext. intros i.
  unfold Qcdiv. ring.
Qed.

Lemma oversample_linspace_go_affine : forall c d x n,
  oversample_linspace_go (map (fun v => c * v + d) x) n
  = map (fun v => c * v + d) (oversample_linspace_go x n).
Proof.
  intros c d x n. induction x as [|u x IH]; [reflexivity|].
  destruct x as [|v x]; [reflexivity|].
  cbn [map] in *. rewrite !oversample_linspace_go_cons2, map_app, lin_pts_affine.
  f_equal. exact IH.
Qed.

Theorem grid_x_affine : forall x n c d,
  oversample_linspace (xmap c d x) n = xmap c d (oversample_linspace x n).
Proof.
  intros x n c d. unfold oversample_linspace, xmap.
  destruct (n <? 2)%nat; [reflexivity|]. apply oversample_linspace_go_affine.
Qed.

(** ---------- the closed forms as functions of the averages ---------- *)

Definition conv (u v r : Qc) : Qc := u + (v - u) * r.

Definition rat (x : list Qc) (n : nat) (K ar al : Z) : Qc :=
  let wl := Qc_of_Z ar * dK x (K - 1) / qn n in
  let wr := Qc_of_Z al * dK x K / qn n in
  wl / (wl + wr).

Lemma border_conv : forall x y n K ar al,
  border x y n K ar al =
  if (ar =? 0)%Z && (al =? 0)%Z then avg x y (K - 1)
  else conv (avg x y (K - 1)) (avg x y K) (rat x n K ar al).
Proof.
  intros x y n K ar al. unfold border, rat, conv.
  destruct ((ar =? 0)%Z && (al =? 0)%Z); [reflexivity|]. cbv zeta. unfold Qcdiv. ring.
Qed.

Definition shl (n : nat) (i al ar : Z) (A z0 z1 : Qc) : Qc :=
  let n := Z.of_nat n in
  if (i <? al)%Z then z0 + (A - z0) * Qc_of_Z i / Qc_of_Z al
  else if (i <=? n - ar)%Z then A
  else A + (z1 - A) * Qc_of_Z (i - (n - ar)) / Qc_of_Z ar.

Definition she (pw : Qc -> Qc) (n : nat) (i al ar bl br : Z) (A z0 z1 : Qc) : Qc :=
  let n := Z.of_nat n in
  let zlb := if (bl =? 0)%Z then z0 else z0 + (A - z0) * Qc_of_Z bl / Qc_of_Z al in
  let zrb := if (br =? 0)%Z then z1 else A + (z1 - A) * Qc_of_Z (ar - br) / Qc_of_Z ar in
  if (i <? bl)%Z then z0 + (zlb - z0) * Qc_of_Z i / Qc_of_Z bl
  else if (i <? al)%Z then zlb + (A - zlb) * g_lin_exp_xy pw (Qc_of_Z (i - bl) / Qc_of_Z (al - bl))
  else if (i <? n - ar)%Z then A
  else if (i <? n - br)%Z then A + (zrb - A) * g_exp_lin pw (Qc_of_Z (i - (n - ar)) / Qc_of_Z (ar - br))
  else zrb + (z1 - zrb) * Qc_of_Z (i - (n - br)) / Qc_of_Z br.

Lemma shape_linear_shl : forall x y n K i al ar z0 z1,
  shape_linear x y n K i al ar z0 z1 = shl n i al ar (avg x y K) z0 z1.
Proof. reflexivity. Qed.

Lemma shape_exp_she : forall pw x y n K i al ar bl br z0 z1,
  shape_exp pw x y n K i al ar bl br z0 z1 = she pw n i al ar bl br (avg x y K) z0 z1.
Proof. reflexivity. Qed.

(** affine / additive behaviour of the pieces *)

Lemma conv_affine : forall a b u v r, conv (a * u + b) (a * v + b) r = a * conv u v r + b.
Proof. intros. unfold conv. ring. Qed.

Lemma conv_add : forall u v u' v' r, conv (u + u') (v + v') r = conv u v r + conv u' v' r.
Proof. intros. unfold conv. ring. Qed.

Lemma shl_affine : forall n i al ar a b A z0 z1,
  shl n i al ar (a * A + b) (a * z0 + b) (a * z1 + b) = a * shl n i al ar A z0 z1 + b.
Proof.
  intros. unfold shl. cbv zeta.
  destruct (i <? al)%Z; [unfold Qcdiv; ring|].
  destruct (i <=? Z.of_nat n - ar)%Z; [reflexivity|]. unfold Qcdiv; ring.
Qed.

Lemma shl_add : forall n i al ar A z0 z1 A' z0' z1',
  shl n i al ar (A + A') (z0 + z0') (z1 + z1') = shl n i al ar A z0 z1 + shl n i al ar A' z0' z1'.
Proof.
  intros. unfold shl. cbv zeta.
  destruct (i <? al)%Z; [unfold Qcdiv; ring|].
  destruct (i <=? Z.of_nat n - ar)%Z; [reflexivity|]. unfold Qcdiv; ring.
Qed.

Lemma she_affine : forall pw n i al ar bl br a b A z0 z1,
  she pw n i al ar bl br (a * A + b) (a * z0 + b) (a * z1 + b) = a * she pw n i al ar bl br A z0 z1 + b.
Proof.
  intros. unfold she. cbv zeta.
  destruct (bl =? 0)%Z; destruct (br =? 0)%Z;
    (destruct (i <? bl)%Z; [unfold Qcdiv; ring|];
     destruct (i <? al)%Z; [unfold Qcdiv; ring|];
     destruct (i <? Z.of_nat n - ar)%Z; [reflexivity|];
     destruct (i <? Z.of_nat n - br)%Z; unfold Qcdiv; ring).
Qed.

Lemma she_add : forall pw n i al ar bl br A z0 z1 A' z0' z1',
  she pw n i al ar bl br (A + A') (z0 + z0') (z1 + z1')
  = she pw n i al ar bl br A z0 z1 + she pw n i al ar bl br A' z0' z1'.
Proof.
  intros. unfold she. cbv zeta.
  destruct (bl =? 0)%Z; destruct (br =? 0)%Z;
    (destruct (i <? bl)%Z; [unfold Qcdiv; ring|];
     destruct (i <? al)%Z; [unfold Qcdiv; ring|];
     destruct (i <? Z.of_nat n - ar)%Z; [reflexivity|];
     destruct (i <? Z.of_nat n - br)%Z; unfold Qcdiv; ring).
Qed.

(** ---------- 2. averages and border values under y -> a*y + b ---------- *)

Lemma avg_map : forall (f : Qc -> Qc) x y K, (2 <= length x)%nat -> length x = length y ->
  avg x (map f y) K = f (avg x y K).
Proof.
  intros f x y K Hx Hxy. unfold avg, m.
  destruct (K <=? 0)%Z eqn:E1; [apply nthq_map; lia|].
  destruct (Z.of_nat (length x) - 1 <? K)%Z eqn:E2; [apply nthq_map; lia|].
  apply Z.leb_gt in E1. apply Z.ltb_ge in E2. apply nthq_map. lia.
Qed.

Lemma avg_ymap : forall x y a b K, (2 <= length x)%nat -> length x = length y ->
  avg x (ymap a b y) K = a * avg x y K + b.
Proof. intros x y a b K Hx Hxy. unfold ymap. now rewrite avg_map. Qed.

Lemma border_ymap : forall x y n a b K ar al, (2 <= length x)%nat -> length x = length y ->
  border x (ymap a b y) n K ar al = a * border x y n K ar al + b.
Proof.
  intros x y n a b K ar al Hx Hxy. rewrite !border_conv, !avg_ymap by assumption.
  destruct ((ar =? 0)%Z && (al =? 0)%Z); [reflexivity|]. apply conv_affine.
Qed.

Theorem avg_border_y_affine : forall x y n a b K ar al, (2 <= length x)%nat -> length x = length y ->
  avg x (ymap a b y) K = a * avg x y K + b /\
  border x (ymap a b y) n K ar al = a * border x y n K ar al + b.
Proof.
  intros x y n a b K ar al Hx Hxy. split; [now apply avg_ymap|now apply border_ymap].
Qed.

(** ---------- 3. shapes ---------- *)

Theorem shape_y_affine : forall pw x y n a b K i al ar bl br z0 z1, (2 <= length x)%nat -> length x = length y ->
  shape_linear x (ymap a b y) n K i al ar (a * z0 + b) (a * z1 + b) = a * shape_linear x y n K i al ar z0 z1 + b /\
  shape_exp pw x (ymap a b y) n K i al ar bl br (a * z0 + b) (a * z1 + b) = a * shape_exp pw x y n K i al ar bl br z0 z1 + b.
Proof.
  intros pw x y n a b K i al ar bl br z0 z1 Hx Hxy.
  rewrite !shape_linear_shl, !shape_exp_she, !avg_ymap by assumption.
  split; [apply shl_affine|apply she_affine].
Qed.

(** ---------- 4. fixed windows ---------- *)

Theorem fixed_y_affine : forall pw x y n a b h bb K i, (2 <= length x)%nat -> length x = length y ->
  out_linear_fixed x (ymap a b y) n h K i = a * out_linear_fixed x y n h K i + b /\
  out_exp_fixed pw x (ymap a b y) n h bb K i = a * out_exp_fixed pw x y n h bb K i + b.
Proof.
  intros pw x y n a b h bb K i Hx Hxy. unfold out_linear_fixed, out_exp_fixed.
  rewrite !shape_linear_shl, !shape_exp_she, !avg_ymap, !border_ymap by assumption.
  split; [apply shl_affine|apply she_affine].
Qed.

(** ---------- the prepared (extended) value array ---------- *)

Lemma E_py_index_nonneg : forall len i, (0 <= i)%Z -> (i < Z.of_nat len)%Z ->
  py_index len i = Some (Z.to_nat i).
Proof.
  intros len i H0 H1. unfold py_index.
  destruct (Z.leb_spec 0 i); [|lia]. destruct (Z.ltb_spec i (Z.of_nat len)); [|lia]. reflexivity.
Qed.

Lemma E_S_sub1 : forall k, (S k - 1 = k)%nat.
Proof. intros k. lia. Qed.

Lemma prepare_ye_facts : forall x y n, (2 <= n)%nat -> (2 <= length y)%nat ->
  let ys := ye (prepare x y n) in
  length ys = ((length y + 1) * n + 1)%nat /\
  nthq 0 ys = nthq 0 y /\
  (forall k, (1 <= k)%nat -> (k <= length y - 1)%nat -> nthq (k * n) ys = nthq (k - 1) y) /\
  nthq (length y * n) ys = nthq (length y - 1) y.
Proof.
  intros x y n Hn Hy ys. subst ys. unfold prepare. cbn [ye].
  assert (Hy' : y <> []) by (apply length_pos_not_nil; lia).
  destruct (oversample_pc_spec y n Hn Hy') as (Hlen & Hnth & Hlast).
  set (a := oversample_pc y n) in *.
  assert (Ha : a <> []) by (apply length_pos_not_nil; rewrite Hlen, Nat.add_1_r; apply Nat.lt_0_succ).
  destruct (extend_constant_spec a n Both Ha) as (Elen & Emid & Eleft & Eright).
  cbn [goes_left goes_right] in *. cbv zeta in *.
  set (out := extend_constant a n Both) in *.
  assert (Hmul : ((length y + 1) * n + 1 = n + ((length y - 1) * n + 1) + n)%nat).
  { destruct (length y) as [|ly]; [lia|]. rewrite E_S_sub1. lia. }
  split; [rewrite Elen, Hlen; lia|]. split; [|split].
  - rewrite (Eleft 0%nat) by lia. rewrite headq_nthq.
    change 0%nat with (0 * n + 0)%nat at 1. rewrite Hnth by lia. reflexivity.
  - intros k Hk1 Hk2.
    replace (k * n)%nat with (n + ((k - 1) * n + 0))%nat
      by (destruct k as [|k]; [lia|]; rewrite E_S_sub1; lia).
    rewrite Emid.
    + apply Hnth; lia.
    + rewrite Hlen. assert ((k - 1) * n <= (length y - 1 - 1) * n)%nat by (apply Nat.mul_le_mono_r; lia).
      assert ((length y - 1 - 1) * n + n = (length y - 1) * n)%nat.
      { destruct (length y) as [|[|ly]]; [lia|lia|]. rewrite !E_S_sub1. lia. }
      lia.
  - replace (length y * n)%nat with (n + (length y - 1) * n)%nat
      by (destruct (length y) as [|ly]; [lia|]; rewrite E_S_sub1; lia).
    rewrite Emid by (rewrite Hlen; lia). rewrite Hlast. now apply lastq_nthq.
Qed.

(** the interval averages read by the adaptive-window computation *)
Lemma Y_prepare : forall x y n K, (2 <= n)%nat -> (2 <= length x)%nat -> length x = length y ->
  (0 <= K)%Z -> (K <= Z.of_nat (length x))%Z -> Y (prepare x y n) K 0 = avg x y K.
Proof.
  intros x y n K Hn Hx Hxy HK0 HK1.
  assert (Hy : (2 <= length y)%nat) by lia.
  destruct (prepare_ye_facts x y n Hn Hy) as (Hlen & H0 & Hmid & Hlast). cbv zeta in *.
  unfold Y, getz. change (en (prepare x y n)) with (Z.of_nat n).
  set (ys := ye (prepare x y n)) in *.
  rewrite E_py_index_nonneg; [|nia|rewrite Hlen; nia].
  rewrite Z.add_0_r, Z2Nat.inj_mul, Nat2Z.id by lia.
  unfold avg, m.
  destruct (Z.leb_spec K 0) as [E1|E1].
  - replace K with 0%Z by lia. exact H0.
  - destruct (Z.ltb_spec (Z.of_nat (length x) - 1) K) as [E2|E2].
    + replace (Z.to_nat K) with (length y) by lia. rewrite Hxy. exact Hlast.
    + apply Hmid; lia.
Qed.

Lemma nfull_prepare : forall x y n, (2 <= n)%nat -> (2 <= length x)%nat ->
  nfull (prepare x y n) = Z.of_nat (length x + 1).
Proof.
  intros x y n Hn Hx. unfold prepare. cbn [nfull]. f_equal.
  assert (Hx' : x <> []) by (apply length_pos_not_nil; lia).
  destruct (oversample_linspace_spec x n Hn Hx') as (Hlen & _).
  set (a := oversample_linspace x n) in *.
  assert (Hla : (n + 1 <= length a)%nat).
  { rewrite Hlen. assert (1 * n <= (length x - 1) * n)%nat by (apply Nat.mul_le_mono_r; lia). lia. }
  destruct (extend_linspace_spec a n Both None None Hla) as (Elen & _).
  cbn [goes_left goes_right] in Elen. cbv zeta in Elen. rewrite Elen, Hlen.
  symmetry. apply (Nat.div_unique _ n (length x + 1) 1); [lia|].
  destruct (length x) as [|lx]; [lia|]. rewrite E_S_sub1. lia.
Qed.

Lemma in_zrange : forall k lo hi, In k (zrange lo hi) -> (lo <= k)%Z /\ (k < hi)%Z.
Proof.
  intros k lo hi H. unfold zrange in H. apply in_map_iff in H. destruct H as (j & <- & Hj).
  apply in_seq in Hj. lia.
Qed.

(** ---------- 5. adaptive windows under y -> a*y + b ---------- *)

Lemma adaptive_pair_scale : forall gpow aa s nom den, s <> 0 ->
  adaptive_pair gpow aa (s * nom) (s * den) = adaptive_pair gpow aa nom den.
Proof.
  intros gpow aa s nom den Hs. unfold adaptive_pair.
  rewrite !E_eqb_scale by exact Hs.
  destruct (Qc_eqb nom 0); destruct (Qc_eqb den 0); cbn [andb]; try reflexivity.
  rewrite E_scale_ratio by exact Hs. reflexivity.
Qed.

Theorem adaptive_windows_y_affine : forall gpow x y n a b aa, a <> 0 -> (2 <= n)%nat -> (2 <= length x)%nat -> length x = length y ->
  adaptive_windows gpow (prepare x (ymap a b y) n) aa = adaptive_windows gpow (prepare x y n) aa.
Proof.
  intros gpow x y n a b aa Ha Hn Hx Hxy. unfold adaptive_windows.
  assert (Hxy' : length x = length (ymap a b y)) by (unfold ymap; now rewrite map_length).
  set (e' := prepare x (ymap a b y) n). set (e := prepare x y n).
  assert (E : map (fun k => adaptive_pair gpow aa (Qc_abs (Y e' (k + 1) 0 - Y e' k 0)) (Qc_abs (Y e' k 0 - Y e' (k - 1) 0))) (intervals e')
            = map (fun k => adaptive_pair gpow aa (Qc_abs (Y e (k + 1) 0 - Y e k 0)) (Qc_abs (Y e k 0 - Y e (k - 1) 0))) (intervals e)).
  { change (intervals e') with (intervals e). apply map_ext_in. intros k Hk.
    unfold intervals in Hk. apply in_zrange in Hk. subst e e'.
    rewrite nfull_prepare in Hk by assumption.
    rewrite !Y_prepare by (try assumption; lia).
    rewrite !avg_ymap by assumption.
    replace (a * avg x y (k + 1) + b - (a * avg x y k + b)) with (a * (avg x y (k + 1) - avg x y k)) by ring.
    replace (a * avg x y k + b - (a * avg x y (k - 1) + b)) with (a * (avg x y k - avg x y (k - 1))) by ring.
    rewrite !E_Qc_abs_mul. apply adaptive_pair_scale. now apply E_Qc_abs_neq0. }
  cbv zeta. rewrite E. reflexivity.
Qed.

(** ---------- 6. adaptive strategies with given windows ---------- *)

Theorem adaptive_y_affine : forall pw x y n a b beta als ars K i, (2 <= length x)%nat -> length x = length y ->
  out_linear_adaptive x (ymap a b y) n als ars K i = a * out_linear_adaptive x y n als ars K i + b /\
  out_exp_adaptive pw x (ymap a b y) n beta als ars K i = a * out_exp_adaptive pw x y n beta als ars K i + b.
Proof.
  intros pw x y n a b beta als ars K i Hx Hxy. unfold out_linear_adaptive, out_exp_adaptive.
  rewrite !shape_linear_shl, !shape_exp_she, !avg_ymap, !border_ymap by assumption.
  split; [apply shl_affine|apply she_affine].
Qed.

(** ---------- 7. time axis x -> c*x + d ---------- *)

Lemma avg_xmap : forall x y c d K, avg (xmap c d x) y K = avg x y K.
Proof. intros. unfold avg, m, xmap. rewrite map_length. reflexivity. Qed.

Lemma dK_xmap : forall x c d K, (2 <= length x)%nat -> dK (xmap c d x) K = c * dK x K.
Proof.
  intros x c d K Hx. unfold dK, m, xmap. rewrite map_length.
  destruct (K <=? 0)%Z eqn:E1; [rewrite !nthq_map by lia; ring|].
  destruct (Z.of_nat (length x) - 1 <? K)%Z eqn:E2; [rewrite !nthq_map by lia; ring|].
  apply Z.leb_gt in E1. apply Z.ltb_ge in E2. rewrite !nthq_map by lia. ring.
Qed.

Lemma rat_xmap : forall x n c d K ar al, c <> 0 -> (2 <= length x)%nat ->
  rat (xmap c d x) n K ar al = rat x n K ar al.
Proof.
  intros x n c d K ar al Hc Hx. unfold rat. rewrite !dK_xmap by exact Hx. cbv zeta.
  set (wl := Qc_of_Z ar * dK x (K - 1) / qn n). set (wr := Qc_of_Z al * dK x K / qn n).
  replace (Qc_of_Z ar * (c * dK x (K - 1)) / qn n) with (c * wl) by (subst wl; unfold Qcdiv; ring).
  replace (Qc_of_Z al * (c * dK x K) / qn n) with (c * wr) by (subst wr; unfold Qcdiv; ring).
  replace (c * wl + c * wr) with (c * (wl + wr)) by ring.
  now apply E_scale_ratio.
Qed.

Lemma border_xmap : forall x y n c d K ar al, c <> 0 -> (2 <= length x)%nat ->
  border (xmap c d x) y n K ar al = border x y n K ar al.
Proof.
  intros x y n c d K ar al Hc Hx. rewrite !border_conv, !avg_xmap, rat_xmap by assumption. reflexivity.
Qed.

Theorem out_x_affine : forall pw x y n c d beta h bb als ars K i, 0 < c -> (2 <= length x)%nat -> (1 <= n)%nat ->
  out_linear_fixed (xmap c d x) y n h K i = out_linear_fixed x y n h K i /\
  out_exp_fixed pw (xmap c d x) y n h bb K i = out_exp_fixed pw x y n h bb K i /\
  out_linear_adaptive (xmap c d x) y n als ars K i = out_linear_adaptive x y n als ars K i /\
  out_exp_adaptive pw (xmap c d x) y n beta als ars K i = out_exp_adaptive pw x y n beta als ars K i.
Proof.
  intros pw x y n c d beta h bb als ars K i Hc Hx Hn.
  assert (Hc0 : c <> 0) by (intros E; subst c; exact (Qclt_not_eq _ _ Hc eq_refl)).
  unfold out_linear_fixed, out_exp_fixed, out_linear_adaptive, out_exp_adaptive.
  rewrite !shape_linear_shl, !shape_exp_she, !avg_xmap, !border_xmap by assumption.
  repeat split; reflexivity.
Qed.

(** ---------- 8. the adaptive windows do not read the time axis ---------- *)

Lemma xe_prepare_length : forall x y n,
  length (xe (prepare x y n)) = (n + length (oversample_linspace x n) + n)%nat.
Proof.
  intros x y n. unfold prepare. cbn [xe]. unfold extend_linspace. cbn [goes_left goes_right].
  rewrite !app_length, lin_pts_length, lin_pts_tail_length. reflexivity.
Qed.

Theorem adaptive_windows_x_affine : forall gpow x y n c d aa, 0 < c -> (2 <= n)%nat -> (2 <= length x)%nat -> length x = length y ->
  adaptive_windows gpow (prepare (xmap c d x) y n) aa = adaptive_windows gpow (prepare x y n) aa.
Proof.
  intros gpow x y n c d aa Hc Hn Hx Hxy. unfold adaptive_windows.
  assert (EI : intervals (prepare (xmap c d x) y n) = intervals (prepare x y n)).
  { unfold intervals. f_equal. f_equal.
    change (nfull (prepare (xmap c d x) y n)) with (Z.of_nat (length (xe (prepare (xmap c d x) y n)) / n)).
    change (nfull (prepare x y n)) with (Z.of_nat (length (xe (prepare x y n)) / n)).
    rewrite !xe_prepare_length, grid_x_affine. unfold xmap. rewrite map_length. reflexivity. }
  rewrite EI.
  change (Y (prepare (xmap c d x) y n)) with (Y (prepare x y n)).
  reflexivity.
Qed.

(** ---------- 9. locality of the fixed-window strategies ---------- *)

Lemma border_local : forall x y y' n K ar al,
  avg x y (K - 1) = avg x y' (K - 1) -> avg x y K = avg x y' K ->
  border x y n K ar al = border x y' n K ar al.
Proof. intros x y y' n K ar al H0 H1. rewrite !border_conv, H0, H1. reflexivity. Qed.

Theorem locality_fixed : forall pw x y y' n h bb K i, length y = length x -> length y' = length x ->
  avg x y (K - 1) = avg x y' (K - 1) -> avg x y K = avg x y' K -> avg x y (K + 1) = avg x y' (K + 1) ->
  out_linear_fixed x y n h K i = out_linear_fixed x y' n h K i /\
  out_exp_fixed pw x y n h bb K i = out_exp_fixed pw x y' n h bb K i.
Proof.
  intros pw x y y' n h bb K i _ _ H0 H1 H2. unfold out_linear_fixed, out_exp_fixed.
  rewrite !shape_linear_shl, !shape_exp_she.
  assert (B0 : border x y n K h h = border x y' n K h h) by (apply border_local; assumption).
  assert (B1 : border x y n (K + 1) h h = border x y' n (K + 1) h h).
  { apply border_local; [|exact H2]. replace (K + 1 - 1)%Z with K by lia. exact H1. }
  rewrite B0, B1, H1. split; reflexivity.
Qed.

(** ---------- 10. locality of the adaptive strategies ---------- *)

Lemma E_nth_map_seq : forall (phi : nat -> Z) p j d, (j < p)%nat -> nth j (map phi (seq 0 p)) d = phi j.
Proof.
  intros phi p j d H.
  rewrite (nth_indep _ d (phi 0%nat)) by (rewrite map_length, seq_length; exact H).
  rewrite map_nth. rewrite seq_nth by exact H. reflexivity.
Qed.

Lemma E_nth_window_list : forall (phi : nat -> Z) p J,
  let L := (1 :: map phi (seq 0 p) ++ [1])%Z in
  ((J <= 0)%Z -> nthZ L J = 1%Z) /\
  (J = (Z.of_nat p + 1)%Z -> nthZ L J = 1%Z) /\
  ((1 <= J)%Z -> (J <= Z.of_nat p)%Z -> nthZ L J = phi (Z.to_nat J - 1)%nat).
Proof.
  intros phi p J L. subst L. unfold nthZ. split; [|split].
  - intros H. replace (Z.to_nat J) with 0%nat by lia. reflexivity.
  - intros ->. replace (Z.to_nat (Z.of_nat p + 1)) with (S p) by lia. cbn [nth].
    rewrite app_nth2 by (rewrite map_length, seq_length; lia).
    rewrite map_length, seq_length, Nat.sub_diag. reflexivity.
  - intros H1 H2. destruct (Z.to_nat J) as [|q] eqn:Eq; [lia|]. cbn [nth]. rewrite E_S_sub1.
    rewrite app_nth1 by (rewrite map_length, seq_length; lia).
    apply E_nth_map_seq. lia.
Qed.

(** the K-th windows are the adaptive pair of the jumps of the averages around K *)
Lemma windows_nth : forall gpow x y n aa J, (2 <= n)%nat -> (2 <= length x)%nat -> length x = length y ->
  let w := adaptive_windows gpow (prepare x y n) aa in
  let pr := adaptive_pair gpow aa (Qc_abs (avg x y (J + 1) - avg x y J)) (Qc_abs (avg x y J - avg x y (J - 1))) in
  ((J <= 0)%Z -> nthZ (fst w) J = 1%Z /\ nthZ (snd w) J = 1%Z) /\
  (J = Z.of_nat (length x) -> nthZ (fst w) J = 1%Z /\ nthZ (snd w) J = 1%Z) /\
  ((1 <= J)%Z -> (J <= Z.of_nat (length x) - 1)%Z -> nthZ (fst w) J = fst pr /\ nthZ (snd w) J = snd pr).
Proof.
  intros gpow x y n aa J Hn Hx Hxy w pr. subst w pr. unfold adaptive_windows. cbv zeta. cbn [fst snd].
  unfold intervals, zrange. rewrite nfull_prepare by assumption.
  replace (Z.to_nat (Z.of_nat (length x + 1) - 1 - 1)) with (length x - 1)%nat by lia.
  rewrite !map_map.
  set (e := prepare x y n).
  set (F := fun k => adaptive_pair gpow aa (Qc_abs (Y e (k + 1) 0 - Y e k 0)) (Qc_abs (Y e k 0 - Y e (k - 1) 0))).
  destruct (E_nth_window_list (fun j => fst (F (1 + Z.of_nat j)%Z)) (length x - 1) J) as (A0 & A1 & A2).
  destruct (E_nth_window_list (fun j => snd (F (1 + Z.of_nat j)%Z)) (length x - 1) J) as (B0 & B1 & B2).
  cbv zeta in *. split; [|split].
  - intros H. split; [now apply A0|now apply B0].
  - intros H. split; [apply A1|apply B1]; lia.
  - intros H1 H2.
    assert (EJ : (1 + Z.of_nat (Z.to_nat J - 1))%Z = J) by lia.
    split; (etransitivity; [first [apply A2|apply B2]; lia|]); cbv beta; rewrite EJ;
      subst F e; cbv beta; rewrite !Y_prepare by (try assumption; lia); reflexivity.
Qed.

Lemma windows_local : forall gpow x y y' n aa J, (2 <= n)%nat -> (2 <= length x)%nat ->
  length x = length y -> length x = length y' -> (0 <= J)%Z -> (J <= Z.of_nat (length x))%Z ->
  avg x y (J - 1) = avg x y' (J - 1) -> avg x y J = avg x y' J -> avg x y (J + 1) = avg x y' (J + 1) ->
  nthZ (fst (adaptive_windows gpow (prepare x y n) aa)) J = nthZ (fst (adaptive_windows gpow (prepare x y' n) aa)) J /\
  nthZ (snd (adaptive_windows gpow (prepare x y n) aa)) J = nthZ (snd (adaptive_windows gpow (prepare x y' n) aa)) J.
Proof.
  intros gpow x y y' n aa J Hn Hx Hxy Hxy' HJ0 HJ1 E0 E1 E2.
  destruct (windows_nth gpow x y n aa J Hn Hx Hxy) as (A0 & A1 & A2).
  destruct (windows_nth gpow x y' n aa J Hn Hx Hxy') as (B0 & B1 & B2).
  cbv zeta in *.
  destruct (Z.eq_dec J 0) as [Z0|Z0].
  - destruct A0 as [-> ->]; [lia|]. destruct B0 as [-> ->]; [lia|]. split; reflexivity.
  - destruct (Z.eq_dec J (Z.of_nat (length x))) as [Zm|Zm].
    + destruct (A1 Zm) as [-> ->]. destruct (B1 Zm) as [-> ->]. split; reflexivity.
    + destruct A2 as [-> ->]; [lia|lia|]. destruct B2 as [-> ->]; [lia|lia|].
      rewrite E0, E1, E2. split; reflexivity.
Qed.

Theorem locality_adaptive : forall pw gpow x y y' n aa beta K i, (2 <= n)%nat -> (2 <= length x)%nat ->
  length y = length x -> length y' = length x -> (1 <= K)%Z -> (K <= Z.of_nat (length x) - 1)%Z ->
  (forall J, (K - 2 <= J)%Z -> (J <= K + 2)%Z -> avg x y J = avg x y' J) ->
  let w := adaptive_windows gpow (prepare x y n) aa in
  let w' := adaptive_windows gpow (prepare x y' n) aa in
  out_linear_adaptive x y n (fst w) (snd w) K i = out_linear_adaptive x y' n (fst w') (snd w') K i /\
  out_exp_adaptive pw x y n beta (fst w) (snd w) K i = out_exp_adaptive pw x y' n beta (fst w') (snd w') K i.
Proof.
  intros pw gpow x y y' n aa beta K i Hn Hx Hy Hy' HK1 HK2 Havg w w'. subst w w'.
  symmetry in Hy, Hy'.
  assert (HW : forall J, (K - 1 <= J)%Z -> (J <= K + 1)%Z ->
    nthZ (fst (adaptive_windows gpow (prepare x y n) aa)) J = nthZ (fst (adaptive_windows gpow (prepare x y' n) aa)) J /\
    nthZ (snd (adaptive_windows gpow (prepare x y n) aa)) J = nthZ (snd (adaptive_windows gpow (prepare x y' n) aa)) J).
  { intros J HJ1 HJ2. apply windows_local; try assumption; try lia; apply Havg; lia. }
  destruct (HW (K - 1)%Z) as [Wa0 Wb0]; [lia|lia|].
  destruct (HW K) as [Wa1 Wb1]; [lia|lia|].
  destruct (HW (K + 1)%Z) as [Wa2 Wb2]; [lia|lia|].
  set (als := fst (adaptive_windows gpow (prepare x y n) aa)) in *.
  set (ars := snd (adaptive_windows gpow (prepare x y n) aa)) in *.
  set (als' := fst (adaptive_windows gpow (prepare x y' n) aa)) in *.
  set (ars' := snd (adaptive_windows gpow (prepare x y' n) aa)) in *.
  clearbody als ars als' ars'.
  unfold out_linear_adaptive, out_exp_adaptive.
  rewrite !shape_linear_shl, !shape_exp_she.
  rewrite Wb0, Wa1, Wb1, Wa2.
  assert (B0 : forall ar al, border x y n K ar al = border x y' n K ar al).
  { intros ar al. apply border_local; apply Havg; lia. }
  assert (B1 : forall ar al, border x y n (K + 1) ar al = border x y' n (K + 1) ar al).
  { intros ar al. apply border_local; apply Havg; lia. }
  rewrite !B0, !B1, (Havg K) by lia. split; reflexivity.
Qed.

(** ---------- 11. additivity of the fixed-window strategies ---------- *)

Lemma avg_yadd : forall x y y' K, (2 <= length x)%nat -> length y = length x -> length y' = length x ->
  avg x (yadd y y') K = avg x y K + avg x y' K.
Proof.
  intros x y y' K Hx Hy Hy'. unfold avg, m, yadd.
  destruct (K <=? 0)%Z eqn:E1; [apply nthq_map2_in; lia|].
  destruct (Z.of_nat (length x) - 1 <? K)%Z eqn:E2; [apply nthq_map2_in; lia|].
  apply Z.leb_gt in E1. apply Z.ltb_ge in E2. apply nthq_map2_in; lia.
Qed.

Lemma border_yadd : forall x y y' n K ar al, (2 <= length x)%nat -> length y = length x -> length y' = length x ->
  border x (yadd y y') n K ar al = border x y n K ar al + border x y' n K ar al.
Proof.
  intros x y y' n K ar al Hx Hy Hy'. rewrite !border_conv, !avg_yadd by assumption.
  destruct ((ar =? 0)%Z && (al =? 0)%Z); [reflexivity|]. apply conv_add.
Qed.

Theorem fixed_additive : forall pw x y y' n h bb K i, (2 <= length x)%nat -> length y = length x -> length y' = length x ->
  out_linear_fixed x (yadd y y') n h K i = out_linear_fixed x y n h K i + out_linear_fixed x y' n h K i /\
  out_exp_fixed pw x (yadd y y') n h bb K i = out_exp_fixed pw x y n h bb K i + out_exp_fixed pw x y' n h bb K i.
Proof.
  intros pw x y y' n h bb K i Hx Hy Hy'. unfold out_linear_fixed, out_exp_fixed.
  rewrite !shape_linear_shl, !shape_exp_she, !avg_yadd, !border_yadd by assumption.
  split; [apply shl_add|apply she_add].
Qed.

(** ---------- 12. monotonicity of the fixed-window strategies ---------- *)

Lemma avg_mono : forall x y y' K, (forall j, nthq j y <= nthq j y') -> avg x y K <= avg x y' K.
Proof.
  intros x y y' K H. unfold avg.
  destruct (K <=? 0)%Z; [apply H|]. destruct (Z.of_nat (m x) - 1 <? K)%Z; apply H.
Qed.

Lemma mono_mul : forall u v u' v' r, 0 <= r -> r <= 1 -> u <= u' -> v <= v' ->
  u + (v - u) * r <= u' + (v' - u') * r.
Proof. intros u v u' v' r H0 H1 Hu Hv. qcnra. Qed.

Lemma mono_div : forall u v u' v' p q, 0 <= p / q -> p / q <= 1 -> u <= u' -> v <= v' ->
  u + (v - u) * p / q <= u' + (v' - u') * p / q.
Proof.
  intros u v u' v' p q H0 H1 Hu Hv. rewrite !E_muldiv_assoc. now apply mono_mul.
Qed.

Lemma mono_divZ : forall u v u' v' p q, (0 <= p)%Z -> (p <= q)%Z -> u <= u' -> v <= v' ->
  u + (v - u) * Qc_of_Z p / Qc_of_Z q <= u' + (v' - u') * Qc_of_Z p / Qc_of_Z q.
Proof.
  intros u v u' v' p q H0 H1 Hu Hv. destruct (E_ratioZ01 p q H0 H1) as [R0 R1]. now apply mono_div.
Qed.

Lemma E_dK_nonneg : forall x K, ssorted x -> (2 <= length x)%nat -> 0 <= dK x K.
Proof.
  intros x K Hs Hl. unfold dK, m.
  assert (Hle : forall i j, (i <= j)%nat -> (j < length x)%nat -> 0 <= nthq j x - nthq i x).
  { intros i j Hij Hj. pose proof (ssorted_nth_le x i j Hs Hij Hj). qclra. }
  destruct (K <=? 0)%Z eqn:E1; [apply Hle; lia|].
  destruct (Z.of_nat (length x) - 1 <? K)%Z eqn:E2; [apply Hle; lia|].
  apply Z.leb_gt in E1. apply Z.ltb_ge in E2. apply Hle; lia.
Qed.

Lemma rat_range : forall x n K ar al, ssorted x -> (2 <= length x)%nat -> (1 <= n)%nat ->
  (0 <= ar)%Z -> (0 <= al)%Z -> 0 <= rat x n K ar al /\ rat x n K ar al <= 1.
Proof.
  intros x n K ar al Hs Hl Hn Har Hal. unfold rat. cbv zeta.
  assert (Hqn : 0 < qn n) by (apply Qc_of_nat_pos; lia).
  assert (Hiq : 0 <= / qn n) by (apply E_inv_facts; qclra).
  pose proof (E_dK_nonneg x (K - 1) Hs Hl) as Hd1. pose proof (E_dK_nonneg x K Hs Hl) as Hd2.
  pose proof (E_Qc_of_Z_nonneg ar Har) as Hqa. pose proof (E_Qc_of_Z_nonneg al Hal) as Hql.
  set (d1 := dK x (K - 1)) in *. set (d2 := dK x K) in *. clearbody d1 d2.
  set (qa := Qc_of_Z ar) in *. set (ql := Qc_of_Z al) in *. clearbody qa ql.
  assert (Hwl : 0 <= qa * d1 / qn n).
  { unfold Qcdiv. set (iq := / qn n) in *. clearbody iq.
    assert (H1 : 0 <= qa * d1) by qcnra. set (u := qa * d1) in *. clearbody u. qcnra. }
  assert (Hwr : 0 <= ql * d2 / qn n).
  { unfold Qcdiv. set (iq := / qn n) in *. clearbody iq.
    assert (H1 : 0 <= ql * d2) by qcnra. set (u := ql * d2) in *. clearbody u. qcnra. }
  set (wl := qa * d1 / qn n) in *. set (wr := ql * d2 / qn n) in *. clearbody wl wr.
  apply E_ratio01; [exact Hwl|qclra].
Qed.

Lemma border_mono : forall x y y' n K ar al, ssorted x -> (2 <= length x)%nat -> (1 <= n)%nat ->
  (0 <= ar)%Z -> (0 <= al)%Z -> (forall j, nthq j y <= nthq j y') ->
  border x y n K ar al <= border x y' n K ar al.
Proof.
  intros x y y' n K ar al Hs Hl Hn Har Hal H. rewrite !border_conv.
  destruct ((ar =? 0)%Z && (al =? 0)%Z); [now apply avg_mono|].
  destruct (rat_range x n K ar al Hs Hl Hn Har Hal) as [R0 R1]. unfold conv.
  apply mono_mul; try assumption; now apply avg_mono.
Qed.

Lemma shl_mono : forall n i al ar A z0 z1 A' z0' z1', (0 <= i)%Z -> (i < Z.of_nat n)%Z ->
  A <= A' -> z0 <= z0' -> z1 <= z1' -> shl n i al ar A z0 z1 <= shl n i al ar A' z0' z1'.
Proof.
  intros n i al ar A z0 z1 A' z0' z1' Hi0 Hin HA H0 H1. unfold shl. cbv zeta.
  destruct (Z.ltb_spec i al) as [E1|E1]; [apply mono_divZ; try assumption; lia|].
  destruct (Z.leb_spec i (Z.of_nat n - ar)) as [E2|E2]; [exact HA|].
  apply mono_divZ; try assumption; lia.
Qed.

Lemma E_g_exp_lin_range : forall pw t, PwOk pw -> 0 <= t -> t <= 1 ->
  0 <= g_exp_lin pw t /\ g_exp_lin pw t <= 1.
Proof.
  intros pw t Hpw H0 H1. unfold g_exp_lin.
  destruct (pw_range pw Hpw t H0 H1) as [Pa Pb].
  set (p := pw t) in *. clearbody p. split; qcnra.
Qed.

Lemma E_g_lin_exp_xy_range : forall pw t, PwOk pw -> 0 <= t -> t <= 1 ->
  0 <= g_lin_exp_xy pw t /\ g_lin_exp_xy pw t <= 1.
Proof.
  intros pw t Hpw H0 H1.
  assert (H0' : 0 <= 1 - t) by qclra. assert (H1' : 1 - t <= 1) by qclra.
  destruct (E_g_exp_lin_range pw (1 - t) Hpw H0' H1') as [Fa Fb].
  assert (E : g_lin_exp_xy pw t = 1 - g_exp_lin pw (1 - t)).
  { unfold g_lin_exp_xy, g_exp_lin. rewrite Qc_two_eq. ring. }
  rewrite E. set (f := g_exp_lin pw (1 - t)) in *. clearbody f. split; qclra.
Qed.

Lemma she_mono : forall pw n i al ar bl br A z0 z1 A' z0' z1', PwOk pw -> (0 <= i)%Z -> (i < Z.of_nat n)%Z ->
  (0 <= bl)%Z -> (bl <= al)%Z -> (0 <= br)%Z -> (br <= ar)%Z ->
  A <= A' -> z0 <= z0' -> z1 <= z1' ->
  she pw n i al ar bl br A z0 z1 <= she pw n i al ar bl br A' z0' z1'.
Proof.
  intros pw n i al ar bl br A z0 z1 A' z0' z1' Hpw Hi0 Hin Hbl0 Hbl Hbr0 Hbr HA H0 H1.
  unfold she. cbv zeta.
  set (zlb := if (bl =? 0)%Z then z0 else z0 + (A - z0) * Qc_of_Z bl / Qc_of_Z al).
  set (zlb' := if (bl =? 0)%Z then z0' else z0' + (A' - z0') * Qc_of_Z bl / Qc_of_Z al).
  set (zrb := if (br =? 0)%Z then z1 else A + (z1 - A) * Qc_of_Z (ar - br) / Qc_of_Z ar).
  set (zrb' := if (br =? 0)%Z then z1' else A' + (z1' - A') * Qc_of_Z (ar - br) / Qc_of_Z ar).
  assert (Hzl : zlb <= zlb').
  { subst zlb zlb'. destruct (bl =? 0)%Z; [exact H0|]. apply mono_divZ; assumption. }
  assert (Hzr : zrb <= zrb').
  { subst zrb zrb'. destruct (br =? 0)%Z; [exact H1|]. apply mono_divZ; try assumption; lia. }
  clearbody zlb zlb' zrb zrb'.
  destruct (Z.ltb_spec i bl) as [E1|E1]; [apply mono_divZ; try assumption; lia|].
  destruct (Z.ltb_spec i al) as [E2|E2].
  { destruct (E_ratioZ01 (i - bl) (al - bl)) as [R0 R1]; [lia|lia|].
    destruct (E_g_lin_exp_xy_range pw _ Hpw R0 R1) as [G0 G1]. apply mono_mul; assumption. }
  destruct (Z.ltb_spec i (Z.of_nat n - ar)) as [E3|E3]; [exact HA|].
  destruct (Z.ltb_spec i (Z.of_nat n - br)) as [E4|E4].
  { destruct (E_ratioZ01 (i - (Z.of_nat n - ar)) (ar - br)) as [R0 R1]; [lia|lia|].
    destruct (E_g_exp_lin_range pw _ Hpw R0 R1) as [G0 G1]. apply mono_mul; assumption. }
  apply mono_divZ; try assumption; lia.
Qed.

Theorem fixed_monotone_in_values : forall pw x y y' n h bb K i, PwOk pw -> ssorted x -> (2 <= length x)%nat -> (1 <= n)%nat ->
  length y = length x -> length y' = length x -> fixed_ok n h bb -> (0 <= i)%Z -> (i < Z.of_nat n)%Z ->
  (forall j, nthq j y <= nthq j y') ->
  out_linear_fixed x y n h K i <= out_linear_fixed x y' n h K i /\
  out_exp_fixed pw x y n h bb K i <= out_exp_fixed pw x y' n h bb K i.
Proof.
  intros pw x y y' n h bb K i Hpw Hs Hx Hn _ _ (Hh1 & Hh2 & Hb0 & Hb1) Hi0 Hin Hle.
  unfold out_linear_fixed, out_exp_fixed. rewrite !shape_linear_shl, !shape_exp_she.
  assert (HA : avg x y K <= avg x y' K) by now apply avg_mono.
  assert (B0 : border x y n K h h <= border x y' n K h h) by (apply border_mono; try assumption; lia).
  assert (B1 : border x y n (K + 1) h h <= border x y' n (K + 1) h h) by (apply border_mono; try assumption; lia).
  split; [apply shl_mono; assumption|apply she_mono; try assumption; lia].
Qed.

(** ---------- 13. the piecewise-constant strategy is linear ---------- *)

Lemma repeatq_map : forall (f : Qc -> Qc) v n, repeatq (f v) n = map f (repeatq v n).
Proof. intros f v n. induction n as [|n IH]; [reflexivity|]. cbn [repeatq map]. now rewrite IH. Qed.

Lemma oversample_pc_go_map : forall (f : Qc -> Qc) y n,
  oversample_pc_go (map f y) n = map f (oversample_pc_go y n).
Proof.
  intros f y n. induction y as [|u y IH]; [reflexivity|].
  destruct y as [|v y]; [reflexivity|].
  cbn [map] in *. rewrite !oversample_pc_go_cons2, map_app, repeatq_map. f_equal. exact IH.
Qed.

Lemma repeatq_map2 : forall (f : Qc -> Qc -> Qc) u v n,
  repeatq (f u v) n = map2 f (repeatq u n) (repeatq v n).
Proof. intros f u v n. induction n as [|n IH]; [reflexivity|]. cbn [repeatq map2]. now rewrite IH. Qed.

Lemma map2_app_eq : forall (f : Qc -> Qc -> Qc) l1 l1' l2 l2', length l1 = length l1' ->
  map2 f (l1 ++ l2) (l1' ++ l2') = map2 f l1 l1' ++ map2 f l2 l2'.
Proof.
  intros f l1. induction l1 as [|a l1 IH]; intros [|a' l1'] l2 l2' H; cbn [length] in H; try discriminate.
  - reflexivity.
  - cbn [app map2]. f_equal. apply IH. lia.
Qed.

Lemma oversample_pc_go_map2 : forall (f : Qc -> Qc -> Qc) y y' n, length y = length y' ->
  oversample_pc_go (map2 f y y') n = map2 f (oversample_pc_go y n) (oversample_pc_go y' n).
Proof.
  intros f y. induction y as [|u y IH]; intros [|u' y'] n H; cbn [length] in H; try discriminate; [reflexivity|].
  destruct y as [|v y]; destruct y' as [|v' y']; cbn [length] in H; try discriminate; [reflexivity|].
  specialize (IH (v' :: y') n). cbn [map2] in *.
  rewrite !oversample_pc_go_cons2, map2_app_eq by (now rewrite !repeatq_length).
  rewrite repeatq_map2. f_equal. apply IH. cbn [length]. lia.
Qed.

Theorem piecewise_constant_linear : forall x y y' n a b, length y = length y' ->
  snd (rfa_pc x (ymap a b y) n) = ymap a b (snd (rfa_pc x y n)) /\
  snd (rfa_pc x (yadd y y') n) = yadd (snd (rfa_pc x y n)) (snd (rfa_pc x y' n)).
Proof.
  intros x y y' n a b H. unfold rfa_pc. cbn [snd]. unfold oversample_pc, ymap, yadd.
  destruct (n <? 2)%nat; [split; reflexivity|].
  split; [apply oversample_pc_go_map|now apply oversample_pc_go_map2].
Qed.

Print Assumptions grid_x_affine.
Print Assumptions avg_border_y_affine.
Print Assumptions shape_y_affine.
Print Assumptions fixed_y_affine.
Print Assumptions adaptive_windows_y_affine.
Print Assumptions adaptive_y_affine.
Print Assumptions out_x_affine.
Print Assumptions adaptive_windows_x_affine.
Print Assumptions locality_fixed.
Print Assumptions locality_adaptive.
Print Assumptions fixed_additive.
Print Assumptions fixed_monotone_in_values.
Print Assumptions piecewise_constant_linear.
