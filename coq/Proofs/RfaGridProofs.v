(** Grid structure of the recreated series (property C04): every strategy of
    Model/Rfa.v returns the n-fold oversampled x grid and a y series of the
    same length, whatever the strategy parameters are. *)
From TW Require Import Model.Rfa Proofs.ListLemmas Proofs.ListLemmas2 Proofs.ListLemmas4
  Proofs.HelpersProofs.
Open Scope Qc_scope.

(** ---------- cut undoes a two-sided extension ---------- *)

Lemma cut_app3 : forall (L a R : list Qc) n, length L = n -> length R = n ->
  cut n ((L ++ a) ++ R) = a.
Proof.
  intros L a R n HL HR. unfold cut, slice.
  rewrite <- app_assoc. rewrite skipn_app_exact by exact HL.
  rewrite !app_length, HL, HR.
  replace (n + (length a + n) - n - n)%nat with (length a) by lia.
  now apply firstn_app_exact.
Qed.

Theorem extend_then_cut : forall a n, (n + 1 <= length a)%nat ->
  cut n (extend_linspace a n Both None None) = a /\ cut n (extend_constant a n Both) = a.
Proof.
  intros a n H. split.
  - unfold extend_linspace. cbn [goes_left goes_right].
    apply cut_app3; [apply lin_pts_length|apply lin_pts_tail_length].
  - unfold extend_constant. cbn [goes_left goes_right].
    apply cut_app3; apply repeatq_length.
Qed.

(** ---------- writes never change the length ---------- *)

Lemma setz_length : forall l i v, length (setz l i v) = length l.
Proof.
  intros l i v. unfold setz. destruct (py_index (length l) i) as [p|]; [|reflexivity].
  apply set_nth_length.
Qed.

Lemma fold_left_length_inv : forall {B} (f : list Qc -> B -> list Qc) (l : list B) z,
  (forall z k, length (f z k) = length z) -> length (fold_left f l z) = length z.
Proof.
  intros B f l. induction l as [|k l IH]; intros z H; [reflexivity|].
  cbn [fold_left]. rewrite IH by exact H. apply H.
Qed.

Lemma write_run_length : forall e k lo hi f z, length (write_run e k lo hi f z) = length z.
Proof.
  intros e k lo hi f z. unfold write_run. apply fold_left_length_inv.
  intros z' i. apply setz_length.
Qed.

Lemma lf_interval_length : forall e a_l a_r z k, length (lf_interval e a_l a_r z k) = length z.
Proof. intros. unfold lf_interval. cbv zeta. now rewrite !write_run_length. Qed.

Lemma la_interval_length : forall e als ars z k, length (la_interval e als ars z k) = length z.
Proof. intros. unfold la_interval. cbv zeta. now rewrite !write_run_length. Qed.

Lemma ef_interval_length : forall pw e a_l a_r b z k,
  length (ef_interval pw e a_l a_r b z k) = length z.
Proof. intros. unfold ef_interval. cbv zeta. now rewrite !write_run_length. Qed.

Lemma ea_interval_length : forall pw e beta als ars z k,
  length (ea_interval pw e beta als ars z k) = length z.
Proof. intros. unfold ea_interval. cbv zeta. now rewrite !write_run_length. Qed.

(** ---------- the prepared arrays ---------- *)

Lemma oversample_linspace_long : forall x N, (2 <= N)%nat -> (2 <= length x)%nat ->
  (N + 1 <= length (oversample_linspace x N))%nat.
Proof.
  intros x N HN Hx.
  assert (Hx' : x <> []) by (apply length_pos_not_nil; lia).
  destruct (oversample_linspace_spec x N HN Hx') as [Hlen _]. rewrite Hlen.
  assert (H1 : (1 <= length x - 1)%nat) by lia. nia.
Qed.

Lemma cut_xe : forall x y N, (2 <= N)%nat -> (2 <= length x)%nat ->
  cut N (xe (prepare x y N)) = oversample_linspace x N.
Proof.
  intros x y N HN Hx. unfold prepare. cbn [xe].
  apply extend_then_cut. now apply oversample_linspace_long.
Qed.

Lemma cut_z_length : forall x y N z, (2 <= N)%nat -> (2 <= length y)%nat ->
  length z = length (ye (prepare x y N)) ->
  length (cut N z) = ((length y - 1) * N + 1)%nat.
Proof.
  intros x y N z HN Hy Hz. unfold prepare in Hz. cbn [ye] in Hz.
  assert (Hy' : y <> []) by (apply length_pos_not_nil; lia).
  destruct (oversample_pc_spec y N HN Hy') as [Hlen _].
  assert (Hne : oversample_pc y N <> []) by (apply length_pos_not_nil; rewrite Hlen, Nat.add_1_r; apply Nat.lt_0_succ).
  destruct (extend_constant_spec (oversample_pc y N) N Both Hne) as [Hel _].
  cbn [goes_left goes_right] in Hel. cbv zeta in Hel.
  unfold cut. rewrite slice_len_in by lia. lia.
Qed.

(** ---------- every strategy: x part and length of the y part ---------- *)

Definition strat (pw gpow : Qc -> Qc) (k : rfa_kind) (x y : list Qc) (N : nat) : list Qc * list Qc :=
  match k with
  | PiecewiseConstant => rfa_pc x y N
  | LinearFixed alpha a => rfa_linear_fixed x y N alpha a
  | LinearAdaptive alpha a => rfa_linear_adaptive gpow x y N alpha a
  | ExpFixed alpha beta a => rfa_exp_fixed pw x y N alpha beta a
  | ExpAdaptive alpha beta a => rfa_exp_adaptive pw gpow x y N alpha beta a
  | FunctionSampled f => rfa_function f x y N
  end.

Lemma rfa_ge2 : forall pw gpow k x y n, (2 <= n)%Z ->
  rfa pw gpow k x y n = Ok (strat pw gpow k x y (Z.to_nat n)).
Proof.
  intros pw gpow k x y n Hn. unfold rfa.
  destruct (Z.ltb_spec n 2) as [H|_]; [lia|]. destruct k; reflexivity.
Qed.

Lemma strat_shape : forall pw gpow k x y N, (2 <= N)%nat -> (2 <= length x)%nat ->
  length x = length y ->
  fst (strat pw gpow k x y N) = oversample_linspace x N /\
  length (snd (strat pw gpow k x y N)) = ((length x - 1) * N + 1)%nat.
Proof.
  intros pw gpow k x y N HN Hx Hxy.
  assert (Hy : (2 <= length y)%nat) by lia.
  assert (Hx' : x <> []) by (apply length_pos_not_nil; lia).
  assert (Hy' : y <> []) by (apply length_pos_not_nil; lia).
  destruct k as [|alpha a|alpha a|alpha beta a|alpha beta a|f]; cbn [strat].
  - unfold rfa_pc. cbn [fst snd]. split; [reflexivity|].
    destruct (oversample_pc_spec y N HN Hy') as [Hlen _]. rewrite Hlen, Hxy. reflexivity.
  - unfold rfa_linear_fixed. cbv zeta. cbn [fst snd]. split; [now apply cut_xe|].
    rewrite Hxy. apply (cut_z_length x); [exact HN|exact Hy|].
    apply fold_left_length_inv. intros z k. apply lf_interval_length.
  - unfold rfa_linear_adaptive. cbv zeta. cbn [fst snd]. split; [now apply cut_xe|].
    rewrite Hxy. apply (cut_z_length x); [exact HN|exact Hy|].
    apply fold_left_length_inv. intros z k. apply la_interval_length.
  - unfold rfa_exp_fixed. cbv zeta. cbn [fst snd]. split; [now apply cut_xe|].
    rewrite Hxy. apply (cut_z_length x); [exact HN|exact Hy|].
    apply fold_left_length_inv. intros z k. apply ef_interval_length.
  - unfold rfa_exp_adaptive. cbv zeta. cbn [fst snd]. split; [now apply cut_xe|].
    rewrite Hxy. apply (cut_z_length x); [exact HN|exact Hy|].
    apply fold_left_length_inv. intros z k. apply ea_interval_length.
  - unfold rfa_function. cbv zeta. cbn [fst snd]. split; [reflexivity|].
    rewrite map_length. now destruct (oversample_linspace_spec x N HN Hx') as [Hlen _].
Qed.

(** ---------- spacing of the oversampled grid ---------- *)

Lemma oversample_linspace_step : forall x N j i, (2 <= N)%nat ->
  (j + 1 < length x)%nat -> (i < N)%nat ->
  nthq (j * N + i + 1) (oversample_linspace x N) - nthq (j * N + i) (oversample_linspace x N)
  = (nthq (j + 1) x - nthq j x) / Qc_of_nat N.
Proof.
  intros x N j i HN Hj Hi.
  assert (Hx' : x <> []) by (apply length_pos_not_nil; lia).
  destruct (oversample_linspace_spec x N HN Hx') as (_ & Hk & Hki).
  assert (HN0 : Qc_of_nat N <> 0) by (apply Qc_of_nat_neq0; lia).
  rewrite (Hki j i Hj Hi).
  destruct (Nat.eq_dec (i + 1) N) as [E|E].
  - replace (j * N + i + 1)%nat with ((j + 1) * N)%nat by nia.
    rewrite Hk by lia.
    assert (EN : Qc_of_nat i = Qc_of_nat N - 1).
    { rewrite <- E at 1. rewrite Qc_of_nat_add, Qc_of_nat_1. ring. }
    rewrite EN. field. exact HN0.
  - replace (j * N + i + 1)%nat with (j * N + (i + 1))%nat by lia.
    rewrite (Hki j (i + 1)%nat Hj) by lia.
    rewrite Qc_of_nat_add, Qc_of_nat_1. field. exact HN0.
Qed.

Lemma Qc_div_pos : forall a b : Qc, 0 < a -> 0 < b -> 0 < a / b.
Proof.
  intros a b Ha Hb. unfold Qcdiv.
  assert (Hi : 0 < / b).
  { unfold Qclt in *. rewrite this_inv. apply Qinv_lt_0_compat. exact Hb. }
  qcnra.
Qed.

Lemma oversample_linspace_sorted : forall x N, (2 <= N)%nat -> (2 <= length x)%nat ->
  ssorted x -> ssorted (oversample_linspace x N).
Proof.
  intros x N HN Hx Hs.
  assert (Hx' : x <> []) by (apply length_pos_not_nil; lia).
  destruct (oversample_linspace_spec x N HN Hx') as (Hlen & _ & _).
  apply ssorted_of_nth. intros k Hk. rewrite Hlen in Hk.
  assert (HNpos : N <> O) by lia.
  pose proof (Nat.div_mod k N HNpos) as Hdm.
  pose proof (Nat.mod_upper_bound k N HNpos) as Hmod.
  set (j := (k / N)%nat) in *. set (i := (k mod N)%nat) in *.
  assert (Hj : (j + 1 < length x)%nat) by nia.
  assert (Ek : k = (j * N + i)%nat) by lia.
  pose proof (oversample_linspace_step x N j i HN Hj Hmod) as Hstep.
  rewrite <- Ek in Hstep.
  replace (j * N + i + 1)%nat with (k + 1)%nat in Hstep by lia.
  assert (Hd : 0 < nthq (j + 1) x - nthq j x).
  { pose proof (proj1 (ssorted_nth x) Hs j Hj) as Hlt. qclra. }
  assert (HNq : 0 < Qc_of_nat N) by (apply Qc_of_nat_pos; lia).
  pose proof (Qc_div_pos _ _ Hd HNq) as Hpos. rewrite <- Hstep in Hpos.
  qclra.
Qed.

(** ---------- the requested theorems ---------- *)

Theorem rfa_grid : forall pw gpow k x y n, (2 <= n)%Z -> (2 <= length x)%nat -> length x = length y ->
  exists xs ys, rfa pw gpow k x y n = Ok (xs, ys) /\
    let N := Z.to_nat n in
    xs = oversample_linspace x N /\
    length xs = ((length x - 1) * N + 1)%nat /\ length ys = length xs /\
    (forall j, (j < length x)%nat -> nthq (j * N) xs = nthq j x) /\
    (forall j i, (j + 1 < length x)%nat -> (i < N)%nat ->
       nthq (j * N + i + 1) xs - nthq (j * N + i) xs = (nthq (j + 1) x - nthq j x) / Qc_of_nat N).
Proof.
  intros pw gpow k x y n Hn Hx Hxy.
  assert (HN : (2 <= Z.to_nat n)%nat) by lia.
  assert (Hx' : x <> []) by (apply length_pos_not_nil; lia).
  destruct (strat_shape pw gpow k x y (Z.to_nat n) HN Hx Hxy) as [Hfst Hsnd].
  destruct (oversample_linspace_spec x (Z.to_nat n) HN Hx') as (Hlen & Hk & _).
  exists (fst (strat pw gpow k x y (Z.to_nat n))), (snd (strat pw gpow k x y (Z.to_nat n))).
  split; [rewrite rfa_ge2 by exact Hn; now rewrite <- surjective_pairing|].
  cbv zeta. rewrite Hfst.
  split; [reflexivity|]. split; [exact Hlen|]. split; [now rewrite Hsnd, Hlen|].
  split; [exact Hk|].
  intros j i Hj Hi. now apply oversample_linspace_step.
Qed.

Theorem rfa_sorted : forall pw gpow k x y n xs ys, (2 <= n)%Z -> (2 <= length x)%nat -> length x = length y ->
  ssorted x -> rfa pw gpow k x y n = Ok (xs, ys) -> ssorted xs.
Proof.
  intros pw gpow k x y n xs ys Hn Hx Hxy Hs H.
  assert (HN : (2 <= Z.to_nat n)%nat) by lia.
  rewrite rfa_ge2 in H by exact Hn. injection H as H.
  destruct (strat_shape pw gpow k x y (Z.to_nat n) HN Hx Hxy) as [Hfst _].
  rewrite H in Hfst. cbn [fst] in Hfst. rewrite Hfst.
  now apply oversample_linspace_sorted.
Qed.

Theorem rfa_n_below_2 : forall pw gpow k x y n, (n < 2)%Z -> rfa pw gpow k x y n = Raise ValueError.
Proof.
  intros pw gpow k x y n Hn. unfold rfa.
  destruct (Z.ltb_spec n 2) as [_|H]; [reflexivity|lia].
Qed.

Theorem rfa_function_values : forall pw gpow f x y n, (2 <= n)%Z ->
  rfa pw gpow (FunctionSampled f) x y n =
  Ok (oversample_linspace x (Z.to_nat n), map f (oversample_linspace x (Z.to_nat n))).
Proof.
  intros pw gpow f x y n Hn. rewrite rfa_ge2 by exact Hn. reflexivity.
Qed.

Print Assumptions rfa_grid.
Print Assumptions rfa_sorted.
Print Assumptions rfa_n_below_2.
Print Assumptions extend_then_cut.
Print Assumptions rfa_function_values.
