(** The regenerated bodies of the three two-pointer scans of sorted_array_utils.py (Gen/ScanGlue.v: `while` loops over
    explicit iterators), run with fuel by the interpreter of Model/GlueWhile.v, against the hand-written scans of
    Model/Search.v (C10).

    Nothing of the generated bodies is restated: a body is whatever [assoc <function> scan_functions] computes to, the
    loops are the 9th and 10th statement of that body and the inner loop is the first statement of the 10th one's body
    ([nth_stmt], [while_body]).  Every proof is a symbolic execution, one statement at a time.

    Fuel.  [Conv N en l Q] says: with ANY fuel >= N, running [l] from [en] ends in a result satisfying [Q] (a
    total-correctness triple; monotonicity in the fuel is built in, so no separate monotonicity lemma is needed).  The
    rules mirror the interpreter: the head statement costs one unit and every sub-run (the branch of an `if`, the body
    of a `while`, the next iteration, the rest of the list) gets what is left, i.e. N - 1.  Hence the fuel needed is the
    DEPTH of the run, not its length:
       a straight-line statement: 1 + rest;   `if`: 1 + max (branch, rest);
       `while`: 1 + max (body, next iteration) -- one unit per iteration.
    The loops are run in continuation-passing style (for every [rest] and post-condition [Q]), because the next iteration
    of [SWhile c body :: rest] is run on the whole list:
       inner loop (advance x):     length xs + 7 + G      (xs: what x_it still holds incl. x_next_val; G: cost of rest;
                                                            8 in the closest scan, whose body has one more statement)
       main loop (over lookup):    length ls + length xs + 14 + G   (16 in the higher, 18 in the closest scan)
       first loop (queries <= x0): length ls + 5 + G
    so that (with these non-tight bounds) a whole scan needs at most  length x + 2 * length lookup + 33  units;
    [scan_fuel] (20 * (length x + length lookup) + 40) is generous.  The `if x_next_val is None: break` of the inner loop
    is redundant with the loop condition: both exits ([Conv_while_true] with a WBreak body, [Conv_while_false]) lead to
    the same continuation.

    Environments are described by the values they bind ([senv]: x_val, x_next_val / x_it (the model's [xs]: [] <-> None and
    an exhausted iterator; a :: r <-> a and an iterator holding r), x_idx, lookup_val / lookup_it, lookup_idx (the number
    of results written), indices, fill_not_valid (absent in the closest scan) and x).  The results are written left to
    right into np.zeros(len(lookup)): [write_from], which at the end is the model's output list ([write_from_zeros]).

    Main results: glue_find_lower, glue_find_higher, glue_find_closest, glue_scan_defaults. *)
From Coq Require Import Lia Bool.
From TW Require Import Model.GlueWhile Gen.ScanGlue.
From TW Require Import Proofs.GlueFunLemmas.
Open Scope Qc_scope.
Open Scope string_scope.
Open Scope list_scope.

Notation wx := (wexec scan_callf array_methf no_apply no_pow).
Notation fx1 := (fexec1 scan_callf array_methf no_apply no_pow).
Notation fev := (feval scan_callf array_methf no_apply no_pow).

(** ---------------- total-correctness triples with fuel ---------------- *)
Definition Conv (N : nat) (en : fenv) (l : list gstmt) (Q : fenv * wout -> Prop) : Prop :=
  forall f, (N <= f)%nat -> Q (wx f en l).

Definition is_plain (st : gstmt) : bool :=
  match st with SIf _ _ _ | SWhile _ _ | SBreak | SFor _ _ _ => false | _ => true end.

Lemma Conv_weaken : forall N N' en l Q, Conv N en l Q -> (N <= N')%nat -> Conv N' en l Q.
Proof. intros N N' en l Q H HN f Hf. apply H. lia. Qed.

Lemma Conv_nil : forall N en (Q : fenv * wout -> Prop), (1 <= N)%nat -> Q (en, WNormal) -> Conv N en [] Q.
Proof. intros N en Q HN HQ f Hf. destruct f as [|f]; [lia|]. exact HQ. Qed.

Lemma Conv_break : forall N en rest (Q : fenv * wout -> Prop), (1 <= N)%nat -> Q (en, WBreak) -> Conv N en (SBreak :: rest) Q.
Proof. intros N en rest Q HN HQ f Hf. destruct f as [|f]; [lia|]. exact HQ. Qed.

Lemma wexec_plain : forall f en st rest, is_plain st = true ->
  wx (S f) en (st :: rest) =
  let r := fx1 en st in match snd r with ONormal => wx f (fst r) rest | oc => (fst r, wout_of oc) end.
Proof. intros f en st rest H. destruct st; try discriminate H; reflexivity. Qed.

Lemma Conv_plain : forall N en st rest en' (Q : fenv * wout -> Prop), is_plain st = true ->
  fx1 en st = (en', ONormal) -> (1 <= N)%nat -> Conv (N - 1) en' rest Q -> Conv N en (st :: rest) Q.
Proof.
  intros N en st rest en' Q Hp H1 HN H f Hf. destruct f as [|f]; [lia|].
  rewrite wexec_plain by exact Hp. rewrite H1. cbn [fst snd]. apply H. lia.
Qed.

Lemma Conv_stop : forall N en st rest en' oc (Q : fenv * wout -> Prop), is_plain st = true ->
  fx1 en st = (en', oc) -> oc <> ONormal -> (1 <= N)%nat -> Q (en', wout_of oc) -> Conv N en (st :: rest) Q.
Proof.
  intros N en st rest en' oc Q Hp H1 Hoc HN HQ f Hf. destruct f as [|f]; [lia|].
  rewrite wexec_plain by exact Hp. rewrite H1. cbn [fst snd]. destruct oc; [congruence|exact HQ|exact HQ].
Qed.

Lemma wexec_if : forall f en c th el rest,
  wx (S f) en (SIf c th el :: rest) =
  match fev en c with
  | Raise x => (en, WRaise x)
  | Ok (VBoolV b) => let r := wx f en (if b then th else el) in match snd r with WNormal => wx f (fst r) rest | _ => r end
  | Ok _ => (en, WRaise TypeError)
  end.
Proof. reflexivity. Qed.

Lemma Conv_if : forall N en c th el rest b (P Q : fenv * wout -> Prop),
  fev en c = Ok (VBoolV b) -> (1 <= N)%nat ->
  Conv (N - 1) en (if b then th else el) P ->
  (forall r, P r -> match snd r with WNormal => Conv (N - 1) (fst r) rest Q | _ => Q r end) ->
  Conv N en (SIf c th el :: rest) Q.
Proof.
  intros N en c th el rest b P Q Hc HN Hb Hk f Hf. destruct f as [|f]; [lia|].
  rewrite wexec_if, Hc. cbv zeta.
  assert (Hf' : (N - 1 <= f)%nat) by lia.
  specialize (Hk _ (Hb f Hf')).
  destruct (snd (wx f en (if b then th else el))); try exact Hk. apply Hk. exact Hf'.
Qed.

Lemma wexec_while : forall f en c body rest,
  wx (S f) en (SWhile c body :: rest) =
  match fev en c with
  | Raise x => (en, WRaise x)
  | Ok (VBoolV true) =>
      let r := wx f en body in
      match snd r with
      | WNormal => wx f (fst r) (SWhile c body :: rest)
      | WBreak => wx f (fst r) rest
      | _ => r
      end
  | Ok (VBoolV false) => wx f en rest
  | Ok _ => (en, WRaise TypeError)
  end.
Proof. reflexivity. Qed.

Lemma Conv_while_false : forall N en c body rest (Q : fenv * wout -> Prop),
  fev en c = Ok (VBoolV false) -> (1 <= N)%nat -> Conv (N - 1) en rest Q -> Conv N en (SWhile c body :: rest) Q.
Proof.
  intros N en c body rest Q Hc HN H f Hf. destruct f as [|f]; [lia|].
  rewrite wexec_while, Hc. apply H. lia.
Qed.

Lemma Conv_while_true : forall N en c body rest (P Q : fenv * wout -> Prop),
  fev en c = Ok (VBoolV true) -> (1 <= N)%nat ->
  Conv (N - 1) en body P ->
  (forall r, P r -> match snd r with
                    | WNormal => Conv (N - 1) (fst r) (SWhile c body :: rest) Q
                    | WBreak => Conv (N - 1) (fst r) rest Q
                    | _ => Q r
                    end) ->
  Conv N en (SWhile c body :: rest) Q.
Proof.
  intros N en c body rest P Q Hc HN Hb Hk f Hf. destruct f as [|f]; [lia|].
  rewrite wexec_while, Hc. cbv zeta.
  assert (Hf' : (N - 1 <= f)%nat) by lia.
  specialize (Hk _ (Hb f Hf')).
  destruct (snd (wx f en body)); try exact Hk; apply Hk; exact Hf'.
Qed.

(** ---------------- leaves ---------------- *)
Definition optv (l : list Qc) : gval := match l with [] => VNoneV | a :: _ => VNum a end.

Definition scan_callf_run := Eval cbv delta [scan_callf] in scan_callf.
Lemma scan_callf_run_eq : forall fn vs ks, scan_callf fn vs ks = scan_callf_run fn vs ks. Proof. reflexivity. Qed.

(** v = next(it, d) *)
Lemma next2_eq : forall l d,
  scan_callf "next!" [iter_of l; d] [] = Ok (VTup [match l with [] => d | a :: _ => VNum a end; iter_of (tl l)]).
Proof. intros [|a l] d; reflexivity. Qed.

(** a[k] = z on an integer array, k in range *)
Lemma store_idx : forall (en : fenv) x (k : nat) z l, assoc x en = Some (VIdxArr l) -> (k < length l)%nat ->
  store en (LocIdx x (Z.of_nat k)) (VInt z) = Ok ((x, VIdxArr (set_nthz l k z)) :: en).
Proof.
  intros en x k z l H Hk. unfold store, flookup. rewrite H. cbn [bind as_num].
  assert (E1 : (Z.of_nat k <? 0)%Z = false) by (apply Z.ltb_ge; lia).
  assert (E2 : (Z.of_nat (length l) <=? Z.of_nat k)%Z = false) by (apply Z.leb_gt; lia).
  cbv zeta. rewrite E1. cbv iota. rewrite E1, E2. cbn [orb]. rewrite Nat2Z.id. reflexivity.
Qed.

(** writing vs at positions k, k+1, ... *)
Fixpoint write_from (ind : list Z) (k : nat) (vs : list Z) : list Z :=
  match vs with [] => ind | v :: vs' => write_from (set_nthz ind k v) (S k) vs' end.

Lemma set_nthz_length : forall l i v, length (set_nthz l i v) = length l.
Proof. induction l as [|a l IH]; intros [|i] v; cbn [set_nthz length]; try reflexivity. rewrite IH. reflexivity. Qed.

Lemma write_from_length : forall vs ind k, length (write_from ind k vs) = length ind.
Proof. induction vs as [|v vs IH]; intros ind k; cbn [write_from]; [reflexivity|]. rewrite IH. apply set_nthz_length. Qed.

Lemma write_from_app : forall v1 v2 ind k, write_from ind k (v1 ++ v2) = write_from (write_from ind k v1) (k + length v1) v2.
Proof.
  induction v1 as [|v v1 IH]; intros v2 ind k; cbn [write_from app length].
  - rewrite Nat.add_0_r. reflexivity.
  - rewrite IH. f_equal. lia.
Qed.

Lemma set_nthz_app : forall pre a suf v, set_nthz (pre ++ a :: suf) (length pre) v = pre ++ v :: suf.
Proof. induction pre as [|p pre IH]; intros a suf v; cbn [app length set_nthz]; [reflexivity|]. rewrite IH. reflexivity. Qed.

Lemma write_from_pre : forall vs pre suf, length vs = length suf -> write_from (pre ++ suf) (length pre) vs = pre ++ vs.
Proof.
  induction vs as [|v vs IH]; intros pre suf H; destruct suf as [|a suf]; try discriminate H; cbn [write_from].
  - reflexivity.
  - rewrite set_nthz_app. replace (pre ++ v :: suf) with ((pre ++ [v]) ++ suf) by (rewrite <- app_assoc; reflexivity).
    replace (S (length pre)) with (length (pre ++ [v])) by (rewrite app_length; cbn [length]; lia).
    rewrite IH by (cbn [length] in H; lia). rewrite <- app_assoc. reflexivity.
Qed.

Lemma write_from_zeros : forall vs n, length vs = n -> write_from (repeat 0%Z n) 0 vs = vs.
Proof. intros vs n H. apply (write_from_pre vs [] (repeat 0%Z n)). rewrite repeat_length. exact H. Qed.

(** ---------------- the model: lengths ---------------- *)
Lemma adv_le_length : forall xs idx q, (length (fst (adv_le xs idx q)) <= length xs)%nat.
Proof.
  induction xs as [|a xs IH]; intros idx q; cbn [adv_le]; [cbn; lia|].
  destruct (Qc_leb a q); [|cbn; lia]. specialize (IH (idx + 1)%Z q). cbn [length]. lia.
Qed.
Lemma adv_lt_length : forall xs xv idx q, (length (snd (fst (adv_lt xv xs idx q))) <= length xs)%nat.
Proof.
  induction xs as [|a xs IH]; intros xv idx q; cbn [adv_lt]; [cbn; lia|].
  destruct (Qc_ltb a q); [|cbn; lia]. specialize (IH a (idx + 1)%Z q). cbn [length]. lia.
Qed.
Lemma lower_main_length : forall ls xs idx, length (lower_main ls xs idx) = length ls.
Proof.
  induction ls as [|q ls IH]; intros xs idx; cbn [lower_main]; [reflexivity|].
  destruct (adv_le xs idx q) as [xs' idx']. cbn [length]. rewrite IH. reflexivity.
Qed.
Lemma higher_main_length : forall lenx fill ls xv xs idx, length (higher_main lenx fill ls xv xs idx) = length ls.
Proof.
  induction ls as [|q ls IH]; intros xv xs idx; cbn [higher_main]; [reflexivity|].
  destruct (adv_lt xv xs idx q) as [[xv' xs'] idx']. cbn [length]. rewrite IH. reflexivity.
Qed.
Lemma closest_main_length : forall ls xv xs idx, length (closest_main ls xv xs idx) = length ls.
Proof.
  induction ls as [|q ls IH]; intros xv xs idx; cbn [closest_main]; [reflexivity|].
  destruct (adv_lt xv xs idx q) as [[xv' xs'] idx']. cbn [length]. rewrite IH. reflexivity.
Qed.
Lemma lower_pre_length : forall x0 fill ls, (length (fst (lower_pre x0 fill ls)) + length (snd (lower_pre x0 fill ls)) = length ls)%nat.
Proof.
  induction ls as [|q ls IH]; cbn [lower_pre]; [reflexivity|].
  destruct (Qc_ltb q x0); [|reflexivity]. destruct (lower_pre x0 fill ls) as [o r]. cbn [fst snd length] in *. lia.
Qed.
Lemma le_pre_length : forall x0 ls, (length (fst (le_pre x0 ls)) + length (snd (le_pre x0 ls)) = length ls)%nat.
Proof.
  induction ls as [|q ls IH]; cbn [le_pre]; [reflexivity|].
  destruct (Qc_leb q x0); [|reflexivity]. destruct (le_pre x0 ls) as [o r]. cbn [fst snd length] in *. lia.
Qed.

(** ---------------- environments ---------------- *)
(** xv: x_val; xs: x_next_val :: what x_it holds; ls: lookup_val :: what lookup_it holds; k: lookup_idx *)
Definition senv (en : fenv) (xv : Qc) (xs : list Qc) (idx : Z) (ls : list Qc) (k : nat) (ind : list Z)
    (fill : option bool) (x : list Qc) : Prop :=
  assoc "x_val" en = Some (VNum xv) /\
  assoc "x_next_val" en = Some (optv xs) /\
  assoc "x_it" en = Some (iter_of (tl xs)) /\
  assoc "x_idx" en = Some (VInt idx) /\
  assoc "lookup_val" en = Some (optv ls) /\
  assoc "lookup_it" en = Some (iter_of (tl ls)) /\
  assoc "lookup_idx" en = Some (VInt (Z.of_nat k)) /\
  assoc "indices" en = Some (VIdxArr ind) /\
  assoc "fill_not_valid" en = option_map VBoolV fill /\
  assoc "x" en = Some (VArr x).

(** ---------------- evaluation ---------------- *)
Ltac sc_cbn :=
  cbn -[Qcplus Qcmult Qcdiv Qcminus Qcopp Qcinv Q2Qc Qc_eqb Qc_ltb Qc_leb Qc_of_Z Qc_of_nat
        map length repeat tl nth nth_error app set_nthz optv
        Z.of_nat Z.to_nat Z.add Z.sub Z.mul Z.opp Z.ltb Z.leb Z.eqb Z.max Z.min
        wexec fbinop fcall store index_val scan_callf array_methf].

Ltac ev_step :=
  match goal with
  | |- context [flookup _ _] => unfold flookup
  | H : assoc ?k ?en = _ |- context [assoc ?k ?en] => rewrite H
  | |- context [length (map ?f ?l)] => rewrite (map_length f l)
  | |- context [Z.to_nat (Z.of_nat ?n)] => rewrite (Nat2Z.id n)
  | |- context [fbinop ?pf ?op ?a ?b] => rewrite (fbinop_run_eq pf op a b)
  | |- context [fcall ?cf ?fn ?vs ?ks] => rewrite (fcall_run_eq cf fn vs ks)
  | |- context [VClos "iter" [VArr ?l]] => change (VClos "iter" [VArr l]) with (iter_of l)
  | |- context [scan_callf "next!" [iter_of ?l; ?d] []] => rewrite (next2_eq l d)
  | |- context [scan_callf ?fn ?vs ?ks] => rewrite (scan_callf_run_eq fn vs ks)
  | |- context [store ?en (LocIdx ?x (Z.of_nat ?k)) (VInt ?z)] =>
      erewrite (store_idx en x k z) by (first [eassumption | sc_cbn; eassumption | lia])
  | |- context [store ?en (LocVar ?x) ?v] => rewrite (store_run_eq en (LocVar x) v)
  end.
Ltac ev_run := repeat (sc_cbn; ev_step); sc_cbn.
(** solves [fev en e = Ok ?v] and [fx1 en st = (?en', ?oc)] *)
Ltac ev := ev_run; reflexivity.

(** ---------------- one statement ---------------- *)
Ltac split_ands := repeat match goal with H : _ /\ _ |- _ => destruct H end.
(** the bindings an environment is known to have, as hypotheses *)
Ltac senv_open Hs :=
  let Hs' := fresh "Hs'" in
  pose proof Hs as Hs'; unfold senv in Hs'; cbn [optv tl option_map] in Hs'; split_ands.

(** the head statement is a straight-line one that ends normally *)
Ltac st_plain := eapply Conv_plain; [reflexivity | ev | lia | ].
(** ... that raises / returns *)
Ltac st_stop := eapply Conv_stop; [reflexivity | ev | discriminate | lia | ].

(** [senv] of an environment that extends one for which the bindings are known *)
Ltac senv_tac :=
  unfold senv; sc_cbn;
  repeat match goal with |- _ /\ _ => split end;
  first [eassumption | reflexivity | (do 2 f_equal; lia)].

(** ---------------- the bodies ---------------- *)
Definition scan_body_of (f : string) : list gstmt :=
  match assoc f scan_functions with Some (_, b) => b | None => [] end.
Definition nth_stmt (n : nat) (l : list gstmt) : gstmt := nth n l SBreak.
Definition while_body (s : gstmt) : list gstmt := match s with SWhile _ b => b | _ => [] end.

Definition lo_body : list gstmt := Eval vm_compute in scan_body_of "find_closest_lower_equal_element_indices_to_values".
Definition lo_pre : gstmt := Eval vm_compute in nth_stmt 8 lo_body.
Definition lo_main : gstmt := Eval vm_compute in nth_stmt 9 lo_body.
Definition lo_inner : gstmt := Eval vm_compute in nth_stmt 0 (while_body lo_main).
Definition lo_after : list gstmt := Eval vm_compute in tl (while_body lo_main).

(** ---------------- lower ---------------- *)
Lemma lo_inner_run : forall xs en xv idx q ls' k ind fill x rest Q G,
  senv en xv xs idx (q :: ls') k ind fill x ->
  (forall en', senv en' xv (fst (adv_le xs idx q)) (snd (adv_le xs idx q)) (q :: ls') k ind fill x -> Conv G en' rest Q) ->
  Conv (length xs + 7 + G) en (lo_inner :: rest) Q.
Proof.
  unfold lo_inner.
  induction xs as [|a r IH]; intros en xv idx q ls' k ind fill x rest Q G Hs Hk.
  - senv_open Hs.
    eapply Conv_while_false; [ev | lia |].
    eapply Conv_weaken; [apply Hk; exact Hs | lia].
  - senv_open Hs. cbn [adv_le] in Hk.
    destruct (Qc_leb a q) eqn:E.
    + destruct r as [|b r'].
      * (* x is exhausted: the inner loop is left by `break` *)
        eapply Conv_while_true with (P := fun r => snd r = WBreak /\ senv (fst r) xv [] (idx + 1) (q :: ls') k ind fill x);
          [ev_run; rewrite E; reflexivity | lia | |].
        -- st_plain. st_plain.
           eapply Conv_if with (P := eq (_, WBreak)); [ev | lia | |].
           ++ apply Conv_break; [lia | reflexivity].
           ++ intros r0 <-. cbn [fst snd]. split; [reflexivity|]. senv_tac.
        -- intros [en1 o] [Ho Hs1]. cbn [fst snd] in *. subst o.
           eapply Conv_weaken; [apply Hk; exact Hs1 | cbn [length]; lia].
      * eapply Conv_while_true with (P := fun r0 => snd r0 = WNormal /\ senv (fst r0) xv (b :: r') (idx + 1) (q :: ls') k ind fill x);
          [ev_run; rewrite E; reflexivity | lia | |].
        -- st_plain. st_plain.
           eapply Conv_if with (P := eq (_, WNormal)); [ev | lia | |].
           ++ apply Conv_nil; [lia | reflexivity].
           ++ intros r0 <-. cbn [fst snd]. apply Conv_nil; [lia|]. cbn [fst snd]. split; [reflexivity|]. senv_tac.
        -- intros [en1 o] [Ho Hs1]. cbn [fst snd] in *. subst o.
           eapply Conv_weaken; [eapply IH; [exact Hs1 | exact Hk] | cbn [length]; lia].
    + eapply Conv_while_false; [ev_run; rewrite E; reflexivity | lia |].
      eapply Conv_weaken; [apply Hk; exact Hs | lia].
Qed.

(** the first loop: queries below x[0] *)
Lemma lo_pre_run : forall ls en x0 xs k ind fill x rest Q G,
  senv en x0 xs 0 ls k ind (Some fill) x -> (k + length ls <= length ind)%nat ->
  (forall en', senv en' x0 xs 0 (snd (lower_pre x0 fill ls)) (k + length (fst (lower_pre x0 fill ls)))
                 (write_from ind k (fst (lower_pre x0 fill ls))) (Some fill) x -> Conv G en' rest Q) ->
  Conv (length ls + 5 + G) en (lo_pre :: rest) Q.
Proof.
  unfold lo_pre.
  induction ls as [|q ls IH]; intros en x0 xs k ind fill x rest Q G Hs Hlen Hk.
  - senv_open Hs. cbn [lower_pre fst snd length write_from] in Hk. rewrite Nat.add_0_r in Hk.
    eapply Conv_while_false; [ev | lia |].
    eapply Conv_weaken; [apply Hk; exact Hs | lia].
  - senv_open Hs. cbn [lower_pre] in Hk. cbn [length] in Hlen.
    destruct (Qc_ltb q x0) eqn:E.
    + destruct (lower_pre x0 fill ls) as [o r] eqn:Ep. cbn [fst snd length write_from] in Hk.
      eapply Conv_while_true with
        (P := fun r0 => snd r0 = WNormal /\
                        senv (fst r0) x0 xs 0 ls (S k) (set_nthz ind k (if fill then 0 else -1)%Z) (Some fill) x);
        [ev_run; rewrite E; reflexivity | lia | |].
      * destruct fill; st_plain; st_plain; st_plain; (apply Conv_nil; [lia|]); cbn [fst snd]; (split; [reflexivity|]); senv_tac.
      * intros [en1 o1] [Ho Hs1]. cbn [fst snd] in *. subst o1.
        eapply Conv_weaken; [eapply IH with (G := G); [exact Hs1 | rewrite set_nthz_length; lia |] | cbn [length]; lia].
        rewrite Ep. cbn [fst snd]. intros en' Hs'. apply Hk.
        replace (k + S (length o))%nat with (S k + length o)%nat by lia. exact Hs'.
    + cbn [fst snd length write_from] in Hk. rewrite Nat.add_0_r in Hk.
      eapply Conv_while_false; [ev_run; rewrite E; reflexivity | lia |].
      eapply Conv_weaken; [apply Hk; exact Hs | lia].
Qed.

(** the main loop over the queries *)
Lemma lo_main_run : forall ls en xv xs idx k ind fill x rest Q G,
  senv en xv xs idx ls k ind fill x -> (k + length ls <= length ind)%nat ->
  (forall en' xs' idx', senv en' xv xs' idx' [] (k + length ls) (write_from ind k (lower_main ls xs idx)) fill x ->
                        Conv G en' rest Q) ->
  Conv (length ls + length xs + 14 + G) en (lo_main :: rest) Q.
Proof.
  unfold lo_main.
  induction ls as [|q ls IH]; intros en xv xs idx k ind fill x rest Q G Hs Hlen Hk.
  - senv_open Hs. cbn [lower_main length write_from] in Hk. rewrite Nat.add_0_r in Hk.
    eapply Conv_while_false; [ev | lia |].
    eapply Conv_weaken; [eapply Hk; exact Hs | lia].
  - cbn [lower_main] in Hk. cbn [length] in Hlen.
    pose proof (adv_le_length xs idx q) as Hl.
    destruct (adv_le xs idx q) as [xs' idx'] eqn:Ea. cbn [fst] in Hl. cbn [write_from length] in Hk.
    eapply Conv_while_true with
      (P := fun r0 => snd r0 = WNormal /\ senv (fst r0) xv xs' idx' ls (S k) (set_nthz ind k idx') fill x).
    + senv_open Hs. ev.
    + lia.
    + eapply Conv_weaken; [eapply (lo_inner_run xs en xv idx q ls k ind fill x lo_after _ 4); [exact Hs|] | cbn [length]; lia].
      rewrite Ea. cbn [fst snd]. intros en' Hs1. senv_open Hs1. unfold lo_after.
      st_plain. st_plain. st_plain. apply Conv_nil; [lia|]. cbn [fst snd]. split; [reflexivity|]. senv_tac.
    + intros [en1 o1] [Ho Hs1]. cbn [fst snd] in *. subst o1.
      eapply Conv_weaken; [eapply IH with (G := G); [exact Hs1 | rewrite set_nthz_length; lia |] | cbn [length]; lia].
      intros en' xs'' idx'' Hs'. eapply Hk.
      replace (k + S (length ls))%nat with (S k + length ls)%nat by lia. exact Hs'.
Qed.

(** ---------------- calling a scan ---------------- *)
Lemma wcall_conv : forall fuel f actuals formals body en N M,
  assoc f scan_functions = Some (formals, body) -> fbind_params formals actuals = Ok en ->
  Conv N en body (fun r => wout_idx (snd r) = M) -> (N <= fuel)%nat ->
  wout_idx (wcall fuel scan_callf array_methf scan_functions f actuals) = M.
Proof. intros fuel f actuals formals body en N M Hf Hb Hc HN. unfold wcall. rewrite Hf, Hb. apply Hc. exact HN. Qed.

Lemma glue_find_lower : forall x lk fill fuel, (scan_fuel x lk <= fuel)%nat ->
  wout_idx (wcall fuel scan_callf array_methf scan_functions "find_closest_lower_equal_element_indices_to_values"
     [("x", VArr x); ("lookup", VArr lk); ("fill_not_valid", VBoolV fill)]) = find_lower x lk fill.
Proof.
  intros x lk fill fuel Hfuel.
  eapply (wcall_conv fuel _ _ _ lo_body [("x", VArr x); ("lookup", VArr lk); ("fill_not_valid", VBoolV fill)]);
    [vm_compute; reflexivity | reflexivity | | exact Hfuel].
  unfold lo_body, scan_fuel.
  destruct x as [|x0 xs].
  { st_plain. st_plain. st_stop. reflexivity. }
  destruct lk as [|q lk'].
  { do 6 st_plain. st_stop. reflexivity. }
  cbn [length].
  do 8 st_plain.
  unfold find_lower.
  pose proof (lower_pre_length x0 fill (q :: lk')) as Hpl.
  destruct (lower_pre x0 fill (q :: lk')) as [o r] eqn:Ep. cbn [fst snd length] in Hpl.
  eapply Conv_weaken;
    [eapply (lo_pre_run (q :: lk') _ x0 xs 0 (repeat 0%Z (length (q :: lk'))) fill (x0 :: xs) _ _ (length lk' + length xs + 20));
       [senv_tac | rewrite repeat_length; lia |] | cbn [length]; lia].
  rewrite Ep. cbn [fst snd]. intros en1 Hs1.
  eapply Conv_weaken;
    [eapply (lo_main_run r en1 x0 xs 0 _ _ (Some fill) (x0 :: xs) _ _ 2);
       [exact Hs1 | rewrite write_from_length, repeat_length; cbn [length]; lia |] | lia].
  intros en2 xs2 idx2 Hs2. senv_open Hs2.
  st_stop. cbn [wout_of wout_idx snd]. f_equal.
  rewrite <- write_from_app. apply write_from_zeros.
  rewrite app_length, lower_main_length. cbn [length]. lia.
Qed.
Print Assumptions glue_find_lower.

(** ---------------- higher ---------------- *)
Definition hi_body : list gstmt := Eval vm_compute in scan_body_of "find_closest_higher_equal_element_indices_to_values".
Definition hi_pre : gstmt := Eval vm_compute in nth_stmt 8 hi_body.
Definition hi_main : gstmt := Eval vm_compute in nth_stmt 9 hi_body.
Definition hi_inner : gstmt := Eval vm_compute in nth_stmt 0 (while_body hi_main).
Definition hi_after : list gstmt := Eval vm_compute in tl (while_body hi_main).

(** the inner loop; x_val is not updated by this scan (the model's xv is only carried along) *)
Lemma hi_inner_run : forall xs en x0 xv idx q ls' k ind fill x rest Q G,
  senv en x0 xs idx (q :: ls') k ind fill x ->
  (forall en', senv en' x0 (snd (fst (adv_lt xv xs idx q))) (snd (adv_lt xv xs idx q)) (q :: ls') k ind fill x -> Conv G en' rest Q) ->
  Conv (length xs + 7 + G) en (hi_inner :: rest) Q.
Proof.
  unfold hi_inner.
  induction xs as [|a r IH]; intros en x0 xv idx q ls' k ind fill x rest Q G Hs Hk.
  - senv_open Hs.
    eapply Conv_while_false; [ev | lia |].
    eapply Conv_weaken; [apply Hk; exact Hs | lia].
  - senv_open Hs. cbn [adv_lt] in Hk.
    destruct (Qc_ltb a q) eqn:E.
    + destruct r as [|b r'].
      * eapply Conv_while_true with (P := fun r => snd r = WBreak /\ senv (fst r) x0 [] (idx + 1) (q :: ls') k ind fill x);
          [ev_run; rewrite E; reflexivity | lia | |].
        -- st_plain. st_plain.
           eapply Conv_if with (P := eq (_, WBreak)); [ev | lia | |].
           ++ apply Conv_break; [lia | reflexivity].
           ++ intros r0 <-. cbn [fst snd]. split; [reflexivity|]. senv_tac.
        -- intros [en1 o] [Ho Hs1]. cbn [fst snd] in *. subst o.
           eapply Conv_weaken; [apply Hk; exact Hs1 | cbn [length]; lia].
      * eapply Conv_while_true with (P := fun r0 => snd r0 = WNormal /\ senv (fst r0) x0 (b :: r') (idx + 1) (q :: ls') k ind fill x);
          [ev_run; rewrite E; reflexivity | lia | |].
        -- st_plain. st_plain.
           eapply Conv_if with (P := eq (_, WNormal)); [ev | lia | |].
           ++ apply Conv_nil; [lia | reflexivity].
           ++ intros r0 <-. cbn [fst snd]. apply Conv_nil; [lia|]. cbn [fst snd]. split; [reflexivity|]. senv_tac.
        -- intros [en1 o] [Ho Hs1]. cbn [fst snd] in *. subst o.
           eapply Conv_weaken; [eapply IH; [exact Hs1 | exact Hk] | cbn [length]; lia].
    + eapply Conv_while_false; [ev_run; rewrite E; reflexivity | lia |].
      eapply Conv_weaken; [apply Hk; exact Hs | lia].
Qed.

(** the first loop of the higher and of the closest scan: queries <= x[0] *)
Lemma le_pre_run : forall ls en x0 xs k ind fill x rest Q G,
  senv en x0 xs 0 ls k ind fill x -> (k + length ls <= length ind)%nat ->
  (forall en', senv en' x0 xs 0 (snd (le_pre x0 ls)) (k + length (fst (le_pre x0 ls)))
                 (write_from ind k (fst (le_pre x0 ls))) fill x -> Conv G en' rest Q) ->
  Conv (length ls + 5 + G) en (hi_pre :: rest) Q.
Proof.
  unfold hi_pre.
  induction ls as [|q ls IH]; intros en x0 xs k ind fill x rest Q G Hs Hlen Hk.
  - senv_open Hs. cbn [le_pre fst snd length write_from] in Hk. rewrite Nat.add_0_r in Hk.
    eapply Conv_while_false; [ev | lia |].
    eapply Conv_weaken; [apply Hk; exact Hs | lia].
  - senv_open Hs. cbn [le_pre] in Hk. cbn [length] in Hlen.
    destruct (Qc_leb q x0) eqn:E.
    + destruct (le_pre x0 ls) as [o r] eqn:Ep. cbn [fst snd length write_from] in Hk.
      eapply Conv_while_true with
        (P := fun r0 => snd r0 = WNormal /\ senv (fst r0) x0 xs 0 ls (S k) (set_nthz ind k 0%Z) fill x);
        [ev_run; rewrite E; reflexivity | lia | |].
      * st_plain; st_plain; st_plain; (apply Conv_nil; [lia|]); cbn [fst snd]; (split; [reflexivity|]); senv_tac.
      * intros [en1 o1] [Ho Hs1]. cbn [fst snd] in *. subst o1.
        eapply Conv_weaken; [eapply IH with (G := G); [exact Hs1 | rewrite set_nthz_length; lia |] | cbn [length]; lia].
        rewrite Ep. cbn [fst snd]. intros en' Hs'. apply Hk.
        replace (k + S (length o))%nat with (S k + length o)%nat by lia. exact Hs'.
    + cbn [fst snd length write_from] in Hk. rewrite Nat.add_0_r in Hk.
      eapply Conv_while_false; [ev_run; rewrite E; reflexivity | lia |].
      eapply Conv_weaken; [apply Hk; exact Hs | lia].
Qed.

Lemma hi_main_run : forall ls en x0 xv xs idx k ind fill x rest Q G,
  senv en x0 xs idx ls k ind (Some fill) x -> (k + length ls <= length ind)%nat ->
  (forall en' xs' idx', senv en' x0 xs' idx' [] (k + length ls)
                          (write_from ind k (higher_main (Z.of_nat (length x)) fill ls xv xs idx)) (Some fill) x ->
                        Conv G en' rest Q) ->
  Conv (length ls + length xs + 16 + G) en (hi_main :: rest) Q.
Proof.
  unfold hi_main.
  induction ls as [|q ls IH]; intros en x0 xv xs idx k ind fill x rest Q G Hs Hlen Hk.
  - senv_open Hs. cbn [higher_main length write_from] in Hk. rewrite Nat.add_0_r in Hk.
    eapply Conv_while_false; [ev | lia |].
    eapply Conv_weaken; [eapply Hk; exact Hs | lia].
  - cbn [higher_main] in Hk. cbn [length] in Hlen.
    pose proof (adv_lt_length xs xv idx q) as Hl.
    destruct (adv_lt xv xs idx q) as [[xv' xs'] idx'] eqn:Ea. cbn [fst snd] in Hl. cbn [write_from length] in Hk.
    eapply Conv_while_true with
      (P := fun r0 => snd r0 = WNormal /\
                      senv (fst r0) x0 xs' idx' ls (S k)
                        (set_nthz ind k (match xs' with [] => if fill then idx' else Z.of_nat (length x) | _ => (idx' + 1)%Z end))
                        (Some fill) x).
    + senv_open Hs. ev.
    + lia.
    + eapply Conv_weaken; [eapply (hi_inner_run xs en x0 xv idx q ls k ind (Some fill) x hi_after _ 6); [exact Hs|] | cbn [length]; lia].
      rewrite Ea. cbn [fst snd]. intros en' Hs1. unfold hi_after.
      destruct xs' as [|xn xs'']; senv_open Hs1.
      * eapply Conv_if with (P := fun r0 => snd r0 = WNormal /\
            senv (fst r0) x0 [] idx' (q :: ls) k (set_nthz ind k (if fill then idx' else Z.of_nat (length x))) (Some fill) x);
          [ev | lia | |].
        -- destruct fill; st_plain; (apply Conv_nil; [lia|]); cbn [fst snd]; (split; [reflexivity|]); senv_tac.
        -- intros [en2 o2] [Ho Hs2]. cbn [fst snd] in *. subst o2. clear - Hs2 Hlen. senv_open Hs2.
           st_plain. st_plain. apply Conv_nil; [lia|]. cbn [fst snd]. split; [reflexivity|]. senv_tac.
      * eapply Conv_if with (P := fun r0 => snd r0 = WNormal /\
            senv (fst r0) x0 (xn :: xs'') idx' (q :: ls) k (set_nthz ind k (idx' + 1)%Z) (Some fill) x);
          [ev | lia | |].
        -- st_plain; (apply Conv_nil; [lia|]); cbn [fst snd]; (split; [reflexivity|]); senv_tac.
        -- intros [en2 o2] [Ho Hs2]. cbn [fst snd] in *. subst o2. clear - Hs2 Hlen. senv_open Hs2.
           st_plain. st_plain. apply Conv_nil; [lia|]. cbn [fst snd]. split; [reflexivity|]. senv_tac.
    + intros [en1 o1] [Ho Hs1]. cbn [fst snd] in *. subst o1.
      eapply Conv_weaken; [eapply IH with (G := G) (xv := xv'); [exact Hs1 | rewrite set_nthz_length; lia |] | cbn [length]; lia].
      intros en' xs'' idx'' Hs'. eapply Hk.
      replace (k + S (length ls))%nat with (S k + length ls)%nat by lia. exact Hs'.
Qed.

Lemma glue_find_higher : forall x lk fill fuel, (scan_fuel x lk <= fuel)%nat ->
  wout_idx (wcall fuel scan_callf array_methf scan_functions "find_closest_higher_equal_element_indices_to_values"
     [("x", VArr x); ("lookup", VArr lk); ("fill_not_valid", VBoolV fill)]) = find_higher x lk fill.
Proof.
  intros x lk fill fuel Hfuel.
  eapply (wcall_conv fuel _ _ _ hi_body [("x", VArr x); ("lookup", VArr lk); ("fill_not_valid", VBoolV fill)]);
    [vm_compute; reflexivity | reflexivity | | exact Hfuel].
  unfold hi_body, scan_fuel.
  destruct x as [|x0 xs].
  { st_plain. st_plain. st_stop. reflexivity. }
  destruct lk as [|q lk'].
  { do 6 st_plain. st_stop. reflexivity. }
  do 8 st_plain.
  unfold find_higher.
  pose proof (le_pre_length x0 (q :: lk')) as Hpl.
  destruct (le_pre x0 (q :: lk')) as [o r] eqn:Ep. cbn [fst snd] in Hpl.
  eapply Conv_weaken;
    [eapply (le_pre_run (q :: lk') _ x0 xs 0 (repeat 0%Z (length (q :: lk'))) (Some fill) (x0 :: xs) _ _ (length lk' + length xs + 20));
       [senv_tac | rewrite repeat_length; lia |] | cbn [length]; lia].
  rewrite Ep. cbn [fst snd]. intros en1 Hs1.
  eapply Conv_weaken;
    [eapply (hi_main_run r en1 x0 x0 xs 0 _ _ fill (x0 :: xs) _ _ 2);
       [exact Hs1 | rewrite write_from_length, repeat_length; cbn [length] in *; lia |] | cbn [length] in *; lia].
  intros en2 xs2 idx2 Hs2. senv_open Hs2.
  st_stop. cbn [wout_of wout_idx snd]. f_equal.
  rewrite <- write_from_app. apply write_from_zeros.
  rewrite app_length, higher_main_length. lia.
Qed.
Print Assumptions glue_find_higher.

(** ---------------- closest ---------------- *)
Definition cl_body : list gstmt := Eval vm_compute in scan_body_of "find_closest_lower_or_higher_element_indices_to_values".
Definition cl_main : gstmt := Eval vm_compute in nth_stmt 9 cl_body.
Definition cl_inner : gstmt := Eval vm_compute in nth_stmt 0 (while_body cl_main).
Definition cl_after : list gstmt := Eval vm_compute in tl (while_body cl_main).

(** the inner loop; here x_val follows x_next_val *)
Lemma cl_inner_run : forall xs en xv idx q ls' k ind fill x rest Q G,
  senv en xv xs idx (q :: ls') k ind fill x ->
  (forall en', senv en' (fst (fst (adv_lt xv xs idx q))) (snd (fst (adv_lt xv xs idx q))) (snd (adv_lt xv xs idx q))
                 (q :: ls') k ind fill x -> Conv G en' rest Q) ->
  Conv (length xs + 8 + G) en (cl_inner :: rest) Q.
Proof.
  unfold cl_inner.
  induction xs as [|a r IH]; intros en xv idx q ls' k ind fill x rest Q G Hs Hk.
  - senv_open Hs.
    eapply Conv_while_false; [ev | lia |].
    eapply Conv_weaken; [apply Hk; exact Hs | lia].
  - senv_open Hs. cbn [adv_lt] in Hk.
    destruct (Qc_ltb a q) eqn:E.
    + destruct r as [|b r'].
      * eapply Conv_while_true with (P := fun r => snd r = WBreak /\ senv (fst r) a [] (idx + 1) (q :: ls') k ind fill x);
          [ev_run; rewrite E; reflexivity | lia | |].
        -- st_plain. st_plain. st_plain.
           eapply Conv_if with (P := eq (_, WBreak)); [ev | lia | |].
           ++ apply Conv_break; [lia | reflexivity].
           ++ intros r0 <-. cbn [fst snd]. split; [reflexivity|]. senv_tac.
        -- intros [en1 o] [Ho Hs1]. cbn [fst snd] in *. subst o.
           eapply Conv_weaken; [apply Hk; exact Hs1 | cbn [length]; lia].
      * eapply Conv_while_true with (P := fun r0 => snd r0 = WNormal /\ senv (fst r0) a (b :: r') (idx + 1) (q :: ls') k ind fill x);
          [ev_run; rewrite E; reflexivity | lia | |].
        -- st_plain. st_plain. st_plain.
           eapply Conv_if with (P := eq (_, WNormal)); [ev | lia | |].
           ++ apply Conv_nil; [lia | reflexivity].
           ++ intros r0 <-. cbn [fst snd]. apply Conv_nil; [lia|]. cbn [fst snd]. split; [reflexivity|]. senv_tac.
        -- intros [en1 o] [Ho Hs1]. cbn [fst snd] in *. subst o.
           eapply Conv_weaken; [eapply IH; [exact Hs1 | exact Hk] | cbn [length]; lia].
    + eapply Conv_while_false; [ev_run; rewrite E; reflexivity | lia |].
      eapply Conv_weaken; [apply Hk; exact Hs | lia].
Qed.

Lemma cl_main_run : forall ls en xv xs idx k ind fill x rest Q G,
  senv en xv xs idx ls k ind fill x -> (k + length ls <= length ind)%nat ->
  (forall en' xv' xs' idx', senv en' xv' xs' idx' [] (k + length ls) (write_from ind k (closest_main ls xv xs idx)) fill x ->
                            Conv G en' rest Q) ->
  Conv (length ls + length xs + 18 + G) en (cl_main :: rest) Q.
Proof.
  unfold cl_main.
  induction ls as [|q ls IH]; intros en xv xs idx k ind fill x rest Q G Hs Hlen Hk.
  - senv_open Hs. cbn [closest_main length write_from] in Hk. rewrite Nat.add_0_r in Hk.
    eapply Conv_while_false; [ev | lia |].
    eapply Conv_weaken; [eapply Hk; exact Hs | lia].
  - cbn [closest_main] in Hk. cbn [length] in Hlen.
    pose proof (adv_lt_length xs xv idx q) as Hl.
    destruct (adv_lt xv xs idx q) as [[xv' xs'] idx'] eqn:Ea. cbn [fst snd] in Hl. cbn [write_from length] in Hk.
    eapply Conv_while_true with
      (P := fun r0 => snd r0 = WNormal /\
                      senv (fst r0) xv' xs' idx' ls (S k)
                        (set_nthz ind k (match xs' with
                                         | [] => idx'
                                         | xn :: _ => if Qc_leb (q - xv') (xn - q) then idx' else (idx' + 1)%Z
                                         end)) fill x).
    + senv_open Hs. ev.
    + lia.
    + eapply Conv_weaken; [eapply (cl_inner_run xs en xv idx q ls k ind fill x cl_after _ 7); [exact Hs|] | cbn [length]; lia].
      rewrite Ea. cbn [fst snd]. intros en' Hs1. unfold cl_after.
      destruct xs' as [|xn xs'']; senv_open Hs1.
      * eapply Conv_if with (P := fun r0 => snd r0 = WNormal /\
            senv (fst r0) xv' [] idx' (q :: ls) k (set_nthz ind k idx') fill x);
          [ev | lia | |].
        -- st_plain; (apply Conv_nil; [lia|]); cbn [fst snd]; (split; [reflexivity|]); senv_tac.
        -- intros [en2 o2] [Ho Hs2]. cbn [fst snd] in *. subst o2. clear - Hs2 Hlen. senv_open Hs2.
           st_plain. st_plain. apply Conv_nil; [lia|]. cbn [fst snd]. split; [reflexivity|]. senv_tac.
      * eapply Conv_if with (P := fun r0 => snd r0 = WNormal /\
            senv (fst r0) xv' (xn :: xs'') idx' (q :: ls) k
              (set_nthz ind k (if Qc_leb (q - xv') (xn - q) then idx' else (idx' + 1)%Z)) fill x);
          [ev | lia | |].
        -- (* the tie-break: lookup_val - x_val <= x_next_val - lookup_val *)
           destruct (Qc_leb (q - xv') (xn - q)) eqn:Et.
           ++ eapply Conv_if with (P := eq (_, WNormal)); [ev_run; rewrite Et; reflexivity | lia | |].
              ** st_plain. apply Conv_nil; [lia | reflexivity].
              ** intros r0 <-. cbn [fst snd]. apply Conv_nil; [lia|]. cbn [fst snd]. split; [reflexivity|]. senv_tac.
           ++ eapply Conv_if with (P := eq (_, WNormal)); [ev_run; rewrite Et; reflexivity | lia | |].
              ** st_plain. apply Conv_nil; [lia | reflexivity].
              ** intros r0 <-. cbn [fst snd]. apply Conv_nil; [lia|]. cbn [fst snd]. split; [reflexivity|]. senv_tac.
        -- intros [en2 o2] [Ho Hs2]. cbn [fst snd] in *. subst o2. clear - Hs2 Hlen. senv_open Hs2.
           st_plain. st_plain. apply Conv_nil; [lia|]. cbn [fst snd]. split; [reflexivity|]. senv_tac.
    + intros [en1 o1] [Ho Hs1]. cbn [fst snd] in *. subst o1.
      eapply Conv_weaken; [eapply IH with (G := G); [exact Hs1 | rewrite set_nthz_length; lia |] | cbn [length]; lia].
      intros en' xv'' xs'' idx'' Hs'. eapply Hk.
      replace (k + S (length ls))%nat with (S k + length ls)%nat by lia. exact Hs'.
Qed.

Lemma glue_find_closest : forall x lk fuel, (scan_fuel x lk <= fuel)%nat ->
  wout_idx (wcall fuel scan_callf array_methf scan_functions "find_closest_lower_or_higher_element_indices_to_values"
     [("x", VArr x); ("lookup", VArr lk)]) = find_closest x lk.
Proof.
  intros x lk fuel Hfuel.
  eapply (wcall_conv fuel _ _ _ cl_body [("x", VArr x); ("lookup", VArr lk)]);
    [vm_compute; reflexivity | reflexivity | | exact Hfuel].
  unfold cl_body, scan_fuel.
  destruct x as [|x0 xs].
  { st_plain. st_plain. st_stop. reflexivity. }
  destruct lk as [|q lk'].
  { do 6 st_plain. st_stop. reflexivity. }
  do 8 st_plain.
  unfold find_closest.
  pose proof (le_pre_length x0 (q :: lk')) as Hpl.
  destruct (le_pre x0 (q :: lk')) as [o r] eqn:Ep. cbn [fst snd] in Hpl.
  eapply Conv_weaken;
    [eapply (le_pre_run (q :: lk') _ x0 xs 0 (repeat 0%Z (length (q :: lk'))) None (x0 :: xs) _ _ (length lk' + length xs + 22));
       [senv_tac | rewrite repeat_length; lia |] | cbn [length]; lia].
  rewrite Ep. cbn [fst snd]. intros en1 Hs1.
  eapply Conv_weaken;
    [eapply (cl_main_run r en1 x0 xs 0 _ _ None (x0 :: xs) _ _ 2);
       [exact Hs1 | rewrite write_from_length, repeat_length; cbn [length] in *; lia |] | cbn [length] in *; lia].
  intros en2 xv2 xs2 idx2 Hs2. senv_open Hs2.
  st_stop. cbn [wout_of wout_idx snd]. f_equal.
  rewrite <- write_from_app. apply write_from_zeros.
  rewrite app_length, closest_main_length. lia.
Qed.
Print Assumptions glue_find_closest.

(** ---------------- fill_not_valid defaults to True ---------------- *)
Lemma glue_scan_defaults : forall x lk fuel,
  wcall fuel scan_callf array_methf scan_functions "find_closest_lower_equal_element_indices_to_values" [("x", VArr x); ("lookup", VArr lk)] =
  wcall fuel scan_callf array_methf scan_functions "find_closest_lower_equal_element_indices_to_values" [("x", VArr x); ("lookup", VArr lk); ("fill_not_valid", VBoolV true)] /\
  wcall fuel scan_callf array_methf scan_functions "find_closest_higher_equal_element_indices_to_values" [("x", VArr x); ("lookup", VArr lk)] =
  wcall fuel scan_callf array_methf scan_functions "find_closest_higher_equal_element_indices_to_values" [("x", VArr x); ("lookup", VArr lk); ("fill_not_valid", VBoolV true)].
Proof. intros x lk fuel. split; reflexivity. Qed.
Print Assumptions glue_scan_defaults.
