(** Proofs for C11 (truncate) and C13 (interpolation) over Model/Process.v. *)
From TW Require Import Model.Process Proofs.ListLemmas Proofs.ListLemmas3 Proofs.SearchProofs.
Open Scope Qc_scope.

(** ---------- ranges of the filled specifications ---------- *)

Lemma count_le_lt_mono : forall x a b, a < b -> (count_le x a <= count_lt x b)%Z.
Proof.
  induction x as [|h x IH]; intros a b Hab; cbn [count_le count_lt]; [lia|].
  specialize (IH a b Hab).
  qc_case (Qc_leb h a); qc_case (Qc_ltb h b); try lia.
  exfalso; qclra.
Qed.

Lemma lower_spec_true_range : forall x q, x <> [] ->
  (0 <= lower_spec x true q < Z.of_nat (length x))%Z.
Proof.
  intros x q Hx. unfold lower_spec. pose proof (count_le_bounds x q) as Hb.
  apply length_pos_not_nil in Hx.
  destruct (count_le x q =? 0)%Z eqn:E; [lia|apply Z.eqb_neq in E; lia].
Qed.

Lemma higher_spec_true_range : forall x q, x <> [] ->
  (0 <= higher_spec x true q < Z.of_nat (length x))%Z.
Proof.
  intros x q Hx. unfold higher_spec. pose proof (count_lt_bounds x q) as Hb.
  apply length_pos_not_nil in Hx.
  destruct (count_lt x q =? Z.of_nat (length x))%Z eqn:E; [lia|apply Z.eqb_neq in E; lia].
Qed.

Lemma lower_le_higher : forall x a b, x <> [] -> a < b ->
  (lower_spec x true a <= higher_spec x true b)%Z.
Proof.
  intros x a b Hx Hab. unfold lower_spec, higher_spec.
  pose proof (count_le_bounds x a) as Hb1. pose proof (count_lt_bounds x b) as Hb2.
  pose proof (count_le_lt_mono x a b Hab) as Hm.
  apply length_pos_not_nil in Hx.
  destruct (count_le x a =? 0)%Z eqn:E1;
    destruct (count_lt x b =? Z.of_nat (length x))%Z eqn:E2;
    try apply Z.eqb_neq in E1; try apply Z.eqb_neq in E2; lia.
Qed.

(** ---------- C11 ---------- *)

Theorem truncate_covering_run : forall x y xl xr, ssorted x -> x <> [] -> length x = length y -> xl < xr ->
  exists i j, truncate x y xl xr false false = Ok (slice x i (j + 1), slice y i (j + 1)) /\
    (i <= j)%nat /\ (j < length x)%nat /\
    is_lower x true xl (Z.of_nat i) /\ is_higher x true xr (Z.of_nat j).
Proof.
  intros x y xl xr Hs Hx Hlen Hlr.
  pose proof (lower_spec_true_range x xl Hx) as Hl.
  pose proof (higher_spec_true_range x xr Hx) as Hh.
  pose proof (lower_le_higher x xl xr Hx Hlr) as Hlh.
  exists (Z.to_nat (lower_spec x true xl)), (Z.to_nat (higher_spec x true xr)).
  split; [|split; [lia|split; [lia|split]]].
  - unfold truncate. rewrite (proj2 (Qc_leb_false xr xl) Hlr).
    rewrite (lower_scan_correct x [xl] true Hs I Hx) by discriminate.
    rewrite (higher_scan_correct x [xr] true Hs I Hx) by discriminate.
    cbn [map first_index bind].
    replace (Z.to_nat (higher_spec x true xr + 1))
      with (Z.to_nat (higher_spec x true xr) + 1)%nat by lia.
    reflexivity.
  - rewrite Z2Nat.id by lia. apply lower_spec_is_lower; assumption.
  - rewrite Z2Nat.id by lia. apply higher_spec_is_higher; assumption.
Qed.

Lemma zn_of_nat : forall i x, zn (Z.of_nat i) x = nthq i x.
Proof. intros i x. unfold zn. rewrite Nat2Z.id. reflexivity. Qed.

Theorem truncate_minimal : forall x i j xl xr, ssorted x ->
  is_lower x true xl (Z.of_nat i) -> is_higher x true xr (Z.of_nat j) -> (i < j)%nat -> (j < length x)%nat ->
  (headq x <= xl -> xl < nthq (i + 1) x) /\ (xr <= lastq x -> nthq (j - 1) x < xr).
Proof.
  intros x i j xl xr Hs Hlo Hhi Hij Hj. split.
  - intros Hhead. destruct Hlo as [(Ri & Li & Mi)|(Ai & _)].
    + apply Qcnot_le_lt. intros Hc.
      assert (Hr : in_range (Z.of_nat (i + 1)) x) by (unfold in_range; lia).
      specialize (Mi (Z.of_nat (i + 1)) Hr). rewrite zn_of_nat in Mi.
      specialize (Mi Hc). lia.
    + exfalso.
      assert (Hr : in_range (Z.of_nat 0) x) by (unfold in_range; lia).
      specialize (Ai _ Hr). rewrite zn_of_nat, <- headq_nthq in Ai. qclra.
  - intros Hlast. destruct Hhi as [(Rj & Lj & Mj)|(Aj & _)].
    + apply Qcnot_le_lt. intros Hc.
      assert (Hr : in_range (Z.of_nat (j - 1)) x) by (unfold in_range; lia).
      specialize (Mj (Z.of_nat (j - 1)) Hr). rewrite zn_of_nat in Mj.
      specialize (Mj Hc). lia.
    + exfalso.
      assert (Hr : in_range (Z.of_nat (length x - 1)) x) by (unfold in_range; lia).
      specialize (Aj _ Hr). rewrite zn_of_nat in Aj.
      rewrite <- lastq_nthq in Aj by (apply length_pos_not_nil; lia). qclra.
Qed.

Theorem truncate_inverted : forall x y xl xr, xr <= xl -> truncate x y xl xr false false = Raise ValueError.
Proof.
  intros x y xl xr H. unfold truncate. rewrite (proj2 (Qc_leb_true xr xl) H). reflexivity.
Qed.

Theorem truncate_ratio : forall x y l r lr rr,
  let span := lastq x - headq x in
  truncate x y l r lr rr =
  truncate x y (if lr then l * span + headq x else l) (if rr then r * span + headq x else r) false false.
Proof. intros x y l r lr rr span. reflexivity. Qed.

(** ---------- C13 : linear ---------- *)

Lemma interp_in_cons2 : forall x0 x1 x f0 f1 y v,
  interp_in (x0 :: x1 :: x) (f0 :: f1 :: y) v =
  if Qc_ltb v x1 then (f1 - f0) / (x1 - x0) * (v - x0) + f0 else interp_in (x1 :: x) (f1 :: y) v.
Proof. reflexivity. Qed.

(** v in the half-open knot interval [x_i, x_{i+1}) *)
Lemma interp_in_seg : forall x y i v, ssorted x -> length x = length y -> (i + 1 < length x)%nat ->
  nthq i x <= v -> v < nthq (i + 1) x ->
  interp_in x y v =
  (nthq (i + 1) y - nthq i y) / (nthq (i + 1) x - nthq i x) * (v - nthq i x) + nthq i y.
Proof.
  induction x as [|x0 x IH]; intros y i v Hs Hlen Hi Hlo Hhi; cbn [length] in Hi; [lia|].
  destruct x as [|x1 x]; [cbn [length] in Hi; lia|].
  destruct y as [|f0 [|f1 y]]; cbn [length] in Hlen; try discriminate.
  destruct i as [|i].
  - cbn [Nat.add] in Hhi |- *. rewrite !nthq_cons_S, !nthq_cons_0 in Hhi |- *.
    rewrite nthq_cons_0 in Hlo.
    rewrite interp_in_cons2. rewrite (proj2 (Qc_ltb_true v x1) Hhi). reflexivity.
  - cbn [Nat.add] in Hhi |- *. rewrite !nthq_cons_S in Hhi |- *. rewrite nthq_cons_S in Hlo.
    assert (Hi' : (i + 1 < length (x1 :: x))%nat) by (cbn [length] in Hi |- *; lia).
    assert (H1 : x1 <= nthq i (x1 :: x))
      by (apply ssorted_head_le_nth; [exact (ssorted_cons_tail _ _ Hs)|lia]).
    assert (H1v : x1 <= v) by qclra.
    rewrite interp_in_cons2. rewrite (proj2 (Qc_ltb_false v x1) H1v).
    assert (Hlen' : length (x1 :: x) = length (f1 :: y)) by (cbn [length]; lia).
    exact (IH (f1 :: y) i v (ssorted_cons_tail _ _ Hs) Hlen' Hi' Hlo Hhi).
Qed.

(** v at or beyond the last knot *)
Lemma interp_in_last : forall x y v, ssorted x -> length x = length y -> x <> [] ->
  lastq x <= v -> interp_in x y v = lastq y.
Proof.
  induction x as [|x0 x IH]; intros y v Hs Hlen Hx Hv; [congruence|].
  destruct x as [|x1 x].
  - destruct y as [|f0 [|f1 y]]; cbn [length] in Hlen; try discriminate. reflexivity.
  - destruct y as [|f0 [|f1 y]]; cbn [length] in Hlen; try discriminate.
    rewrite lastq_cons in Hv by discriminate.
    rewrite (lastq_cons f0) by discriminate.
    pose proof (ssorted_head_le_last x x1 (ssorted_cons_tail _ _ Hs)) as H1.
    assert (H1v : x1 <= v) by qclra.
    rewrite interp_in_cons2. rewrite (proj2 (Qc_ltb_false v x1) H1v).
    assert (Hlen' : length (x1 :: x) = length (f1 :: y)) by (cbn [length]; lia).
    assert (Hne : x1 :: x <> []) by discriminate.
    exact (IH (f1 :: y) v (ssorted_cons_tail _ _ Hs) Hlen' Hne Hv).
Qed.

Theorem linear_outside : forall x y v, ssorted x -> x <> [] -> length x = length y ->
  (v <= headq x -> np_interp1 x y v = headq y) /\ (lastq x <= v -> np_interp1 x y v = lastq y).
Proof.
  intros x y v Hs Hx Hlen. split; intros Hv; unfold np_interp1.
  - rewrite (proj2 (Qc_leb_true v (headq x)) Hv). reflexivity.
  - qc_case (Qc_leb v (headq x)).
    + destruct x as [|x0 x]; [congruence|]. cbn [headq hd] in Hle.
      pose proof (ssorted_head_le_last x x0 Hs) as H1.
      destruct x as [|x1 x].
      * destruct y as [|f0 [|f1 y]]; cbn [length] in Hlen; try discriminate. reflexivity.
      * exfalso. destruct Hs as [H01 Hs]. rewrite lastq_cons in Hv, H1 by discriminate.
        pose proof (ssorted_head_le_last x x1 Hs) as H2. qclra.
    + apply interp_in_last; assumption.
Qed.

Theorem linear_at_nodes : forall x y i, ssorted x -> length x = length y -> (i < length x)%nat ->
  np_interp1 x y (nthq i x) = nthq i y.
Proof.
  intros x y i Hs Hlen Hi.
  destruct i as [|i].
  - unfold np_interp1. rewrite <- headq_nthq.
    assert (Hr : headq x <= headq x) by qclra.
    rewrite (proj2 (Qc_leb_true _ _) Hr). apply headq_nthq.
  - destruct x as [|x0 x]; [cbn [length] in Hi; lia|].
    assert (Hi' : (i < length x)%nat) by (cbn [length] in Hi; lia).
    pose proof (ssorted_head_lt_nth x x0 i Hs Hi') as Hgt.
    unfold np_interp1. cbn [headq hd].
    rewrite (proj2 (Qc_leb_false (nthq (S i) (x0 :: x)) x0) Hgt).
    destruct (Nat.eq_dec (S i + 1) (length (x0 :: x))) as [E|E].
    + assert (Hne : x0 :: x <> []) by discriminate.
      assert (Hney : y <> []) by (apply length_pos_not_nil; rewrite <- Hlen; cbn [length]; lia).
      rewrite (interp_in_last (x0 :: x) y _ Hs Hlen Hne).
      * rewrite (lastq_nthq_len y (length (x0 :: x)) (eq_sym Hlen) Hney).
        f_equal. lia.
      * rewrite (lastq_nthq_len (x0 :: x) (length (x0 :: x)) eq_refl Hne).
        replace (length (x0 :: x) - 1)%nat with (S i) by lia. qclra.
    + assert (Hi2 : (S i + 1 < length (x0 :: x))%nat) by lia.
      assert (Hr : nthq (S i) (x0 :: x) <= nthq (S i) (x0 :: x)) by qclra.
      assert (Hm : nthq (S i) (x0 :: x) < nthq (S i + 1) (x0 :: x))
        by (apply nth_mono; [exact Hs|lia|lia]).
      rewrite (interp_in_seg (x0 :: x) y (S i) _ Hs Hlen Hi2 Hr Hm).
      unfold Qcdiv. ring.
Qed.

Theorem linear_spec : forall x y i v, ssorted x -> length x = length y -> (i + 1 < length x)%nat ->
  nthq i x <= v -> v <= nthq (i + 1) x ->
  np_interp1 x y v = nthq i y + (nthq (i + 1) y - nthq i y) * (v - nthq i x) / (nthq (i + 1) x - nthq i x).
Proof.
  intros x y i v Hs Hlen Hi Hlo Hhi.
  assert (Hm : nthq i x < nthq (i + 1) x) by (apply nth_mono; [exact Hs|lia|lia]).
  assert (Hd : nthq (i + 1) x - nthq i x <> 0) by (intros E; qclra).
  destruct (Qc_dec v (nthq (i + 1) x)) as [[Hlt|Hgt]|Heq].
  - destruct (Qc_dec v (nthq i x)) as [[Hlt'|Hgt']|Heq'].
    + exfalso. qclra.
    + (* strictly inside *)
      assert (Hh : headq x < v).
      { destruct x as [|x0 x]; [cbn [length] in Hi; lia|]. cbn [headq hd].
        assert (Hi' : (i < length (x0 :: x))%nat) by lia.
        pose proof (ssorted_head_le_nth x x0 i Hs Hi') as H0. qclra. }
      unfold np_interp1. rewrite (proj2 (Qc_leb_false v (headq x)) Hh).
      rewrite (interp_in_seg x y i v Hs Hlen Hi Hlo Hlt). field. exact Hd.
    + subst v. rewrite (linear_at_nodes x y i Hs Hlen) by lia. field. exact Hd.
  - exfalso. qclra.
  - subst v. rewrite (linear_at_nodes x y (i + 1) Hs Hlen) by lia. field. exact Hd.
Qed.

(** every point of the data range lies in some closed knot interval (or the list is a singleton) *)
Lemma locate_segment : forall x v, ssorted x -> (2 <= length x)%nat -> headq x <= v -> v <= lastq x ->
  exists i, (i + 1 < length x)%nat /\ nthq i x <= v /\ v <= nthq (i + 1) x.
Proof.
  induction x as [|x0 x IH]; intros v Hs Hl Hlo Hhi; cbn [length] in Hl; [lia|].
  destruct x as [|x1 x]; [cbn [length] in Hl; lia|].
  cbn [headq hd] in Hlo.
  qc_case (Qc_leb v x1).
  - exists 0%nat. cbn [Nat.add length]. rewrite nthq_cons_S, !nthq_cons_0.
    split; [lia|split; assumption].
  - destruct x as [|x2 x].
    + exfalso. cbn in Hhi. qclra.
    + rewrite lastq_cons in Hhi by discriminate.
      destruct (IH v (ssorted_cons_tail _ _ Hs)) as (i & Hi & Ha & Hb).
      * cbn [length]. lia.
      * cbn [headq hd]. qclra.
      * exact Hhi.
      * exists (S i). cbn [Nat.add]. rewrite !nthq_cons_S.
        split; [cbn [length] in Hi |- *; lia|split; assumption].
Qed.

Theorem linear_reproduces_affine : forall x y a b v, ssorted x -> x <> [] -> length x = length y ->
  (forall i, (i < length x)%nat -> nthq i y = a * nthq i x + b) ->
  headq x <= v -> v <= lastq x -> np_interp1 x y v = a * v + b.
Proof.
  intros x y a b v Hs Hx Hlen Haff Hlo Hhi.
  destruct (le_lt_dec 2 (length x)) as [H2|H1].
  - destruct (locate_segment x v Hs H2 Hlo Hhi) as (i & Hi & Ha & Hb).
    rewrite (linear_spec x y i v Hs Hlen Hi Ha Hb).
    rewrite (Haff i) by lia. rewrite (Haff (i + 1)%nat) by lia.
    assert (Hm : nthq i x < nthq (i + 1) x) by (apply nth_mono; [exact Hs|lia|lia]).
    field. intros E. qclra.
  - destruct x as [|x0 [|x1 x]]; [congruence| |cbn [length] in H1; lia].
    cbn [headq hd] in Hlo. rewrite lastq_single in Hhi.
    assert (v = x0) by qclra. subst v.
    pose proof (linear_at_nodes [x0] y 0 Hs Hlen) as Hn. rewrite nthq_cons_0 in Hn.
    rewrite Hn by (cbn [length]; lia).
    rewrite (Haff 0%nat) by (cbn [length]; lia). rewrite nthq_cons_0. reflexivity.
Qed.

(** ---------- C13 : piecewise constant ---------- *)

Theorem constant_spec : forall x y new_x left, ssorted x -> nondecr new_x -> x <> [] -> new_x <> [] ->
  length x = length y ->
  interp_constant x y new_x left =
  Ok (map (fun v => if Qc_leb (headq x) v then nthq (Z.to_nat (lower_spec x true v)) y
                    else match left with Some l => l | None => headq y end) new_x).
Proof.
  intros x y new_x left Hs Hn Hx Hnx Hlen. unfold interp_constant.
  rewrite (lower_scan_correct x new_x true Hs Hn Hx Hnx). cbn [bind].
  rewrite map2_map_r. reflexivity.
Qed.

Lemma lower_spec_at_node : forall x i, ssorted x -> (i < length x)%nat ->
  lower_spec x true (nthq i x) = Z.of_nat i.
Proof.
  intros x i Hs Hi.
  assert (Hx : x <> []) by (apply length_pos_not_nil; lia).
  apply (is_lower_unique x true (nthq i x) _ _ Hx (lower_spec_is_lower x true _ Hs Hx)).
  left. assert (Hr : in_range (Z.of_nat i) x) by (unfold in_range; lia).
  split; [exact Hr|]. rewrite zn_of_nat. split; [qclra|].
  intros j Hj Hle.
  destruct (Z_lt_le_dec (Z.of_nat i) j) as [Hlt|Hge]; [|exact Hge].
  pose proof (zn_mono x _ _ Hs Hr Hj Hlt) as Hm. rewrite zn_of_nat in Hm. exfalso. qclra.
Qed.

Theorem constant_at_nodes : forall x y, ssorted x -> x <> [] -> length x = length y ->
  interp_constant x y x None = Ok y.
Proof.
  intros x y Hs Hx Hlen.
  rewrite (constant_spec x y x None Hs (ssorted_nondecr x Hs) Hx Hx Hlen).
  f_equal. apply nthq_ext; [rewrite map_length; exact Hlen|].
  intros i Hi. rewrite map_length in Hi.
  match goal with |- context [map ?g x] => set (f := g) end.
  unfold nthq at 1.
  rewrite nth_indep with (d' := f 0) by (rewrite map_length; exact Hi).
  rewrite map_nth. fold (nthq i x). unfold f.
  assert (Hh : headq x <= nthq i x).
  { destruct x as [|x0 x]; [congruence|]. cbn [headq hd]. apply ssorted_head_le_nth; assumption. }
  rewrite (proj2 (Qc_leb_true _ _) Hh).
  rewrite (lower_spec_at_node x i Hs Hi), Nat2Z.id. reflexivity.
Qed.
