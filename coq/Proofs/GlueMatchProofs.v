(** The regenerated bodies of the functions of match.py (Gen/MatchGlue.v), run by the function-level interpreter of
    Model/GlueFun.v with the leaves of Model/GlueLeaves.v, against the hand-written models of Model/Match.v.

    Nothing of the generated bodies is restated: a proof is a symbolic execution ([fl_run]) of whatever
    [assoc <function> match_functions] computes to, statement by statement; the loop of
    _interval_integral_matching_stretch is handled by an induction over the windows ([loop_run]) whose step is the
    symbolic execution of the regenerated loop body ([body_step]).  Whenever the interpreter is stuck on a call of a
    model function or on a comparison of symbolic numbers, that call is case-split and the model side is rewritten with
    the recorded equations at the end.

      glue_interval_loop            (C03)  the window loop = interval_match            (needs length x = length y only)
      glue_match_ref                (C01)  integral_matching_reference_stretch = match_ref
      glue_match_defaults_partial   (C01)  the defaults of the signature; the statement first asked for is false,
                                           see [glue_match_defaults_original_false] *)
From Coq Require Import Lia Bool.
From TW Require Import Proofs.ListLemmas Proofs.ListLemmas2 Proofs.ListLemmas4 Proofs.MatchProofs Proofs.ListLemmas7.
From TW Require Import Model.GlueLeaves Gen.MatchGlue.
Open Scope Qc_scope.
Open Scope string_scope.

Definition fexec_k (r : fenv * outcome) (k : fenv -> fenv * outcome) : fenv * outcome :=
  match snd r with ONormal => k (fst r) | _ => r end.

Section Loop.
Variable cf : string -> list gval -> list (string * gval) -> res gval.
Variable mf : gval -> string -> list gval -> res gval.
Variable af : gval -> list gval -> res gval.
Variable pf : gval -> gval -> res gval.
Variable vars : list string.
Variable body : list gstmt.
Fixpoint floop (items : list gval) (en : fenv) {struct items} : fenv * outcome :=
  match items with
  | [] => (en, ONormal)
  | item :: rest =>
      match (match vars with
             | [x] => Some ((x, item) :: en)
             | _ => match item with VTup vs => bind_vars vars vs en | _ => None end
             end) with
      | None => (en, ORaise ValueError)
      | Some en' => fexec_k (fexec cf mf af pf en' body) (fun en'' => floop rest en'')
      end
  end.
End Loop.

Lemma fexec_cons : forall cf mf af pf en st l,
  fexec cf mf af pf en (st :: l) = fexec_k (fexec1 cf mf af pf en st) (fun en' => fexec cf mf af pf en' l).
Proof. reflexivity. Qed.
Lemma fexec_nil : forall cf mf af pf en, fexec cf mf af pf en [] = (en, ONormal).
Proof. reflexivity. Qed.
Lemma fexec1_if : forall cf mf af pf en c th el,
  fexec1 cf mf af pf en (SIf c th el) =
  match feval cf mf af pf en c with
  | Raise x => (en, ORaise x)
  | Ok (VBoolV true) => fexec cf mf af pf en th
  | Ok (VBoolV false) => fexec cf mf af pf en el
  | Ok _ => (en, ORaise TypeError)
  end.
Proof. reflexivity. Qed.
Lemma fexec1_for : forall cf mf af pf en vars it body,
  fexec1 cf mf af pf en (SFor vars it body) =
  match feval cf mf af pf en it with
  | Raise x => (en, ORaise x)
  | Ok v => match vals_of v with
            | None => (en, ORaise TypeError)
            | Some items => floop cf mf af pf vars body items en
            end
  end.
Proof. reflexivity. Qed.

Lemma fexec_k_normal : forall en k, fexec_k (en, ONormal) k = k en.
Proof. reflexivity. Qed.
Lemma fexec_k_raise : forall en e k, fexec_k (en, ORaise e) k = (en, ORaise e).
Proof. reflexivity. Qed.
Lemma fexec_k_return : forall en v k, fexec_k (en, OReturn v) k = (en, OReturn v).
Proof. reflexivity. Qed.

(** ---------------- leaves ---------------- *)
Lemma ints_length : forall l, length (ints l) = length l.
Proof. intros. apply map_length. Qed.
Lemma nats_ints : forall l, nats (ints l) = l.
Proof. intros l. unfold nats, ints. rewrite map_map. rewrite <- (map_id l) at 2. apply map_ext. intros. apply Nat2Z.id. Qed.

(** a[s:e+1] on an array is the model's slice *)
Lemma py_slice_window : forall l s e, py_slice l (Z.of_nat s) (Z.of_nat e + 1) 1 = Ok (slice l s (e + 1)).
Proof.
  intros l s e. rewrite ListLemmas7.py_slice_step1. f_equal. unfold sl_pos, clampZ.
  replace (Z.of_nat s <? 0)%Z with false by (symmetry; apply Z.ltb_ge; lia).
  replace (Z.of_nat e + 1 <? 0)%Z with false by (symmetry; apply Z.ltb_ge; lia).
  unfold slice.
  destruct (Nat.le_gt_cases s (length l)) as [Hs|Hs].
  - replace (Z.to_nat (Z.max 0 (Z.min (Z.of_nat s) (Z.of_nat (length l))))) with s by lia.
    destruct (Nat.le_gt_cases (e + 1) (length l)) as [He|He].
    + replace (Z.to_nat (Z.max 0 (Z.min (Z.of_nat e + 1) (Z.of_nat (length l))))) with (e + 1)%nat by lia. reflexivity.
    + replace (Z.to_nat (Z.max 0 (Z.min (Z.of_nat e + 1) (Z.of_nat (length l))))) with (length l) by lia.
      rewrite !firstn_all2; [reflexivity| |]; rewrite skipn_length; lia.
  - replace (Z.to_nat (Z.max 0 (Z.min (Z.of_nat s) (Z.of_nat (length l))))) with (length l) by lia.
    rewrite !skipn_all2 by lia. now rewrite !firstn_nil.
Qed.

(** fixed[:-1], fixed[1:] *)
Lemma idx_slice_init : forall {A} (l : list A), py_slice_step1 l 0 (-1) = removelast l.
Proof.
  intros A l. unfold py_slice_step1, norm_bound, clampZ.
  change (0 <? 0)%Z with false. change (-1 <? 0)%Z with true. cbv iota.
  rewrite removelast_firstn_len. set (n := length l).
  replace (Z.to_nat (Z.max 0 (Z.min 0 (Z.of_nat n)))) with O by lia.
  cbn [skipn]. f_equal. lia.
Qed.
Lemma idx_slice_tail : forall {A} (l : list A), py_slice_step1 l 1 (Z.of_nat (length l)) = tl l.
Proof.
  intros A l. unfold py_slice_step1, norm_bound, clampZ.
  change (1 <? 0)%Z with false.
  replace (Z.of_nat (length l) <? 0)%Z with false by (symmetry; apply Z.ltb_ge; lia). cbv iota.
  destruct l as [|a l]; [reflexivity|]. cbn [length tl].
  replace (Z.to_nat (Z.max 0 (Z.min 1 (Z.of_nat (S (length l)))))) with 1%nat by lia.
  cbn [skipn]. apply firstn_all2. lia.
Qed.

Lemma ints_slice_init : forall l, py_slice_step1 (ints l) 0 (-1) = ints (removelast l).
Proof.
  intros l. rewrite idx_slice_init. unfold ints.
  induction l as [|a [|b l] IH]; [reflexivity|reflexivity|].
  change (removelast (a :: b :: l)) with (a :: removelast (b :: l)).
  change (map Z.of_nat (a :: b :: l)) with (Z.of_nat a :: map Z.of_nat (b :: l)).
  change (removelast (Z.of_nat a :: map Z.of_nat (b :: l))) with (Z.of_nat a :: removelast (map Z.of_nat (b :: l))).
  rewrite IH. reflexivity.
Qed.
Lemma ints_slice_tail : forall l, py_slice_step1 (ints l) 1 (Z.of_nat (length l)) = ints (tl l).
Proof. intros l. rewrite <- (ints_length l). rewrite idx_slice_tail. destruct l; reflexivity. Qed.

Lemma take_ints : forall x l, take x (ints l) = map (fun k => nthq k x) l.
Proof. intros x l. unfold take, ints. rewrite map_map. apply map_ext. intros k. now rewrite Nat2Z.id. Qed.
Lemma where_true_isin_from : forall s a k,
  where_true (map (fun v => memq v s) a) (Z.of_nat k) = ints (where_isin_from k a s).
Proof.
  intros s. induction a as [|v a IH]; intros k; [reflexivity|].
  cbn [map where_true where_isin_from].
  replace (Z.of_nat k + 1)%Z with (Z.of_nat (S k)) by lia. rewrite IH.
  destruct (memq v s); reflexivity.
Qed.
Lemma where_true_isin : forall s a, where_true (map (fun v => memq v s) a) 0 = ints (where_isin a s).
Proof. intros s a. exact (where_true_isin_from s a 0). Qed.
Lemma py_index_cons0 : forall {A} (a : A) l, py_index (a :: l) 0 = Some a.
Proof.
  intros A a l. unfold py_index. cbn [length]. change (0 <? 0)%Z with false. cbv iota.
  replace (Z.of_nat (S (length l)) <=? 0)%Z with false by (symmetry; apply Z.leb_gt; lia). reflexivity.
Qed.
Lemma Z_of_nat_ltb : forall a b, (Z.of_nat a <? Z.of_nat b)%Z = (a <? b)%nat.
Proof.
  intros a b. destruct (Nat.ltb_spec a b) as [H|H]; [apply Z.ltb_lt|apply Z.ltb_ge]; lia.
Qed.
Lemma Z_of_nat_eqb : forall a b, (Z.of_nat a =? Z.of_nat b)%Z = (a =? b)%nat.
Proof.
  intros a b. destruct (Nat.eqb_spec a b) as [->|N]; [apply Z.eqb_refl|]. apply Z.eqb_neq. lia.
Qed.
Lemma nats_arange : forall n, nats (range_list 0 (Z.of_nat n)) = seq 0 n.
Proof.
  intros n. unfold nats, range_list. rewrite map_map. replace (Z.to_nat (Z.of_nat n - 0)) with n by lia.
  rewrite <- (map_id (seq 0 n)) at 2. apply map_ext. intros k. lia.
Qed.

Definition known_rule_b (r : rule) : bool := match r with UnknownRule => false | _ => true end.
Lemma member_rule_name : forall r,
  member_str (VStrV (rule_name r)) [VStrV "trapezoid"; VStrV "rectangle"] = Some (known_rule_b r).
Proof. intros []; reflexivity. Qed.
Lemma rule_of_name_name : forall r, rule_of_name (rule_name r) = r.
Proof. intros []; reflexivity. Qed.
Lemma strategy_of_name : forall s, strategy_of (strategy_name s) = s.
Proof. intros []; reflexivity. Qed.
Lemma strategy_of_closest : strategy_of "closest" = Closest.
Proof. reflexivity. Qed.

Fixpoint witems (targets : list Qc) (fixed : list nat) : list gval :=
  match targets, fixed with
  | t :: targets', s :: ((e :: _) as fixed') =>
      VTup [VNum t; VInt (Z.of_nat s); VInt (Z.of_nat e)] :: witems targets' fixed'
  | _, _ => []
  end.

Lemma zip3_witems : forall targets fixed,
  zip3 (map VNum targets) (map VInt (ints (removelast fixed))) (map VInt (ints (tl fixed))) = witems targets fixed.
Proof.
  induction targets as [|t ts IH]; intros fixed; [reflexivity|].
  destruct fixed as [|s [|e f]]; [reflexivity|reflexivity|].
  change (removelast (s :: e :: f)) with (s :: removelast (e :: f)).
  cbn [tl ints map zip3 witems]. f_equal. exact (IH (e :: f)).
Qed.

(** y[s:e+1] = w with w as long as the slice is the model's splice *)
Lemma store_window : forall en l s e w, assoc "y" en = Some (VArr l) ->
  length w = length (slice l s (e + 1)) ->
  store en (LocSlice "y" (Z.of_nat s) (Z.of_nat e + 1)) (VArr w) = Ok (("y", VArr (splice l s w)) :: en).
Proof.
  intros en l s e w Hy Hw. unfold store, flookup. rewrite Hy. cbn [bind].
  rewrite slice_len in Hw. unfold norm_bound, clampZ.
  replace (Z.of_nat s <? 0)%Z with false by (symmetry; apply Z.ltb_ge; lia).
  replace (Z.of_nat e + 1 <? 0)%Z with false by (symmetry; apply Z.ltb_ge; lia).
  set (n := length l) in *.
  replace (Z.of_nat (length w) =? _)%Z with true by (symmetry; apply Z.eqb_eq; lia).
  do 3 f_equal. unfold splice.
  destruct (Nat.le_gt_cases s n) as [Hs|Hs].
  - replace (Z.to_nat (Z.max 0 (Z.min (Z.of_nat s) (Z.of_nat n)))) with s by lia.
    match goal with |- context [skipn ?a l] =>
      replace a with (s + length w)%nat by lia end.
    reflexivity.
  - replace (Z.to_nat (Z.max 0 (Z.min (Z.of_nat s) (Z.of_nat n)))) with n by lia.
    match goal with |- context [skipn ?a l] => rewrite (skipn_all2 (n:=a)) by (fold n; lia) end.
    rewrite (skipn_all2 (n:=(s + length w)%nat)) by (fold n; lia).
    rewrite (firstn_all2 (n:=s)) by (fold n; lia). unfold n. now rewrite firstn_all.
Qed.
Lemma store_var : forall en x v, store en (LocVar x) v = Ok ((x, v) :: en).
Proof. reflexivity. Qed.

Lemma stretch_res_length : forall pw r x y t w, stretch_res pw r x y t = Ok w -> length x = length y -> length w = length y.
Proof.
  intros pw r x y t w H Hl. unfold stretch_res in H.
  destruct r; try discriminate H; destruct (stretch_defined _ _ _); try discriminate H; injection H as <-;
    now apply stretch_length.
Qed.

(** ---------------- the symbolic execution ---------------- *)
Ltac fl_cbn :=
  cbn -[Qcplus Qcmult Qcdiv Qcminus Qcopp Qcinv Q2Qc Qc_eqb Qc_ltb Qc_leb Qc_of_Z Qc_of_nat
        map map2 seq firstn skipn removelast tl
        where_true py_index py_slice py_slice_step1 zip2 zip3 range_list store
        ints nats take unique nunique memq where_isin
        find_indices integral sum_over_indices interval_match member_str rule_name rule_of_name strategy_name strategy_of stretch_res stretch slice splice
        match_ref resolve_fixed interval_loop interval_defined
        Z.of_nat Z.to_nat Z.add Z.sub Z.mul Nat.ltb Nat.leb Nat.eqb
        fexec fexec_k floop].
Ltac fl_red := unfold bind, flookup; fl_cbn; repeat (progress unfold bind, flookup; fl_cbn).
Ltac atomic e := lazymatch e with context [match _ with _ => _ end] => fail | _ => idtac end.

Ltac fl_step_gen extra :=
  first
  [ match goal with
    | |- context [fexec ?cf ?mf ?af ?pf ?en ?L] => is_var L; unfold L; try clear L
    | |- context [fexec ?cf ?mf ?af ?pf ?en (SIf ?c ?th ?el :: ?l)] =>
        rewrite (fexec_cons cf mf af pf en (SIf c th el) l), (fexec1_if cf mf af pf en c th el)
    | |- context [fexec ?cf ?mf ?af ?pf ?en (SFor ?vs ?it ?b :: ?l)] =>
        rewrite (fexec_cons cf mf af pf en (SFor vs it b) l), (fexec1_for cf mf af pf en vs it b)
    | |- context [fexec ?cf ?mf ?af ?pf ?en (?st :: ?l)] => rewrite (fexec_cons cf mf af pf en st l)
    | |- context [fexec ?cf ?mf ?af ?pf ?en []] => rewrite (fexec_nil cf mf af pf en)
    | |- context [fexec_k (?en, ONormal) ?k] => rewrite (fexec_k_normal en k)
    | |- context [fexec_k (?en, ORaise ?e) ?k] => rewrite (fexec_k_raise en e k)
    | |- context [fexec_k (?en, OReturn ?v) ?k] => rewrite (fexec_k_return en v k)
    | H : ?e = _ |- context [match ?e with _ => _ end] => rewrite H
    | H : assoc ?k ?en = _ |- context [assoc ?k ?en] => rewrite H
    | |- context [store ?en (LocVar ?x) ?v] => rewrite (store_var en x v)
    | |- context [py_slice ?l (Z.of_nat ?s) (Z.of_nat ?e + 1)%Z 1%Z] => rewrite (py_slice_window l s e)
    | |- context [length (map ?f ?l)] => rewrite (map_length f l)
    | |- context [length (ints ?l)] => rewrite (ints_length l)
    | |- context [nats (ints ?l)] => rewrite (nats_ints l)
    | |- context [nats (range_list 0 (Z.of_nat ?n))] => rewrite (nats_arange n)
    | |- context [take ?x (ints ?l)] => rewrite (take_ints x l)
    | |- context [where_true (map (fun v => memq v ?s) ?a) 0%Z] => rewrite (where_true_isin s a)
    | |- context [py_index (?a :: ?l) 0%Z] => rewrite (py_index_cons0 a l)
    | |- context [(Z.of_nat ?a <? Z.of_nat ?b)%Z] => rewrite (Z_of_nat_ltb a b)
    | |- context [rule_of_name (rule_name ?r)] => rewrite (rule_of_name_name r)
    | |- context [strategy_of (strategy_name ?r)] => rewrite (strategy_of_name r)
    | |- context [strategy_of "closest"] => rewrite strategy_of_closest
    | |- context [member_str (VStrV (rule_name ?r)) [VStrV "trapezoid"; VStrV "rectangle"]] => rewrite (member_rule_name r)
    | |- context [(Z.of_nat ?a =? Z.of_nat ?b)%Z] => rewrite (Z_of_nat_eqb a b)
    end
  | extra
  | match goal with |- context [match negb ?e with _ => _ end] => atomic e; destruct e eqn:? end
  | match goal with |- context [match ?e with _ => _ end] => atomic e; destruct e eqn:? end ].
Ltac fl_run_gen extra := repeat (fl_red; fl_step_gen extra); fl_red.
Ltac fl_run := fl_run_gen ltac:(idtac; fail).

(** the loop of _interval_integral_matching_stretch, as regenerated *)
Fixpoint first_for (l : list gstmt) : list string * list gstmt :=
  match l with
  | SFor v _ b :: _ => (v, b)
  | _ :: l' => first_for l'
  | [] => ([], [])
  end.
Definition interval_for : list string * list gstmt :=
  match assoc "_interval_integral_matching_stretch" match_functions with
  | Some (_, body) => first_for body
  | None => ([], [])
  end.

Section IntervalLoop.
Variable pw : Qc -> Qc.
Notation cf := (match_callf pw).

Definition env_ok (r : rule) (x ycur : list Qc) (en : fenv) : Prop :=
  assoc "x" en = Some (VArr x) /\ assoc "y" en = Some (VArr ycur) /\
  assoc "integral_method" en = Some (VStrV (rule_name r)) /\ assoc "alpha" en = Some (VOpaque "alpha") /\
  assoc "s" en = Some VNoneV.

Lemma body_step : forall r x ycur en s e t body,
  body = snd interval_for ->
  env_ok r x ycur en -> length x = length ycur ->
  fexec cf array_methf no_apply no_pow
    (("end", VInt (Z.of_nat e)) :: ("start", VInt (Z.of_nat s)) :: ("integral_value", VNum t) :: en) body =
    match stretch_res pw r (slice x s (e + 1)) (slice ycur s (e + 1)) t with
    | Ok w => (("y", VArr (splice ycur s w)) :: ("end", VInt (Z.of_nat e + 1)) ::
               ("end", VInt (Z.of_nat e)) :: ("start", VInt (Z.of_nat s)) :: ("integral_value", VNum t) :: en, ONormal)
    | Raise ex => (("end", VInt (Z.of_nat e + 1)) ::
               ("end", VInt (Z.of_nat e)) :: ("start", VInt (Z.of_nat s)) :: ("integral_value", VNum t) :: en, ORaise ex)
    end.
Proof.
  intros r x ycur en s e t body -> (Hx & Hy & Hm & Ha & Hs) Hlen.
  let b := eval vm_compute in (snd interval_for) in change (snd interval_for) with b.
  destruct r.
  all: fl_run_gen ltac:(idtac;
    match goal with
    | H : assoc ?k en = _ |- context [assoc ?k en] => rewrite H
    | E : stretch_res _ _ _ _ _ = Ok ?w |- context [store ?en' (LocSlice "y" (Z.of_nat ?s) (Z.of_nat ?e + 1)%Z) (VArr ?w)] =>
        rewrite (store_window en' ycur s e w);
        [ | fl_cbn; assumption | rewrite (stretch_res_length _ _ _ _ _ _ E); rewrite ?slice_len; lia ]
    end).
  all: reflexivity.
Qed.

Lemma interval_match_ok : forall r x y t ts s e f w,
  stretch_res pw r (slice x s (e + 1)) (slice y s (e + 1)) t = Ok w ->
  interval_match pw r x y (t :: ts) (s :: e :: f) = interval_match pw r x (splice y s w) ts (e :: f).
Proof.
  intros r x y t ts s e f w H. unfold stretch_res in H. unfold interval_match.
  destruct r; try discriminate H; cbn [interval_defined interval_loop];
    destruct (stretch_defined _ _ _); try discriminate H; injection H as <-; reflexivity.
Qed.
Lemma interval_match_raise : forall r x y t ts s e f ex,
  stretch_res pw r (slice x s (e + 1)) (slice y s (e + 1)) t = Raise ex ->
  interval_match pw r x y (t :: ts) (s :: e :: f) = Raise ex.
Proof.
  intros r x y t ts s e f ex H. unfold stretch_res in H. unfold interval_match.
  destruct r; cbn [interval_defined]; [| |congruence];
    destruct (stretch_defined _ _ _); try discriminate H; exact H.
Qed.
Lemma interval_match_done : forall r x y targets fixed, witems targets fixed = [] ->
  interval_match pw r x y targets fixed = Ok y.
Proof.
  intros r x y targets fixed H.
  destruct targets as [|t ts]; [destruct r; reflexivity|].
  destruct fixed as [|s [|e f]]; [destruct r; reflexivity|destruct r; reflexivity|discriminate H].
Qed.

Lemma loop_run : forall r x vars body, (vars, body) = interval_for ->
  forall targets fixed en ycur, length x = length ycur -> env_ok r x ycur en ->
  exists en',
    floop cf array_methf no_apply no_pow vars body (witems targets fixed) en =
      (en', match interval_match pw r x ycur targets fixed with Ok _ => ONormal | Raise ex => ORaise ex end) /\
    match interval_match pw r x ycur targets fixed with Ok y' => env_ok r x y' en' | Raise _ => True end.
Proof.
  intros r x vars body Hvb.
  assert (Hv : vars = fst interval_for) by now rewrite <- Hvb.
  assert (Hb : body = snd interval_for) by now rewrite <- Hvb.
  vm_compute in Hv. subst vars. clear Hvb.
  induction targets as [|t ts IH]; intros fixed en ycur Hlen Hen.
  - exists en. rewrite interval_match_done by reflexivity. split; [reflexivity|exact Hen].
  - destruct fixed as [|s [|e f]];
      [exists en; rewrite interval_match_done by reflexivity; split; [reflexivity|exact Hen]..|].
    cbn [witems floop bind_vars].
    rewrite (body_step r x ycur en s e t body Hb Hen Hlen).
    destruct (stretch_res pw r (slice x s (e + 1)) (slice ycur s (e + 1)) t) as [w|ex] eqn:E.
    + rewrite fexec_k_normal, (interval_match_ok _ _ _ _ _ _ _ _ _ E).
      apply IH.
      * pose proof (stretch_res_length _ _ _ _ _ _ E) as Hw. rewrite !slice_len in Hw. specialize (Hw ltac:(lia)).
        unfold splice. rewrite !app_length, firstn_length, skipn_length. lia.
      * destruct Hen as (Hx & Hy & Hm & Ha & Hs). unfold env_ok. cbn [assoc seq_eqb String.eqb Ascii.eqb Bool.eqb].
        repeat split; assumption.
    + rewrite fexec_k_raise, (interval_match_raise _ _ _ _ _ _ _ _ _ E). eexists. split; [reflexivity|exact I].
Qed.

(** the body of the called function, with every suffix of its statement list named (the remaining statements then
    occur in the goal as a variable: rewriting under a goal that contains them is what costs) *)
Ltac pose_tails l k :=
  lazymatch l with
  | @nil _ => k (@nil gstmt)
  | ?st :: ?l' => pose_tails l' ltac:(fun t => let L := fresh "L" in pose (L := st :: t); k L)
  end.
Ltac table_lookup :=
  match goal with |- context [assoc ?n match_functions] =>
    let t := eval vm_compute in (assoc n match_functions) in
    lazymatch t with
    | Some (?formals, ?body) =>
        pose_tails body ltac:(fun L =>
          let H := fresh "Htbl" in
          assert (H : assoc n match_functions = Some (formals, L)) by (vm_compute; reflexivity);
          rewrite H; clear H)
    end
  end.

Lemma glue_interval_loop : forall x y targets fixed r, length x = length y ->
  outcome_arr (call_fun (match_callf pw) array_methf no_apply no_pow match_functions "_interval_integral_matching_stretch"
     [("x", VArr x); ("y", VArr y); ("integral_values", VArr targets); ("fixed_points_indices_in_x", VIdxArr (ints fixed));
      ("integral_method", VStrV (rule_name r)); ("alpha", VOpaque "alpha")])
  = interval_match pw r x y targets fixed.
Proof.
  intros x y targets fixed r Hlen. unfold call_fun. table_lookup.
  fl_run_gen ltac:(idtac;
    match goal with
    | |- context [py_slice_step1 (ints ?l) 0%Z (-1)%Z] => rewrite (ints_slice_init l)
    | |- context [py_slice_step1 (ints ?l) 1%Z (Z.of_nat (length ?l))] => rewrite (ints_slice_tail l)
    | |- context [zip3 (map VNum ?t) (map VInt (ints (removelast ?f))) (map VInt (ints (tl ?f)))] => rewrite (zip3_witems t f)
    | |- context [floop ?cf ?mf ?af ?pf ?vars ?body (witems ?t ?f) ?en] =>
        let H1 := fresh "Hrun" in let H2 := fresh "Hok" in let en' := fresh "en'" in
        destruct (loop_run r x vars body ltac:(vm_compute; reflexivity) t f en y Hlen
                    ltac:(unfold env_ok; fl_cbn; repeat split; reflexivity)) as (en' & H1 & H2);
        rewrite H1; clear H1;
        destruct (interval_match pw r x y t f) eqn:?;
        [destruct H2 as (? & ? & ? & ? & ?)|]
    end).
  all: reflexivity.
Qed.


(** integral_matching_reference_stretch.  The interpreter's side runs first, with the model's side hidden behind [M]
    (the rules, the strategy and the three ways of fixing points stay symbolic; the case splits are recorded as
    equations); then the model's side is unfolded and rewritten with the recorded equations. *)
Lemma glue_match_ref : forall x y xr yr m rt rr,
  outcome_arr (call_fun (match_callf pw) array_methf no_apply no_pow match_functions "integral_matching_reference_stretch"
     ([("x", VArr x); ("y", VArr y); ("x_ref", VArr xr); ("y_ref", VArr yr);
       ("target_function_integral_method", VStrV (rule_name rt)); ("reference_function_integral_method", VStrV (rule_name rr));
       ("alpha", VOpaque "alpha")] ++ mode_args m))
  = match_ref pw x y xr yr m rt rr.
Proof.
  intros x y xr yr m rt rr. unfold call_fun. table_lookup.
  match goal with |- _ = ?rhs => set (M := rhs) end.
  destruct m as [s|v|i].
  all: fl_run.
  all: subst M; unfold match_ref, resolve_fixed.
  all: destruct rt; try discriminate.
  all: fl_run.
  (* what is left compares the two outcomes: equal terms, or a recorded equation of the interpreter's run *)
  all: first [reflexivity | symmetry; assumption].
Qed.

(** the defaults of the signature.  The statement first asked for (reference_function_integral_method defaulting to
    "trapezoid") is FALSE: the signature (and the docstring) of integral_matching_reference_stretch say 'rectangle';
    see [glue_match_defaults_original_false] below for a concrete input on which the two calls differ
    (pw = id, x = [0;1;2;3], y = [1;2;1;5], x_ref = [0;2;3], y_ref = [1;4;2]: the call with the omitted arguments
    returns [1;1;2;6], the call with reference_function_integral_method = "trapezoid" returns [1;4;1;5]).
    Original statement:
      glue_match_defaults : forall pw x y xr yr,
        call_fun ... "integral_matching_reference_stretch" [x; y; x_ref; y_ref; alpha]
        = call_fun ... "integral_matching_reference_stretch" [x; y; x_ref; y_ref; alpha; fixed_points_in_x = None;
            fixed_points_indices_in_x = None; fixed_points_finding_strategy = "closest";
            target_function_integral_method = "trapezoid"; reference_function_integral_method = "trapezoid"; s = None]
    The variant proved here has reference_function_integral_method = "rectangle" and is otherwise identical. *)
Lemma glue_match_defaults_partial : forall x y xr yr,
  call_fun (match_callf pw) array_methf no_apply no_pow match_functions "integral_matching_reference_stretch"
     [("x", VArr x); ("y", VArr y); ("x_ref", VArr xr); ("y_ref", VArr yr); ("alpha", VOpaque "alpha")]
  = call_fun (match_callf pw) array_methf no_apply no_pow match_functions "integral_matching_reference_stretch"
     [("x", VArr x); ("y", VArr y); ("x_ref", VArr xr); ("y_ref", VArr yr); ("alpha", VOpaque "alpha");
      ("fixed_points_in_x", VNoneV); ("fixed_points_indices_in_x", VNoneV); ("fixed_points_finding_strategy", VStrV "closest");
      ("target_function_integral_method", VStrV "trapezoid"); ("reference_function_integral_method", VStrV "rectangle"); ("s", VNoneV)].
Proof.
  intros x y xr yr. unfold call_fun. table_lookup. fl_red. reflexivity.
Qed.
End IntervalLoop.

Lemma glue_match_defaults_original_false :
  ~ (forall pw x y xr yr,
  call_fun (match_callf pw) array_methf no_apply no_pow match_functions "integral_matching_reference_stretch"
     [("x", VArr x); ("y", VArr y); ("x_ref", VArr xr); ("y_ref", VArr yr); ("alpha", VOpaque "alpha")]
  = call_fun (match_callf pw) array_methf no_apply no_pow match_functions "integral_matching_reference_stretch"
     [("x", VArr x); ("y", VArr y); ("x_ref", VArr xr); ("y_ref", VArr yr); ("alpha", VOpaque "alpha");
      ("fixed_points_in_x", VNoneV); ("fixed_points_indices_in_x", VNoneV); ("fixed_points_finding_strategy", VStrV "closest");
      ("target_function_integral_method", VStrV "trapezoid"); ("reference_function_integral_method", VStrV "trapezoid"); ("s", VNoneV)]).
Proof.
  intros H.
  specialize (H (fun t => t) [Qc_of_Z 0; Qc_of_Z 1; Qc_of_Z 2; Qc_of_Z 3] [Qc_of_Z 1; Qc_of_Z 2; Qc_of_Z 1; Qc_of_Z 5]
                [Qc_of_Z 0; Qc_of_Z 2; Qc_of_Z 3] [Qc_of_Z 1; Qc_of_Z 4; Qc_of_Z 2]).
  vm_compute in H. discriminate H.
Qed.
