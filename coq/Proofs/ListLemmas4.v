(** General list lemmas, part 4: map2 / slice / splice / ssorted by index.
    No model-specific content. *)
From TW Require Import Lib.Base Proofs.ListLemmas.
Open Scope Qc_scope.

(** ---------- map2 ---------- *)

Lemma map2_len : forall {A B C} (f : A -> B -> C) l1 l2,
  length (map2 f l1 l2) = Nat.min (length l1) (length l2).
Proof.
  intros A B C f. induction l1 as [|a l1 IH]; intros [|b l2]; cbn [map2 length Nat.min]; try reflexivity.
  now rewrite IH.
Qed.

Lemma map2_nil_r : forall {A B C} (f : A -> B -> C) l1, map2 f l1 [] = [].
Proof. intros A B C f [|a l1]; reflexivity. Qed.

Lemma nthq_map2_in : forall (f : Qc -> Qc -> Qc) l1 l2 i,
  (i < length l1)%nat -> (i < length l2)%nat ->
  nthq i (map2 f l1 l2) = f (nthq i l1) (nthq i l2).
Proof.
  intros f. induction l1 as [|a l1 IH]; intros [|b l2] i H1 H2; cbn [length] in *; try lia.
  destruct i as [|i]; cbn [map2]; [reflexivity|]. rewrite !nthq_cons_S. apply IH; lia.
Qed.

Lemma map2_ext_in : forall {A B C} (f g : A -> B -> C) l1 l2,
  (forall a b, f a b = g a b) -> map2 f l1 l2 = map2 g l1 l2.
Proof.
  intros A B C f g. induction l1 as [|a l1 IH]; intros [|b l2] H; cbn [map2]; try reflexivity.
  rewrite H. f_equal. now apply IH.
Qed.

Lemma headq_map2 : forall (f : Qc -> Qc -> Qc) l1 l2, l1 <> [] -> l2 <> [] ->
  headq (map2 f l1 l2) = f (headq l1) (headq l2).
Proof. intros f [|a l1] [|b l2] H1 H2; try congruence. reflexivity. Qed.

Lemma map2_id_l : forall (f : Qc -> Qc -> Qc) l1 l2, (length l1 <= length l2)%nat ->
  (forall a b, f a b = a) -> map2 f l1 l2 = l1.
Proof.
  intros f. induction l1 as [|a l1 IH]; intros [|b l2] Hl H; cbn [map2 length] in *; try reflexivity; try lia.
  rewrite H. f_equal. apply IH; [lia|exact H].
Qed.

(** ---------- slice ---------- *)

Lemma slice_len : forall l a b, length (slice l a b) = Nat.min (b - a) (length l - a).
Proof. intros l a b. unfold slice. now rewrite firstn_length, skipn_length. Qed.

Lemma slice_len_in : forall l a b, (a <= b)%nat -> (b <= length l)%nat -> length (slice l a b) = (b - a)%nat.
Proof. intros l a b H1 H2. rewrite slice_len. lia. Qed.

Lemma nthq_slice_in : forall l a b i, (i < b - a)%nat -> nthq i (slice l a b) = nthq (a + i) l.
Proof. intros l a b i H. unfold slice. rewrite nthq_firstn by exact H. apply nthq_skipn. Qed.

Lemma slice_ext : forall l l' a b, length l = length l' ->
  (forall i, (a <= i)%nat -> (i < b)%nat -> nthq i l = nthq i l') -> slice l a b = slice l' a b.
Proof.
  intros l l' a b Hl H. apply nthq_ext.
  - rewrite !slice_len. lia.
  - intros i Hi. rewrite slice_len in Hi. rewrite !nthq_slice_in by lia. apply H; lia.
Qed.

Lemma slice_not_nil : forall l a b, (a < b)%nat -> (a < length l)%nat -> slice l a b <> [].
Proof.
  intros l a b H1 H2. apply length_pos_not_nil. rewrite slice_len. lia.
Qed.

Lemma headq_slice : forall l a b, (a < b)%nat -> headq (slice l a b) = nthq a l.
Proof.
  intros l a b H. rewrite headq_nthq, nthq_slice_in by lia. f_equal. lia.
Qed.

Lemma lastq_slice : forall l a b, (a < b)%nat -> (b <= length l)%nat -> lastq (slice l a b) = nthq (b - 1) l.
Proof.
  intros l a b H1 H2. rewrite lastq_nthq by (apply slice_not_nil; lia).
  rewrite slice_len_in by lia. rewrite nthq_slice_in by lia. f_equal. lia.
Qed.

Lemma firstn_add_split : forall {A} m n (l : list A), firstn (m + n) l = firstn m l ++ firstn n (skipn m l).
Proof.
  intros A. induction m as [|m IH]; intros n l; [reflexivity|].
  destruct l as [|a l]; cbn [Nat.add firstn skipn app].
  - now rewrite firstn_nil.
  - f_equal. apply IH.
Qed.

Lemma slice_split : forall l a b c, (a <= b)%nat -> (b <= c)%nat ->
  slice l a c = slice l a b ++ slice l b c.
Proof.
  intros l a b c H1 H2. unfold slice.
  replace (c - a)%nat with ((b - a) + (c - b))%nat by lia.
  rewrite firstn_add_split. f_equal. rewrite skipn_add. do 2 f_equal. lia.
Qed.

Lemma sumq_slice_split : forall l a b c, (a <= b)%nat -> (b <= c)%nat ->
  sumq (slice l a c) = sumq (slice l a b) + sumq (slice l b c).
Proof. intros l a b c H1 H2. rewrite (slice_split l a b c H1 H2). apply sumq_app. Qed.

Lemma slice_empty : forall l a, slice l a a = [].
Proof. intros l a. unfold slice. now rewrite Nat.sub_diag. Qed.

(** ---------- splice ---------- *)

Lemma splice_len : forall l s w, (s + length w <= length l)%nat -> length (splice l s w) = length l.
Proof.
  intros l s w H. unfold splice. rewrite !app_length, firstn_length, skipn_length. lia.
Qed.

Lemma nthq_splice_lt : forall l s w i, (s <= length l)%nat -> (i < s)%nat -> nthq i (splice l s w) = nthq i l.
Proof.
  intros l s w i Hs H. unfold splice. rewrite nthq_app_l by (rewrite firstn_length; lia).
  now apply nthq_firstn.
Qed.

Lemma nthq_splice_in : forall l s w i, (s <= length l)%nat -> (s <= i)%nat -> (i < s + length w)%nat ->
  nthq i (splice l s w) = nthq (i - s) w.
Proof.
  intros l s w i Hs H1 H2. unfold splice.
  rewrite nthq_app_ge by (rewrite firstn_length; lia).
  rewrite firstn_length. replace (Nat.min s (length l)) with s by lia.
  apply nthq_app_l. lia.
Qed.

Lemma nthq_splice_ge : forall l s w i, (s <= length l)%nat -> (s + length w <= i)%nat ->
  nthq i (splice l s w) = nthq i l.
Proof.
  intros l s w i Hs H. unfold splice.
  rewrite nthq_app_ge by (rewrite firstn_length; lia).
  rewrite firstn_length. replace (Nat.min s (length l)) with s by lia.
  rewrite nthq_app_ge by lia. rewrite nthq_skipn. f_equal. lia.
Qed.

Lemma slice_splice_same : forall l s w e, (s <= length l)%nat -> e = (s + length w)%nat ->
  slice (splice l s w) s e = w.
Proof.
  intros l s w e Hs ->. unfold slice, splice.
  rewrite skipn_app_exact by (rewrite firstn_length; lia).
  replace (s + length w - s)%nat with (length w) by lia.
  now apply firstn_app_exact.
Qed.

Lemma splice_slice_id : forall l s e, (s <= e)%nat -> (e <= length l)%nat -> splice l s (slice l s e) = l.
Proof.
  intros l s e H1 H2. apply nthq_ext.
  - apply splice_len. rewrite slice_len_in by lia. lia.
  - intros i _. pose proof (slice_len_in l s e H1 H2) as Hl.
    destruct (Nat.lt_ge_cases i s) as [Hi|Hi]; [apply nthq_splice_lt; lia|].
    destruct (Nat.lt_ge_cases i e) as [Hi2|Hi2].
    + rewrite nthq_splice_in by lia. rewrite nthq_slice_in by lia. f_equal. lia.
    + apply nthq_splice_ge; lia.
Qed.

(** ---------- ssorted by index ---------- *)

Lemma ssorted_tail : forall a l, ssorted (a :: l) -> ssorted l.
Proof. intros a [|b l] H; [exact I|]. exact (proj2 H). Qed.

Lemma ssorted_head_lt : forall l a i, ssorted (a :: l) -> (i < length l)%nat -> a < nthq i l.
Proof.
  induction l as [|b l IH]; intros a i H Hi; cbn [length] in *; [lia|].
  destruct H as [Hab H]. destruct i as [|i]; [exact Hab|].
  rewrite nthq_cons_S. apply Qclt_trans with b; [exact Hab|]. apply IH; [exact H|lia].
Qed.

Lemma ssorted_nth_lt : forall l i j, ssorted l -> (i < j)%nat -> (j < length l)%nat -> nthq i l < nthq j l.
Proof.
  induction l as [|a l IH]; intros i j H Hij Hj; cbn [length] in *; [lia|].
  destruct j as [|j]; [lia|]. rewrite nthq_cons_S.
  destruct i as [|i].
  - rewrite nthq_cons_0. apply ssorted_head_lt; [exact H|lia].
  - rewrite nthq_cons_S. apply IH; [now apply ssorted_tail in H|lia|lia].
Qed.

Lemma ssorted_nth_le : forall l i j, ssorted l -> (i <= j)%nat -> (j < length l)%nat -> nthq i l <= nthq j l.
Proof.
  intros l i j H Hij Hj. destruct (Nat.eq_dec i j) as [->|Hne]; [apply Qcle_refl|].
  apply Qclt_le_weak. apply ssorted_nth_lt; [exact H|lia|exact Hj].
Qed.

Lemma ssorted_of_nth : forall l, (forall i, (i + 1 < length l)%nat -> nthq i l < nthq (i + 1) l) -> ssorted l.
Proof.
  induction l as [|a l IH]; intros H; [exact I|].
  destruct l as [|b l]; [exact I|]. split.
  - apply (H O). cbn [length]. lia.
  - apply IH. intros i Hi. apply (H (S i)). cbn [length] in *. lia.
Qed.

Lemma ssorted_slice : forall l a b, ssorted l -> ssorted (slice l a b).
Proof.
  intros l a b H. apply ssorted_of_nth. intros i Hi. rewrite slice_len in Hi.
  rewrite !nthq_slice_in by lia. apply ssorted_nth_lt; [exact H|lia|lia].
Qed.

Lemma ssorted_nth_inj : forall l i j, ssorted l -> (i < length l)%nat -> (j < length l)%nat ->
  nthq i l = nthq j l -> i = j.
Proof.
  intros l i j H Hi Hj E.
  destruct (Nat.lt_trichotomy i j) as [Hlt|[Heq|Hgt]]; [|exact Heq|].
  - pose proof (ssorted_nth_lt l i j H Hlt Hj) as Hc. rewrite E in Hc. exfalso. exact (Qclt_not_eq _ _ Hc eq_refl).
  - pose proof (ssorted_nth_lt l j i H Hgt Hi) as Hc. rewrite E in Hc. exfalso. exact (Qclt_not_eq _ _ Hc eq_refl).
Qed.
