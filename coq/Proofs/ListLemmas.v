(** General list lemmas over the vocabulary of Lib/Base.v
    (nthq / lastq / headq / repeatq / sumq / list_eqb) and a few facts on
    [Qc_of_nat].  No model-specific content. *)
From TW Require Import Lib.Base.
Open Scope Qc_scope.

(** ---------- Qc_of_nat ---------- *)

Lemma Qc_of_nat_0 : Qc_of_nat 0 = 0.
Proof. apply Qc_is_canon. reflexivity. Qed.

Lemma Qc_of_nat_1 : Qc_of_nat 1 = 1.
Proof. apply Qc_is_canon. reflexivity. Qed.

Lemma Qc_of_nat_S : forall n, Qc_of_nat (S n) = Qc_of_nat n + 1.
Proof.
  intros n. apply Qc_eq_iff. rewrite this_of_nat_S, this_add. reflexivity.
Qed.

Lemma Qc_of_nat_neq0 : forall n, (0 < n)%nat -> Qc_of_nat n <> 0.
Proof.
  intros n Hn E. pose proof (Qc_of_nat_pos n Hn) as Hp.
  rewrite E in Hp. exact (Qclt_not_eq _ _ Hp eq_refl).
Qed.

Lemma Qc_two_eq : Qc_two = 1 + 1.
Proof. apply Qc_is_canon. reflexivity. Qed.

Lemma Qc_div_mul_cancel : forall a b : Qc, b <> 0 -> b * a / b = a.
Proof. intros a b Hb. field. exact Hb. Qed.

(** ---------- nthq ---------- *)

Lemma nthq_cons_0 : forall a l, nthq 0 (a :: l) = a.
Proof. reflexivity. Qed.

Lemma nthq_cons_S : forall i a l, nthq (S i) (a :: l) = nthq i l.
Proof. reflexivity. Qed.

Lemma nthq_nil : forall i, nthq i [] = 0.
Proof. intros [|i]; reflexivity. Qed.

Lemma nthq_overflow : forall i l, (length l <= i)%nat -> nthq i l = 0.
Proof. intros i l H. unfold nthq. now apply nth_overflow. Qed.

Lemma nthq_app_l : forall i l1 l2, (i < length l1)%nat -> nthq i (l1 ++ l2) = nthq i l1.
Proof. intros i l1 l2 H. unfold nthq. now apply app_nth1. Qed.

Lemma nthq_app_r : forall i l1 l2, nthq (length l1 + i) (l1 ++ l2) = nthq i l2.
Proof. intros i l1 l2. unfold nthq. apply app_nth2_plus. Qed.

(** same with the length of the left part given by an equation *)
Lemma nthq_app_r_len : forall k i l1 l2, length l1 = k -> nthq (k + i) (l1 ++ l2) = nthq i l2.
Proof. intros k i l1 l2 <-. apply nthq_app_r. Qed.

Lemma nthq_app_ge : forall i l1 l2, (length l1 <= i)%nat ->
  nthq i (l1 ++ l2) = nthq (i - length l1) l2.
Proof. intros i l1 l2 H. unfold nthq. now apply app_nth2. Qed.

Lemma nthq_map_seq : forall (f : nat -> Qc) s n i, (i < n)%nat ->
  nthq i (map f (seq s n)) = f (s + i)%nat.
Proof.
  intros f s n i H. unfold nthq.
  rewrite nth_indep with (d' := f O) by (rewrite map_length, seq_length; exact H).
  rewrite map_nth. rewrite seq_nth by exact H. reflexivity.
Qed.

Lemma nthq_map : forall (f : Qc -> Qc) i l, (i < length l)%nat ->
  nthq i (map f l) = f (nthq i l).
Proof.
  intros f i l H. unfold nthq.
  rewrite nth_indep with (d' := f 0) by (rewrite map_length; exact H).
  apply map_nth.
Qed.

Lemma nthq_skipn : forall k i l, nthq i (skipn k l) = nthq (k + i) l.
Proof.
  induction k as [|k IH]; intros i l; [reflexivity|].
  destruct l as [|a l]; cbn [skipn Nat.add].
  - now rewrite !nthq_nil.
  - rewrite nthq_cons_S. apply IH.
Qed.

Lemma nthq_firstn : forall k i l, (i < k)%nat -> nthq i (firstn k l) = nthq i l.
Proof.
  induction k as [|k IH]; intros i l H; [lia|].
  destruct l as [|a l]; cbn [firstn]; [reflexivity|].
  destruct i as [|i]; [reflexivity|]. rewrite !nthq_cons_S. apply IH. lia.
Qed.

Lemma nthq_ext : forall l1 l2, length l1 = length l2 ->
  (forall i, (i < length l1)%nat -> nthq i l1 = nthq i l2) -> l1 = l2.
Proof. intros l1 l2 Hl H. apply (nth_ext l1 l2 0 0 Hl). exact H. Qed.

(** ---------- app / firstn / skipn with an exact split ---------- *)

Lemma skipn_app_exact : forall {A} n (l1 l2 : list A), length l1 = n -> skipn n (l1 ++ l2) = l2.
Proof.
  intros A n l1 l2 <-. rewrite skipn_app, skipn_all, Nat.sub_diag. reflexivity.
Qed.

Lemma firstn_app_exact : forall {A} n (l1 l2 : list A), length l1 = n -> firstn n (l1 ++ l2) = l1.
Proof.
  intros A n l1 l2 <-. rewrite firstn_app, firstn_all, Nat.sub_diag.
  cbn [firstn]. apply app_nil_r.
Qed.

Lemma skipn_add : forall {A} b a (l : list A), skipn a (skipn b l) = skipn (b + a) l.
Proof.
  induction b as [|b IH]; intros a l; [reflexivity|].
  destruct l as [|x l]; cbn [skipn Nat.add]; [apply skipn_nil|apply IH].
Qed.

Lemma length_pos_not_nil : forall {A} (l : list A), l <> [] <-> (0 < length l)%nat.
Proof. intros A [|a l]; cbn [length]; split; intros H; try congruence; lia. Qed.

(** ---------- headq / lastq ---------- *)

Lemma headq_nthq : forall l, headq l = nthq 0 l.
Proof. intros [|a l]; reflexivity. Qed.

Lemma headq_app : forall l1 l2, l1 <> [] -> headq (l1 ++ l2) = headq l1.
Proof. intros [|a l1] l2 H; [congruence|reflexivity]. Qed.

Lemma lastq_cons : forall a l, l <> [] -> lastq (a :: l) = lastq l.
Proof. intros a [|b l] H; [congruence|reflexivity]. Qed.

Lemma lastq_single : forall a, lastq [a] = a.
Proof. reflexivity. Qed.

Lemma lastq_app : forall l1 l2, l2 <> [] -> lastq (l1 ++ l2) = lastq l2.
Proof.
  induction l1 as [|a l1 IH]; intros l2 H; [reflexivity|].
  cbn [app]. rewrite lastq_cons; [now apply IH|].
  intros E. apply app_eq_nil in E. tauto.
Qed.

Lemma lastq_app_single : forall l a, lastq (l ++ [a]) = a.
Proof. intros l a. rewrite lastq_app by congruence. reflexivity. Qed.

Lemma lastq_nthq : forall l, l <> [] -> lastq l = nthq (length l - 1) l.
Proof.
  induction l as [|a l IH]; intros H; [congruence|].
  destruct l as [|b l]; [reflexivity|].
  rewrite lastq_cons by congruence. rewrite IH by congruence.
  cbn [length]. replace (S (S (length l)) - 1)%nat with (S (S (length l) - 1)) by lia.
  reflexivity.
Qed.

(** ---------- repeatq / sumq ---------- *)

Lemma repeatq_length : forall v n, length (repeatq v n) = n.
Proof. intros v n. induction n as [|n IH]; cbn [repeatq length]; congruence. Qed.

Lemma nthq_repeatq : forall v n i, (i < n)%nat -> nthq i (repeatq v n) = v.
Proof.
  intros v n. induction n as [|n IH]; intros i H; [lia|].
  cbn [repeatq]. destruct i as [|i]; [reflexivity|]. rewrite nthq_cons_S. apply IH. lia.
Qed.

Lemma headq_repeatq : forall v n, (0 < n)%nat -> headq (repeatq v n) = v.
Proof. intros v [|n] H; [lia|reflexivity]. Qed.

Lemma lastq_repeatq : forall v n, (0 < n)%nat -> lastq (repeatq v n) = v.
Proof.
  intros v n H. rewrite lastq_nthq.
  - rewrite repeatq_length. apply nthq_repeatq. lia.
  - apply length_pos_not_nil. now rewrite repeatq_length.
Qed.

Lemma sumq_app : forall l1 l2, sumq (l1 ++ l2) = sumq l1 + sumq l2.
Proof.
  induction l1 as [|a l1 IH]; intros l2; cbn [app sumq]; [ring|]. rewrite IH. ring.
Qed.

Lemma sumq_repeatq : forall v n, sumq (repeatq v n) = Qc_of_nat n * v.
Proof.
  intros v n. induction n as [|n IH]; cbn [repeatq sumq].
  - rewrite Qc_of_nat_0. ring.
  - rewrite IH, Qc_of_nat_S. ring.
Qed.

(** ---------- boolean list equality ---------- *)

Lemma list_eqb_Qc_sound : forall l1 l2, list_eqb Qc_eqb l1 l2 = true -> l1 = l2.
Proof.
  induction l1 as [|a l1 IH]; intros [|b l2] H; cbn [list_eqb] in H; try discriminate; [reflexivity|].
  apply andb_true_iff in H. destruct H as [Hab H].
  apply Qc_eqb_true in Hab. subst b. f_equal. now apply IH.
Qed.

Lemma list_eqb_Qc_refl : forall l, list_eqb Qc_eqb l l = true.
Proof.
  induction l as [|a l IH]; [reflexivity|]. cbn [list_eqb].
  rewrite IH, andb_true_r. now apply Qc_eqb_true.
Qed.

Lemma pair_list_eqb_Qc_sound : forall (r : list Qc * list Qc) l1 l2,
  list_eqb Qc_eqb (fst r) l1 && list_eqb Qc_eqb (snd r) l2 = true -> r = (l1, l2).
Proof.
  intros [r1 r2] l1 l2 H. cbn [fst snd] in H. apply andb_true_iff in H. destruct H as [H1 H2].
  apply list_eqb_Qc_sound in H1. apply list_eqb_Qc_sound in H2. now subst.
Qed.
