(** The stretching kernel of match.py (Gen/MatchGlue.v, `_integral_matching_stretch`) and the oversampling / extension
    helpers of sorted_array_utils.py (Gen/UtilsGlue.v: extend_constant, extend_linspace, oversample_piecewise_constant),
    REGENERATED as glue terms and run by the function-level interpreter of Model/GlueFun.v with the leaves of
    Model/GlueLeaves2.v, are the hand-written models of Model/Match.v and Model/SortedUtils.v.

    As in Proofs/GlueUtilsProofs.v nothing of the generated bodies is restated: a proof is a symbolic execution of
    whatever term [assoc <function> <table>] computes to, one statement at a time ([gm_run]); the run stops at the array
    primitives (a[0], a[-1], a[n], a[-n-1], a[:-1], a[1:], a[:-num+1], list repetition, np.linspace, the length tests
    of np.insert and of the elementwise operations), each of which is rewritten by a lemma of the first section; what is
    left at the end is an equation between list / Qc expressions, closed by the list lemmas of the second section and
    by the Qc algebra of Proofs/KernelsLink.v.  There is no blind case split on a stuck match: a run that meets a
    primitive with no lemma stops there. *)
From Coq Require Import Lia Bool.
From TW Require Import Model.GlueLeaves2 Gen.UtilsGlue.
From TW Require Import Proofs.ListLemmas Proofs.ListLemmas4 Proofs.ListLemmas7 Proofs.KernelsLink Proofs.GlueFunLemmas.
Open Scope Qc_scope.
Open Scope string_scope.

(** ---------------- facts about the leaves ---------------- *)
(** integer literals as rationals *)
Lemma QZ2 : Qc_of_Z 2 = Qc_two.
Proof. exact qz2_two. Qed.
Lemma QZ1 : Qc_of_Z 1 = 1.
Proof. apply Qc_is_canon. reflexivity. Qed.
Lemma div_QZ2 : forall v, v / Qc_of_Z 2 = v * Qc_half.
Proof. exact div_qz2_half. Qed.

(** an array / a repeated one-element list, read back as a list of numbers *)
Lemma nums_of_map_VNum : forall l, nums_of (map VNum l) = Some l.
Proof. induction l as [|a l IH]; [reflexivity|]. cbn [map nums_of as_num]. rewrite IH. reflexivity. Qed.

Lemma nums_of_rep : forall v n, nums_of (concat (repeat [VNum v] n)) = Some (repeatq v n).
Proof.
  intros v. induction n as [|n IH]; [reflexivity|].
  cbn [repeat concat app nums_of as_num repeatq]. rewrite IH. reflexivity.
Qed.

(** a[0], a[-1], a[n], a[-n-1] *)
Lemma py_index_hd : forall l : list Qc, l <> [] -> py_index l 0 = Some (headq l).
Proof. intros l H. apply py_index_0. apply not_nil_length. exact H. Qed.
Lemma py_index_lst : forall l : list Qc, l <> [] -> py_index l (-1) = Some (lastq l).
Proof. intros l H. rewrite (lastq_nthq l H). apply py_index_m1. apply not_nil_length. exact H. Qed.
Lemma py_index_nat : forall (l : list Qc) n, (n < length l)%nat -> py_index l (Z.of_nat n) = Some (nthq n l).
Proof.
  intros l n H. unfold py_index. cbv zeta.
  assert (E : (Z.of_nat n <? 0)%Z = false) by (apply Z.ltb_ge; lia). rewrite E. cbv iota. rewrite E.
  replace (Z.of_nat (length l) <=? Z.of_nat n)%Z with false by (symmetry; apply Z.leb_gt; lia).
  cbn [orb]. rewrite Nat2Z.id. unfold nthq. apply nth_error_nth'. exact H.
Qed.
Lemma py_index_mirror : forall (l : list Qc) n, (n + 1 <= length l)%nat ->
  py_index l (- Z.of_nat n - 1) = Some (nthq (length l - n - 1) l).
Proof.
  intros l n H. replace (- Z.of_nat n - 1)%Z with (- Z.of_nat (n + 1))%Z by lia.
  rewrite (py_index_from_end l (n + 1)) by lia. do 2 f_equal. lia.
Qed.

Lemma to_nat_succ : forall n, Z.to_nat (Z.of_nat n + 1) = S n.
Proof. intros n. lia. Qed.

(** np.linspace(a, b, n + 1)[:-1] and np.linspace(a, b, n + 1)[1:], for every n (n = 0: the one-point linspace) *)
Lemma linspace_init : forall a b n, removelast (linspace a b (S n)) = lin_pts a b n.
Proof.
  intros a b [|k]; [reflexivity|].
  unfold linspace, lin_pts. rewrite (seq_S (S k) 0), map_app. cbn [map]. apply removelast_last.
Qed.
Lemma linspace_tail : forall a b n, tl (linspace a b (S n)) = lin_pts_tail a b n.
Proof.
  intros a b [|k]; [reflexivity|].
  unfold linspace, lin_pts_tail. rewrite <- cons_seq. reflexivity.
Qed.

(** the integer tests: np.insert(a, len(a), ..) on a non-empty array, len(x) == 2, num < 2 *)
Lemma Zeqb_len0 : forall (l : list Qc), l <> [] -> (Z.of_nat (length l) =? 0)%Z = false.
Proof. intros l H. apply Z.eqb_neq. pose proof (not_nil_length l H). lia. Qed.
Lemma Zeqb_nat2 : forall k, (Z.of_nat k =? 2)%Z = (k =? 2)%nat.
Proof. intros k. destruct (Nat.eqb_spec k 2); [apply Z.eqb_eq | apply Z.eqb_neq]; lia. Qed.
Lemma Zltb_nat2 : forall k, (Z.of_nat k <? 2)%Z = (k <? 2)%nat.
Proof. intros k. destruct (Nat.ltb_spec k 2); [apply Z.ltb_lt | apply Z.ltb_ge]; lia. Qed.

Lemma app_not_nil_r : forall (l1 l2 : list Qc), l2 <> [] -> (l1 ++ l2)%list <> [].
Proof. intros l1 l2 H E. apply app_eq_nil in E. tauto. Qed.
Lemma app_not_nil_l : forall (l1 l2 : list Qc), l1 <> [] -> (l1 ++ l2)%list <> [].
Proof. intros l1 l2 H E. apply app_eq_nil in E. tauto. Qed.

(** a[:-num + 1] drops the last num - 1 elements (for num = 1 it would be a[:0], the empty array) *)
Lemma slice_val_drop : forall l num, (2 <= num)%nat ->
  slice_val (VArr l) VNoneV (VInt (- Z.of_nat num + 1)) VNoneV = Ok (VArr (firstn (length l - (num - 1)) l)).
Proof.
  intros l num Hn. unfold slice_val. cbn [Z.leb Z.compare andb is_none orb bind].
  rewrite ListLemmas7.py_slice_step1. cbn [bind]. do 2 f_equal.
  unfold sl_pos, clampZ. cbn [Z.ltb Z.compare].
  replace (Z.to_nat (Z.max 0 (Z.min 0 (Z.of_nat (length l))))) with O by lia.
  rewrite slice_full_firstn. f_equal.
  destruct (Z.ltb_spec (- Z.of_nat num + 1) 0); lia.
Qed.

(** ---------------- list equations ---------------- *)
Lemma flat_repeat_length : forall num a, length (flat_map (fun v : Qc => repeatq v num) a) = (num * length a)%nat.
Proof.
  intros num. induction a as [|v a IH]; cbn [flat_map length]; [lia|].
  rewrite app_length, repeatq_length, IH. lia.
Qed.

(** a.repeat(num) without its last num - 1 elements is the model's recursion *)
Lemma oversample_pc_flat : forall num a, (1 <= num)%nat ->
  firstn (length (flat_map (fun v : Qc => repeatq v num) a) - (num - 1)) (flat_map (fun v : Qc => repeatq v num) a)
  = oversample_pc_go a num.
Proof.
  intros num a Hn. induction a as [|v a IH]; [reflexivity|].
  destruct a as [|w a].
  - cbn [flat_map oversample_pc_go length]. rewrite app_nil_r, repeatq_length.
    replace (num - (num - 1))%nat with 1%nat by lia.
    destruct num as [|k]; [lia|]. reflexivity.
  - change (oversample_pc_go (v :: w :: a) num) with (repeatq v num ++ oversample_pc_go (w :: a) num)%list.
    rewrite <- IH. change (flat_map (fun v0 : Qc => repeatq v0 num) (v :: w :: a))
      with (repeatq v num ++ flat_map (fun v0 : Qc => repeatq v0 num) (w :: a))%list.
    set (r := flat_map (fun v0 : Qc => repeatq v0 num) (w :: a)) in *.
    assert (Hr : (num <= length r)%nat).
    { subst r. rewrite flat_repeat_length. cbn [length]. nia. }
    rewrite app_length, repeatq_length.
    rewrite firstn_app, repeatq_length.
    rewrite firstn_all2 by (rewrite repeatq_length; lia).
    f_equal. f_equal. lia.
Qed.

(** the two weighted sums, with the elementwise operations as the interpreter writes them (eta-expanded) *)
Lemma wsum_trap_zip' : forall x w, length w = length x ->
  sumq (map2 (fun u v : Qc => u * v) (map2 (fun u v : Qc => u + v) (tl w) (removelast w)) (diffs x)) = wsum_trap w x.
Proof. exact wsum_trap_zip. Qed.
Lemma wsum_rect_zip' : forall x w, length w = length x ->
  sumq (map2 (fun u v : Qc => u * v) (removelast w) (diffs x)) = wsum_rect w x.
Proof. exact wsum_rect_zip. Qed.

Lemma weights_two : forall pw x, (length x =? 2)%nat = true -> [1; 1] = weights pw x.
Proof. intros pw x E. unfold weights. rewrite E. reflexivity. Qed.

(** ---------------- the symbolic execution ---------------- *)
Ltac nn_solve := first [assumption | apply app_not_nil_r; nn_solve | apply app_not_nil_l; nn_solve].
Ltac ln_solve := rewrite ?app_length, ?map_length, ?map2_len, ?removelast_length, ?tl_length, ?diffs_length,
                    ?repeatq_length, ?linspace_length, ?weights_len; lia.

(** everything that is not interpreter stays folded: numbers, list functions, integer arithmetic and comparison, the
    model's functions *)
Ltac gm_cbn :=
  cbn -[Qcplus Qcmult Qcdiv Qcminus Qcopp Qcinv Q2Qc Qc_eqb Qc_ltb Qc_leb Qc_of_Z Qc_of_nat Qc_abs
        map map2 seq app length removelast tl diffs py_index slice_val nth_error Nat.eqb Nat.ltb Nat.leb
        concat repeat repeatq flat_map sumq
        trapezoid_integral rectangle_integral
        linspace lin_pts lin_pts_tail extend_constant extend_linspace oversample_pc
        weights stretch stretch_res stretch_defined
        headq lastq nthq
        Z.of_nat Z.to_nat Z.add Z.sub Z.mul Z.opp Z.ltb Z.leb Z.eqb
        fexec fexec_k].
Ltac gm_red := unfold bind; gm_cbn; repeat (progress unfold bind; gm_cbn).

Ltac gm_step :=
  match goal with
  | |- context [fexec ?cf ?mf ?af ?pf ?en (SIf ?c ?th ?el :: ?l)] =>
      rewrite (fexec_cons cf mf af pf en (SIf c th el) l), (fexec1_if cf mf af pf en c th el)
  | |- context [fexec ?cf ?mf ?af ?pf ?en (?st :: ?l)] => rewrite (fexec_cons cf mf af pf en st l)
  | |- context [fexec ?cf ?mf ?af ?pf ?en []] => rewrite (fexec_nil cf mf af pf en)
  | |- context [fexec_k (?en, ONormal) ?k] => rewrite (fexec_k_normal en k)
  | |- context [fexec_k (?en, ORaise ?e) ?k] => rewrite (fexec_k_raise en e k)
  | |- context [fexec_k (?en, OReturn ?v) ?k] => rewrite (fexec_k_return en v k)
  (* leaves *)
  | |- context [Z.to_nat (Z.of_nat ?n)] => rewrite (Nat2Z.id n)
  | |- context [Z.to_nat (Z.of_nat ?n + 1)] => rewrite (to_nat_succ n)
  | |- context [length (map VNum ?l)] => rewrite (map_length VNum l)
  | |- context [nums_of (map VNum ?l)] => rewrite (nums_of_map_VNum l)
  | |- context [nums_of (concat (repeat [VNum ?v] ?n))] => rewrite (nums_of_rep v n)
  | |- context [slice_val (VArr ?l) VNoneV (VInt (-1)) VNoneV] => rewrite (slice_val_init l)
  | |- context [slice_val (VArr ?l) (VInt 1) VNoneV VNoneV] => rewrite (slice_val_tail l)
  | |- context [slice_val (VArr ?l) VNoneV (VInt (- Z.of_nat ?k + 1)) VNoneV] => rewrite (slice_val_drop l k) by lia
  | |- context [removelast (linspace ?a ?b (S ?n))] => rewrite (linspace_init a b n)
  | |- context [tl (linspace ?a ?b (S ?n))] => rewrite (linspace_tail a b n)
  | |- context [py_index ?l 0%Z] => rewrite (py_index_hd l) by nn_solve
  | |- context [py_index ?l (-1)%Z] => rewrite (py_index_lst l) by nn_solve
  | |- context [py_index ?l (Z.of_nat ?n)] => rewrite (py_index_nat l n) by ln_solve
  | |- context [py_index ?l (- Z.of_nat ?n - 1)%Z] => rewrite (py_index_mirror l n) by ln_solve
  | |- context [(Z.of_nat ?k =? 2)%Z] => rewrite (Zeqb_nat2 k)
  | |- context [(Z.of_nat ?k <? 2)%Z] => rewrite (Zltb_nat2 k)
  | H : (?k =? 2)%nat = _ |- context [(?k =? 2)%nat] => rewrite H
  | H : (?k <? 2)%nat = _ |- context [(?k <? 2)%nat] => rewrite H
  | |- context [(0 =? 0)%Z] => change (0 =? 0)%Z with true
  | |- context [(Z.of_nat (length ?l) =? 0)%Z] => rewrite (Zeqb_len0 l) by nn_solve
  | |- context [(?k =? ?k)%Z] => rewrite (Z.eqb_refl k)
  (* the operands of an elementwise operation have the same length *)
  | |- context [(length ?a =? length ?b)%nat] =>
        rewrite (proj2 (Nat.eqb_eq (length a) (length b))) by ln_solve
  end.
Ltac gm_run := repeat (gm_red; gm_step); gm_red.

Ltac um_enter f :=
  unfold call_fun;
  let b := eval vm_compute in (assoc f utils_functions) in
  change (assoc f utils_functions) with b.

(** ---------------- C17: extend_constant, extend_linspace, oversample_piecewise_constant ---------------- *)
(** n = 0 included: [a[0]] * 0 is the empty list, np.insert(a, 0, []) = a *)
Lemma glue_extend_constant : forall a n d, a <> [] ->
  outcome_arr (call_fun helper_callf helper_methf no_apply no_pow utils_functions "extend_constant"
     [("a", VArr a); ("n", VInt (Z.of_nat n)); ("direction", VStrV (direction_name d))]) = Ok (extend_constant a n d).
Proof.
  intros a n d Ha. destruct d; um_enter "extend_constant"; gm_run; reflexivity.
Qed.

(** the general form: [a] non-empty (a[0] / a[-1] are read), and n + 1 <= |a| only where a default mirror point
    (a[n], a[-n-1]) is read; no lower bound on n *)
Lemma glue_extend_linspace_gen : forall a n d lstart rstop, a <> [] ->
  ((goes_left d = true /\ lstart = None) \/ (goes_right d = true /\ rstop = None) -> extend_linspace_defined a n = true) ->
  outcome_arr (call_fun helper_callf helper_methf no_apply no_pow utils_functions "extend_linspace"
     [("a", VArr a); ("n", VInt (Z.of_nat n)); ("direction", VStrV (direction_name d)); ("lstart", optQ lstart); ("rstop", optQ rstop)])
  = Ok (extend_linspace a n d lstart rstop).
Proof.
  intros a n d lstart rstop Ha Hd.
  assert (Hn : (goes_left d = true /\ lstart = None) \/ (goes_right d = true /\ rstop = None) -> (n + 1 <= length a)%nat).
  { intros H. apply Nat.leb_le. exact (Hd H). }
  clear Hd.
  (* the bound that the direction does not use is never evaluated: it stays symbolic *)
  destruct d; [destruct lstart as [ls|], rstop as [rs|] | destruct lstart as [ls|] | destruct rstop as [rs|]];
    cbn [goes_left goes_right] in Hn;
    try (assert (Hn' : (n + 1 <= length a)%nat) by (apply Hn; tauto)); clear Hn;
    um_enter "extend_linspace"; gm_run; rewrite ?QZ2; reflexivity.
Qed.

Lemma glue_extend_linspace : forall a n d lstart rstop, (1 <= n)%nat -> extend_linspace_defined a n = true ->
  outcome_arr (call_fun helper_callf helper_methf no_apply no_pow utils_functions "extend_linspace"
     [("a", VArr a); ("n", VInt (Z.of_nat n)); ("direction", VStrV (direction_name d)); ("lstart", optQ lstart); ("rstop", optQ rstop)])
  = Ok (extend_linspace a n d lstart rstop).
Proof.
  intros a n d lstart rstop _ Hd. apply glue_extend_linspace_gen; [|intros _; exact Hd].
  unfold extend_linspace_defined in Hd. apply Nat.leb_le in Hd. intros ->. cbn [length] in Hd. lia.
Qed.

(** holds for the empty array too *)
Lemma glue_oversample_pc_gen : forall a num,
  outcome_arr (call_fun helper_callf helper_methf no_apply no_pow utils_functions "oversample_piecewise_constant"
     [("a", VArr a); ("num", VInt (Z.of_nat num))]) = Ok (oversample_pc a num).
Proof.
  intros a num. unfold oversample_pc. destruct (num <? 2)%nat eqn:E.
  - um_enter "oversample_piecewise_constant". gm_run. reflexivity.
  - pose proof (proj1 (Nat.ltb_ge num 2) E) as E2.
    um_enter "oversample_piecewise_constant". gm_run.
    rewrite oversample_pc_flat by lia. reflexivity.
Qed.

Lemma glue_oversample_pc : forall a num, a <> [] ->
  outcome_arr (call_fun helper_callf helper_methf no_apply no_pow utils_functions "oversample_piecewise_constant"
     [("a", VArr a); ("num", VInt (Z.of_nat num))]) = Ok (oversample_pc a num).
Proof. intros a num _. apply glue_oversample_pc_gen. Qed.

(** omitted arguments are bound to the defaults of the regenerated signature: the two calls run the same body in the
    same environment *)
Ltac same_env :=
  cbv beta iota;
  match goal with |- match ?p with _ => _ end = match ?q with _ => _ end =>
    let p' := eval vm_compute in p in
    let q' := eval vm_compute in q in
    change p with p'; change q with q'
  end.

Lemma glue_extend_defaults : forall a n,
  call_fun helper_callf helper_methf no_apply no_pow utils_functions "extend_constant" [("a", VArr a); ("n", VInt n)] =
  call_fun helper_callf helper_methf no_apply no_pow utils_functions "extend_constant" [("a", VArr a); ("n", VInt n); ("direction", VStrV "both")] /\
  call_fun helper_callf helper_methf no_apply no_pow utils_functions "extend_linspace" [("a", VArr a); ("n", VInt n)] =
  call_fun helper_callf helper_methf no_apply no_pow utils_functions "extend_linspace" [("a", VArr a); ("n", VInt n); ("direction", VStrV "both"); ("lstart", VNoneV); ("rstop", VNoneV)].
Proof.
  intros a n. split.
  - um_enter "extend_constant". same_env. reflexivity.
  - um_enter "extend_linspace". same_env. reflexivity.
Qed.

Print Assumptions glue_extend_constant.
Print Assumptions glue_extend_linspace.
Print Assumptions glue_oversample_pc.
Print Assumptions glue_extend_defaults.

