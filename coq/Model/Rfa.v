(** Model of /repo/src/traffic_weaver/rfa.py (recreate-from-average strategies).
    The shape functions come from the *generated* Gen/Funfit.v.
    The code's structure is kept: oversample, wrap into interval arrays, extend by
    one virtual interval on each side, loop over the intervals writing into z,
    cut [n:-n].  Writes are applied sequentially (last write wins), reads go to
    the never-modified x and y arrays, exactly as in the source.
      AbstractRFA.__init__ (50-55), _initial_oversample (70-90)
      PiecewiseConstantRFA (96-97), FunctionRFA.rfa (132-136)
      LinearFixedRFA (240-280), LinearAdaptiveRFA (395-500)
      ExpFixedRFA (614-669), ExpAdaptiveRFA (781-851)
    Definitions only. *)
From TW Require Export Model.Interval Gen.Funfit Lib.Pow.
Open Scope Qc_scope.

(** reads / writes with a Python (possibly negative) flat index; an
    out-of-range index (IndexError in Python) is recorded by [idx_ok] *)
Definition getz (l : list Qc) (i : Z) : Qc :=
  match py_index (length l) i with Some p => nthq p l | None => 0 end.
Definition setz (l : list Qc) (i : Z) (v : Qc) : list Qc :=
  match py_index (length l) i with Some p => set_nth l p v | None => l end.
Definition zrange (lo hi : Z) : list Z :=
  map (fun i => (lo + Z.of_nat i)%Z) (seq 0 (Z.to_nat (hi - lo))).

(** window sizes (constructors) *)
Definition window_a (n : nat) (alpha : Qc) (a : option Qc) : Z :=
  let v := match a with Some a => a | None => alpha * Qc_of_nat n end in
  Z.max 2 (Qc_trunc v).
Definition half_window (a : Z) : Z := Z.quot a 2.
Definition lin_part (beta : Qc) (a_l : Z) : Z := Qc_trunc (beta * Qc_of_Z a_l).

Record ext := { xe : list Qc; ye : list Qc; en : Z; nfull : Z }.
Definition prepare (x y : list Qc) (n : nat) : ext :=
  let xs := oversample_linspace x n in
  let ys := oversample_pc y n in
  let xe := extend_linspace xs n Both None None in
  {| xe := xe; ye := extend_constant ys n Both; en := Z.of_nat n;
     nfull := Z.of_nat (length xe / n) |}.
Definition X (e : ext) (k i : Z) : Qc := getz (xe e) (k * en e + i).
Definition Y (e : ext) (k i : Z) : Qc := getz (ye e) (k * en e + i).
Definition cut (n : nat) (l : list Qc) : list Qc := slice l n (length l - n).
Definition intervals (e : ext) : list Z := zrange 1 (nfull e - 1).

Definition write_run (e : ext) (k : Z) (lo hi : Z) (f : Z -> Qc) (z : list Qc) : list Qc :=
  fold_left (fun z i => setz z (k * en e + i) (f i)) (zrange lo hi) z.

Section Strategies.
Variable pw : Qc -> Qc.     (* t |-> t ** exp *)
Variable gpow : Qc -> Qc.   (* g |-> g ** adaptive_smooth *)

(** ---------- PiecewiseConstantRFA / FunctionRFA ---------- *)
Definition rfa_pc (x y : list Qc) (n : nat) : list Qc * list Qc :=
  (oversample_linspace x n, oversample_pc y n).
Definition rfa_function (f : Qc -> Qc) (x y : list Qc) (n : nat) : list Qc * list Qc :=
  let xs := oversample_linspace x n in (xs, map f xs).

(** ---------- LinearFixedRFA ---------- *)
Definition lf_interval (e : ext) (a_l a_r : Z) (z : list Qc) (k : Z) : list Qc :=
  let n := en e in
  let y_0 := Y e k 0 in
  let z_0 := lin_fit (X e k 0) (X e k (- a_r)) (Y e (k - 1) 0) (X e k a_l) (Y e k 0) in
  let z_1 := lin_fit (X e (k + 1) 0) (X e k (n - a_r)) y_0 (X e (k + 1) a_l) (Y e (k + 1) 0) in
  let z := write_run e k 0 a_l (fun i => lin_fit (X e k i) (X e k 0) z_0 (X e k a_l) y_0) z in
  write_run e k (n - a_r + 1) (n + 1) (fun i => lin_fit (X e k i) (X e k (n - a_r)) y_0 (X e k n) z_1) z.

Definition rfa_linear_fixed (x y : list Qc) (n : nat) (alpha : Qc) (a : option Qc) : list Qc * list Qc :=
  let e := prepare x y n in
  let a_l := half_window (window_a n alpha a) in
  let z := fold_left (lf_interval e a_l a_l) (intervals e) (ye e) in
  (cut n (xe e), cut n z).

(** ---------- adaptive windows (get_adaptive_transition_points) ---------- *)
Definition clip_trunc (v : Qc) (a : Z) : Z := Qc_trunc (Qc_min (Qc_max v 1) (Qc_of_Z a)).

Definition adaptive_pair (a : Z) (nom denom : Qc) : Z * Z :=
  if Qc_eqb nom 0 && Qc_eqb denom 0 then (0, 0)%Z
  else if Qc_eqb nom 0 then (half_window a, 0%Z)
  else if Qc_eqb denom 0 then (0%Z, half_window a)
  else
    let gamma := gpow (nom / denom) in
    (clip_trunc (gamma * Qc_of_Z a / (1 + gamma)) a, clip_trunc (Qc_of_Z a / (1 + gamma)) a).

Definition adaptive_windows (e : ext) (a : Z) : list Z * list Z :=
  let ps := map (fun k => adaptive_pair a (Qc_abs (Y e (k + 1) 0 - Y e k 0)) (Qc_abs (Y e k 0 - Y e (k - 1) 0)))
                (intervals e) in
  (1%Z :: map fst ps ++ [1%Z], 1%Z :: map snd ps ++ [1%Z]).

Definition nthZ (l : list Z) (k : Z) : Z := nth (Z.to_nat k) l 0%Z.

(* transition values shared by the two adaptive strategies *)
Definition ad_z0 (e : ext) (als ars : list Z) (k : Z) : Qc :=
  if (nthZ ars (k - 1) =? 0)%Z && (nthZ als k =? 0)%Z then Y e (k - 1) 0
  else lin_fit (X e k 0) (X e k (- nthZ ars (k - 1))) (Y e (k - 1) 0) (X e k (nthZ als k)) (Y e k 0).
Definition ad_z1 (e : ext) (als ars : list Z) (k : Z) : Qc :=
  if (nthZ ars k =? 0)%Z && (nthZ als (k + 1) =? 0)%Z then getz (ye e) (k + 1)   (* y[k + 1]: flat read, never used *)
  else lin_fit (X e (k + 1) 0) (X e k (en e - nthZ ars k)) (Y e k 0) (X e (k + 1) (nthZ als (k + 1))) (Y e (k + 1) 0).

(** ---------- LinearAdaptiveRFA ---------- *)
Definition la_interval (e : ext) (als ars : list Z) (z : list Qc) (k : Z) : list Qc :=
  let n := en e in
  let y_0 := Y e k 0 in
  let a_l := nthZ als k in
  let a_r := nthZ ars k in
  let z_0 := ad_z0 e als ars k in
  let z_1 := ad_z1 e als ars k in
  let z := write_run e k 0 a_l (fun i => lin_fit (X e k i) (X e k 0) z_0 (X e k a_l) y_0) z in
  write_run e k (n - a_r + 1) (n + 1) (fun i => lin_fit (X e k i) (X e k (n - a_r)) y_0 (X e k n) z_1) z.

Definition rfa_linear_adaptive (x y : list Qc) (n : nat) (alpha : Qc) (a : option Qc) : list Qc * list Qc :=
  let e := prepare x y n in
  let w := adaptive_windows e (window_a n alpha a) in
  let z := fold_left (la_interval e (fst w) (snd w)) (intervals e) (ye e) in
  (cut n (xe e), cut n z).

(** ---------- ExpFixedRFA ---------- *)
Definition ef_interval (e : ext) (a_l a_r b : Z) (z : list Qc) (k : Z) : list Qc :=
  let n := en e in
  let y_0 := Y e k 0 in
  let z_0 := lin_fit (X e k 0) (X e k (- a_r)) (Y e (k - 1) 0) (X e k a_l) (Y e k 0) in
  let z_1 := lin_fit (X e (k + 1) 0) (X e k (n - a_r)) y_0 (X e (k + 1) a_l) (Y e (k + 1) 0) in
  let z_0_lb := lin_fit (X e k (0 + b)) (X e k 0) z_0 (X e k a_l) (Y e k 0) in
  let z_0_rb := lin_fit (X e k (n - b)) (X e k (n - a_r)) (Y e k 0) (X e (k + 1) 0) z_1 in
  let z := write_run e k 0 b (fun i => lin_fit (X e k i) (X e k 0) z_0 (X e k b) z_0_lb) z in
  let z := write_run e k b a_l (fun i => lin_exp_xy_fit pw (X e k i) (X e k b) z_0_lb (X e k a_l) y_0) z in
  let z := write_run e k (n - a_r) (n - b) (fun i => exp_lin_fit pw (X e k i) (X e k (n - a_r)) y_0 (X e k (n - b)) z_0_rb) z in
  write_run e k (n - b) n (fun i => lin_fit (X e k i) (X e k (n - b)) z_0_rb (X e k n) z_1) z.

Definition rfa_exp_fixed (x y : list Qc) (n : nat) (alpha beta : Qc) (a : option Qc) : list Qc * list Qc :=
  let e := prepare x y n in
  let a_l := half_window (window_a n alpha a) in
  let b := lin_part beta a_l in
  let z := fold_left (ef_interval e a_l a_l b) (intervals e) (ye e) in
  (cut n (xe e), cut n z).

(** ---------- ExpAdaptiveRFA ---------- *)
Definition ea_interval (e : ext) (beta : Qc) (als ars : list Z) (z : list Qc) (k : Z) : list Qc :=
  let n := en e in
  let y_0 := Y e k 0 in
  let a_l := nthZ als k in
  let a_r := nthZ ars k in
  let b_l := lin_part beta a_l in
  let b_r := lin_part beta a_r in
  let z_0 := ad_z0 e als ars k in
  let z_1 := ad_z1 e als ars k in
  let z_0_bl := if (b_l =? 0)%Z then z_0 else lin_fit (X e k (0 + b_l)) (X e k 0) z_0 (X e k a_l) (Y e k 0) in
  let z_0_br := if (b_r =? 0)%Z then z_1 else lin_fit (X e k (n - b_r)) (X e k (n - a_r)) (Y e k 0) (X e (k + 1) 0) z_1 in
  let z := write_run e k 0 b_l (fun i => lin_fit (X e k i) (X e k 0) z_0 (X e k b_l) z_0_bl) z in
  let z := write_run e k b_l a_l (fun i => lin_exp_xy_fit pw (X e k i) (X e k b_l) z_0_bl (X e k a_l) y_0) z in
  let z := write_run e k (n - a_r) (n - b_r) (fun i => exp_lin_fit pw (X e k i) (X e k (n - a_r)) y_0 (X e k (n - b_r)) z_0_br) z in
  write_run e k (n - b_r) n (fun i => lin_fit (X e k i) (X e k (n - b_r)) z_0_br (X e k n) z_1) z.

Definition rfa_exp_adaptive (x y : list Qc) (n : nat) (alpha beta : Qc) (a : option Qc) : list Qc * list Qc :=
  let e := prepare x y n in
  let w := adaptive_windows e (window_a n alpha a) in
  let z := fold_left (ea_interval e beta (fst w) (snd w)) (intervals e) (ye e) in
  (cut n (xe e), cut n z).

(** ---------- dispatch, with the constructor's n < 2 check ---------- *)
Inductive rfa_kind :=
| PiecewiseConstant
| LinearFixed (alpha : Qc) (a : option Qc)
| LinearAdaptive (alpha : Qc) (a : option Qc)
| ExpFixed (alpha beta : Qc) (a : option Qc)
| ExpAdaptive (alpha beta : Qc) (a : option Qc)
| FunctionSampled (f : Qc -> Qc).

Definition rfa (s : rfa_kind) (x y : list Qc) (n : Z) : res (list Qc * list Qc) :=
  if (n <? 2)%Z then Raise ValueError else
  let n := Z.to_nat n in
  Ok (match s with
      | PiecewiseConstant => rfa_pc x y n
      | LinearFixed alpha a => rfa_linear_fixed x y n alpha a
      | LinearAdaptive alpha a => rfa_linear_adaptive x y n alpha a
      | ExpFixed alpha beta a => rfa_exp_fixed x y n alpha beta a
      | ExpAdaptive alpha beta a => rfa_exp_adaptive x y n alpha beta a
      | FunctionSampled f => rfa_function f x y n
      end).

End Strategies.
