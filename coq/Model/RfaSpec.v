(** Closed forms of the window strategies, indexed by (extended interval K,
    sample i), as documented in the class docstrings of rfa.py — the vocabulary
    of the statements of C05 / C06 / C07 (definitions only).

    Extended interval index K = 0..m: K = 0 and K = m are the virtual intervals
    added on each side, K = 1..m-1 are the real ones (real interval k = K-1).
    Output sample (k*n + i) of the strategy is  out (k+1) i. *)
From TW Require Export Model.Rfa.
Open Scope Qc_scope.

Section ClosedForm.
Variable pw : Qc -> Qc.
Variables (x y : list Qc) (n : nat).

Definition m := length x.
Definition qn : Qc := Qc_of_nat n.

(** width of extended interval K (the virtual ones mirror the end spacing) *)
Definition dK (K : Z) : Qc :=
  if (K <=? 0)%Z then nthq 1 x - nthq 0 x
  else if (Z.of_nat m - 1 <? K)%Z then nthq (m - 1) x - nthq (m - 2) x
  else nthq (Z.to_nat K) x - nthq (Z.to_nat K - 1) x.
(** left end of extended interval K *)
Definition x0K (K : Z) : Qc :=
  if (K <=? 0)%Z then nthq 0 x - (nthq 1 x - nthq 0 x)
  else nthq (Z.to_nat K - 1) x.
(** abscissa of sample i of extended interval K *)
Definition XK (K i : Z) : Qc := x0K K + Qc_of_Z i * dK K / qn.
(** average of extended interval K *)
Definition avg (K : Z) : Qc :=
  if (K <=? 0)%Z then nthq 0 y
  else if (Z.of_nat m - 1 <? K)%Z then nthq (m - 1) y
  else nthq (Z.to_nat K - 1) y.

(** border value between extended intervals K-1 and K for windows (ar on the
    left side of the border, al on the right side): linear interpolation, at the
    border, between the plateau ends X(K-1, n-ar) and X(K, al) *)
Definition border (K ar al : Z) : Qc :=
  if (ar =? 0)%Z && (al =? 0)%Z then avg (K - 1)
  else
    let wl := Qc_of_Z ar * dK (K - 1) / qn in
    let wr := Qc_of_Z al * dK K / qn in
    avg (K - 1) + (avg K - avg (K - 1)) * wl / (wl + wr).

(** the two blend shapes on t in [0,1] *)
Definition g_exp_lin (t : Qc) : Qc := t * t + (1 - t) * pw t.            (* exp_lin_fit *)
Definition g_lin_exp_xy (t : Qc) : Qc := t * (Qc_two - t - pw (1 - t)).   (* lin_exp_xy_fit *)

(** sample i of extended interval K for left/right windows al, ar, linear parts bl, br,
    border values z0 (left) and z1 (right) *)
Definition shape_linear (K i al ar : Z) (z0 z1 : Qc) : Qc :=
  let n := Z.of_nat n in
  if (i <? al)%Z then z0 + (avg K - z0) * Qc_of_Z i / Qc_of_Z al
  else if (i <=? n - ar)%Z then avg K
  else avg K + (z1 - avg K) * Qc_of_Z (i - (n - ar)) / Qc_of_Z ar.

Definition shape_exp (K i al ar bl br : Z) (z0 z1 : Qc) : Qc :=
  let n := Z.of_nat n in
  let zlb := if (bl =? 0)%Z then z0 else z0 + (avg K - z0) * Qc_of_Z bl / Qc_of_Z al in
  let zrb := if (br =? 0)%Z then z1 else avg K + (z1 - avg K) * Qc_of_Z (ar - br) / Qc_of_Z ar in
  if (i <? bl)%Z then z0 + (zlb - z0) * Qc_of_Z i / Qc_of_Z bl
  else if (i <? al)%Z then zlb + (avg K - zlb) * g_lin_exp_xy (Qc_of_Z (i - bl) / Qc_of_Z (al - bl))
  else if (i <? n - ar)%Z then avg K
  else if (i <? n - br)%Z then avg K + (zrb - avg K) * g_exp_lin (Qc_of_Z (i - (n - ar)) / Qc_of_Z (ar - br))
  else zrb + (z1 - zrb) * Qc_of_Z (i - (n - br)) / Qc_of_Z br.

(** fixed windows: h on both sides of every border *)
Definition out_linear_fixed (h : Z) (K i : Z) : Qc :=
  shape_linear K i h h (border K h h) (border (K + 1) h h).
Definition out_exp_fixed (h b : Z) (K i : Z) : Qc :=
  shape_exp K i h h b b (border K h h) (border (K + 1) h h).

(** adaptive windows: per-interval lists als, ars (index = extended interval) *)
Definition out_linear_adaptive (als ars : list Z) (K i : Z) : Qc :=
  shape_linear K i (nthZ als K) (nthZ ars K)
    (border K (nthZ ars (K - 1)) (nthZ als K)) (border (K + 1) (nthZ ars K) (nthZ als (K + 1))).
Definition out_exp_adaptive (beta : Qc) (als ars : list Z) (K i : Z) : Qc :=
  shape_exp K i (nthZ als K) (nthZ ars K) (lin_part beta (nthZ als K)) (lin_part beta (nthZ ars K))
    (border K (nthZ ars (K - 1)) (nthZ als K)) (border (K + 1) (nthZ ars K) (nthZ als (K + 1))).

(** assemble the output list: samples (K, i), K = 1..m-1, i = 0..n-1, then the final sample *)
Definition assemble (out : Z -> Z -> Qc) (final : Qc) : list Qc :=
  flat_map (fun k => map (fun i => out (Z.of_nat k + 1)%Z (Z.of_nat i)) (seq 0 n)) (seq 0 (m - 1)) ++ [final].

(** the complete recreated value lists *)
Definition cf_linear_fixed (h : Z) : list Qc :=
  assemble (out_linear_fixed h) (border (Z.of_nat m) h h).
Definition cf_exp_fixed (h b : Z) : list Qc :=
  assemble (out_exp_fixed h b) (avg (Z.of_nat m)).
Definition cf_linear_adaptive (als ars : list Z) : list Qc :=
  let M := Z.of_nat m in
  assemble (out_linear_adaptive als ars)
    (if (nthZ ars (M - 1) =? 0)%Z then avg M else border M (nthZ ars (M - 1)) (nthZ als M)).
Definition cf_exp_adaptive (beta : Qc) (als ars : list Z) : list Qc :=
  assemble (out_exp_adaptive beta als ars) (avg (Z.of_nat m)).

End ClosedForm.

(** hypothesis bundles on the strategy parameters (documented ranges) *)
Definition fixed_ok (n : nat) (h b : Z) : Prop := (1 <= h)%Z /\ (2 * h <= Z.of_nat n)%Z /\ (0 <= b)%Z /\ (b <= h)%Z.
Definition adaptive_ok (n : nat) (m : nat) (als ars : list Z) : Prop :=
  length als = S m /\ length ars = S m /\
  forall K, (0 <= K <= Z.of_nat m)%Z ->
    (0 <= nthZ als K)%Z /\ (0 <= nthZ ars K)%Z /\ (nthZ als K + nthZ ars K <= Z.of_nat n)%Z.

Definition between (a b v : Qc) : Prop := (a <= v /\ v <= b) \/ (b <= v /\ v <= a).
(** v2 is at least as far along the way from a to b as v1 (non-strict monotone progress) *)
Definition toward (a b v1 v2 : Qc) : Prop := 0 <= (b - a) * (v2 - v1).

(** additional facts about real powers used by some theorems *)
Definition PwZero (pw : Qc -> Qc) : Prop := pw 0 = 0.
(** chord-slope concavity bundle of DESIGN 3.3 (satisfied by t^alpha for alpha in [~0.25, 1)) *)
Definition PwConcaveLike (pw : Qc -> Qc) : Prop :=
  PwOk pw /\
  (forall t s, 0 <= t -> t < s -> s < 1 -> (s - t) * (1 - pw s) <= (pw s - pw t) * (1 - s)) /\
  (forall t, 0 <= t -> t <= 1 -> pw t <= t + Qc_half).
Definition GpowPos (gpow : Qc -> Qc) : Prop := forall g, 0 < g -> 0 < gpow g.

(** the closed-form windows of the strategies *)
Definition fixed_h (n : nat) (alpha : Qc) (a : option Qc) : Z := half_window (window_a n alpha a).
