(** Leaves for LinearAdaptiveRFA.get_adaptive_transition_points: Python list methods (append / extend, written by the
    translator as rebinding calls ".append!" / ".extend!"), abs / int / min / max, `** adaptive_smooth`.  Definitions only. *)
From TW Require Export Model.GlueLeaves2.
Open Scope Qc_scope.
Open Scope string_scope.

Definition adaptive_callf (fn : string) (vs : list gval) (ks : list (string * gval)) : res gval :=
  if seq_eqb fn ".append!" then
    match vs, ks with [VTup l; v], [] => Ok (VTup (l ++ [v])) | _, _ => Raise TypeError end
  else if seq_eqb fn ".extend!" then
    match vs, ks with [VTup l; VTup l'], [] => Ok (VTup (l ++ l')) | _, _ => Raise TypeError end
  else if seq_eqb fn "abs" then
    match vs, ks with [v], [] => match as_num v with Some q => Ok (VNum (Qc_abs q)) | None => Raise TypeError end | _, _ => Raise TypeError end
  else if seq_eqb fn "int" then
    match vs, ks with [v], [] => match as_num v with Some q => Ok (VInt (Qc_trunc q)) | None => Raise TypeError end | _, _ => Raise TypeError end
  else if seq_eqb fn "max" then
    match vs, ks with
    | [u; v], [] => match as_num u, as_num v with Some p, Some q => Ok (VNum (Qc_max p q)) | _, _ => Raise TypeError end
    | _, _ => Raise TypeError
    end
  else if seq_eqb fn "min" then
    match vs, ks with
    | [u; v], [] => match as_num u, as_num v with Some p, Some q => Ok (VNum (Qc_min p q)) | _, _ => Raise TypeError end
    | _, _ => Raise TypeError
    end
  else Raise OtherExn.

Definition ivl_methf (r : gval) (m : string) (vs : list gval) : res gval :=
  match r, vs with
  | VClos "ivl" [VArr l; VInt n], [] =>
      if seq_eqb m "nr_of_full_intervals" then Ok (VInt (Z.of_nat (length l / Z.to_nat n)))
      else if seq_eqb m ".array" then Ok (VArr l)
      else Raise AttributeError
  | _, _ => Raise AttributeError
  end.

Definition smooth_powf (gpow : Qc -> Qc) (a b : gval) : res gval :=
  match as_num a, b with
  | Some g, VOpaque "adaptive_smooth" => Ok (VNum (gpow g))
  | _, _ => Raise TypeError
  end.
