(** Leaves for the regenerated bodies of Gen/Process2Glue.v (process.py: _piecewise_constant_interpolate, noise_gauss,
    average; sorted_array_utils.py: sum_over_indices, oversample_linspace): what the called names / methods / `**` mean.
    Every leaf is one NumPy (or builtin) primitive written with list functions and the functions of the hand models
    (Model/Interval.v: to_2d_array, nanmean; Model/Search.v: find_lower; Model/SortedUtils.v: linspace; Model/Process.v:
    meanq).  Control flow and arithmetic of the sources stay in the regenerated terms.  Definitions only.

    New kinds of values (encoded in [gval], nothing is added to Model/GlueSem.v):
      - a 2-D float array that may hold NaN: [arr2d rows], rows of cells, a cell is a number or NaN ([None]);
      - the scale handed to numpy.random.normal: one number for all samples or one per sample ([noise_scale]). *)
From TW Require Export Model.GlueLeaves2.
Open Scope Qc_scope.
Open Scope string_scope.

(** ---------------- 2-D arrays with NaN ---------------- *)
Definition row_val (r : list (option Qc)) : gval := VTup (map optQ r).
Definition arr2d (rows : list (list (option Qc))) : gval := VClos "ndarray2d" (map row_val rows).

Definition cell_of (v : gval) : option (option Qc) :=
  match v with VNum q => Some (Some q) | VNoneV => Some None | _ => None end.
Fixpoint cells_of (l : list gval) : option (list (option Qc)) :=
  match l with
  | [] => Some []
  | v :: l' => match cell_of v, cells_of l' with Some c, Some r => Some (c :: r) | _, _ => None end
  end.
Definition row_of (v : gval) : option (list (option Qc)) := match v with VTup l => cells_of l | _ => None end.
Fixpoint rows_of (l : list gval) : option (list (list (option Qc))) :=
  match l with
  | [] => Some []
  | v :: l' => match row_of v, rows_of l' with Some c, Some r => Some (c :: r) | _, _ => None end
  end.

(** a[:, k]: cell k of every row (k may be negative, as everywhere in Python); a NaN cell has no value in an array of
    rationals *)
Fixpoint column (rows : list (list (option Qc))) (k : Z) : res (list Qc) :=
  match rows with
  | [] => Ok []
  | r :: rows' =>
      match py_index r k with
      | None => Raise IndexError
      | Some None => Raise NonFinite
      | Some (Some v) => let? rest := column rows' k in Ok (v :: rest)
      end
  end.

(** a.T of a rectangular array (the number of columns is the length of the first row; an array without rows has no
    columns here) and a.flatten() *)
Definition transpose (rows : list (list (option Qc))) : list (list (option Qc)) :=
  match rows with
  | [] => []
  | r0 :: _ => map (fun j => map (fun r => nth j r None) rows) (seq 0 (length r0))
  end.
Fixpoint all_some (l : list (option Qc)) : option (list Qc) :=
  match l with
  | [] => Some []
  | Some v :: l' => match all_some l' with Some r => Some (v :: r) | None => None end
  | None :: _ => None
  end.

(** np.linspace(a, b, num=k) for two 1-D arrays of the same length: k rows, column j is np.linspace(a[j], b[j], k) *)
Definition linspace2d (a b : list Qc) (k : nat) : list (list (option Qc)) :=
  map (fun i => map2 (fun u v => Some (nthq i (linspace u v k))) a b) (seq 0 k).

(** ---------------- boolean masks and index arrays ---------------- *)
(** a[mask] *)
Fixpoint mask_take {A} (l : list A) (m : list bool) : list A :=
  match l, m with
  | a :: l', b :: m' => if b then a :: mask_take l' m' else mask_take l' m'
  | _, _ => []
  end.
(** a[mask] = w: the elements of w go, in order, to the positions where the mask is true *)
Fixpoint mask_store (l : list Qc) (m : list bool) (w : list Qc) : list Qc :=
  match l, m with
  | a :: l', b :: m' =>
      if b then match w with q :: w' => q :: mask_store l' m' w' | [] => a :: mask_store l' m' [] end
      else a :: mask_store l' m' w
  | _, _ => l
  end.
(** a[mask] = scalar *)
Definition mask_fill (l : list Qc) (m : list bool) (q : Qc) : list Qc := map2 (fun a (b : bool) => if b then q else a) l m.
Definition count_true (m : list bool) : nat := length (filter (fun b => b) m).

(** a[idx] for an integer array idx: every index is checked (a negative one counts from the end) *)
Fixpoint take_checked (l : list Qc) (idx : list Z) : res (list Qc) :=
  match idx with
  | [] => Ok []
  | i :: idx' => match py_index l i with
                 | None => Raise IndexError
                 | Some v => let? r := take_checked l idx' in Ok (v :: r)
                 end
  end.

(** e[i] for i not an integer literal *)
Definition getitem (a i : gval) : res gval :=
  match a, i with
  | VIdxArr l, VMask m => if (length l =? length m)%nat then Ok (VIdxArr (mask_take l m)) else Raise IndexError
  | VArr l, VMask m => if (length l =? length m)%nat then Ok (VArr (mask_take l m)) else Raise IndexError
  | VArr l, VIdxArr idx => let? r := take_checked l idx in Ok (VArr r)
  | _, _ => findex_val a i
  end.

(** v[mask] = value, answering the updated array *)
Definition setitem_mask (a m v : gval) : res gval :=
  match a, m with
  | VArr l, VMask mk =>
      if negb (length l =? length mk)%nat then Raise IndexError
      else match v with
           | VArr w =>
               if (length w =? count_true mk)%nat then Ok (VArr (mask_store l mk w))
               else match w with [q] => Ok (VArr (mask_fill l mk q)) | _ => Raise ValueError end      (* broadcast of one value *)
           | _ => match as_num v with Some q => Ok (VArr (mask_fill l mk q)) | None => Raise TypeError end
           end
  | _, _ => Raise TypeError
  end.

(** e[lo:hi] for a computed e: rows of a 2-D array, or what the interpreter does for 1-D arrays *)
Definition getslice (a lo hi : gval) : res gval :=
  match a with
  | VClos "ndarray2d" rows =>
      let? s := match lo with VNoneV => Ok 0%Z | VInt z => Ok z | _ => Raise TypeError end in
      let? e := match hi with VNoneV => Ok (Z.of_nat (length rows)) | VInt z => Ok z | _ => Raise TypeError end in
      Ok (VClos "ndarray2d" (py_slice_step1 rows s e))
  | _ => fslice_val a lo hi VNoneV
  end.

(** ---------------- the scale of the noise ---------------- *)
Inductive noise_scale := ScaleAll (s : Qc) | ScaleEach (l : list Qc).
Definition scale_of (v : gval) : option noise_scale :=
  match v with
  | VArr l => Some (ScaleEach l)
  | _ => match as_num v with Some s => Some (ScaleAll s) | None => None end
  end.

(** the meaning of `a + noise` for two 1-D arrays *)
Definition add_arrays (a d : list Qc) : res (list Qc) :=
  if (length a =? length d)%nat then Ok (map2 Qcplus a d) else Raise ValueError.

Section Process2Leaves.
(** b ** e on floats (NumPy's power); the only law the theorems assume of it is stated where it is used: v ** 2 = v * v *)
Variable pw : Qc -> Qc -> Qc.
(** the answer of numpy.random.normal(loc, scale, size=(n,)), recorded: an opaque vector *)
Variable normal : Qc -> noise_scale -> nat -> list Qc.

(** numpy.random.normal refuses a negative scale and a scale array that cannot be broadcast to the size *)
Definition np_random_normal (loc : Qc) (sc : noise_scale) (n : nat) : res (list Qc) :=
  match sc with
  | ScaleAll s => if Qc_ltb s 0 then Raise ValueError else Ok (normal loc sc n)
  | ScaleEach l =>
      if existsb (fun s => Qc_ltb s 0) l then Raise ValueError
      else if (length l =? n)%nat || (length l =? 1)%nat then Ok (normal loc sc n) else Raise ValueError
  end.

Definition p2_callf (fn : string) (vs : list gval) (ks : list (string * gval)) : res gval :=
  match numpy_callf fn vs ks with
  | Some r => r
  | None =>
  if seq_eqb fn "getitem" then
    match vs, ks with [a; i], [] => getitem a i | _, _ => Raise TypeError end
  else if seq_eqb fn "setitem!" then
    match vs, ks with [a; m; v], [] => setitem_mask a m v | _, _ => Raise TypeError end
  else if seq_eqb fn "getslice" then
    match vs, ks with [a; lo; hi], [] => getslice a lo hi | _, _ => Raise TypeError end
  else if seq_eqb fn "getitem[:,k]" then
    match vs, ks with
    | [VClos "ndarray2d" rows; VInt k], [] =>
        match rows_of rows with Some r => let? c := column r k in Ok (VArr c) | None => Raise TypeError end
    | _, _ => Raise TypeError
    end
  else if seq_eqb fn "is_" then
    (* operator.is_(e, True / False): identity with the bool singleton *)
    match vs, ks with
    | [v; VBoolV b], [] => Ok (VBoolV (match v with VBoolV c => Bool.eqb c b | _ => false end))
    | _, _ => Raise TypeError
    end
  else if seq_eqb fn "np.zeros" then
    match vs, ks with
    | [VInt n], [] => if (n <? 0)%Z then Raise ValueError else Ok (VArr (repeatq 0 (Z.to_nat n)))
    | _, _ => Raise TypeError
    end
  else if seq_eqb fn "find_closest_lower_equal_element_indices_to_values" then
    (* fill_not_valid defaults to True (Proofs/GlueScanProofs.v: glue_scan_defaults, glue_find_lower) *)
    match vs, ks with
    | [VArr x; VArr lk], [] => let? r := find_lower x lk true in Ok (VIdxArr r)
    | _, _ => Raise TypeError
    end
  else if seq_eqb fn "IntervalArray" then
    match vs, ks with
    | [v; VInt n], [] => match to_array v with Ok (VArr l) => Ok (ivl l n) | Ok _ => Raise TypeError | Raise e => Raise e end
    | _, _ => Raise TypeError
    end
  else if seq_eqb fn "np.nanmean" then
    match vs, ks with
    | [VClos "ndarray2d" rows], [("axis", VInt 1%Z)] =>
        match rows_of rows with Some r => Ok (VArr (map nanmean r)) | None => Raise TypeError end
    | _, _ => Raise TypeError
    end
  else if seq_eqb fn "np.isscalar" then
    match vs, ks with
    | [v], [] => Ok (VBoolV (match v with VNum _ | VInt _ | VBoolV _ | VStrV _ => true | _ => false end))
    | _, _ => Raise TypeError
    end
  else if seq_eqb fn "np.mean" then
    (* the mean of an empty array is NaN *)
    match vs, ks with
    | [VArr []], [] => Raise NonFinite
    | [VArr l], [] => Ok (VNum (meanq l))
    | _, _ => Raise TypeError
    end
  else if seq_eqb fn "np.random.normal" then
    match vs, length ks, assoc "loc" ks, assoc "scale" ks, assoc "size" ks with
    | [], 3%nat, Some loc, Some sc, Some (VTup [VInt n]) =>
        match as_num loc, scale_of sc with
        | Some m, Some s => let? d := np_random_normal m s (Z.to_nat n) in Ok (VArr d)
        | _, _ => Raise TypeError
        end
    | _, _, _, _, _ => Raise TypeError
    end
  else if seq_eqb fn "np.linspace" then
    match vs, ks with
    | [VArr a; VArr b], [("num", VInt k)] =>
        if (k <? 0)%Z then Raise ValueError
        else if (length a =? length b)%nat then Ok (arr2d (linspace2d a b (Z.to_nat k))) else Raise ValueError
    | _, _ => Raise TypeError
    end
  else Raise OtherExn
  end.

Definition p2_methf (r : gval) (m : string) (vs : list gval) : res gval :=
  match r, vs with
  | VArr l, [] =>
      if seq_eqb m "sum" then Ok (VNum (sumq l))
      else if seq_eqb m ".shape" then Ok (VTup [VInt (Z.of_nat (length l))])
      else array_methf r m vs
  | VClos "ivl" [VArr l; VInt n], [] =>
      if seq_eqb m "to_2d_array" then
        (* n = 0: ZeroDivisionError; n < 0 is not modelled *)
        if (n <=? 0)%Z then Raise OtherExn else Ok (arr2d (to_2d_array {| arr := l; isize := Z.to_nat n |}))
      else Raise AttributeError
  | VClos "ndarray2d" rows, [] =>
      match rows_of rows with
      | None => Raise TypeError
      | Some rs =>
          if seq_eqb m ".T" then Ok (arr2d (transpose rs))
          else if seq_eqb m "flatten" then
            match all_some (concat rs) with Some l => Ok (VArr l) | None => Raise NonFinite end
          else Raise AttributeError
      end
  | _, _ => array_methf r m vs
  end.

(** a ** b, elementwise with broadcasting of a scalar; int ** int (an integer in Python) is not modelled *)
Definition p2_powf (a b : gval) : res gval :=
  match a, b with
  | VInt _, VInt _ => Raise OtherExn
  | VArr l, VArr r => if (length l =? length r)%nat then Ok (VArr (map2 pw l r)) else Raise ValueError
  | VArr l, _ => match as_num b with Some e => Ok (VArr (map (fun v => pw v e) l)) | None => Raise TypeError end
  | _, VArr r => match as_num a with Some q => Ok (VArr (map (pw q) r)) | None => Raise TypeError end
  | _, _ => match as_num a, as_num b with Some q, Some e => Ok (VNum (pw q e)) | _, _ => Raise TypeError end
  end.
End Process2Leaves.
