(** While loops for the function-level interpreter (Model/GlueFun.v): the three two-pointer scans of
    sorted_array_utils.py are `while` loops over explicit iterators.  [wexec] runs a statement list with FUEL (one unit
    per statement executed); statements other than `if` / `while` / `break` are delegated to [fexec1].  Running out of
    fuel is a distinct outcome, excluded by the theorems' statements (they give an explicit sufficient amount).
    An iterator is the list of what it still holds; `next` returns the head together with the advanced iterator (the
    translator writes `v = next(it, d)` as the pair assignment `v, it = next!(it, d)`).  Definitions only. *)
From TW Require Export Model.GlueLeaves.
Open Scope Qc_scope.
Open Scope string_scope.

Inductive wout := WNormal | WBreak | WReturn (v : gval) | WRaise (e : exn) | WFuel.

Section WhileInterp.
Variable callf : string -> list gval -> list (string * gval) -> res gval.
Variable methf : gval -> string -> list gval -> res gval.
Variable applyf : gval -> list gval -> res gval.
Variable powf : gval -> gval -> res gval.

Definition wout_of (oc : outcome) : wout :=
  match oc with ONormal => WNormal | OReturn v => WReturn v | ORaise e => WRaise e end.

Fixpoint wexec (fuel : nat) (en : fenv) (l : list gstmt) {struct fuel} : fenv * wout :=
  match fuel with
  | O => (en, WFuel)
  | S f =>
      match l with
      | [] => (en, WNormal)
      | st :: rest =>
          match st with
          | SBreak => (en, WBreak)
          | SIf c th el =>
              match feval callf methf applyf powf en c with
              | Raise x => (en, WRaise x)
              | Ok (VBoolV b) =>
                  let r := wexec f en (if b then th else el) in
                  match snd r with WNormal => wexec f (fst r) rest | _ => r end
              | Ok _ => (en, WRaise TypeError)
              end
          | SWhile c body =>
              match feval callf methf applyf powf en c with
              | Raise x => (en, WRaise x)
              | Ok (VBoolV true) =>
                  let r := wexec f en body in
                  match snd r with
                  | WNormal => wexec f (fst r) l          (* next iteration *)
                  | WBreak => wexec f (fst r) rest
                  | _ => r
                  end
              | Ok (VBoolV false) => wexec f en rest
              | Ok _ => (en, WRaise TypeError)
              end
          | SFor _ _ _ => (en, WRaise OtherExn)
          | _ =>
              let r := fexec1 callf methf applyf powf en st in
              match snd r with
              | ONormal => wexec f (fst r) rest
              | oc => (fst r, wout_of oc)
              end
          end
      end
  end.
End WhileInterp.

Definition wcall (fuel : nat) (callf : string -> list gval -> list (string * gval) -> res gval)
    (methf : gval -> string -> list gval -> res gval) (tbl : fun_table) (f : string) (actuals : list (string * gval)) : wout :=
  match assoc f tbl with
  | None => WRaise AttributeError
  | Some (formals, body) =>
      match fbind_params formals actuals with
      | Raise e => WRaise e
      | Ok en => snd (wexec callf methf no_apply no_pow fuel en body)
      end
  end.

Definition wout_idx (w : wout) : res (list Z) :=
  match w with WReturn (VIdxArr l) => Ok l | WRaise e => Raise e | _ => Raise OtherExn end.

(** ---------- leaves of the three scans ---------- *)
Definition iter_of (l : list Qc) : gval := VClos "iter" [VArr l].

Definition scan_callf (fn : string) (vs : list gval) (ks : list (string * gval)) : res gval :=
  if seq_eqb fn "iter" then
    match vs, ks with [VArr l], [] => Ok (iter_of l) | _, _ => Raise TypeError end
  else if seq_eqb fn "next!" then
    match vs, ks with
    | [VClos "iter" [VArr l]], [] =>
        match l with [] => Raise StopIteration | a :: r => Ok (VTup [VNum a; iter_of r]) end
    | [VClos "iter" [VArr l]; d], [] =>
        match l with [] => Ok (VTup [d; iter_of []]) | a :: r => Ok (VTup [VNum a; iter_of r]) end
    | _, _ => Raise TypeError
    end
  else if seq_eqb fn "np.zeros" then
    match vs, ks with
    | [VInt n], [("dtype", VOpaque "np.int64")] => Ok (VIdxArr (repeat 0%Z (Z.to_nat n)))
    | _, _ => Raise TypeError
    end
  else Raise OtherExn.

(** one unit of fuel per statement executed: a generous linear bound *)
Definition scan_fuel (x lk : list Qc) : nat := 20 * (length x + length lk) + 40.
