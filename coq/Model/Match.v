(** Model of /repo/src/traffic_weaver/match.py.  Definitions only.
      _integral_matching_stretch            (235-265)
      _interval_integral_matching_stretch   (320-339)
      integral_matching_reference_stretch   (90-134)
    The real power t |-> t^alpha is the parameter [pw] (DESIGN 3.3). *)
From TW Require Export Model.Process.
Open Scope Qc_scope.

Section WithPow.
Variable pw : Qc -> Qc.

(** weights  w_i = 1 - (2|x_mid - x_i| / dx)^alpha ; [1;1] for two points *)
Definition weights (x : list Qc) : list Qc :=
  if (length x =? 2)%nat then [1; 1]
  else
    let xm := (lastq x + headq x) * Qc_half in
    let dx := lastq x - headq x in
    map (fun xi => 1 - pw (Qc_two * Qc_abs (xm - xi) / dx)) x.

(** sum((w[1:] + w[:-1]) * diff x)  |  sum(w[:-1] * diff x) *)
Fixpoint wsum_trap (w x : list Qc) : Qc :=
  match w, x with
  | w0 :: ((w1 :: _) as w'), x0 :: ((x1 :: _) as x') => (w1 + w0) * (x1 - x0) + wsum_trap w' x'
  | _, _ => 0
  end.
Fixpoint wsum_rect (w x : list Qc) : Qc :=
  match w, x with
  | w0 :: w', x0 :: ((x1 :: _) as x') => w0 * (x1 - x0) + wsum_rect w' x'
  | _, _ => 0
  end.

Definition y_hat (r : rule) (x y : list Qc) (target : Qc) : Qc :=
  let delta_p := target - total r x y in
  let w := weights x in
  match r with
  | Trapezoid => Qc_two * delta_p / wsum_trap w x
  | Rectangle => delta_p / wsum_rect w x
  | UnknownRule => 0
  end.

(** _integral_matching_stretch (s = None) *)
Definition stretch (r : rule) (x y : list Qc) (target : Qc) : list Qc :=
  let h := y_hat r x y target in
  map2 (fun yi wi => yi + h * wi) y (weights x).

Definition stretch_defined (r : rule) (x : list Qc) : bool :=
  match r with
  | Trapezoid => ((length x =? 2)%nat || negb (Qc_eqb (lastq x - headq x) 0)) && negb (Qc_eqb (wsum_trap (weights x) x) 0)
  | Rectangle => ((length x =? 2)%nat || negb (Qc_eqb (lastq x - headq x) 0)) && negb (Qc_eqb (wsum_rect (weights x) x) 0)
  | UnknownRule => false
  end.

Definition stretch_res (r : rule) (x y : list Qc) (target : Qc) : res (list Qc) :=
  match r with
  | UnknownRule => Raise ValueError
  | _ => if stretch_defined r x then Ok (stretch r x y target) else Raise NonFinite
  end.

(** the loop of _interval_integral_matching_stretch: windows are stretched one
    after the other, in place; a later window reads what an earlier one wrote *)
Fixpoint interval_loop (r : rule) (x y : list Qc) (targets : list Qc) (fixed : list nat) : list Qc :=
  match targets, fixed with
  | t :: targets', s :: ((e :: _) as fixed') =>
      let w := stretch r (slice x s (e + 1)) (slice y s (e + 1)) t in
      interval_loop r x (splice y s w) targets' fixed'
  | _, _ => y
  end.

Fixpoint interval_defined (r : rule) (x : list Qc) (targets : list Qc) (fixed : list nat) : bool :=
  match targets, fixed with
  | _ :: targets', s :: ((e :: _) as fixed') =>
      stretch_defined r (slice x s (e + 1)) && interval_defined r x targets' fixed'
  | _, _ => true
  end.

Definition interval_match (r : rule) (x y : list Qc) (targets : list Qc) (fixed : list nat) : res (list Qc) :=
  match r with
  | UnknownRule => match targets, fixed with
                   | _ :: _, _ :: _ :: _ => Raise ValueError
                   | _, _ => Ok y
                   end
  | _ => if interval_defined r x targets fixed then Ok (interval_loop r x y targets fixed)
         else Raise NonFinite
  end.

(** ---------- fixed point resolution ---------- *)
(* np.unique on an already non-decreasing list = drop adjacent duplicates; on an
   arbitrary list = sort + dedupe.  insertion sort is enough here. *)
Fixpoint insert_sorted (v : Qc) (l : list Qc) : list Qc :=
  match l with
  | [] => [v]
  | a :: l' => if Qc_ltb v a then v :: l else if Qc_eqb v a then l else a :: insert_sorted v l'
  end.
Definition unique (l : list Qc) : list Qc := fold_right insert_sorted [] l.
Fixpoint ninsert_sorted (v : nat) (l : list nat) : list nat :=
  match l with
  | [] => [v]
  | a :: l' => if (v <? a)%nat then v :: l else if (v =? a)%nat then l else a :: ninsert_sorted v l'
  end.
Definition nunique (l : list nat) : list nat := fold_right ninsert_sorted [] l.

Definition memq (v : Qc) (l : list Qc) : bool := existsb (Qc_eqb v) l.
(* np.where(np.isin(x, s))[0] *)
Fixpoint where_isin_from (i : nat) (x s : list Qc) : list nat :=
  match x with
  | [] => []
  | a :: x' => if memq a s then i :: where_isin_from (S i) x' s else where_isin_from (S i) x' s
  end.
Definition where_isin (x s : list Qc) : list nat := where_isin_from 0 x s.

(* x.take(indices) with non-negative in-range indices *)
Definition take (x : list Qc) (idx : list Z) : list Qc := map (fun i => nthq (Z.to_nat i) x) idx.

Inductive fixed_mode :=
| ByStrategy (s : strategy)
| ByValues (v : list Qc)
| ByIndices (i : list nat).

(** lines 92-126: returns (fixed_points_indices_in_x, fixed_points_in_x_ref_indices) *)
Definition resolve_fixed (x xr : list Qc) (m : fixed_mode) : res (list nat * list nat) :=
  match m with
  | ByIndices i =>
      if (length x <? length i)%nat then Raise ValueError else
      let fi := nunique i in
      let fv := map (fun k => nthq k x) fi in
      let? ci := find_indices xr fv Closest true in
      let ridx := where_isin xr (take xr ci) in
      if (length fi =? length fv)%nat then Ok (fi, ridx) else Raise ValueError
  | ByValues v =>
      if (length x <? length v)%nat then Raise ValueError else
      let fv := unique v in
      let? ci := find_indices xr fv Closest true in
      let ridx := where_isin xr (take xr ci) in
      let fi := where_isin x fv in
      if (length fi =? length fv)%nat then Ok (fi, ridx) else Raise ValueError
  | ByStrategy s =>
      let? ci := find_indices x xr s true in
      let fv := unique (take x ci) in
      let fi := where_isin x fv in
      if (length fi =? length fv)%nat then Ok (fi, seq 0 (length xr)) else Raise ValueError
  end.

(** integral_matching_reference_stretch (s = None) *)
Definition match_ref (x y xr yr : list Qc) (m : fixed_mode) (rt rr : rule) : res (list Qc) :=
  (* after the repair of D11 the target rule is validated before anything else *)
  match rt with UnknownRule => Raise ValueError | _ =>
  let? fr := resolve_fixed x xr m in
  let? iv := integral xr yr rr in
  let targets := sum_over_indices iv (snd fr) in
  interval_match rt x y targets (fst fr)
  end.

End WithPow.
