(** Model of the three two-pointer scans of
    /repo/src/traffic_weaver/sorted_array_utils.py
      find_closest_lower_equal_element_indices_to_values   (lines 347-378)
      find_closest_higher_equal_element_indices_to_values  (lines 410-444)
      find_closest_lower_or_higher_element_indices_to_values (lines 471-511)
      find_closest_element_indices_to_values               (lines 543-549)
    The iterator state of the Python code is kept explicitly:
      x_val            current element of x
      xs               what x_it still holds *including* x_next_val as its head
                       ([] <-> x_next_val is None)
      idx              x_idx
    Definitions only. *)
From TW Require Export Lib.Base.
Open Scope Qc_scope.
Open Scope Z_scope.

(** ---------- lower ---------- *)
(* first loop: queries below x[0] *)
Fixpoint lower_pre (x0 : Qc) (fill : bool) (ls : list Qc) : list Z * list Qc :=
  match ls with
  | [] => ([], [])
  | q :: ls' =>
      if Qc_ltb q x0 then
        let '(o, r) := lower_pre x0 fill ls' in ((if fill then 0 else -1) :: o, r)
      else ([], ls)
  end.
(* inner while: move x to the right while x_next <= q *)
Fixpoint adv_le (xs : list Qc) (idx : Z) (q : Qc) : list Qc * Z :=
  match xs with
  | [] => ([], idx)
  | xn :: xs' => if Qc_leb xn q then adv_le xs' (idx + 1) q else (xs, idx)
  end.
Fixpoint lower_main (ls : list Qc) (xs : list Qc) (idx : Z) : list Z :=
  match ls with
  | [] => []
  | q :: ls' => let '(xs', idx') := adv_le xs idx q in idx' :: lower_main ls' xs' idx'
  end.
Definition find_lower (x lookup : list Qc) (fill : bool) : res (list Z) :=
  match x, lookup with
  | [], _ => Raise StopIteration
  | _, [] => Raise StopIteration
  | x0 :: xs, _ => let '(o, r) := lower_pre x0 fill lookup in Ok (o ++ lower_main r xs 0)
  end.

(** ---------- higher ---------- *)
Fixpoint le_pre (x0 : Qc) (ls : list Qc) : list Z * list Qc :=
  match ls with
  | [] => ([], [])
  | q :: ls' =>
      if Qc_leb q x0 then let '(o, r) := le_pre x0 ls' in (0 :: o, r)
      else ([], ls)
  end.
(* inner while: move x to the right while x_next < q ; also tracks x_val *)
Fixpoint adv_lt (xv : Qc) (xs : list Qc) (idx : Z) (q : Qc) : Qc * list Qc * Z :=
  match xs with
  | [] => (xv, [], idx)
  | xn :: xs' => if Qc_ltb xn q then adv_lt xn xs' (idx + 1) q else (xv, xs, idx)
  end.
Fixpoint higher_main (lenx : Z) (fill : bool) (ls : list Qc) (xv : Qc) (xs : list Qc) (idx : Z) : list Z :=
  match ls with
  | [] => []
  | q :: ls' =>
      let '(xv', xs', idx') := adv_lt xv xs idx q in
      (match xs' with
       | [] => if fill then idx' else lenx
       | _ => idx' + 1
       end) :: higher_main lenx fill ls' xv' xs' idx'
  end.
Definition find_higher (x lookup : list Qc) (fill : bool) : res (list Z) :=
  match x, lookup with
  | [], _ => Raise StopIteration
  | _, [] => Raise StopIteration
  | x0 :: xs, _ =>
      let '(o, r) := le_pre x0 lookup in
      Ok (o ++ higher_main (Z.of_nat (length x)) fill r x0 xs 0)
  end.

(** ---------- closest ---------- *)
Fixpoint closest_main (ls : list Qc) (xv : Qc) (xs : list Qc) (idx : Z) : list Z :=
  match ls with
  | [] => []
  | q :: ls' =>
      let '(xv', xs', idx') := adv_lt xv xs idx q in
      (match xs' with
       | [] => idx'
       | xn :: _ => if Qc_leb (q - xv') (xn - q) then idx' else idx' + 1
       end) :: closest_main ls' xv' xs' idx'
  end.
Definition find_closest (x lookup : list Qc) : res (list Z) :=
  match x, lookup with
  | [], _ => Raise StopIteration
  | _, [] => Raise StopIteration
  | x0 :: xs, _ =>
      let '(o, r) := le_pre x0 lookup in Ok (o ++ closest_main r x0 xs 0)
  end.

(** ---------- dispatcher ---------- *)
Inductive strategy := Closest | Lower | Higher | UnknownStrategy.
Definition find_indices (x lookup : list Qc) (s : strategy) (fill : bool) : res (list Z) :=
  match s with
  | Closest => find_closest x lookup
  | Lower => find_lower x lookup fill
  | Higher => find_higher x lookup fill
  | UnknownStrategy => Raise ValueError
  end.

(** ---------- specifications (independent, one query at a time) ---------- *)
(* number of elements of x that are <= q   /  < q *)
Fixpoint count_le (x : list Qc) (q : Qc) : Z :=
  match x with [] => 0 | a :: x' => (if Qc_leb a q then 1 else 0) + count_le x' q end.
Fixpoint count_lt (x : list Qc) (q : Qc) : Z :=
  match x with [] => 0 | a :: x' => (if Qc_ltb a q then 1 else 0) + count_lt x' q end.

Definition lower_spec (x : list Qc) (fill : bool) (q : Qc) : Z :=
  let c := count_le x q in
  if c =? 0 then (if fill then 0 else -1) else c - 1.
Definition higher_spec (x : list Qc) (fill : bool) (q : Qc) : Z :=
  let c := count_lt x q in
  let n := Z.of_nat (length x) in
  if c =? n then (if fill then n - 1 else n) else c.
(* nearest element, ties to the lower index *)
Definition closest_spec (x : list Qc) (q : Qc) : Z :=
  let c := count_lt x q in
  let n := Z.of_nat (length x) in
  if c =? 0 then 0
  else if c =? n then n - 1
  else
    let lo := nthq (Z.to_nat (c - 1)) x in
    let hi := nthq (Z.to_nat c) x in
    if Qc_leb (q - lo) (hi - q) then c - 1 else c.

(** declarative characterisations the specs are proved to meet *)
Definition zn (i : Z) (x : list Qc) : Qc := nthq (Z.to_nat i) x.
Definition in_range (i : Z) (x : list Qc) : Prop := 0 <= i < Z.of_nat (length x).

Definition is_lower (x : list Qc) (fill : bool) (q : Qc) (i : Z) : Prop :=
  (in_range i x /\ (zn i x <= q)%Qc /\ forall j, in_range j x -> (zn j x <= q)%Qc -> j <= i)
  \/ ((forall j, in_range j x -> (q < zn j x)%Qc) /\ i = if fill then 0 else -1).
Definition is_higher (x : list Qc) (fill : bool) (q : Qc) (i : Z) : Prop :=
  (in_range i x /\ (q <= zn i x)%Qc /\ forall j, in_range j x -> (q <= zn j x)%Qc -> i <= j)
  \/ ((forall j, in_range j x -> (zn j x < q)%Qc) /\
      i = if fill then Z.of_nat (length x) - 1 else Z.of_nat (length x)).
Definition is_closest (x : list Qc) (q : Qc) (i : Z) : Prop :=
  in_range i x /\
  forall j, in_range j x ->
    (Qc_abs (zn i x - q) < Qc_abs (zn j x - q))%Qc \/
    (Qc_abs (zn i x - q) = Qc_abs (zn j x - q) /\ i <= j).
