(** Model of /repo/src/traffic_weaver/process.py.  Definitions only.
      _piecewise_constant_interpolate (32-45), interpolate (80-87), repeat (112-120),
      trend (149-157), linear_trend (181), spline_smooth (217-219),
      noise_gauss (283-297), truncate (354-365), normalize (386-389).
    process.average is in Model/Interval.v. *)
From TW Require Export Model.Search Model.Interval.
Open Scope Qc_scope.

(** ---------- repeat ---------- *)
Fixpoint tile (l : list Qc) (r : nat) : list Qc :=
  match r with O => [] | S r' => l ++ tile l r' end.

(* one iteration of the loop: reads the already shifted x[n*i-1], x[n*i-2] *)
Definition repeat_step (n : nat) (x : list Qc) (i : nat) : list Qc :=
  let prd := nthq (n * i - 1) x - nthq 0 x + (nthq (n * i - 1) x - nthq (n * i - 2) x) in
  firstn (n * i) x ++ map (fun v => v + prd) (slice x (n * i) (n * (i + 1))) ++ skipn (n * (i + 1)) x.

Definition repeat_series (x y : list Qc) (r : nat) : list Qc * list Qc :=
  let n := length x in
  (fold_left (repeat_step n) (seq 1 (r - 1)) (tile x r), tile y r).
(* x[n*i-2] is a genuine (non-wrapping) read iff n >= 2 *)
Definition repeat_defined (x : list Qc) : bool := (2 <=? length x)%nat.

(** ---------- trend ---------- *)
Definition trend (f : Qc -> Qc) (normalized : bool) (x y : list Qc) : list Qc * list Qc :=
  let range_x := lastq x - headq x in
  (x, map2 (fun xi yi => yi + f (if normalized then xi / range_x else xi)) x y).
Definition trend_defined (normalized : bool) (x : list Qc) : bool :=
  (1 <=? length x)%nat && (negb normalized || negb (Qc_eqb (lastq x - headq x) 0)).
Definition linear_trend (a : Qc) (normalized : bool) (x y : list Qc) :=
  trend (fun v => a * v) normalized x y.

(** ---------- normalize ---------- *)
Definition normalize (a : list Qc) (lo hi : Qc) : list Qc :=
  let mn := minq a in
  let mx := maxq a in
  map (fun v => (v - mn) / (mx - mn) * (hi - lo) + lo) a.
Definition normalize_defined (a : list Qc) : bool :=
  (1 <=? length a)%nat && negb (Qc_eqb (maxq a) (minq a)).

(** ---------- truncate ---------- *)
Definition first_index (r : res (list Z)) : res Z :=
  match r with
  | Ok (i :: _) => Ok i
  | Ok [] => Raise IndexError
  | Raise e => Raise e
  end.

Definition truncate (x y : list Qc) (xl xr : Qc) (l_ratio r_ratio : bool) : res (list Qc * list Qc) :=
  let span := lastq x - headq x in
  let xl := if l_ratio then xl * span + headq x else xl in
  let xr := if r_ratio then xr * span + headq x else xr in
  if Qc_leb xr xl then Raise ValueError
  else
    let? li := first_index (find_lower x [xl] true) in
    let? ri := first_index (find_higher x [xr] true) in
    let l := Z.to_nat li in
    let r := Z.to_nat (ri + 1) in
    Ok (slice x l r, slice y l r).

(** ---------- interpolate ---------- *)
(* numpy.interp for one abscissa, xp strictly increasing *)
Fixpoint interp_in (xp fp : list Qc) (v : Qc) : Qc :=
  match xp, fp with
  | x0 :: ((x1 :: _) as xp'), f0 :: ((f1 :: _) as fp') =>
      if Qc_ltb v x1 then (f1 - f0) / (x1 - x0) * (v - x0) + f0
      else interp_in xp' fp' v
  | _, f0 :: _ => f0
  | _, [] => 0
  end.
Definition np_interp1 (xp fp : list Qc) (v : Qc) : Qc :=
  if Qc_leb v (headq xp) then headq fp else interp_in xp fp v.
Definition interp_linear (x y new_x : list Qc) : list Qc := map (np_interp1 x y) new_x.

(* _piecewise_constant_interpolate: through the 'lower' scan *)
Definition interp_constant (x y new_x : list Qc) (left : option Qc) : res (list Qc) :=
  let? idx := find_lower x new_x true in
  Ok (map2 (fun v i =>
              if Qc_leb (headq x) v then nthq (Z.to_nat i) y
              else match left with Some l => l | None => headq y end) new_x idx).

Inductive imethod := MLinear | MConstant | MCubic | MSpline | MUnknown.

(** ---------- smoothing condition ---------- *)
Definition meanq (l : list Qc) : Qc := sumq l / Qc_of_nat (length l).
Definition varq (l : list Qc) : Qc :=
  let m := meanq l in meanq (map (fun v => (v - m) * (v - m)) l).
(* the s that reaches splrep *)
Definition smoothing_s (y : list Qc) (s : option Qc) : Qc :=
  match s with Some v => v | None => Qc_of_nat (length y) * varq y end.

(** ---------- noise ---------- *)
Definition signal_power (a : list Qc) : Qc := meanq (map (fun v => v * v) a).
(* the *square* of the scale that reaches numpy.random.normal, per snr value
   (snr already converted to linear by the pow10 oracle when in dB) *)
Definition noise_var (a : list Qc) (snr_lin : Qc) : Qc := signal_power a / snr_lin.
