(** Meaning of the names the regenerated *constructors* (Gen/CtorsGlue.v) call, and of the one statement form that the
    function-level interpreter of Model/GlueFun.v has no case for: `super().__init__(args)`.

    Part A (rfa.py): `int`, `bool` (Python's truth test, made explicit by the translator), `dict()` (the empty literal),
    `__call__` (calling a value stored in an attribute).  An object is the list of its attributes, "self.attr" |-> value,
    most recently assigned first ([construct]); `super().__init__(args)` runs the regenerated body of the constructor that
    the class table designates ([super_owner]: the first class above the current one that defines `__init__`), on the
    same object ([ctor_exec]) -- it is a call of a regenerated body, not a leaf.

    Part B (weaver.py): a 2-D array value ([nd]: its shape and its row-major data), `.shape`, `getitem` (a[i] and
    a[:, k], written getitem(a, i) / getitem(a, (slice(None, None, None), k)) by the translator), a DataFrame value (its
    columns by key) with `df[key]` and `.values`, `np.loadtxt` (the content of the file is a parameter), and `Weaver(x, y)`:
    the run of the REGENERATED `__init__` (a method table, instantiated with Gen/WeaverGlue.v's, run by Model/GlueSem.v)
    on a fresh object, packaged as a value ([weaver_obj]).  A static method called through the class
    (`Weaver.from_2d_array(v)`) is the run of its regenerated body ([static_methf1]).
    Definitions only. *)
From TW Require Export Model.GlueLeaves3.
Open Scope Qc_scope.
Open Scope string_scope.

(** ---------------- Part A: constructors of the strategy classes ---------------- *)

(** bool(v) *)
Definition truthy (v : gval) : res bool :=
  match v with
  | VNoneV => Ok false
  | VBoolV b => Ok b
  | VInt z => Ok (negb (z =? 0)%Z)
  | VNum q => Ok (negb (Qc_eqb q 0))
  | VStrV s => Ok (negb (String.eqb s ""))
  | VTup l => Ok (match l with [] => false | _ => true end)
  | VClos "dict" l => Ok (match l with [] => false | _ => true end)
  | VOpaque _ | VClos _ _ | VSelfV => Ok true       (* an object without __bool__ / __len__: a function, a class, a factory *)
  | VArr _ | VMask _ | VIdxArr _ => Raise ValueError  (* the truth value of an array is ambiguous (length <= 1 is not modelled) *)
  end.

(** what can be called: a caller-supplied object, or the result of calling one *)
Definition callable (v : gval) : bool :=
  match v with VOpaque _ => true | VClos "call" _ => true | _ => false end.

Definition kw_val (ks : list (string * gval)) : gval := VTup (map (fun p => VTup [VStrV (fst p); snd p]) ks).

(** f(args, **kw) for a caller-supplied f: the application itself, uninterpreted *)
Definition call_val (f : gval) (args : list gval) (ks : list (string * gval)) : gval := VClos "call" [f; VTup args; kw_val ks].

Definition ctor_callf (fn : string) (vs : list gval) (ks : list (string * gval)) : res gval :=
  if seq_eqb fn "int" then
    match vs, ks with [v], [] => match as_num v with Some q => Ok (VInt (Qc_trunc q)) | None => Raise TypeError end | _, _ => Raise TypeError end
  else if seq_eqb fn "bool" then
    match vs, ks with [v], [] => let? b := truthy v in Ok (VBoolV b) | _, _ => Raise TypeError end
  else if seq_eqb fn "dict" then
    match vs, ks with [], [] => Ok (VClos "dict" []) | _, _ => Raise TypeError end
  else if seq_eqb fn "__call__" then
    match vs with
    | f :: args => if callable f then Ok (call_val f args ks) else Raise TypeError
    | [] => Raise TypeError
    end
  else Raise OtherExn.

Definition no_methf : gval -> string -> list gval -> res gval := fun _ _ _ => Raise AttributeError.

(** the class table: (name, (bases, methods defined in the class body)) *)
Definition class_table := list (string * (list string * list string)).

Definition defines_init (meths : list string) : bool := existsb (String.eqb "__init__") meths.

(** the class whose `__init__` runs when [c] is instantiated: [c] itself or the nearest ancestor defining one.  Single
    inheritance; a base that is not in the table (ABC) has no `__init__` of its own (object.__init__) *)
Fixpoint init_owner (fuel : nat) (ct : class_table) (c : string) : option string :=
  match fuel with
  | O => None
  | S f =>
      match assoc c ct with
      | None => None
      | Some (bases, meths) =>
          if defines_init meths then Some c
          else match bases with [b] => init_owner f ct b | _ => None end
      end
  end.

(** what `super().__init__` means inside a method of class [c] *)
Definition super_owner (fuel : nat) (ct : class_table) (c : string) : option string :=
  match assoc c ct with
  | Some ([b], _) => init_owner fuel ct b
  | _ => None
  end.

(** positional arguments bind the leading formals; too many of them (or one landing on **kwargs) is a TypeError *)
Fixpoint bind_pos (formals : list (string * option gexpr)) (vs : list gval) : res (list (string * gval)) :=
  match vs, formals with
  | [], _ => Ok []
  | v :: vs', (p, _) :: fs => if String.prefix "**" p then Raise TypeError else let? r := bind_pos fs vs' in Ok ((p, v) :: r)
  | _ :: _, [] => Raise TypeError
  end.

(** the attributes of the object under construction, as they sit in an environment *)
Definition is_self_attr (p : string * gval) : bool := String.prefix "self." (fst p).
Definition self_part (en : fenv) : fenv := filter is_self_attr en.

(** one entry per attribute: the most recent assignment *)
Fixpoint dedup (l : fenv) : fenv :=
  match l with
  | [] => []
  | (k, v) :: l' => (k, v) :: filter (fun p => negb (String.eqb k (fst p))) (dedup l')
  end.

Section CtorInterp.
Variable callf : string -> list gval -> list (string * gval) -> res gval.
Variable methf : gval -> string -> list gval -> res gval.
Variable applyf : gval -> list gval -> res gval.
Variable powf : gval -> gval -> res gval.
Variable ct : class_table.
Variable tbl : fun_table.

(** the statement `super().__init__(args)` *)
Definition super_init_args (s : gstmt) : option (list gexpr) :=
  match s with
  | SExpr (GMeth (GCall fn [] []) m args) => if seq_eqb fn "super" && seq_eqb m "__init__" then Some args else None
  | _ => None
  end.

Fixpoint fevals (en : fenv) (l : list gexpr) : res (list gval) :=
  match l with
  | [] => Ok []
  | a :: l' => let? v := feval callf methf applyf powf en a in let? r := fevals en l' in Ok (v :: r)
  end.

(** the body of a constructor of class [cls]: every statement is run by [fexec1], except `super().__init__(args)`, which
    binds the parent's formals to the argument values, runs the parent's body on the attributes stored so far and keeps
    the attributes it stored (the parent's locals are dropped).  An exception of the parent propagates. *)
Fixpoint ctor_exec (fuel : nat) (cls : string) (en : fenv) (l : list gstmt) {struct fuel} : fenv * outcome :=
  match fuel with
  | O => (en, ORaise OtherExn)
  | S f =>
      (fix go (en : fenv) (l : list gstmt) {struct l} : fenv * outcome :=
         match l with
         | [] => (en, ONormal)
         | s :: l' =>
             match super_init_args s with
             | None => let r := fexec1 callf methf applyf powf en s in match snd r with ONormal => go (fst r) l' | _ => r end
             | Some args =>
                 match fevals en args with
                 | Raise e => (en, ORaise e)
                 | Ok vs =>
                     match super_owner f ct cls with
                     | None => (en, ORaise AttributeError)
                     | Some p =>
                         match assoc (p ++ ".__init__") tbl with
                         | None => (en, ORaise AttributeError)
                         | Some (formals, body) =>
                             match (let? pos := bind_pos formals vs in fbind_params formals pos) with
                             | Raise e => (en, ORaise e)
                             | Ok ps =>
                                 let r := ctor_exec f p (ps ++ self_part en)%list body in
                                 let en' := (self_part (fst r) ++ en)%list in
                                 match snd r with
                                 | ONormal | OReturn VNoneV => go en' l'
                                 | OReturn _ => (en', ORaise TypeError)
                                 | ORaise e => (en', ORaise e)
                                 end
                             end
                         end
                     end
                 end
             end
         end) en l
  end.

(** cls(actuals): the object (its attributes, most recent first, one entry each) and how the constructor ended *)
Definition construct (fuel : nat) (cls : string) (actuals : list (string * gval)) : fenv * outcome :=
  match init_owner fuel ct cls with
  | None => ([], ORaise AttributeError)
  | Some p =>
      match assoc (p ++ ".__init__") tbl with
      | None => ([], ORaise AttributeError)
      | Some (formals, body) =>
          match fbind_params formals actuals with
          | Raise e => ([], ORaise e)
          | Ok ps =>
              let r := ctor_exec fuel p ps body in
              (dedup (self_part (fst r)),
               match snd r with ONormal | OReturn VNoneV => ONormal | OReturn _ => ORaise TypeError | ORaise e => ORaise e end)
          end
      end
  end.
End CtorInterp.

(** ---------------- Part B: the static constructors of class Weaver ---------------- *)

(** a NumPy array of any dimension: its shape and its elements in row-major order *)
Definition nd (shape : list nat) (data : list Qc) : gval :=
  VClos "ndarray" [VTup (map (fun k => VInt (Z.of_nat k)) shape); VArr data].

(** column k of an (nrows, ncols) array *)
Definition nd_column (nrows ncols k : nat) (data : list Qc) : list Qc :=
  map (fun i => nthq (i * ncols + k) data) (seq 0 nrows).

(** a DataFrame: its columns, each with its key (an integer or a string) *)
Definition key_val (k : Z + string) : gval := match k with inl z => VInt z | inr s => VStrV s end.
Definition df_val (cols : list ((Z + string) * list Qc)) : gval :=
  VClos "DataFrame" [VTup (map (fun c => VTup [key_val (fst c); VArr (snd c)]) cols)].

Definition key_eqb (a b : gval) : bool :=
  match a, b with
  | VInt x, VInt y => (x =? y)%Z
  | VStrV s, VStrV t => String.eqb s t
  | _, _ => false
  end.

(** df[key]: the first column with that key (a missing key is a KeyError, which the model's [exn] does not name) *)
Fixpoint df_lookup (cols : list gval) (key : gval) : res gval :=
  match cols with
  | [] => Raise OtherExn
  | VTup [k; VArr c] :: rest => if key_eqb k key then Ok (VClos "Series" [VArr c]) else df_lookup rest key
  | _ :: _ => Raise TypeError
  end.

(** operator.getitem(a, i) *)
Definition getitem_val (a i : gval) : res gval :=
  match a, i with
  | VClos "ndarray" [VTup sh; VArr data], VTup [VClos "slice" [VNoneV; VNoneV; VNoneV]; VInt k] =>
      match sh with
      | [VInt r; VInt c] =>
          let j := (if (k <? 0)%Z then k + c else k)%Z in
          if (j <? 0)%Z || (c <=? j)%Z then Raise IndexError
          else Ok (VArr (nd_column (Z.to_nat r) (Z.to_nat c) (Z.to_nat j) data))
      | [] | [_] => Raise IndexError          (* too many indices *)
      | _ => Raise OtherExn                    (* a[:, k] of an array of dimension > 2 is an array again: not modelled *)
      end
  | VClos "DataFrame" [VTup cols], _ => df_lookup cols i
  | VTup _, VInt _ | VArr _, VInt _ | VIdxArr _, VInt _ => index_val a i
  | _, _ => Raise TypeError
  end.

(** a Weaver object as a value: the six series and the two scale attributes *)
Definition weaver_obj (s : wstate) (xs ys : Qc) : gval :=
  VClos "Weaver" [VArr (wx s); VArr (wy s); VArr (wox s); VArr (woy s); VArr (wrx s); VArr (wry s); VNum xs; VNum ys].

Definition empty_wstate : wstate := {| wx := []; wy := []; wox := []; woy := []; wrx := []; wry := [] |}.

(** Weaver(v1, .., vk): the run of the regenerated `__init__` of the method table on a fresh object *)
Definition weaver_new (mt : method_table) (vs : list gval) (ks : list (string * gval)) : res gval :=
  match assoc "__init__" mt, ks with
  | Some (formals, _), [] =>
      let? actuals := bind_pos formals vs in
      let r := call_method mt None "__init__" actuals empty_wstate 0 0 in
      match snd r with
      | ONormal | OReturn VNoneV => Ok (weaver_obj (g_s (fst r)) (g_xs (fst r)) (g_ys (fst r)))
      | OReturn _ => Raise TypeError
      | ORaise e => Raise e
      end
  | Some _, _ :: _ => Raise OtherExn          (* construction with keyword arguments: not used by the static constructors *)
  | None, _ => Raise AttributeError
  end.

Section StaticLeaves.
Variable mt : method_table.                 (* the methods of class Weaver (Gen/WeaverGlue.v) *)
Variable loadtxt : gval -> res gval.        (* what np.loadtxt(file_name, delimiter=',', dtype=np.float64) reads *)

Definition static_callf (fn : string) (vs : list gval) (ks : list (string * gval)) : res gval :=
  if seq_eqb fn "Weaver" then weaver_new mt vs ks
  else if seq_eqb fn "getitem" then
    match vs, ks with [a; i], [] => getitem_val a i | _, _ => Raise TypeError end
  else if seq_eqb fn "slice" then
    match vs, ks with [a; b; c], [] => Ok (VClos "slice" [a; b; c]) | _, _ => Raise TypeError end
  else if seq_eqb fn "np.loadtxt" then
    match vs, ks with
    | [f], [("delimiter", VStrV ","); ("dtype", VOpaque "np.float64")] => loadtxt f
    | _, _ => Raise TypeError
    end
  else Raise OtherExn.

(** attributes: a.shape, series.values *)
Definition static_methf0 (r : gval) (m : string) (vs : list gval) : res gval :=
  match r, vs with
  | VClos "ndarray" [VTup sh; VArr _], [] => if seq_eqb m ".shape" then Ok (VTup sh) else Raise AttributeError
  | VClos "Series" [VArr c], [] => if seq_eqb m ".values" then Ok (VArr c) else Raise AttributeError
  | _, _ => Raise AttributeError
  end.

Definition outcome_val (oc : outcome) : res gval :=
  match oc with OReturn v => Ok v | ONormal => Ok VNoneV | ORaise e => Raise e end.

(** Weaver.m(args) for a static method m of the table: the run of its regenerated body (which itself calls no static
    method: depth 1 is enough for from_csv -> from_2d_array) *)
Definition static_methf1 (st : fun_table) (r : gval) (m : string) (vs : list gval) : res gval :=
  match r with
  | VOpaque "Weaver" =>
      match assoc m st with
      | Some (formals, _) =>
          let? actuals := bind_pos formals vs in
          outcome_val (call_fun static_callf static_methf0 no_apply no_pow st m actuals)
      | None => Raise AttributeError
      end
  | _ => static_methf0 r m vs
  end.

Definition static_call (st : fun_table) (m : string) (actuals : list (string * gval)) : outcome :=
  call_fun static_callf (static_methf1 st) no_apply no_pow st m actuals.
End StaticLeaves.

(** the result of a static constructor as the model reports it *)
Definition obj_outcome (r : res wstate) : outcome :=
  match r with Ok s => OReturn (weaver_obj s 1 1) | Raise e => ORaise e end.
