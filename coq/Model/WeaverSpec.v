(** Vocabulary for the statements of C08 / C09 / C20 (definitions only). *)
From TW Require Export Model.Weaver Model.MatchSpec.
Open Scope Qc_scope.

(** working series and reference series coincide *)
Definition Inv (s : wstate) : Prop := wx s = wrx s /\ wy s = wry s.

(** the transformation a domain operation denotes on one series *)
Definition pure_apply (o : op) (xy : list Qc * list Qc) : res (list Qc * list Qc) :=
  let x := fst xy in
  let y := snd xy in
  match o with
  | OAppend p => append_res x y p
  | OShiftX v => Ok (map (fun a => a + v) x, y)
  | OShiftY v => Ok (x, map (fun a => a + v) y)
  | OScaleX v => Ok (map (fun a => a * v) x, y)
  | OScaleY v => Ok (x, map (fun a => a * v) y)
  | ONormX lo hi => let? x' := normalize_res x lo hi in Ok (x', y)
  | ONormY lo hi => let? y' := normalize_res y lo hi in Ok (x, y')
  | ORepeat r => repeat_res x y r
  | OTruncVal l r lr rr => truncate x y l r lr rr
  | OTruncIdx start stop =>
      let len := Z.of_nat (length x) in
      let stop := match stop with Some v => v | None => len end in
      if (start <? 0)%Z then Raise ValueError
      else if (len <? stop)%Z then Raise ValueError
      else let? a := py_slice x start stop 1 in let? b := py_slice y start stop 1 in Ok (a, b)
  | _ => Ok xy
  end.
Fixpoint pure_run (ops : list op) (xy : list Qc * list Qc) : res (list Qc * list Qc) :=
  match ops with
  | [] => Ok xy
  | o :: ops' => let? xy' := pure_apply o xy in pure_run ops' xy'
  end.

(** well-formedness of the object: equal lengths, strictly increasing abscissae,
    for the working series and for the stored original *)
Definition WF (s : wstate) : Prop :=
  length (wx s) = length (wy s) /\ ssorted (wx s) /\ (2 <= length (wx s))%nat /\
  length (wox s) = length (woy s) /\ ssorted (wox s) /\ (2 <= length (wox s))%nat.

(** documented precondition of each operation (what "valid operation" means) *)
Definition pre (s : wstate) (o : op) : Prop :=
  match o with
  | OScaleX v => 0 < v
  | ONormX lo hi => lo < hi
  | ONormY lo hi => lo < hi
  | ORepeat r => (1 <= r)%Z
  | OTruncVal _ _ _ _ => True
  | OTruncIdx _ _ => True
  | ORecreate n _ _ _ => (2 <= n)%Z
  | ORecreateOracle n ys => (2 <= n)%Z /\ length ys = ((length (wx s) - 1) * Z.to_nat n + 1)%nat
  | OInterpN n a => (2 <= n)%Z /\ match a with IOracle ys => length ys = Z.to_nat n | IOwn _ => True end
  | OInterpGrid g a => ssorted g /\ (2 <= length g)%nat /\ match a with IOracle ys => length ys = length g | IOwn _ => True end
  | OSmooth ys => length ys = length (wy s)
  | ONoise d => length d = length (wy s)
  | _ => True
  end.

(** the result keeps at least two samples (operations that cut the series) *)
Definition keeps_two (s' : wstate) : Prop := (2 <= length (wx s'))%nat.

Definition nonempty6 (s : wstate) : Prop :=
  wx s <> [] /\ wy s <> [] /\ wox s <> [] /\ woy s <> [] /\ wrx s <> [] /\ wry s <> [].

Definition is_normalize (o : op) : bool :=
  match o with ONormX _ _ | ONormY _ _ => true | _ => false end.
Definition is_restore (o : op) : bool := match o with ORestore => true | _ => false end.
