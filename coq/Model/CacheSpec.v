(** Vocabulary for the statements of C19 (definitions only). *)
From TW Require Export Model.Cache.
Open Scope nat_scope.

Section Spec.
Variable sha : blob -> nat.
Variable parse : bool -> blob -> option data.
Variable digest_of : slot -> nat.          (* the pinned SHA-256 of each dataset's cache slot *)

(** d is the parse of some blob whose digest is the pinned one of slot s *)
Definition verified (s : slot) (d : data) : Prop :=
  exists gz b, sha b = digest_of s /\ parse gz b = Some d.

(** cache invariant: every cache entry is absent or a complete copy of verified data *)
Definition CacheInv (f : fsys) : Prop := forall s d, cache f s = Some d -> verified s d.

(** a process that validates against the pinned digest of its own slot *)
Definition honest (r : remote) (fl : flags) : Prop :=
  r_digest r = digest_of (r_slot r) /\ validate_checksum fl = true.

(** what a process may hold in its hands at each step boundary *)
Definition pc_ok (r : remote) (fl : flags) (p : pc) : Prop :=
  match p with
  | PVerified b => sha b = digest_of (r_slot r)
  | PParsed d | PDumped d | PRenamed d => verified (r_slot r) d
  | PDone (Ok d) => verified (r_slot r) d
  | _ => True
  end.
Definition proc_ok (p : option proc) : Prop :=
  match p with
  | None => True
  | Some q => honest (p_remote q) (p_flags q) /\ pc_ok (p_remote q) (p_flags q) (p_pc q)
  end.
Definition GInv (g : gstate) : Prop := CacheInv (fst g) /\ Forall proc_ok (snd g).

Definition fresh (r : remote) (fl : flags) : option proc := Some {| p_remote := r; p_flags := fl; p_pc := PStart |}.
Definition default_flags (gz : bool) (n : nat) : flags :=
  {| download_if_missing := true; download_even_if_available := false; validate_checksum := true; gzip := gz; n_retries := n |}.

Definition fails (k : nat) : list event := repeat ENetFail k.
End Spec.
