(** Model of /repo/src/traffic_weaver/interval.py (IntervalArray) and of
    process.average (process.py lines 319-321).  Definitions only. *)
From TW Require Export Model.SortedUtils.
Open Scope Qc_scope.

Record iarr := { arr : list Qc; isize : nat }.

(** Python indexing a[i] with an integer that may be negative *)
Definition py_index (len : nat) (i : Z) : option nat :=
  let l := Z.of_nat len in
  if (0 <=? i)%Z && (i <? l)%Z then Some (Z.to_nat i)
  else if (i <? 0)%Z && (0 <=? i + l)%Z then Some (Z.to_nat (i + l))
  else None.

Inductive ikey := KInt (i : Z) | KPair (i j : Z) | KOther.

Definition flat_index (a : iarr) (k : ikey) : res Z :=
  match k with
  | KInt i => Ok i
  | KPair i j => Ok (i * Z.of_nat (isize a) + j)%Z
  | KOther => Raise IndexError
  end.

Definition iget (a : iarr) (k : ikey) : res Qc :=
  let? f := flat_index a k in
  match py_index (length (arr a)) f with
  | Some p => Ok (nthq p (arr a))
  | None => Raise IndexError
  end.

Fixpoint set_nth (l : list Qc) (p : nat) (v : Qc) : list Qc :=
  match l, p with
  | [], _ => []
  | _ :: l', O => v :: l'
  | a :: l', S p' => a :: set_nth l' p' v
  end.

Definition iset (a : iarr) (k : ikey) (v : Qc) : res iarr :=
  let? f := flat_index a k in
  match py_index (length (arr a)) f with
  | Some p => Ok {| arr := set_nth (arr a) p v; isize := isize a |}
  | None => Raise IndexError
  end.

Definition nr_of_full_intervals (a : iarr) : nat := length (arr a) / isize a.

(** to_2d_array: rows of n cells, the last one padded with NaN (None) *)
Fixpoint pad_row (l : list Qc) (n : nat) : list (option Qc) :=
  match n with
  | O => []
  | S n' => match l with
            | [] => None :: pad_row [] n'
            | a :: l' => Some a :: pad_row l' n'
            end
  end.
(* fuel = number of rows *)
Fixpoint rows_go (l : list Qc) (n : nat) (rows : nat) : list (list (option Qc)) :=
  match rows with
  | O => []
  | S r => pad_row l n :: rows_go (skipn n l) n r
  end.
Definition nrows (len n : nat) : nat := (len / n + (if (len mod n =? 0)%nat then 0 else 1))%nat.
Definition to_2d_array (a : iarr) : list (list (option Qc)) :=
  rows_go (arr a) (isize a) (nrows (length (arr a)) (isize a)).

(** to_2d_array_closed_intervals: every row gets the first cell of the next
    row appended (NaN for the last row); the last row is dropped on request *)
Fixpoint close_rows (rows : list (list (option Qc))) : list (list (option Qc)) :=
  match rows with
  | [] => []
  | r :: rows' =>
      (r ++ [match rows' with
             | (c :: _) :: _ => c
             | _ => None
             end]) :: close_rows rows'
  end.
Definition to_2d_closed (a : iarr) (drop_last : bool) : list (list (option Qc)) :=
  let r := close_rows (to_2d_array a) in
  if drop_last then removelast r else r.

Definition ioversample_linspace (a : iarr) (num : nat) : iarr :=
  {| arr := oversample_linspace (arr a) num; isize := isize a * num |}.
Definition ioversample_pc (a : iarr) (num : nat) : iarr :=
  {| arr := oversample_pc (arr a) num; isize := isize a * num |}.
Definition iextend_linspace (a : iarr) (d : direction) : iarr :=
  {| arr := extend_linspace (arr a) (isize a) d None None; isize := isize a |}.
Definition iextend_constant (a : iarr) (d : direction) : iarr :=
  {| arr := extend_constant (arr a) (isize a) d; isize := isize a |}.

(** np.nanmean of one row; a row of only padding cannot occur (every row holds
    at least one element); modelled as 0/0 = 0 with defined-flag false *)
Fixpoint row_sum (r : list (option Qc)) : Qc :=
  match r with [] => 0 | Some v :: r' => v + row_sum r' | None :: r' => row_sum r' end.
Fixpoint row_cnt (r : list (option Qc)) : nat :=
  match r with [] => O | Some _ :: r' => S (row_cnt r') | None :: r' => row_cnt r' end.
Definition nanmean (r : list (option Qc)) : Qc := row_sum r / Qc_of_nat (row_cnt r).
Definition row_first (r : list (option Qc)) : Qc :=
  match r with Some v :: _ => v | _ => 0 end.

(** process.average *)
Definition average (x y : list Qc) (interval : nat) : list Qc * list Qc :=
  (map row_first (to_2d_array {| arr := x; isize := interval |}),
   map nanmean (to_2d_array {| arr := y; isize := interval |})).
