(** What the names called by the regenerated bodies of match.py, process.py and sorted_array_utils.py mean:
    the model's own functions (Model/{Search,SortedUtils,Process,Match}.v) and the NumPy primitives those models
    already rely on (unique, take, isin/where, tile, append, diff, min/max).  With these leaves the interpreter of
    Model/GlueFun.v runs the regenerated bodies; the theorems of Proofs/GlueFunProofs.v say that the result is the
    hand-written model of the same function.  Definitions only. *)
From TW Require Export Model.GlueFun.
Open Scope Qc_scope.
Open Scope string_scope.

Definition strategy_of (s : string) : strategy :=
  if seq_eqb s "closest" then Closest else if seq_eqb s "lower" then Lower else if seq_eqb s "higher" then Higher else UnknownStrategy.
Definition strategy_name (s : strategy) : string :=
  match s with Closest => "closest" | Lower => "lower" | Higher => "higher" | UnknownStrategy => "nearest" end.
Definition rule_of_name (s : string) : rule :=
  if seq_eqb s "trapezoid" then Trapezoid else if seq_eqb s "rectangle" then Rectangle else UnknownRule.
Definition rule_name (r : rule) : string :=
  match r with Trapezoid => "trapezoid" | Rectangle => "rectangle" | UnknownRule => "simpson" end.

Definition nats (l : list Z) : list nat := map Z.to_nat l.
Definition ints (l : list nat) : list Z := map Z.of_nat l.

Definition no_apply : gval -> list gval -> res gval := fun _ _ => Raise OtherExn.
Definition no_pow : gval -> gval -> res gval := fun _ _ => Raise OtherExn.

(** recv.m(args) on arrays: take, min, max *)
Definition array_methf (r : gval) (m : string) (vs : list gval) : res gval :=
  match r, vs with
  | VArr l, [VIdxArr idx] => if seq_eqb m "take" then Ok (VArr (take l idx)) else Raise AttributeError
  | VArr l, [] =>
      if seq_eqb m "min" then (match l with [] => Raise ValueError | _ => Ok (VNum (minq l)) end)
      else if seq_eqb m "max" then (match l with [] => Raise ValueError | _ => Ok (VNum (maxq l)) end)
      else if seq_eqb m "copy" then Ok r
      else Raise AttributeError
  | _, _ => Raise AttributeError
  end.

(** NumPy primitives shared by the modules *)
Definition numpy_callf (fn : string) (vs : list gval) (ks : list (string * gval)) : option (res gval) :=
  if seq_eqb fn "np.unique" then
    Some match vs, ks with
         | [VArr l], [] => Ok (VArr (unique l))
         | [VIdxArr l], [] => Ok (VIdxArr (ints (nunique (nats l))))
         | _, _ => Raise TypeError
         end
  else if seq_eqb fn "np.arange" then
    Some match vs, ks with [VInt n], [] => Ok (VIdxArr (range_list 0 n)) | _, _ => Raise TypeError end
  else if seq_eqb fn "np.isin" then
    Some match vs, ks with [VArr a; VArr s], [] => Ok (VMask (map (fun v => memq v s) a)) | _, _ => Raise TypeError end
  else if seq_eqb fn "np.where" then
    Some match vs, ks with [VMask m], [] => Ok (VTup [VIdxArr (where_true m 0%Z)]) | _, _ => Raise TypeError end
  else if seq_eqb fn "np.tile" then
    Some match vs, ks with
         | [VArr l; VInt r], [] => if (r <? 0)%Z then Raise ValueError else Ok (VArr (tile l (Z.to_nat r)))
         | _, _ => Raise TypeError
         end
  else if seq_eqb fn "np.append" then
    Some match vs, ks with
         | [VArr l; v], [] => match as_num v with Some q => Ok (VArr (l ++ [q])) | None => Raise TypeError end
         | _, _ => Raise TypeError
         end
  else if seq_eqb fn "np.diff" then
    Some match vs, ks with [VArr l], [] => Ok (VArr (diffs l)) | _, _ => Raise TypeError end
  else if seq_eqb fn "warnings.warn" then Some (Ok VNoneV)
  else None.

(** ---------- match.py ---------- *)
Section MatchLeaves.
Variable pw : Qc -> Qc.       (* t |-> t ** alpha for the alpha the caller passed (the parameter value is opaque) *)

Definition match_callf (fn : string) (vs : list gval) (ks : list (string * gval)) : res gval :=
  match numpy_callf fn vs ks with
  | Some r => r
  | None =>
  if seq_eqb fn "find_closest_element_indices_to_values" then
    match vs, ks with
    | [VArr x; VArr lk], [("strategy", VStrV s)] => let? r := find_indices x lk (strategy_of s) true in Ok (VIdxArr r)
    | _, _ => Raise TypeError
    end
  else if seq_eqb fn "integral" then
    match vs, ks with
    | [VArr x; VArr y; VStrV m], [] => let? r := integral x y (rule_of_name m) in Ok (VArr r)
    | _, _ => Raise TypeError
    end
  else if seq_eqb fn "sum_over_indices" then
    match vs, ks with
    | [VArr a; VIdxArr idx], [] => Ok (VArr (sum_over_indices a (nats idx)))
    | _, _ => Raise TypeError
    end
  else if seq_eqb fn "_interval_integral_matching_stretch" then
    match vs, length ks, assoc "integral_values" ks, assoc "integral_method" ks, assoc "fixed_points_indices_in_x" ks, assoc "alpha" ks with
    | [VArr x; VArr y], 4%nat, Some (VArr t), Some (VStrV m), Some (VIdxArr fi), Some (VOpaque "alpha") =>
        let? r := interval_match pw (rule_of_name m) x y t (nats fi) in Ok (VArr r)
    | _, _, _, _, _, _ => Raise TypeError
    end
  else if seq_eqb fn "_integral_matching_stretch" then
    match vs, length ks, assoc "integral_value" ks, assoc "integral_method" ks, assoc "alpha" ks with
    | [VArr x; VArr y], 3%nat, Some t, Some (VStrV m), Some (VOpaque "alpha") =>
        match as_num t with
        | Some t => let? r := stretch_res pw (rule_of_name m) x y t in Ok (VArr r)
        | None => Raise TypeError
        end
    | _, _, _, _, _ => Raise TypeError
    end
  else Raise OtherExn
  end.
End MatchLeaves.

(** how the model's fixed-point mode is passed to integral_matching_reference_stretch *)
Definition mode_args (m : fixed_mode) : list (string * gval) :=
  match m with
  | ByStrategy s => [("fixed_points_finding_strategy", VStrV (strategy_name s))]
  | ByValues v => [("fixed_points_in_x", VArr v)]
  | ByIndices i => [("fixed_points_indices_in_x", VIdxArr (ints i))]
  end.

(** ---------- process.py ---------- *)
Section ProcessLeaves.
Variable f : Qc -> Qc.        (* the caller's trend function *)

Definition process_callf (fn : string) (vs : list gval) (ks : list (string * gval)) : res gval :=
  match numpy_callf fn vs ks with
  | Some r => r
  | None =>
  if seq_eqb fn "fun" then
    match vs, ks with [v], [] => match as_num v with Some q => Ok (VNum (f q)) | None => Raise TypeError end | _, _ => Raise TypeError end
  else if seq_eqb fn "find_closest_lower_equal_element_indices_to_values" then
    match vs, ks with
    | [VArr x; lk], [("fill_not_valid", VBoolV fill)] =>
        match vals_of lk with
        | Some l => match nums_of l with Some q => let? r := find_lower x q fill in Ok (VIdxArr r) | None => Raise TypeError end
        | None => Raise TypeError
        end
    | _, _ => Raise TypeError
    end
  else if seq_eqb fn "find_closest_higher_equal_element_indices_to_values" then
    match vs, ks with
    | [VArr x; lk], [("fill_not_valid", VBoolV fill)] =>
        match vals_of lk with
        | Some l => match nums_of l with Some q => let? r := find_higher x q fill in Ok (VIdxArr r) | None => Raise TypeError end
        | None => Raise TypeError
        end
    | _, _ => Raise TypeError
    end
  else if seq_eqb fn "np.interp" then
    match vs, ks with
    | [VArr nx; VArr x; VArr y], [("**", VOpaque "kwargs")] => Ok (VArr (interp_linear x y nx))
    | _, _ => Raise TypeError
    end
  else if seq_eqb fn "_piecewise_constant_interpolate" then
    match vs, ks with
    | [VArr x; VArr y; VArr nx], [("**", VOpaque "kwargs")] => let? r := interp_constant x y nx None in Ok (VArr r)
    | _, _ => Raise TypeError
    end
  else Raise OtherExn
  end.
End ProcessLeaves.

(** ---------- sorted_array_utils.py ---------- *)
Definition utils_callf (fn : string) (vs : list gval) (ks : list (string * gval)) : res gval :=
  match numpy_callf fn vs ks with
  | Some r => r
  | None =>
  if seq_eqb fn "trapezoid_integral" then
    match vs, ks with [VArr x; VArr y], [] => Ok (VArr (trapezoid_integral x y)) | _, _ => Raise TypeError end
  else if seq_eqb fn "rectangle_integral" then
    match vs, ks with [VArr x; VArr y], [] => Ok (VArr (rectangle_integral x y)) | _, _ => Raise TypeError end
  else if seq_eqb fn "find_closest_lower_or_higher_element_indices_to_values" then
    match vs, ks with [VArr x; VArr lk], [] => let? r := find_closest x lk in Ok (VIdxArr r) | _, _ => Raise TypeError end
  else if seq_eqb fn "find_closest_lower_equal_element_indices_to_values" then
    match vs, ks with [VArr x; VArr lk; VBoolV fill], [] => let? r := find_lower x lk fill in Ok (VIdxArr r) | _, _ => Raise TypeError end
  else if seq_eqb fn "find_closest_higher_equal_element_indices_to_values" then
    match vs, ks with [VArr x; VArr lk; VBoolV fill], [] => let? r := find_higher x lk fill in Ok (VIdxArr r) | _, _ => Raise TypeError end
  else Raise OtherExn
  end.

(** ---------- rfa.py: the rfa() methods ---------- *)
Section RfaLeaves.
Variable pw : Qc -> Qc.        (* t |-> t ** exp *)
Variable gpow : Qc -> Qc.      (* g |-> g ** adaptive_smooth *)
Variable sf : Qc -> Qc.        (* the sampling function a FunctionRFA was given *)
Variables (sx sy : list Qc) (sn : nat).     (* self.x, self.y, self.n *)

Definition ext_of (lx ly : list Qc) (n : Z) : ext :=
  {| xe := lx; ye := ly; en := n; nfull := Z.of_nat (length lx / Z.to_nat n) |}.

Definition pt (v : gval) : option (Qc * Qc) :=
  match v with VTup [a; b] => match as_num a, as_num b with Some p, Some q => Some (p, q) | _, _ => None end | _ => None end.

Definition rfa_callf (fn : string) (vs : list gval) (ks : list (string * gval)) : res gval :=
  if seq_eqb fn "IntervalArray" then
    match vs, ks with [VArr l; VInt n], [] => Ok (ivl l n) | _, _ => Raise TypeError end
  else if seq_eqb fn ".extend_linspace!" then
    match vs, ks with
    | [VClos "ivl" [VArr l; VInt n]], [("direction", VStrV "both")] => Ok (ivl (extend_linspace l (Z.to_nat n) Both None None) n)
    | _, _ => Raise TypeError
    end
  else if seq_eqb fn ".extend_constant!" then
    match vs, ks with
    | [VClos "ivl" [VArr l; VInt n]], [("direction", VStrV "both")] => Ok (ivl (extend_constant l (Z.to_nat n) Both) n)
    | _, _ => Raise TypeError
    end
  else if seq_eqb fn "np.array" then
    match vs, ks with
    | [VArr l], [("copy", VBoolV true)] => Ok (VArr l)
    | [VTup l], [("dtype", VOpaque "float")] => match nums_of l with Some q => Ok (VArr q) | None => Raise TypeError end
    | _, _ => Raise TypeError
    end
  else if seq_eqb fn "lin_fit" then
    match vs, ks with
    | [x; p0; p1], [] =>
        match as_num x, pt p0, pt p1 with
        | Some x, Some (x0, y0), Some (x1, y1) => Ok (VNum (lin_fit x x0 y0 x1 y1))
        | _, _, _ => Raise TypeError
        end
    | _, _ => Raise TypeError
    end
  else if seq_eqb fn "lin_exp_xy_fit" then
    match vs, ks with
    | [x; p0; p1], [("alpha", VOpaque "exp")] =>
        match as_num x, pt p0, pt p1 with
        | Some x, Some (x0, y0), Some (x1, y1) => Ok (VNum (lin_exp_xy_fit pw x x0 y0 x1 y1))
        | _, _, _ => Raise TypeError
        end
    | _, _ => Raise TypeError
    end
  else if seq_eqb fn "exp_lin_fit" then
    match vs, ks with
    | [x; p0; p1], [("alpha", VOpaque "exp")] =>
        match as_num x, pt p0, pt p1 with
        | Some x, Some (x0, y0), Some (x1, y1) => Ok (VNum (exp_lin_fit pw x x0 y0 x1 y1))
        | _, _, _ => Raise TypeError
        end
    | _, _ => Raise TypeError
    end
  else if seq_eqb fn "oversample_linspace" then
    match vs, ks with
    | [VArr a], [("num", VInt n)] => Ok (VArr (oversample_linspace a (Z.to_nat n)))
    | _, _ => Raise TypeError
    end
  else if seq_eqb fn "oversample_piecewise_constant" then
    match vs, ks with
    | [VArr a], [("num", VInt n)] => Ok (VArr (oversample_pc a (Z.to_nat n)))
    | _, _ => Raise TypeError
    end
  else if seq_eqb fn "int" then
    match vs, ks with [v], [] => match as_num v with Some q => Ok (VInt (Qc_trunc q)) | None => Raise TypeError end | _, _ => Raise TypeError end
  else if seq_eqb fn "function" then
    match vs, ks with [v], [] => match as_num v with Some q => Ok (VNum (sf q)) | None => Raise TypeError end | _, _ => Raise TypeError end
  else Raise OtherExn.

Definition adaptive_points (vs : list gval) : res gval :=
  match vs with
  | [VClos "ivl" [VArr lx; VInt n]; VClos "ivl" [VArr ly; VInt n']; VInt a; VOpaque "adaptive_smooth"] =>
      if (n =? n')%Z then
        let w := adaptive_windows gpow (ext_of lx ly n) a in
        Ok (VTup [VIdxArr (fst w); VIdxArr (snd w); VOpaque "gammas"])
      else Raise TypeError
  | _ => Raise TypeError
  end.

Definition rfa_methf (r : gval) (m : string) (vs : list gval) : res gval :=
  match r with
  | VOpaque "self" =>
      if seq_eqb m "_initial_oversample" then
        match vs with [] => Ok (VTup [VArr (oversample_linspace sx sn); VArr (oversample_pc sy sn)]) | _ => Raise TypeError end
      else if seq_eqb m "_initial_x_oversample" then
        match vs with [] => Ok (VArr (oversample_linspace sx sn)) | _ => Raise TypeError end
      else if seq_eqb m "_initial_y_oversample" then
        match vs with [] => Ok (VArr (oversample_pc sy sn)) | _ => Raise TypeError end
      else if seq_eqb m "_get_sampling_function" then
        match vs with [] => Ok (VOpaque "function") | _ => Raise TypeError end
      else if seq_eqb m "get_adaptive_transition_points" then adaptive_points vs
      else Raise AttributeError
  | VOpaque "LinearAdaptiveRFA" =>
      if seq_eqb m "get_adaptive_transition_points" then adaptive_points vs else Raise AttributeError
  | VClos "ivl" [VArr l; VInt n] =>
      match vs with
      | [] => if seq_eqb m "nr_of_full_intervals" then Ok (VInt (Z.of_nat (length l / Z.to_nat n)))
              else if seq_eqb m ".array" then Ok (VArr l)
              else Raise AttributeError
      | _ => Raise AttributeError
      end
  | _ => array_methf r m vs
  end.

(** the attributes the constructors store (window sizes as computed by the constructor kernels, Gen/Kernels.v) *)
Definition rfa_attrs (a a_l b : Z) (beta : Qc) : list (string * gval) :=
  [("self.x", VArr sx); ("self.y", VArr sy); ("self.n", VInt (Z.of_nat sn));
   ("self.a", VInt a); ("self.a_l", VInt a_l); ("self.a_r", VInt a_l); ("self.b", VInt b);
   ("self.beta", VNum beta); ("self.exp", VOpaque "exp"); ("self.adaptive_smooth", VOpaque "adaptive_smooth")].
End RfaLeaves.
