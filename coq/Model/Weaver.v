(** Model of /repo/src/traffic_weaver/weaver.py (class Weaver) as a state machine.
    State: the six series fields.  Every operation is written statement by
    statement in the order of the Python source, so that an exception raised by
    a later statement leaves the earlier assignments in place (the pair
    [wstate * res unit] is the state after the call and its outcome).
    External libraries (SciPy splines, FITPACK, NumPy's generator) enter as
    recorded oracle answers carried by the operation (DESIGN 3.4).
    All six fields are NumPy arrays in the modelled code (after the repairs
    D2/D3 every assignment stores an ndarray), so the container kind is not part
    of the state; the correspondence run observes it on the implementation.
    Definitions only. *)
From TW Require Export Model.Match Model.Rfa.
Open Scope Qc_scope.

Record wstate := {
  wx : list Qc; wy : list Qc;        (* working series *)
  wox : list Qc; woy : list Qc;      (* original *)
  wrx : list Qc; wry : list Qc       (* reference *)
}.

Definition set_xy (s : wstate) (x y : list Qc) : wstate :=
  {| wx := x; wy := y; wox := wox s; woy := woy s; wrx := wrx s; wry := wry s |}.
Definition set_x (s : wstate) (x : list Qc) : wstate := set_xy s x (wy s).
Definition set_y (s : wstate) (y : list Qc) : wstate := set_xy s (wx s) y.
Definition set_rxy (s : wstate) (x y : list Qc) : wstate :=
  {| wx := wx s; wy := wy s; wox := wox s; woy := woy s; wrx := x; wry := y |}.
Definition set_rx (s : wstate) (x : list Qc) : wstate := set_rxy s x (wry s).
Definition set_ry (s : wstate) (y : list Qc) : wstate := set_rxy s (wrx s) y.
Definition set_ox (s : wstate) (x : list Qc) : wstate :=
  {| wx := wx s; wy := wy s; wox := x; woy := woy s; wrx := wrx s; wry := wry s |}.
Definition set_oy (s : wstate) (y : list Qc) : wstate :=
  {| wx := wx s; wy := wy s; wox := wox s; woy := y; wrx := wrx s; wry := wry s |}.

(** Weaver(x, y)  (lines 64-79); x = None -> arange(len(y)) *)
Definition init (x : option (list Qc)) (y : list Qc) : res wstate :=
  match x with
  | Some x =>
      if (length x =? length y)%nat
      then Ok {| wx := x; wy := y; wox := x; woy := y; wrx := x; wry := y |}
      else Raise ValueError
  | None =>
      let x := map Qc_of_nat (seq 0 (length y)) in
      Ok {| wx := x; wy := y; wox := x; woy := y; wrx := x; wry := y |}
  end.
(** from_2d_array: shape must be (N, 2) *)
Definition from_2d (ndim ncols : nat) (x y : list Qc) : res wstate :=
  if (ndim =? 2)%nat && (ncols =? 2)%nat then init (Some x) y else Raise ValueError.

(** ---------- helpers with their Python exceptions ---------- *)
Definition append_res (x y : list Qc) (p : bool) : res (list Qc * list Qc) :=
  if (length x <? 2)%nat || (length y <? 1)%nat then Raise IndexError
  else Ok (append_one_sample x y p).

Definition normalize_res (a : list Qc) (lo hi : Qc) : res (list Qc) :=
  match a with
  | [] => Raise ValueError
  | _ => if normalize_defined a then Ok (normalize a lo hi) else Raise NonFinite
  end.

Definition repeat_res (x y : list Qc) (r : Z) : res (list Qc * list Qc) :=
  if (r <? 0)%Z then Raise ValueError
  else Ok (repeat_series x y (Z.to_nat r)).

(** Python slice semantics a[start:stop:step] for explicit integers *)
Definition clampZ (v lo hi : Z) : Z := Z.max lo (Z.min v hi).
Fixpoint take_stride (l : list Qc) (pos : Z) (step : Z) (stop : Z) (fuel : nat) : list Qc :=
  match fuel with
  | O => []
  | S f =>
      if (0 <? step)%Z then
        if (pos <? stop)%Z then nthq (Z.to_nat pos) l :: take_stride l (pos + step) step stop f else []
      else
        if (stop <? pos)%Z then nthq (Z.to_nat pos) l :: take_stride l (pos + step) step stop f else []
  end.
Definition py_slice (l : list Qc) (start stop step : Z) : res (list Qc) :=
  let len := Z.of_nat (length l) in
  if (step =? 0)%Z then Raise ValueError
  else if (0 <? step)%Z then
    let a := clampZ (if (start <? 0)%Z then start + len else start) 0 len in
    let b := clampZ (if (stop <? 0)%Z then stop + len else stop) 0 len in
    Ok (take_stride l a step b (length l))
  else
    let a := clampZ (if (start <? 0)%Z then start + len else start) (-1) (len - 1) in
    let b := clampZ (if (stop <? 0)%Z then stop + len else stop) (-1) (len - 1) in
    Ok (take_stride l a step b (length l)).

(** ---------- queries ---------- *)
Definition slice_by_index (s : wstate) (start : Z) (stop : option Z) (step : Z) : res (list Qc * list Qc) :=
  let stop := match stop with Some v => v | None => Z.of_nat (length (wx s)) end in
  if (start <? 0)%Z then Raise ValueError
  else if (Z.of_nat (length (wx s)) <? stop)%Z then Raise ValueError
  else
    let? xs := py_slice (wx s) start stop step in
    let? ys := py_slice (wy s) start stop step in
    Ok (xs, ys).

Fixpoint index_of (v : Qc) (l : list Qc) (i : nat) : option nat :=
  match l with
  | [] => None
  | a :: l' => if Qc_eqb a v then Some i else index_of v l' (S i)
  end.
(** slice_by_value after the repair of D6: a value that is not a sample -> ValueError *)
Definition slice_by_value (s : wstate) (start stop : option Qc) (step : Z) : res (list Qc * list Qc) :=
  let? a := match start with
            | None => Ok 0%Z
            | Some v => match index_of v (wx s) 0 with Some i => Ok (Z.of_nat i) | None => Raise ValueError end
            end in
  let? b := match stop with
            | None => Ok (Z.of_nat (length (wx s)))
            | Some v => match index_of v (wx s) 0 with Some i => Ok (Z.of_nat i + 1)%Z | None => Raise ValueError end
            end in
  slice_by_index s a (Some b) step.

(** ---------- operations ---------- *)
Inductive interp_answer :=
| IOwn (m : imethod)                 (* linear / constant / unknown: computed by the model *)
| IOracle (ys : list Qc).            (* cubic / spline: what SciPy returned for the call *)

Inductive op :=
| OAppend (periodic : bool)
| OShiftX (v : Qc) | OShiftY (v : Qc) | OScaleX (v : Qc) | OScaleY (v : Qc)
| ONormX (lo hi : Qc) | ONormY (lo hi : Qc)
| ORepeat (r : Z)
| OTruncVal (l r : Qc) (lr rr : bool)
| OTruncIdx (start : Z) (stop : option Z)
| ORecreate (n : Z) (pw gpow : Qc -> Qc) (k : rfa_kind)
| ORecreateOracle (n : Z) (ys : list Qc)            (* cubic spline strategy: recorded values *)
| OMatch (pw : Qc -> Qc) (m : fixed_mode) (rt rr : rule)
| OInterpN (n : Z) (a : interp_answer)
| OInterpGrid (g : list Qc) (a : interp_answer)
| OInterpNone (a : interp_answer)                   (* neither n nor new_x *)
| OTrend (f : Qc -> Qc) (normalized : bool)
| OSmooth (ys : list Qc)                            (* FITPACK answer evaluated at x *)
| ONoise (draw : list Qc)
| ORestore.

Definition interp_eval (x y new_x : list Qc) (a : interp_answer) : res (list Qc) :=
  match a with
  | IOwn MLinear => Ok (interp_linear x y new_x)
  | IOwn MConstant => interp_constant x y new_x None
  | IOwn _ => Raise ValueError                  (* after the repair of D7 *)
  | IOracle ys => Ok ys
  end.

Definition fail (s : wstate) (e : exn) : wstate * res unit := (s, Raise e).
Definition done (s : wstate) : wstate * res unit := (s, Ok tt).

Definition step (s : wstate) (o : op) : wstate * res unit :=
  match o with
  | OAppend p =>
      match append_res (wx s) (wy s) p with
      | Raise e => fail s e
      | Ok xy =>
          let s1 := set_xy s (fst xy) (snd xy) in
          match append_res (wrx s1) (wry s1) p with
          | Raise e => fail s1 e
          | Ok r => done (set_rxy s1 (fst r) (snd r))
          end
      end
  | OShiftX v => done (set_rx (set_x s (map (fun a => a + v) (wx s))) (map (fun a => a + v) (wrx s)))
  | OShiftY v => done (set_ry (set_y s (map (fun a => a + v) (wy s))) (map (fun a => a + v) (wry s)))
  | OScaleX v => done (set_rx (set_x s (map (fun a => a * v) (wx s))) (map (fun a => a * v) (wrx s)))
  | OScaleY v => done (set_ry (set_y s (map (fun a => a * v) (wy s))) (map (fun a => a * v) (wry s)))
  | ONormX lo hi =>
      match normalize_res (wx s) lo hi with
      | Raise e => fail s e
      | Ok x' =>
          let s1 := set_x s x' in
          match normalize_res (wox s1) lo hi with
          | Raise e => fail s1 e
          | Ok ox' =>
              let s2 := set_ox s1 ox' in
              match normalize_res (wrx s2) lo hi with
              | Raise e => fail s2 e
              | Ok rx' => done (set_rx s2 rx')
              end
          end
      end
  | ONormY lo hi =>
      match normalize_res (wy s) lo hi with
      | Raise e => fail s e
      | Ok y' =>
          let s1 := set_y s y' in
          match normalize_res (woy s1) lo hi with
          | Raise e => fail s1 e
          | Ok oy' =>
              let s2 := set_oy s1 oy' in
              match normalize_res (wry s2) lo hi with
              | Raise e => fail s2 e
              | Ok ry' => done (set_ry s2 ry')
              end
          end
      end
  | ORepeat r =>
      match repeat_res (wx s) (wy s) r with
      | Raise e => fail s e
      | Ok xy =>
          let s1 := set_xy s (fst xy) (snd xy) in
          match repeat_res (wrx s1) (wry s1) r with
          | Raise e => fail s1 e
          | Ok rr => done (set_rxy s1 (fst rr) (snd rr))
          end
      end
  | OTruncVal l r lr rr =>
      (* after the repair of D10: both cuts are computed before either is assigned *)
      match truncate (wx s) (wy s) l r lr rr with
      | Raise e => fail s e
      | Ok xy =>
          match truncate (wrx s) (wry s) l r lr rr with
          | Raise e => fail s e
          | Ok r2 => done (set_rxy (set_xy s (fst xy) (snd xy)) (fst r2) (snd r2))
          end
      end
  | OTruncIdx start stop =>
      let len := Z.of_nat (length (wx s)) in
      let stop := match stop with Some v => v | None => len end in
      if (start <? 0)%Z then fail s ValueError
      else if (len <? stop)%Z then fail s ValueError
      else
        match py_slice (wx s) start stop 1, py_slice (wy s) start stop 1,
              py_slice (wrx s) start stop 1, py_slice (wry s) start stop 1 with
        | Ok a, Ok b, Ok c, Ok d => done (set_rxy (set_xy s a b) c d)
        | _, _, _, _ => fail s ValueError
        end
  | ORecreate n pw gpow k =>
      match rfa pw gpow k (wx s) (wy s) n with
      | Raise e => fail s e
      | Ok xy => done (set_xy s (fst xy) (snd xy))
      end
  | ORecreateOracle n ys =>
      if (n <? 2)%Z then fail s ValueError
      else done (set_xy s (oversample_linspace (wx s) (Z.to_nat n)) ys)
  | OMatch pw m rt rr =>
      match match_ref pw (wx s) (wy s) (wrx s) (wry s) m rt rr with
      | Raise e => fail s e
      | Ok y' => done (set_y s y')
      end
  | OInterpNone _ => fail s ValueError
  | OInterpN n a =>
      let new_x := linspace (headq (wx s)) (lastq (wx s)) (Z.to_nat n) in
      match interp_eval (wx s) (wy s) new_x a with
      | Raise e => fail s e
      | Ok y' => done (set_xy s new_x y')
      end
  | OInterpGrid g a =>
      if negb (Qc_eqb (headq g) (headq (wx s))) || negb (Qc_eqb (lastq g) (lastq (wx s))) then fail s ValueError
      else
        match interp_eval (wx s) (wy s) g a with
        | Raise e => fail s e
        | Ok y' => done (set_xy s g y')
        end
  | OTrend f nrm =>
      let r := trend f nrm (wx s) (wy s) in
      if trend_defined nrm (wx s) then done (set_xy s (fst r) (snd r)) else fail s NonFinite
  | OSmooth ys => done (set_y s ys)
  | ONoise draw => done (set_y s (map2 Qcplus (wy s) draw))
  | ORestore =>
      (* after the repair of D5: the reference is restored as well *)
      done {| wx := wox s; wy := woy s; wox := wox s; woy := woy s; wrx := wox s; wry := woy s |}
  end.

(** run a program; stops at the first exception *)
Fixpoint run (s : wstate) (ops : list op) : wstate * res unit :=
  match ops with
  | [] => (s, Ok tt)
  | o :: ops' =>
      match step s o with
      | (s', Ok _) => run s' ops'
      | r => r
      end
  end.

(** the ten domain operations of C08 *)
Definition is_domain (o : op) : bool :=
  match o with
  | OAppend _ | OShiftX _ | OShiftY _ | OScaleX _ | OScaleY _ | ONormX _ _ | ONormY _ _
  | ORepeat _ | OTruncVal _ _ _ _ | OTruncIdx _ _ => true
  | _ => false
  end.
