(** Function-level interpreter for the glue language (Lib/Glue.v): module-level functions of match.py, process.py and
    sorted_array_utils.py, REGENERATED from the source as glue terms (Gen/{Match,Process,Utils}Glue.v), are run here on
    values of Model/GlueSem.v.  Compared with the method-level interpreter of GlueSem.v there is no object state but
    there are loops (for ... in range / zip), augmented and indexed / sliced assignment to local arrays, list
    literals, conditional expressions, float literals and string comparison.

    The interpreter is generic in the meaning of the names a body calls ([callf], [methf], [applyf], [powf]): each
    module instantiates them with the model's functions (Model/GlueLeaves.v), so that a theorem "running the regenerated
    body of f = the model's f" is compositional: callees mean their models.
    Value semantics: arrays are immutable lists and a local name owns its array; aliasing between a parameter and the
    caller's array is not represented (the correspondence run observes input mutation on the implementation).
    Definitions only. *)
From TW Require Export Model.GlueSem.
Open Scope Qc_scope.
Open Scope string_scope.

Definition fenv := list (string * gval).

(** ---------- values ---------- *)
Definition vals_of (v : gval) : option (list gval) :=
  match v with
  | VArr l => Some (map VNum l)
  | VIdxArr l => Some (map VInt l)
  | VTup l => Some l
  | _ => None
  end.

Fixpoint nums_of (l : list gval) : option (list Qc) :=
  match l with
  | [] => Some []
  | v :: l' => match as_num v, nums_of l' with Some q, Some r => Some (q :: r) | _, _ => None end
  end.

(** np.asarray / np.array / np.asanyarray of something that already is an array, or of a list of numbers *)
Definition to_array (v : gval) : res gval :=
  match v with
  | VArr l => Ok (VArr l)
  | VIdxArr l => Ok (VIdxArr l)
  | VTup l => match nums_of l with Some q => Ok (VArr q) | None => Raise TypeError end
  | _ => Raise TypeError
  end.

Definition str_eqb_val (a b : gval) : option bool :=
  match a, b with VStrV s, VStrV t => Some (String.eqb s t) | _, _ => None end.
Fixpoint member_str (a : gval) (l : list gval) : option bool :=
  match l with
  | [] => Some false
  | b :: l' => match str_eqb_val a b, member_str a l' with Some x, Some y => Some (x || y) | _, _ => None end
  end.

Definition neg_val (v : gval) : res gval :=
  match v with
  | VNum q => Ok (VNum (- q)) | VInt z => Ok (VInt (- z)) | VArr l => Ok (VArr (map Qcopp l))
  | _ => Raise TypeError
  end.

(** slices with step 1 on any list (Python semantics: negative bounds count from the end, bounds are clamped) *)
Definition norm_bound (len i : Z) : Z := clampZ (if (i <? 0)%Z then i + len else i)%Z 0 len.
Definition py_slice_step1 {A} (l : list A) (start stop : Z) : list A :=
  let len := Z.of_nat (length l) in
  let a := norm_bound len start in
  let b := norm_bound len stop in
  firstn (Z.to_nat (b - a)) (skipn (Z.to_nat a) l).

Definition fslice_val (a lo hi st : gval) : res gval :=
  match a, st with
  | VIdxArr l, VNoneV =>
      let? s := match lo with VNoneV => Ok 0%Z | VInt z => Ok z | _ => Raise TypeError end in
      let? e := match hi with VNoneV => Ok (Z.of_nat (length l)) | VInt z => Ok z | _ => Raise TypeError end in
      Ok (VIdxArr (py_slice_step1 l s e))
  | _, _ => slice_val a lo hi st
  end.

(** an IntervalArray object: the flat array and the interval length.  a[k, i] is the flat element k*n + i, read and
    written with the total accessors of Model/Rfa.v (an out-of-range flat index reads 0 / writes nothing there; whether the
    real code would raise IndexError is a question about these leaves, answered by the correspondence run) *)
Definition ivl (l : list Qc) (n : Z) : gval := VClos "ivl" [VArr l; VInt n].

Definition findex_val (a i : gval) : res gval :=
  match a, i with
  | VClos "ivl" [VArr l; VInt n], VTup [VInt k; VInt j] => Ok (VNum (getz l (k * n + j)))
  | VClos "ivl" [VArr l; VInt n], VInt k => Ok (VNum (getz l k))
  | _, _ => index_val a i
  end.

Section FunInterp.
(** what the called names mean (positional and keyword arguments) *)
Variable callf : string -> list gval -> list (string * gval) -> res gval.
(** recv.m(args) and recv.attr (written ".attr") *)
Variable methf : gval -> string -> list gval -> res gval.
(** f(...)(args) *)
Variable applyf : gval -> list gval -> res gval.
(** a ** b *)
Variable powf : gval -> gval -> res gval.

Definition flookup (en : fenv) (x : string) : res gval :=
  match assoc x en with Some v => Ok v | None => Ok (VOpaque x) end.      (* a global: np.float64, float, ... *)

Definition fbinop (op : string) (a b : gval) : res gval :=
  if seq_eqb op "**" then powf a b
  else if seq_eqb op "in" then
    match vals_of b with Some l => match member_str a l with Some r => Ok (VBoolV r) | None => Raise TypeError end | None => Raise TypeError end
  else if seq_eqb op "notin" then
    match vals_of b with Some l => match member_str a l with Some r => Ok (VBoolV (negb r)) | None => Raise TypeError end | None => Raise TypeError end
  else
  match a, b with
  | VStrV _, VStrV _ =>
      match str_eqb_val a b with
      | Some r => if seq_eqb op "==" then Ok (VBoolV r) else if seq_eqb op "!=" then Ok (VBoolV (negb r)) else Raise TypeError
      | None => Raise TypeError
      end
  | VArr _, _ => binop_val op a b
  | VTup l, VInt k =>
      (* list repetition: [v] * n *)
      if seq_eqb op "*" then Ok (VTup (concat (repeat l (Z.to_nat k)))) else Raise TypeError
  | _, VArr r =>
      (* scalar op array *)
      match as_num a, arith op 0 0 with
      | Some q, Some _ => Ok (VArr (map (fun u => match arith op q u with Some w => w | None => 0 end) r))
      | _, _ => Raise TypeError
      end
  | _, _ => binop_val op a b
  end.

Fixpoint zip2 (a b : list gval) : list gval :=
  match a, b with x :: a', y :: b' => VTup [x; y] :: zip2 a' b' | _, _ => [] end.
Fixpoint zip3 (a b c : list gval) : list gval :=
  match a, b, c with x :: a', y :: b', z :: c' => VTup [x; y; z] :: zip3 a' b' c' | _, _, _ => [] end.

Definition range_list (a b : Z) : list Z := map (fun k => (a + Z.of_nat k)%Z) (seq 0 (Z.to_nat (b - a))).

(** builtins that mean the same in every module; everything else goes to [callf] *)
Definition fcall (fn : string) (vs : list gval) (ks : list (string * gval)) : res gval :=
  if seq_eqb fn "len" then
    match vs, ks with
    | [v], [] => match vals_of v with Some l => Ok (VInt (Z.of_nat (length l))) | None => Raise TypeError end
    | _, _ => Raise TypeError
    end
  else if seq_eqb fn "range" then
    match vs, ks with
    | [VInt n], [] => Ok (VIdxArr (range_list 0 n))
    | [VInt a; VInt b], [] => Ok (VIdxArr (range_list a b))
    | _, _ => Raise TypeError
    end
  else if seq_eqb fn "zip" then
    match vs, ks with
    | [a; b], [] => match vals_of a, vals_of b with Some x, Some y => Ok (VTup (zip2 x y)) | _, _ => Raise TypeError end
    | [a; b; c], [] => match vals_of a, vals_of b, vals_of c with Some x, Some y, Some z => Ok (VTup (zip3 x y z)) | _, _, _ => Raise TypeError end
    | _, _ => Raise TypeError
    end
  else if seq_eqb fn "not" then
    match vs, ks with [VBoolV b], [] => Ok (VBoolV (negb b)) | _, _ => Raise TypeError end
  else if seq_eqb fn "np.asarray" || seq_eqb fn "np.array" || seq_eqb fn "np.asanyarray" then
    (* dtype=float / np.float64 on arrays of numbers changes nothing in a model over exact rationals *)
    match vs, ks with
    | [v], [] => to_array v
    | [v], [("dtype", VOpaque _)] => to_array v
    | _, _ => callf fn vs ks
    end
  else callf fn vs ks.

Fixpoint feval (en : fenv) (e : gexpr) {struct e} : res gval :=
  let evals := fix evals (l : list gexpr) : res (list gval) :=
    match l with
    | [] => Ok []
    | a :: l' => let? v := feval en a in let? r := evals l' in Ok (v :: r)
    end in
  match e with
  | GSelf _ => Raise OtherExn
  | GVar v => flookup en v
  | GNone => Ok VNoneV
  | GBoolC b => Ok (VBoolV b)
  | GInt z => Ok (VInt z)
  | GStr s => Ok (VStrV s)
  | GFloat n d => Ok (VNum (Q2Qc (n # d)))
  | GNeg a => let? v := feval en a in neg_val v
  | GCall fn args kw =>
      let? vs := evals args in
      let? ks := (fix evalk (l : list (string * gexpr)) : res (list (string * gval)) :=
                    match l with
                    | [] => Ok []
                    | p :: l' => let? v := feval en (snd p) in let? r := evalk l' in Ok ((fst p, v) :: r)
                    end) kw in
      fcall fn vs ks
  | GMeth recv m args => let? r := feval en recv in let? vs := evals args in methf r m vs
  | GApply f args => let? fv := feval en f in let? vs := evals args in applyf fv vs
  | GTuple es => let? vs := evals es in Ok (VTup vs)
  | GList es => let? vs := evals es in Ok (VTup vs)
  | GIfExp c a b =>
      let? vc := feval en c in
      match vc with VBoolV true => feval en a | VBoolV false => feval en b | _ => Raise TypeError end
  | GBin op a b =>
      if seq_eqb op "and" then
        let? va := feval en a in
        match va with VBoolV false => Ok va | VBoolV true => feval en b | _ => Raise TypeError end
      else if seq_eqb op "or" then
        let? va := feval en a in
        match va with VBoolV true => Ok va | VBoolV false => feval en b | _ => Raise TypeError end
      else
        let? va := feval en a in
        let? vb := feval en b in
        fbinop op va vb
  | GIdx a i => let? va := feval en a in let? vi := feval en i in findex_val va vi
  | GSlice a lo hi st =>
      let? va := feval en a in let? vlo := feval en lo in let? vhi := feval en hi in let? vst := feval en st in
      fslice_val va vlo vhi vst
  | GListComp body x it =>
      let? vi := feval en it in
      match vals_of vi with
      | None => Raise TypeError
      | Some items =>
          let? vs := (fix each (items : list gval) : res (list gval) :=
                        match items with
                        | [] => Ok []
                        | item :: rest => let? v := feval ((x, item) :: en) body in let? r := each rest in Ok (v :: r)
                        end) items in
          Ok (VTup vs)
      end
  end.

(** ---------- assignment ---------- *)
Inductive loc := LocVar (x : string) | LocIdx (x : string) (i : Z) | LocIdx2 (x : string) (k i : Z) | LocSlice (x : string) (lo hi : Z).

Definition resolve_lhs (en : fenv) (l : glhs) : res loc :=
  match l with
  | LSelf _ => Raise OtherExn
  | LVar x => Ok (LocVar x)
  | LIdx x i => let? vi := feval en i in
                match vi with VInt z => Ok (LocIdx x z) | VTup [VInt k; VInt j] => Ok (LocIdx2 x k j) | _ => Raise TypeError end
  | LSlice x lo hi =>
      let? a := feval en lo in let? b := feval en hi in
      match a, b with VInt s, VInt e => Ok (LocSlice x s e) | _, _ => Raise TypeError end
  end.

Definition load (en : fenv) (lc : loc) : res gval :=
  match lc with
  | LocVar x => flookup en x
  | LocIdx x i => let? a := flookup en x in findex_val a (VInt i)
  | LocIdx2 x k j => let? a := flookup en x in findex_val a (VTup [VInt k; VInt j])
  | LocSlice x s e => let? a := flookup en x in fslice_val a (VInt s) (VInt e) VNoneV
  end.

Fixpoint set_nth (l : list Qc) (i : nat) (v : Qc) : list Qc :=
  match l, i with
  | [], _ => []
  | _ :: l', O => v :: l'
  | a :: l', S i' => a :: set_nth l' i' v
  end.

Fixpoint set_nthz (l : list Z) (i : nat) (v : Z) : list Z :=
  match l, i with
  | [], _ => []
  | _ :: l', O => v :: l'
  | a :: l', S i' => a :: set_nthz l' i' v
  end.

Definition store (en : fenv) (lc : loc) (v : gval) : res fenv :=
  match lc with
  | LocVar x => Ok ((x, v) :: en)
  | LocIdx x i =>
      let? a := flookup en x in
      match a, as_num v with
      | VArr l, Some q =>
          let n := Z.of_nat (length l) in
          let j := (if (i <? 0)%Z then n + i else i)%Z in
          if (j <? 0)%Z || (n <=? j)%Z then Raise IndexError else Ok ((x, VArr (set_nth l (Z.to_nat j) q)) :: en)
      | VIdxArr l, _ =>
          (* an integer array (np.zeros(..., dtype=np.int64)) *)
          match v with
          | VInt z =>
              let n := Z.of_nat (length l) in
              let j := (if (i <? 0)%Z then n + i else i)%Z in
              if (j <? 0)%Z || (n <=? j)%Z then Raise IndexError else Ok ((x, VIdxArr (set_nthz l (Z.to_nat j) z)) :: en)
          | _ => Raise TypeError
          end
      | _, _ => Raise TypeError
      end
  | LocIdx2 x k j =>
      let? a := flookup en x in
      match a, as_num v with
      | VClos "ivl" [VArr l; VInt n], Some q => Ok ((x, ivl (setz l (k * n + j) q) n) :: en)
      | _, _ => Raise TypeError
      end
  | LocSlice x s e =>
      let? a := flookup en x in
      match a, v with
      | VArr l, VArr w =>
          let n := Z.of_nat (length l) in
          let s' := norm_bound n s in
          let e' := norm_bound n e in
          (* an array of another length cannot be broadcast into the slice *)
          if (Z.of_nat (length w) =? Z.max 0 (e' - s'))%Z
          then Ok ((x, VArr (firstn (Z.to_nat s') l ++ w ++ skipn (Z.to_nat (Z.max s' e')) l)) :: en)
          else Raise ValueError
      | _, _ => Raise TypeError
      end
  end.

Fixpoint store_all (en : fenv) (lcs : list loc) (vs : list gval) : fenv * outcome :=
  match lcs, vs with
  | [], [] => (en, ONormal)
  | l :: ls', v :: vs' => match store en l v with Ok en' => store_all en' ls' vs' | Raise e => (en, ORaise e) end
  | _, _ => (en, ORaise ValueError)
  end.

Fixpoint bind_vars (vars : list string) (vs : list gval) (en : fenv) : option fenv :=
  match vars, vs with
  | [], [] => Some en
  | x :: vars', v :: vs' => bind_vars vars' vs' ((x, v) :: en)
  | _, _ => None
  end.

(** ---------- statements ---------- *)
Fixpoint fexec1 (en : fenv) (st : gstmt) {struct st} : fenv * outcome :=
  let execl := fix execl (en : fenv) (l : list gstmt) {struct l} : fenv * outcome :=
    match l with
    | [] => (en, ONormal)
    | s :: l' => let r := fexec1 en s in match snd r with ONormal => execl (fst r) l' | _ => r end
    end in
  match st with
  | SAssign ls e =>
      match feval en e with
      | Raise x => (en, ORaise x)
      | Ok v =>
          let lcs := (fix go (l : list glhs) : res (list loc) :=
                        match l with [] => Ok [] | a :: l' => let? c := resolve_lhs en a in let? r := go l' in Ok (c :: r) end) ls in
          match lcs with
          | Raise x => (en, ORaise x)
          | Ok [lc] => store_all en [lc] [v]
          | Ok lcs => match v with VTup vs => store_all en lcs vs | _ => (en, ORaise TypeError) end
          end
      end
  | SAug l op e =>
      match resolve_lhs en l with
      | Raise x => (en, ORaise x)
      | Ok lc =>
          match load en lc with
          | Raise x => (en, ORaise x)
          | Ok old =>
              match feval en e with
              | Raise x => (en, ORaise x)
              | Ok v => match fbinop op old v with
                        | Raise x => (en, ORaise x)
                        | Ok nv => store_all en [lc] [nv]
                        end
              end
          end
      end
  | SIf c th el =>
      match feval en c with
      | Raise x => (en, ORaise x)
      | Ok (VBoolV true) => execl en th
      | Ok (VBoolV false) => execl en el
      | Ok _ => (en, ORaise TypeError)
      end
  | SRaise n => (en, ORaise (exn_of_name n))
  | SReturn e => match feval en e with Raise x => (en, ORaise x) | Ok v => (en, OReturn v) end
  | SExpr e => match feval en e with Raise x => (en, ORaise x) | Ok _ => (en, ONormal) end
  | SWhile _ _ | SBreak => (en, ORaise OtherExn)      (* while loops are run by Model/GlueWhile.v *)
  | SFor vars it body =>
      match feval en it with
      | Raise x => (en, ORaise x)
      | Ok v =>
          match vals_of v with
          | None => (en, ORaise TypeError)
          | Some items =>
              (fix loop (items : list gval) (en : fenv) {struct items} : fenv * outcome :=
                 match items with
                 | [] => (en, ONormal)
                 | item :: rest =>
                     let bound := match vars with
                                  | [x] => Some ((x, item) :: en)
                                  | _ => match item with VTup vs => bind_vars vars vs en | _ => None end
                                  end in
                     match bound with
                     | None => (en, ORaise ValueError)
                     | Some en' => let r := execl en' body in match snd r with ONormal => loop rest (fst r) | _ => r end
                     end
                 end) items en
          end
      end
  end.

Fixpoint fexec (en : fenv) (l : list gstmt) {struct l} : fenv * outcome :=
  match l with
  | [] => (en, ONormal)
  | s :: l' => let r := fexec1 en s in match snd r with ONormal => fexec (fst r) l' | _ => r end
  end.
End FunInterp.

(** ---------- calling a function ---------- *)
Definition fdefault_val (e : gexpr) : option gval :=
  match e with
  | GNone => Some VNoneV | GBoolC b => Some (VBoolV b) | GInt z => Some (VInt z) | GStr s => Some (VStrV s)
  | GFloat n d => Some (VNum (Q2Qc (n # d)))
  | GVar v => Some (VOpaque v)
  | _ => None
  end.

Fixpoint fbind_params (formals : list (string * option gexpr)) (actuals : list (string * gval)) : res fenv :=
  match formals with
  | [] => Ok []
  | (p, d) :: fs =>
      let? rest := fbind_params fs actuals in
      if String.prefix "**" p then Ok ((String.substring 2 (String.length p - 2) p, VOpaque "kwargs") :: rest)
      else
      match assoc p actuals, d with
      | Some v, _ => Ok ((p, v) :: rest)
      | None, Some e => match fdefault_val e with Some v => Ok ((p, v) :: rest) | None => Raise TypeError end
      | None, None => Raise TypeError
      end
  end.

Definition fun_table := list (string * (list (string * option gexpr) * list gstmt)).

Definition call_fun (callf : string -> list gval -> list (string * gval) -> res gval)
    (methf : gval -> string -> list gval -> res gval) (applyf : gval -> list gval -> res gval) (powf : gval -> gval -> res gval)
    (tbl : fun_table) (f : string) (actuals : list (string * gval)) : outcome :=
  match assoc f tbl with
  | None => ORaise AttributeError
  | Some (formals, body) =>
      match fbind_params formals actuals with
      | Raise e => ORaise e
      | Ok en => snd (fexec callf methf applyf powf en body)
      end
  end.

(** a method of a class other than Weaver: the attributes the constructor stored are bound as variables "self.attr" *)
Definition call_meth (callf : string -> list gval -> list (string * gval) -> res gval)
    (methf : gval -> string -> list gval -> res gval) (applyf : gval -> list gval -> res gval) (powf : gval -> gval -> res gval)
    (tbl : fun_table) (f : string) (attrs actuals : list (string * gval)) : outcome :=
  match assoc f tbl with
  | None => ORaise AttributeError
  | Some (formals, body) =>
      match fbind_params formals actuals with
      | Raise e => ORaise e
      | Ok en => snd (fexec callf methf applyf powf (en ++ attrs)%list body)
      end
  end.

(** results *)
Definition outcome_arr (oc : outcome) : res (list Qc) :=
  match oc with OReturn (VArr l) => Ok l | ORaise e => Raise e | _ => Raise OtherExn end.
Definition outcome_idx (oc : outcome) : res (list Z) :=
  match oc with OReturn (VIdxArr l) => Ok l | ORaise e => Raise e | _ => Raise OtherExn end.
Definition outcome_arr_pair (oc : outcome) : res (list Qc * list Qc) :=
  match oc with OReturn (VTup [VArr a; VArr b]) => Ok (a, b) | ORaise e => Raise e | _ => Raise OtherExn end.
