(** Meaning of the glue language (Lib/Glue.v): an interpreter over the Weaver state of Model/Weaver.v.
    The bodies of the Weaver methods are REGENERATED from weaver.py as glue terms (Gen/WeaverGlue.v); running
    them with this interpreter is proved equal to the hand-written [step] (Proofs/GlueProofs.v), so that an
    edit of the glue code (a dropped or reordered assignment, a swapped argument, a changed guard) is an edit
    of a term that the theorems are re-checked against.

    The leaves are the model's own functions: a call of a package function (repeat, normalize, truncate, ...)
    means the corresponding function of Model/{Process,Match,Rfa,SortedUtils}.v; calls that reach SciPy /
    FITPACK / NumPy's generator (or caller-supplied functions) take the answer recorded in the operation,
    exactly as [step] does.  What this file adds to the trusted base is only the meaning of assignment,
    sequencing, tuples, guards, indexing and slicing.
    Definitions only. *)
From TW Require Export Lib.Glue Model.Weaver.
Open Scope Qc_scope.
Open Scope string_scope.

Inductive gval :=
| VArr (l : list Qc)               (* a float ndarray *)
| VNum (q : Qc)
| VInt (z : Z)
| VNoneV
| VBoolV (b : bool)
| VStrV (s : string)
| VTup (l : list gval)
| VMask (l : list bool)            (* a == v on an array *)
| VIdxArr (l : list Z)             (* np.where(mask)[0] *)
| VSelfV
| VOpaque (tag : string)           (* a caller-supplied object whose meaning is carried by the operation *)
| VClos (tag : string) (l : list gval).   (* an object returned by a constructor / factory, with what it was built from *)

Record genv := { g_s : wstate; g_xs : Qc; g_ys : Qc; g_loc : list (string * gval) }.

Definition seq_eqb (a b : string) : bool := String.eqb a b.

Fixpoint assoc {A} (k : string) (l : list (string * A)) : option A :=
  match l with
  | [] => None
  | (k', v) :: l' => if seq_eqb k k' then Some v else assoc k l'
  end.

Definition as_num (v : gval) : option Qc :=
  match v with VNum q => Some q | VInt z => Some (Qc_of_Z z) | _ => None end.

Definition get_field (en : genv) (f : field) : gval :=
  match f with
  | FX => VArr (wx (g_s en)) | FY => VArr (wy (g_s en))
  | FOX => VArr (wox (g_s en)) | FOY => VArr (woy (g_s en))
  | FRX => VArr (wrx (g_s en)) | FRY => VArr (wry (g_s en))
  | FXS => VNum (g_xs en) | FYS => VNum (g_ys en)
  end.

Definition with_s (en : genv) (s : wstate) : genv :=
  {| g_s := s; g_xs := g_xs en; g_ys := g_ys en; g_loc := g_loc en |}.

Definition set_field (en : genv) (f : field) (v : gval) : res genv :=
  let s := g_s en in
  match f, v with
  | FX, VArr l => Ok (with_s en (set_x s l))
  | FY, VArr l => Ok (with_s en (set_y s l))
  | FOX, VArr l => Ok (with_s en (set_ox s l))
  | FOY, VArr l => Ok (with_s en (set_oy s l))
  | FRX, VArr l => Ok (with_s en (set_rx s l))
  | FRY, VArr l => Ok (with_s en (set_ry s l))
  | FXS, _ => match as_num v with
              | Some q => Ok {| g_s := s; g_xs := q; g_ys := g_ys en; g_loc := g_loc en |}
              | None => Raise TypeError end
  | FYS, _ => match as_num v with
              | Some q => Ok {| g_s := s; g_xs := g_xs en; g_ys := q; g_loc := g_loc en |}
              | None => Raise TypeError end
  | _, _ => Raise TypeError
  end.

Definition set_var (en : genv) (x : string) (v : gval) : genv :=
  {| g_s := g_s en; g_xs := g_xs en; g_ys := g_ys en; g_loc := (x, v) :: g_loc en |}.

Definition lookup_var (en : genv) (x : string) : res gval :=
  if seq_eqb x "self" then Ok VSelfV
  else match assoc x (g_loc en) with Some v => Ok v | None => Raise OtherExn end.

Definition is_none (v : gval) : bool := match v with VNoneV => true | _ => false end.

(** Python a[i] for an integer i (negative counts from the end) *)
Definition py_index {A} (l : list A) (i : Z) : option A :=
  let n := Z.of_nat (length l) in
  let j := if (i <? 0)%Z then (n + i)%Z else i in
  if (j <? 0)%Z || (n <=? j)%Z then None else nth_error l (Z.to_nat j).

Definition index_val (a i : gval) : res gval :=
  match a, i with
  | VArr l, VInt z => match py_index l z with Some q => Ok (VNum q) | None => Raise IndexError end
  | VTup l, VInt z => match py_index l z with Some v => Ok v | None => Raise IndexError end
  | VIdxArr l, VInt z => match py_index l z with Some v => Ok (VInt v) | None => Raise IndexError end
  | _, _ => Raise TypeError
  end.

(** a[lo:hi:st] on an array; omitted bounds are supported for a positive step only *)
Definition slice_val (a lo hi st : gval) : res gval :=
  match a with
  | VArr l =>
      let? step := match st with VNoneV => Ok 1%Z | VInt z => Ok z | _ => Raise TypeError end in
      if (step <=? 0)%Z && (is_none lo || is_none hi) then Raise OtherExn else
      let? start := match lo with VNoneV => Ok 0%Z | VInt z => Ok z | _ => Raise TypeError end in
      let? stop := match hi with VNoneV => Ok (Z.of_nat (length l)) | VInt z => Ok z | _ => Raise TypeError end in
      let? r := py_slice l start stop step in
      Ok (VArr r)
  | _ => Raise TypeError
  end.

Fixpoint where_true (m : list bool) (i : Z) : list Z :=
  match m with
  | [] => []
  | b :: m' => if b then i :: where_true m' (i + 1)%Z else where_true m' (i + 1)%Z
  end.

Definition arith (op : string) (a b : Qc) : option Qc :=
  if seq_eqb op "+" then Some (a + b) else if seq_eqb op "-" then Some (a - b)
  else if seq_eqb op "*" then Some (a * b) else if seq_eqb op "/" then Some (a / b) else None.
Definition arithZ (op : string) (a b : Z) : option Z :=
  if seq_eqb op "+" then Some (a + b)%Z else if seq_eqb op "-" then Some (a - b)%Z
  else if seq_eqb op "*" then Some (a * b)%Z else None.
Definition cmpQ (op : string) (a b : Qc) : option bool :=
  if seq_eqb op "<" then Some (Qc_ltb a b) else if seq_eqb op ">" then Some (Qc_ltb b a)
  else if seq_eqb op "<=" then Some (Qc_leb a b) else if seq_eqb op ">=" then Some (Qc_leb b a)
  else if seq_eqb op "==" then Some (Qc_eqb a b) else if seq_eqb op "!=" then Some (negb (Qc_eqb a b)) else None.
Definition cmpZ (op : string) (a b : Z) : option bool :=
  if seq_eqb op "<" then Some (a <? b)%Z else if seq_eqb op ">" then Some (b <? a)%Z
  else if seq_eqb op "<=" then Some (a <=? b)%Z else if seq_eqb op ">=" then Some (b <=? a)%Z
  else if seq_eqb op "==" then Some (a =? b)%Z else if seq_eqb op "!=" then Some (negb (a =? b)%Z) else None.

(** binary operators other than the short-circuit ones *)
Definition binop_val (op : string) (a b : gval) : res gval :=
  if seq_eqb op "is" then (if is_none b then Ok (VBoolV (is_none a)) else Raise OtherExn)
  else if seq_eqb op "isnot" then (if is_none b then Ok (VBoolV (negb (is_none a))) else Raise OtherExn)
  else
  match a, b with
  | VInt x, VInt y =>
      match arithZ op x y, cmpZ op x y with
      | Some z, _ => Ok (VInt z)
      | None, Some c => Ok (VBoolV c)
      | None, None => match arith op (Qc_of_Z x) (Qc_of_Z y) with Some q => Ok (VNum q) | None => Raise TypeError end
      end
  | VArr l, VArr r =>
      match arith op 0 0 with
      | Some _ => if (length l =? length r)%nat
                  then Ok (VArr (map2 (fun u v => match arith op u v with Some q => q | None => 0 end) l r))
                  else Raise ValueError
      | None => Raise OtherExn
      end
  | VArr l, _ =>
      match as_num b with
      | Some q =>
          match arith op 0 0, cmpQ op 0 0 with
          | Some _, _ => Ok (VArr (map (fun u => match arith op u q with Some r => r | None => 0 end) l))
          | None, Some _ => Ok (VMask (map (fun u => match cmpQ op u q with Some c => c | None => false end) l))
          | None, None => Raise TypeError
          end
      | None => Raise TypeError
      end
  | _, _ =>
      match as_num a, as_num b with
      | Some x, Some y =>
          match arith op x y, cmpQ op x y with
          | Some q, _ => Ok (VNum q)
          | None, Some c => Ok (VBoolV c)
          | None, None => Raise TypeError
          end
      | _, _ => Raise TypeError
      end
  end.

(** ---------- what the called functions mean ---------- *)
Definition arr_eqb (a b : list Qc) : bool := list_eqb Qc_eqb a b.
Definition pair_val (r : list Qc * list Qc) : gval := VTup [VArr (fst r); VArr (snd r)].

(** the rule a caller-supplied method name stands for: the operation carries both rules, the parameter binding
    (params_of) tags which is which *)
Definition rule_of (rt rr : rule) (v : gval) : option rule :=
  match v with
  | VOpaque t => if seq_eqb t "target_rule" then Some rt else if seq_eqb t "reference_rule" then Some rr else None
  | _ => None
  end.

(** [o] carries the recorded oracle answers, [s0] is the state in which the method was entered (an oracle answer
    was recorded for a call on that state's series, so a call with other arguments has no recorded answer) *)
Definition callf (o : option op) (s0 : wstate) (fn : string) (vs : list gval) (ks : list (string * gval)) : res gval :=
  if seq_eqb fn "len" then
    match vs, ks with
    | [VArr l], [] => Ok (VInt (Z.of_nat (length l)))
    | [VIdxArr l], [] => Ok (VInt (Z.of_nat (length l)))
    | _, _ => Raise TypeError
    end
  else if seq_eqb fn "np.asarray" then
    match vs, ks with [VArr l], [] => Ok (VArr l) | _, _ => Raise TypeError end
  else if seq_eqb fn "np.arange" then
    match vs, ks with
    | [], [("stop", VInt n)] => Ok (VArr (map Qc_of_nat (seq 0 (Z.to_nat n))))
    | _, _ => Raise TypeError
    end
  else if seq_eqb fn "np.where" then
    match vs, ks with [VMask m], [] => Ok (VTup [VIdxArr (where_true m 0%Z)]) | _, _ => Raise TypeError end
  else if seq_eqb fn "np.linspace" then
    match vs, ks with
    | [a; b; VInt n], [] =>
        match as_num a, as_num b with
        | Some a, Some b => Ok (VArr (linspace a b (Z.to_nat n)))
        | _, _ => Raise TypeError
        end
    | _, _ => Raise TypeError
    end
  else if seq_eqb fn "append_one_sample" then
    match vs, ks with
    | [VArr x; VArr y], [("make_periodic", VBoolV p)] => let? r := append_res x y p in Ok (pair_val r)
    | _, _ => Raise TypeError
    end
  else if seq_eqb fn "repeat" then
    match vs, ks with
    | [VArr x; VArr y], [("repeats", VInt r)] => let? r := repeat_res x y r in Ok (pair_val r)
    | _, _ => Raise TypeError
    end
  else if seq_eqb fn "normalize" then
    match vs, ks with
    | [VArr a; lo; hi], [] =>
        match as_num lo, as_num hi with
        | Some lo, Some hi => let? r := normalize_res a lo hi in Ok (VArr r)
        | _, _ => Raise TypeError
        end
    | _, _ => Raise TypeError
    end
  else if seq_eqb fn "truncate" then
    match vs, length ks, assoc "x_left" ks, assoc "x_right" ks, assoc "x_left_as_ratio" ks, assoc "x_right_as_ratio" ks with
    | [VArr x; VArr y], 4%nat, Some l, Some r, Some (VBoolV lr), Some (VBoolV rr) =>
        match as_num l, as_num r with
        | Some l, Some r => let? t := truncate x y l r lr rr in Ok (pair_val t)
        | _, _ => Raise TypeError
        end
    | _, _, _, _, _, _ => Raise TypeError
    end
  else if seq_eqb fn "trend" then
    match o, vs, length ks, assoc "fun" ks, assoc "normalized" ks with
    | Some (OTrend f _), [VArr x; VArr y], 2%nat, Some (VOpaque "trend_func"), Some (VBoolV nrm) =>
        if trend_defined nrm x then Ok (pair_val (trend f nrm x y)) else Raise NonFinite
    | _, _, _, _, _ => Raise TypeError
    end
  else if seq_eqb fn "interpolate" then
    match o, vs, length ks, assoc "method" ks, assoc "**" ks with
    | Some (OInterpN _ a), [VArr x; VArr y; VArr nx], 2%nat, Some (VOpaque "method"), Some (VOpaque "kwargs")
    | Some (OInterpGrid _ a), [VArr x; VArr y; VArr nx], 2%nat, Some (VOpaque "method"), Some (VOpaque "kwargs") =>
        let? r := interp_eval x y nx a in Ok (VArr r)
    | _, _, _, _, _ => Raise TypeError
    end
  else if seq_eqb fn "integral_matching_reference_stretch" then
    match o, vs, length ks, assoc "target_function_integral_method" ks, assoc "reference_function_integral_method" ks, assoc "**" ks with
    | Some (OMatch pw m rt rr), [VArr x; VArr y; VArr xr; VArr yr], 3%nat, Some t, Some r, Some (VOpaque "kwargs") =>
        match rule_of rt rr t, rule_of rt rr r with
        | Some t, Some r => let? y' := match_ref pw x y xr yr m t r in Ok (VArr y')
        | _, _ => Raise TypeError
        end
    | _, _, _, _, _, _ => Raise TypeError
    end
  else if seq_eqb fn "noise_gauss" then
    match o, vs, length ks, assoc "snr" ks, assoc "**" ks with
    | Some (ONoise draw), [VArr y], 2%nat, Some (VOpaque "snr"), Some (VOpaque "kwargs") => Ok (VArr (map2 Qcplus y draw))
    | _, _, _, _, _ => Raise TypeError
    end
  else if seq_eqb fn "spline_smooth" then
    match vs, ks with
    | [VArr x; VArr y], [("s", VOpaque "s")] => Ok (VClos "spline" [VArr x; VArr y])
    | _, _ => Raise TypeError
    end
  else if seq_eqb fn "rfa_class" then
    match o, vs, ks with
    | Some (ORecreate _ pw gpow k), [VArr x; VArr y; VInt n], [("**", VOpaque "kwargs")] =>
        let? r := rfa pw gpow k x y n in Ok (VClos "rfa_obj" [VArr (fst r); VArr (snd r)])
    | Some (ORecreateOracle _ ys), [VArr x; VArr y; VInt n], [("**", VOpaque "kwargs")] =>
        if (n <? 2)%Z then Raise ValueError
        else if arr_eqb x (wx s0) && arr_eqb y (wy s0)
        then Ok (VClos "rfa_obj" [VArr (oversample_linspace x (Z.to_nat n)); VArr ys])
        else Raise OtherExn
    | _, _, _ => Raise TypeError
    end
  else Raise OtherExn.

(** f(...)(args): evaluating the spline object returned by spline_smooth *)
Definition apply_val (o : option op) (s0 : wstate) (f : gval) (vs : list gval) : res gval :=
  match o, f, vs with
  | Some (OSmooth ys), VClos "spline" [VArr x; VArr y], [VArr at_x] =>
      if arr_eqb x (wx s0) && arr_eqb y (wy s0) && arr_eqb at_x (wx s0) then Ok (VArr ys) else Raise OtherExn
  | _, _, _ => Raise TypeError
  end.

Section Interp.
Variable o : option op.
Variable s0 : wstate.
(** self.m(args) for a method m of the same class (only queries call another method) *)
Variable selfcall : genv -> string -> list gval -> res gval.

Definition meth_val (en : genv) (r : gval) (m : string) (vs : list gval) : res gval :=
  match r, vs with
  | VArr l, [] => if seq_eqb m "copy" then Ok (VArr l) else Raise AttributeError
  | VClos "rfa_obj" [a; b], [] => if seq_eqb m "rfa" then Ok (VTup [a; b]) else Raise AttributeError
  | VSelfV, _ => selfcall en m vs
  | _, _ => Raise AttributeError
  end.

Fixpoint eval (en : genv) (e : gexpr) {struct e} : res gval :=
  let evals := fix evals (l : list gexpr) : res (list gval) :=
    match l with
    | [] => Ok []
    | a :: l' => let? v := eval en a in let? r := evals l' in Ok (v :: r)
    end in
  match e with
  | GSelf f => Ok (get_field en f)
  | GVar v => lookup_var en v
  | GNone => Ok VNoneV
  | GBoolC b => Ok (VBoolV b)
  | GInt z => Ok (VInt z)
  | GStr s => Ok (VStrV s)
  | GCall fn args kw =>
      let? vs := evals args in
      let? ks := (fix evalk (l : list (string * gexpr)) : res (list (string * gval)) :=
                    match l with
                    | [] => Ok []
                    | p :: l' => let? v := eval en (snd p) in let? r := evalk l' in Ok ((fst p, v) :: r)
                    end) kw in
      callf o s0 fn vs ks
  | GMeth recv m args =>
      let? r := eval en recv in
      let? vs := evals args in
      meth_val en r m vs
  | GApply f args =>
      let? fv := eval en f in
      let? vs := evals args in
      apply_val o s0 fv vs
  | GTuple es => let? vs := evals es in Ok (VTup vs)
  | GBin op a b =>
      if seq_eqb op "and" then
        let? va := eval en a in
        match va with VBoolV false => Ok va | VBoolV true => eval en b | _ => Raise TypeError end
      else if seq_eqb op "or" then
        let? va := eval en a in
        match va with VBoolV true => Ok va | VBoolV false => eval en b | _ => Raise TypeError end
      else
        let? va := eval en a in
        let? vb := eval en b in
        binop_val op va vb
  | GIdx a i => let? va := eval en a in let? vi := eval en i in index_val va vi
  | GSlice a lo hi st =>
      let? va := eval en a in let? vlo := eval en lo in let? vhi := eval en hi in let? vst := eval en st in
      slice_val va vlo vhi vst
  (* constructs that do not occur in class Weaver (they belong to the function-level interpreter, Model/GlueFun.v) *)
  | GList _ | GIfExp _ _ _ | GFloat _ _ | GNeg _ | GListComp _ _ _ => Raise OtherExn
  end.

Inductive outcome := ONormal | OReturn (v : gval) | ORaise (e : exn).

Definition exn_of_name (n : string) : exn :=
  if seq_eqb n "ValueError" then ValueError else if seq_eqb n "IndexError" then IndexError
  else if seq_eqb n "TypeError" then TypeError else OtherExn.

Definition assign1 (en : genv) (l : glhs) (v : gval) : res genv :=
  match l with
  | LSelf f => set_field en f v
  | LVar x => Ok (set_var en x v)
  | LIdx _ _ | LSlice _ _ _ => Raise OtherExn      (* not used by class Weaver *)
  end.

(** t = v, or t1, ..., tk = v with v a k-tuple; targets are assigned from left to right *)
Fixpoint assign_all (en : genv) (ls : list glhs) (vs : list gval) : genv * outcome :=
  match ls, vs with
  | [], [] => (en, ONormal)
  | l :: ls', v :: vs' =>
      match assign1 en l v with
      | Ok en' => assign_all en' ls' vs'
      | Raise e => (en, ORaise e)
      end
  | _, _ => (en, ORaise ValueError)
  end.
Definition assign (en : genv) (ls : list glhs) (v : gval) : genv * outcome :=
  match ls with
  | [l] => assign_all en [l] [v]
  | _ => match v with VTup vs => assign_all en ls vs | _ => (en, ORaise TypeError) end
  end.

Fixpoint exec1 (en : genv) (st : gstmt) {struct st} : genv * outcome :=
  let execl := fix execl (en : genv) (l : list gstmt) {struct l} : genv * outcome :=
    match l with
    | [] => (en, ONormal)
    | s :: l' => let r := exec1 en s in match snd r with ONormal => execl (fst r) l' | _ => r end
    end in
  match st with
  | SAssign ls e => match eval en e with Raise x => (en, ORaise x) | Ok v => assign en ls v end
  | SIf c th el =>
      match eval en c with
      | Raise x => (en, ORaise x)
      | Ok (VBoolV true) => execl en th
      | Ok (VBoolV false) => execl en el
      | Ok _ => (en, ORaise TypeError)
      end
  | SRaise n => (en, ORaise (exn_of_name n))
  | SReturn e => match eval en e with Raise x => (en, ORaise x) | Ok v => (en, OReturn v) end
  | SExpr _ | SAug _ _ _ | SFor _ _ _ | SWhile _ _ | SBreak => (en, ORaise OtherExn)      (* not used by class Weaver *)
  end.

Fixpoint exec (en : genv) (l : list gstmt) {struct l} : genv * outcome :=
  match l with
  | [] => (en, ONormal)
  | s :: l' => let r := exec1 en s in match snd r with ONormal => exec (fst r) l' | _ => r end
  end.
End Interp.

(** ---------- calling a method ---------- *)
(** constants that may appear as parameter defaults *)
Definition default_val (e : gexpr) : option gval :=
  match e with
  | GNone => Some VNoneV | GBoolC b => Some (VBoolV b) | GInt z => Some (VInt z) | GStr s => Some (VStrV s)
  | GVar v => Some (VOpaque v)
  | _ => None
  end.

(** formal parameters bound to the supplied keyword arguments, defaults for the omitted ones; **kwargs is opaque *)
Fixpoint bind_params (formals : list (string * option gexpr)) (actuals : list (string * gval)) : res (list (string * gval)) :=
  match formals with
  | [] => Ok []
  | (p, d) :: fs =>
      let? rest := bind_params fs actuals in
      if String.prefix "**" p then Ok ((String.substring 2 (String.length p - 2) p, VOpaque "kwargs") :: rest)
      else
      match assoc p actuals, d with
      | Some v, _ => Ok ((p, v) :: rest)
      | None, Some e => match default_val e with Some v => Ok ((p, v) :: rest) | None => Raise TypeError end
      | None, None => Raise TypeError
      end
  end.

Definition method_table := list (string * (list (string * option gexpr) * list gstmt)).

Definition call_with (selfcall : genv -> string -> list gval -> res gval)
    (tbl : method_table) (o : option op) (m : string) (actuals : list (string * gval)) (s : wstate) (xs ys : Qc)
    : genv * outcome :=
  let en0 := {| g_s := s; g_xs := xs; g_ys := ys; g_loc := [] |} in
  match assoc m tbl with
  | None => (en0, ORaise AttributeError)
  | Some (formals, body) =>
      match bind_params formals actuals with
      | Raise e => (en0, ORaise e)
      | Ok loc => exec o s selfcall {| g_s := s; g_xs := xs; g_ys := ys; g_loc := loc |} body
      end
  end.

(** positional self-call: self.m(a1, ..., ak) binds the first k formals *)
Fixpoint zip_formals (formals : list (string * option gexpr)) (vs : list gval) : list (string * gval) :=
  match formals, vs with
  | (p, _) :: fs, v :: vs' => (p, v) :: zip_formals fs vs'
  | _, _ => []
  end.

(** depth 0: no self-calls; depth 1: self-calls reach depth-0 methods (enough for the class: only slice_by_value
    calls another method, slice_by_index, which calls none) *)
Definition no_selfcall : genv -> string -> list gval -> res gval := fun _ _ _ => Raise OtherExn.
Definition selfcall1 (tbl : method_table) (o : option op) : genv -> string -> list gval -> res gval :=
  fun en m vs =>
    match assoc m tbl with
    | None => Raise AttributeError
    | Some (formals, _) =>
        match call_with no_selfcall tbl o m (zip_formals formals vs) (g_s en) (g_xs en) (g_ys en) with
        | (_, OReturn v) => Ok v
        | (_, ORaise e) => Raise e
        | (_, ONormal) => Ok VNoneV
        end
    end.
Definition call_method (tbl : method_table) (o : option op) (m : string) (actuals : list (string * gval))
    (s : wstate) (xs ys : Qc) : genv * outcome :=
  call_with (selfcall1 tbl o) tbl o m actuals s xs ys.

(** ---------- the operations of the model as calls ---------- *)
Definition op_method (o : op) : string :=
  match o with
  | OAppend _ => "append_one_sample"
  | OShiftX _ => "shift_x" | OShiftY _ => "shift_y" | OScaleX _ => "scale_x" | OScaleY _ => "scale_y"
  | ONormX _ _ => "normalize_x" | ONormY _ _ => "normalize_y"
  | ORepeat _ => "repeat"
  | OTruncVal _ _ _ _ => "truncate_by_value" | OTruncIdx _ _ => "truncate_by_index"
  | ORecreate _ _ _ _ | ORecreateOracle _ _ => "recreate_from_average"
  | OMatch _ _ _ _ => "integral_match"
  | OInterpN _ _ | OInterpGrid _ _ | OInterpNone _ => "interpolate"
  | OTrend _ _ => "trend" | OSmooth _ => "smooth" | ONoise _ => "noise"
  | ORestore => "restore_original"
  end.

Definition optZ (z : option Z) : gval := match z with Some v => VInt v | None => VNoneV end.
Definition optQ (q : option Qc) : gval := match q with Some v => VNum v | None => VNoneV end.

Definition params_of (o : op) : list (string * gval) :=
  match o with
  | OAppend p => [("make_periodic", VBoolV p)]
  | OShiftX v | OShiftY v => [("shift", VNum v)]
  | OScaleX v | OScaleY v => [("scale", VNum v)]
  | ONormX lo hi | ONormY lo hi => [("min_val", VNum lo); ("max_val", VNum hi)]
  | ORepeat r => [("n", VInt r)]
  | OTruncVal l r lr rr => [("x_left", VNum l); ("x_right", VNum r); ("x_left_as_ratio", VBoolV lr); ("x_right_as_ratio", VBoolV rr)]
  | OTruncIdx start stop => [("start", VInt start); ("stop", optZ stop)]
  | ORecreate n _ _ _ | ORecreateOracle n _ => [("n", VInt n); ("rfa_class", VOpaque "rfa_class")]
  | OMatch _ _ _ _ => [("target_function_integral_method", VOpaque "target_rule");
                       ("reference_function_integral_method", VOpaque "reference_rule")]
  | OInterpN n _ => [("n", VInt n); ("method", VOpaque "method")]
  | OInterpGrid g _ => [("new_x", VArr g); ("method", VOpaque "method")]
  | OInterpNone _ => [("method", VOpaque "method")]
  | OTrend _ nrm => [("trend_func", VOpaque "trend_func"); ("normalized", VBoolV nrm)]
  | OSmooth _ => [("s", VOpaque "s")]
  | ONoise _ => [("snr", VOpaque "snr")]
  | ORestore => []
  end.

(** the outcome of a mutating method as the model reports it: every such method returns self *)
Definition outcome_res (oc : outcome) : res unit :=
  match oc with
  | OReturn VSelfV => Ok tt
  | ORaise e => Raise e
  | _ => Raise OtherExn
  end.

(** the result of a query returning a pair of arrays *)
Definition outcome_pair (oc : outcome) : res (list Qc * list Qc) :=
  match oc with
  | OReturn (VTup [VArr a; VArr b]) => Ok (a, b)
  | ORaise e => Raise e
  | _ => Raise OtherExn
  end.

(** a[0] / a[-1] raise IndexError on an empty array where the model's headq / lastq answer 0; the series of a
    Weaver are never empty in the states the properties talk about (WF), and the glue theorem is stated there *)
Definition glue_pre (s : wstate) (o : op) : Prop :=
  match o with
  | OInterpN _ _ => wx s <> []
  | OInterpGrid g _ => wx s <> [] /\ g <> []
  | _ => True
  end.
