(** Model of the array helpers of /repo/src/traffic_weaver/sorted_array_utils.py
    (lines 8-315, 552-576) and of the NumPy primitives they use
    (np.linspace, np.append, np.insert, ndarray.repeat, np.diff, slicing).
    Definitions only. *)
From TW Require Export Lib.Base.
Open Scope Qc_scope.

(** np.linspace(a, b, num+1)[:-1] : a + i*(b-a)/num, i = 0..num-1 *)
Definition lin_pts (a b : Qc) (num : nat) : list Qc :=
  map (fun i => a + Qc_of_nat i * (b - a) / Qc_of_nat num) (seq 0 num).
(** np.linspace(a, b, num+1)[1:] : a + i*(b-a)/num, i = 1..num *)
Definition lin_pts_tail (a b : Qc) (num : nat) : list Qc :=
  map (fun i => a + Qc_of_nat i * (b - a) / Qc_of_nat num) (seq 1 num).
(** np.linspace(a, b, n), n >= 2:  a + i*(b-a)/(n-1), i = 0..n-1 *)
Definition linspace (a b : Qc) (n : nat) : list Qc :=
  match n with
  | O => []
  | S O => [a]
  | S n' => map (fun i => a + Qc_of_nat i * (b - a) / Qc_of_nat n') (seq 0 n)
  end.

(** append_one_sample (lines 46-54); needs |x| >= 2, |y| >= 1 *)
Definition append_one_sample_defined (x y : list Qc) : bool :=
  (2 <=? length x)%nat && (1 <=? length y)%nat.
Definition append_one_sample (x y : list Qc) (make_periodic : bool) : list Qc * list Qc :=
  let n := length x in
  (x ++ [Qc_two * nthq (n - 1) x - nthq (n - 2) x],
   y ++ [if make_periodic then headq y else lastq y]).

(** oversample_linspace (lines 88-91) *)
Fixpoint oversample_linspace_go (l : list Qc) (num : nat) : list Qc :=
  match l with
  | [] => []
  | a :: l' =>
      match l' with
      | [] => [a]
      | b :: _ => lin_pts a b num ++ oversample_linspace_go l' num
      end
  end.
Definition oversample_linspace (a : list Qc) (num : nat) : list Qc :=
  if (num <? 2)%nat then a else oversample_linspace_go a num.

(** oversample_piecewise_constant (lines 126-129) *)
Fixpoint oversample_pc_go (l : list Qc) (num : nat) : list Qc :=
  match l with
  | [] => []
  | a :: l' =>
      match l' with
      | [] => [a]
      | _ :: _ => repeatq a num ++ oversample_pc_go l' num
      end
  end.
Definition oversample_pc (a : list Qc) (num : nat) : list Qc :=
  if (num <? 2)%nat then a else oversample_pc_go a num.

(** extend_linspace (lines 179-192) *)
Inductive direction := Both | Left | Right.
Definition goes_left (d : direction) := match d with Both | Left => true | Right => false end.
Definition goes_right (d : direction) := match d with Both | Right => true | Left => false end.

Definition extend_linspace (a : list Qc) (n : nat) (d : direction) (lstart rstop : option Qc) : list Qc :=
  let a1 :=
    if goes_left d then
      let ls := match lstart with Some v => v | None => Qc_two * headq a - nthq n a end in
      lin_pts ls (headq a) n ++ a
    else a in
  if goes_right d then
    let la := length a1 in
    let rs := match rstop with Some v => v | None => Qc_two * lastq a1 - nthq (la - n - 1) a1 end in
    a1 ++ lin_pts_tail (lastq a1) rs n
  else a1.
(* the default mirror points read a[n] and a[-n-1]: they exist iff |a| >= n+1 *)
Definition extend_linspace_defined (a : list Qc) (n : nat) : bool := (n + 1 <=? length a)%nat.

(** extend_constant (lines 228-233) *)
Definition extend_constant (a : list Qc) (n : nat) (d : direction) : list Qc :=
  let a1 := if goes_left d then repeatq (headq a) n ++ a else a in
  if goes_right d then a1 ++ repeatq (lastq a1) n else a1.

(** integration rules (lines 263-264, 291, 311-315) *)
Inductive rule := Trapezoid | Rectangle | UnknownRule.
Fixpoint rectangle_integral (x y : list Qc) : list Qc :=
  match x, y with
  | x0 :: (x1 :: _) as x', y0 :: y' => y0 * (x1 - x0) :: rectangle_integral x' y'
  | _, _ => []
  end.
Fixpoint trapezoid_integral (x y : list Qc) : list Qc :=
  match x, y with
  | x0 :: (x1 :: _) as x', y0 :: (y1 :: _) as y' => (y0 + y1) * Qc_half * (x1 - x0) :: trapezoid_integral x' y'
  | _, _ => []
  end.
Definition integral (x y : list Qc) (r : rule) : res (list Qc) :=
  match r with
  | Trapezoid => Ok (trapezoid_integral x y)
  | Rectangle => Ok (rectangle_integral x y)
  | UnknownRule => Raise ValueError
  end.
Definition integ (r : rule) (x y : list Qc) : list Qc :=
  match r with Trapezoid => trapezoid_integral x y | _ => rectangle_integral x y end.
Definition total (r : rule) (x y : list Qc) : Qc := sumq (integ r x y).

(** sum_over_indices (line 576): a[start:stop].sum() for consecutive index pairs *)
Fixpoint sum_over_indices (a : list Qc) (idx : list nat) : list Qc :=
  match idx with
  | i :: (j :: _) as idx' => sumq (slice a i j) :: sum_over_indices a idx'
  | _ => []
  end.
