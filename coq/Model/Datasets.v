(** Model of traffic_weaver.datasets._base.load_dataset (lines 54-65) and
    get_data_home (lines 89-97) over the GENERATED registry.  Definitions only. *)
From Coq Require Import String List Bool Ascii.
From TW Require Import Lib.Base.
From TW Require Export Gen.Registry Gen.DocTables.
Import ListNotations.
Open Scope string_scope.

Fixpoint replace_char (a b : ascii) (s : string) : string :=
  match s with
  | EmptyString => EmptyString
  | String c s' => String (if Ascii.eqb c a then b else c) (replace_char a b s')
  end.

(** dataset.startswith('sandvine') / f"load_{...}" / f"fetch_{...}" with '-' -> '_' *)
Definition fun_name (dataset : string) : string :=
  (if String.prefix "sandvine" dataset then "load_" else "fetch_") ++ replace_char "-"%char "_"%char dataset.

Fixpoint assoc {A} (k : string) (l : list (string * A)) : option A :=
  match l with
  | [] => None
  | (k', v) :: l' => if String.eqb k k' then Some v else assoc k l'
  end.

(** getattr(traffic_weaver.datasets._datasets, fun_name): only names imported
    into the aggregation module are attributes of it *)
Definition resolve (dataset : string) : res loader :=
  match assoc (fun_name dataset) exports with
  | None => Raise ValueError
  | Some target =>
      match assoc target loaders with
      | Some l => Ok l
      | None => Raise AttributeError      (* imported name that no family module defines: ImportError at import time *)
      end
  end.

(** where the cache of a remote loader lives, relative to the data home *)
Definition cache_slot (l : loader) : option (string * string) :=
  match l with
  | Remote _ _ _ dsfile folder _ => Some (folder, dsfile)
  | Bundled _ _ => None
  end.

(** get_data_home: explicit argument, else $TRAFFIC_WEAVER_DATA, else ~/.traffic-weaver-data *)
Definition data_home (arg env : option string) : string :=
  match arg with
  | Some d => d
  | None => match env with Some d => d | None => "~/.traffic-weaver-data" end
  end.

(** boolean helpers for the finite checks of C18 *)
Fixpoint nodupb (l : list string) : bool :=
  match l with
  | [] => true
  | a :: l' => negb (existsb (String.eqb a) l') && nodupb l'
  end.
Definition family_of (l : loader) : string :=
  match l with
  | Bundled folder _ => folder
  | Remote _ _ _ _ folder _ => folder
  end.
Definition remotes : list loader :=
  flat_map (fun p => match snd p with Remote _ _ _ _ _ _ => [snd p] | _ => [] end) loaders.
(** path.join(dir, "./name") designates dir/name: leading "./" components are dropped (os.path.normpath
    restricted to what occurs in the registry; a translator-level check rejects any other "/" in these names) *)
Fixpoint strip_dot_slash (fuel : nat) (s : string) : string :=
  match fuel with
  | O => s
  | S f => match s with
           | String "."%char (String "/"%char s') => strip_dot_slash f s'
           | _ => s
           end
  end.
Definition norm (s : string) : string := strip_dot_slash (String.length s) s.
Definition r_filename l := match l with Remote f _ _ _ _ _ => norm f | _ => "" end.
Definition r_url l := match l with Remote _ u _ _ _ _ => u | _ => "" end.
Definition r_checksum l := match l with Remote _ _ c _ _ _ => c | _ => "" end.
Definition r_slot l := match l with Remote _ _ _ d f _ => f ++ "/" ++ norm d | _ => "" end.
Definition r_validate l := match l with Remote _ _ _ _ _ v => v | _ => false end.
Definition underscore (s : string) : string := replace_char "-"%char "_"%char s.
Definition hyphenate (s : string) : string := replace_char "_"%char "-"%char s.
