(** Vocabulary for the statements of C01 / C02 / C03 (definitions only). *)
From TW Require Export Model.Match Lib.Pow.
Open Scope Qc_scope.

(** fixed indices: strictly increasing, at least one interior sample per window *)
Fixpoint gaps_ok (f : list nat) : Prop :=
  match f with
  | a :: ((b :: _) as f') => (a + 2 <= b)%nat /\ gaps_ok f'
  | _ => True
  end.
Fixpoint increasing (f : list nat) : Prop :=
  match f with
  | a :: ((b :: _) as f') => (a < b)%nat /\ increasing f'
  | _ => True
  end.
Definition all_below (f : list nat) (N : nat) : Prop := forall i, In i f -> (i < N)%nat.

(** closed window [f_j, f_{j+1}] of a list *)
Definition fx (f : list nat) (j : nat) : nat := nth j f O.
Definition window (l : list Qc) (f : list nat) (j : nat) : list Qc := slice l (fx f j) (fx f (j + 1) + 1).

(** integral of the reference between two matched reference points *)
Definition ref_integral (rr : rule) (xr yr : list Qc) (ridx : list nat) (j : nat) : Qc :=
  sumq (slice (integ rr xr yr) (fx ridx j) (fx ridx (j + 1))).

(** the documented displacement profile of a window with end abscissae a, b *)
Definition profile (pw : Qc -> Qc) (a b xi : Qc) : Qc :=
  1 - pw (Qc_two * Qc_abs ((b + a) * Qc_half - xi) / (b - a)).

Definition known_rule (r : rule) : Prop := r = Trapezoid \/ r = Rectangle.
