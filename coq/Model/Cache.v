(** Model of the remote dataset loader of /repo/src/traffic_weaver/datasets/_base.py:
      _fetch_remote (182-200), load_csv_dataset_from_remote (236-271).
    One loading process is a small-step machine whose program counter follows the
    statements of the source; the shared file system maps cache slots to complete
    files only through the atomic [rename] step.  A crash freezes the file system
    as it is.  SHA-256, the CSV parser and the network are oracles (section
    variables), never axioms.  Definitions only. *)
From TW Require Export Lib.Base.
Open Scope nat_scope.

Definition blob := list nat.       (* bytes of a downloaded file *)
Definition data := list nat.       (* the parsed (N,2) array, abstractly *)
Definition slot := nat.            (* data_home/folder/dataset_filename, normalised *)

Section Cache.
Variable sha : blob -> nat.                        (* SHA-256 *)
Variable parse : bool -> blob -> option data.      (* np.loadtxt, gzip flag; None = parse error *)

Record remote := { r_slot : slot; r_digest : nat }.
Record flags := { download_if_missing : bool; download_even_if_available : bool;
                  validate_checksum : bool; gzip : bool; n_retries : nat }.

(** shared file system: what each cache slot holds; temp directories hold at most
    in-progress material that nobody ever reads, recorded only as a counter of leftovers *)
Record fsys := { cache : slot -> option data; tmp_leftovers : nat }.
Definition fs_set (f : fsys) (s : slot) (d : data) : fsys :=
  {| cache := fun s' => if Nat.eqb s' s then Some d else cache f s'; tmp_leftovers := tmp_leftovers f |}.
Definition fs_leftover (f : fsys) : fsys := {| cache := cache f; tmp_leftovers := S (tmp_leftovers f) |}.
Definition fs_empty : fsys := {| cache := fun _ => None; tmp_leftovers := 0 |}.

(** program counter: one constructor per step boundary of the source *)
Inductive pc :=
| PStart                                   (* before `available = path.exists(...)` *)
| PFetching (retries_left : nat)           (* inside the TemporaryDirectory, before / between urlretrieve calls *)
| PFetched (b : blob)                      (* urlretrieve returned, file on disk in the temp dir *)
| PVerified (b : blob)                     (* checksum compared *)
| PParsed (d : data)                       (* np.loadtxt returned *)
| PDumped (d : data)                       (* pickle.dump into the temp dir completed *)
| PRenamed (d : data)                      (* os.rename into the cache slot done *)
| PReadCache                               (* about to pickle.load the cache file *)
| PDone (r : res data).                    (* returned / raised; temp dir cleaned up *)

Inductive event :=
| ENetFail                                 (* URLError / TimeoutError from urlretrieve *)
| ENetOk (b : blob)                        (* urlretrieve delivered these bytes *)
| EStep                                    (* an internal step *)
| ECrash.                                  (* the process dies here *)

(** one step of one process. Returns the new file system and the new pc
    (None: the process no longer exists). *)
Definition pstep (r : remote) (fl : flags) (f : fsys) (p : pc) (e : event) : fsys * option pc :=
  match e with
  | ECrash =>
      match p with
      | PStart | PReadCache | PDone _ => (f, None)
      | _ => (fs_leftover f, None)         (* the temp dir (maybe with a partial file) stays behind *)
      end
  | _ =>
    match p with
    | PStart =>
        let available := match cache f (r_slot r) with Some _ => true | None => false end in
        if (download_if_missing fl && negb available) || (download_if_missing fl && download_even_if_available fl && available)
        then (f, Some (PFetching (n_retries fl)))
        else if negb available && negb (download_if_missing fl) then (f, Some (PDone (Raise OSError)))
        else (f, Some PReadCache)
    | PFetching k =>
        match e with
        | ENetOk b => (f, Some (PFetched b))
        | ENetFail => match k with
                      | O => (f, Some (PDone (Raise OSError)))      (* re-raise: URLError / TimeoutError are OSErrors *)
                      | S k' => (f, Some (PFetching k'))            (* warn, sleep(delay), retry *)
                      end
        | _ => (f, Some p)                                          (* still waiting for the network *)
        end
    | PFetched b =>
        if validate_checksum fl && negb (Nat.eqb (sha b) (r_digest r))
        then (f, Some (PDone (Raise OSError)))
        else (f, Some (PVerified b))
    | PVerified b =>
        match parse (gzip fl) b with
        | Some d => (f, Some (PParsed d))
        | None => (f, Some (PDone (Raise ValueError)))
        end
    | PParsed d => (f, Some (PDumped d))
    | PDumped d => (fs_set f (r_slot r) d, Some (PRenamed d))       (* os.rename: atomic *)
    | PRenamed d => (f, Some (PDone (Ok d)))
    | PReadCache =>
        match cache f (r_slot r) with
        | Some d => (f, Some (PDone (Ok d)))
        | None => (f, Some (PDone (Raise OSError)))                 (* FileNotFoundError *)
        end
    | PDone _ => (f, Some p)
    end
  end.

(** sequential run of one load: consume events until done (fuel = number of events) *)
Fixpoint run_load (r : remote) (fl : flags) (f : fsys) (p : pc) (evs : list event) : fsys * option pc * list event :=
  match p with
  | PDone _ => (f, Some p, evs)
  | _ =>
      match evs with
      | [] => (f, Some p, [])
      | e :: evs' =>
          match pstep r fl f p e with
          | (f', Some p') => run_load r fl f' p' evs'
          | (f', None) => (f', None, evs')
          end
      end
  end.

Definition load (r : remote) (fl : flags) (f : fsys) (evs : list event) := run_load r fl f PStart evs.

(** any number of processes, any schedule: a global step picks a process *)
Record proc := { p_remote : remote; p_flags : flags; p_pc : pc }.
Definition gstate := (fsys * list (option proc))%type.
Fixpoint upd {A} (l : list A) (i : nat) (v : A) : list A :=
  match l, i with
  | [], _ => []
  | _ :: l', O => v :: l'
  | a :: l', S i' => a :: upd l' i' v
  end.
Definition gstep (g : gstate) (pe : nat * event) : gstate :=
  let '(f, ps) := g in
  let '(i, e) := pe in
  match nth i ps None with
  | None => g
  | Some p =>
      match pstep (p_remote p) (p_flags p) f (p_pc p) e with
      | (f', Some pc') => (f', upd ps i (Some {| p_remote := p_remote p; p_flags := p_flags p; p_pc := pc' |}))
      | (f', None) => (f', upd ps i None)
      end
  end.
Definition grun (g : gstate) (sched : list (nat * event)) : gstate := fold_left gstep sched g.

(** what "verified data" means for a slot, given the pinned digests *)
Definition verified_for (digest_of : slot -> nat) (gz : bool) (s : slot) (d : data) : Prop :=
  exists b, sha b = digest_of s /\ parse gz b = Some d.

End Cache.
