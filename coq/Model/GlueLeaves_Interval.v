(** Leaves for the regenerated methods of class IntervalArray (Gen/IntervalGlue.v, from interval.py), run by the
    function-level interpreter of Model/GlueFun.v.

    The object.  An IntervalArray is the value [ivl l n] = VClos "ivl" [VArr l; VInt n] of Model/GlueFun.v (the same value
    the RFA glue proofs use).  A method runs in an environment that binds the parameters and then the attributes:
    "self.a" (the flat array), "self.n" (the interval length) and "self" (the object as it was on entry: only the receiver of
    a self-call).  A method's result is the returned value together with the final "self.a" / "self.n".

    Calls that reach another method of the class -- IntervalArray(a, n) (the constructor: runs __init__ on an object
    without attributes and reads the attributes it stored), self.m(args) and x.m(args) / x.array on an object value -- are
    not leaves: they mean the run of the callee's regenerated body, supplied as the section variable [sub]
    (Proofs/GlueIntervalProofs.v instantiates it with the interpreter itself, one level down).

    The leaves proper are one NumPy / operator primitive each:
      isinstance(v, int); floordiv / mod (operator.floordiv / operator.mod on ints: Python's floor division, Coq's Z.div /
      Z.modulo; a zero divisor raises ZeroDivisionError, which the exception type of Lib/Base.v has no name for: OtherExn);
      slice(lo, hi, st) and getitem(v, slice) / getitem(v, (slice, slice)) on a 2-D array; __call__(f, a, num) for f one
      of the two oversampling helpers imported from sorted_array_utils; extend_linspace / extend_constant (the models of
      Model/SortedUtils.v, proved equal to the regenerated helpers in Proofs/GlueHelperProofs.v); a.size; a.astype(float);
      np.pad(a, (0, k), mode="constant", constant_values=np.nan); reshape(m, n); np.concatenate([A, B]) along axis 0 / 1.

    Arrays that may hold NaN.  A cell is an [option Qc] (None = NaN), written VNum q / VOpaque "np.nan".  A 1-D array of
    cells is VClos "ndarray1" [VTup cells]; a 2-D array is VClos "ndarray2" [VInt columns; VTup rows], each row a VTup of
    cells (the number of columns is kept so that an array without rows still has a shape, as in NumPy: concatenating
    a (0, n) array with a (1, 1) array along axis 1 is a ValueError).  Definitions only. *)
From Coq Require Export Ascii.
From TW Require Export Model.GlueLeaves3.
Open Scope Qc_scope.
Open Scope string_scope.

(** ---------- cells, rows, arrays with NaN ---------- *)
Definition cell_val (c : option Qc) : gval := match c with Some q => VNum q | None => VOpaque "np.nan" end.
Definition cell_of (v : gval) : option (option Qc) :=
  match v with
  | VNum q => Some (Some q)
  | VInt z => Some (Some (Qc_of_Z z))
  | VOpaque t => if seq_eqb t "np.nan" then Some None else None
  | _ => None
  end.
Fixpoint cells_of (l : list gval) : option (list (option Qc)) :=
  match l with
  | [] => Some []
  | v :: l' => match cell_of v, cells_of l' with Some c, Some r => Some (c :: r) | _, _ => None end
  end.
Definition row_val (r : list (option Qc)) : gval := VTup (map cell_val r).
Definition row_of (v : gval) : option (list (option Qc)) :=
  match v with VTup l => cells_of l | VArr l => Some (map Some l) | _ => None end.
Fixpoint rows_of (l : list gval) : option (list (list (option Qc))) :=
  match l with
  | [] => Some []
  | v :: l' => match row_of v, rows_of l' with Some r, Some rs => Some (r :: rs) | _, _ => None end
  end.

Definition nan1 (cells : list (option Qc)) : gval := VClos "ndarray1" [row_val cells].
Definition arr2 (c : Z) (rows : list (list (option Qc))) : gval := VClos "ndarray2" [VInt c; VTup (map row_val rows)].

Definition all_width (c : Z) (rows : list (list (option Qc))) : bool :=
  forallb (fun r => (Z.of_nat (length r) =? c)%Z) rows.

(** what np.concatenate / getitem accept as a 2-D array: a 2-D array, or a nested list [[..], ..] with at least one row and
    rows of equal length *)
Definition as_arr2 (v : gval) : option (Z * list (list (option Qc))) :=
  match v with
  | VClos tag [VInt c; VTup rs] =>
      if seq_eqb tag "ndarray2" then match rows_of rs with Some rows => Some (c, rows) | None => None end else None
  | VTup (r :: rs) =>
      match rows_of (r :: rs) with
      | Some (r0 :: rows) => let c := Z.of_nat (length r0) in if all_width c rows then Some (c, r0 :: rows) else None
      | _ => None
      end
  | _ => None
  end.

(** ---------- slices ---------- *)
Definition slice_obj (lo hi st : gval) : gval := VClos "slice" [lo; hi; st].
(** the bounds of lo:hi (no step) on a sequence of [len] elements, before normalisation *)
Definition slice_bounds (len : Z) (s : gval) : option (Z * Z) :=
  match s with
  | VClos tag [lo; hi; VNoneV] =>
      if seq_eqb tag "slice" then
        match (match lo with VNoneV => Some 0%Z | VInt z => Some z | _ => None end),
              (match hi with VNoneV => Some len | VInt z => Some z | _ => None end) with
        | Some a, Some b => Some (a, b)
        | _, _ => None
        end
      else None
  | _ => None
  end.

(** getitem(A, s) selects rows, getitem(A, (s1, s2)) rows and columns, of a 2-D array *)
Definition getitem2 (v idx : gval) : res gval :=
  match as_arr2 v with
  | None => Raise TypeError
  | Some (c, rows) =>
      match idx with
      | VTup [s1; s2] =>
          match slice_bounds (Z.of_nat (length rows)) s1, slice_bounds c s2 with
          | Some (a1, b1), Some (a2, b2) =>
              Ok (arr2 (Z.max 0 (norm_bound c b2 - norm_bound c a2))
                       (map (fun r => py_slice_step1 r a2 b2) (py_slice_step1 rows a1 b1)))
          | _, _ => Raise OtherExn
          end
      | _ =>
          match slice_bounds (Z.of_nat (length rows)) idx with
          | Some (a1, b1) => Ok (arr2 c (py_slice_step1 rows a1 b1))
          | None => Raise OtherExn
          end
      end
  end.

(** np.concatenate([A, B]) (rows of B after the rows of A) and np.concatenate([A, B], axis=1) (row by row) *)
Definition concat2 (vs : list gval) (ks : list (string * gval)) : res gval :=
  match vs with
  | [VTup [A; B]] =>
      match as_arr2 A, as_arr2 B with
      | Some (ca, ra), Some (cb, rb) =>
          match ks with
          | [] => if (ca =? cb)%Z then Ok (arr2 ca (ra ++ rb)) else Raise ValueError
          | [(k, VInt ax)] =>
              if seq_eqb k "axis" && (ax =? 1)%Z
              then (if (length ra =? length rb)%nat then Ok (arr2 (ca + cb) (map2 (@app (option Qc)) ra rb)) else Raise ValueError)
              else Raise OtherExn
          | _ => Raise OtherExn
          end
      | _, _ => Raise TypeError
      end
  | _ => Raise TypeError
  end.

(** np.pad(a, (0, k), mode="constant", constant_values=np.nan): k NaN cells after the elements *)
Definition pad_nan (vs : list gval) (ks : list (string * gval)) : res gval :=
  match vs, ks with
  | [VArr l; VTup [VInt z0; VInt k]], [(k1, VStrV md); (k2, VOpaque cv)] =>
      if seq_eqb k1 "mode" && seq_eqb md "constant" && seq_eqb k2 "constant_values" && seq_eqb cv "np.nan" && (z0 =? 0)%Z
      then (if (k <? 0)%Z then Raise ValueError else Ok (nan1 (map Some l ++ repeat None (Z.to_nat k))))
      else Raise OtherExn
  | _, _ => Raise TypeError
  end.

(** reshape(m, n) of a 1-D array: m rows of n consecutive cells *)
Fixpoint chunks {A} (n : nat) (l : list A) (m : nat) : list (list A) :=
  match m with
  | O => []
  | S m' => firstn n l :: chunks n (skipn n l) m'
  end.
Definition reshape2 (cells : list (option Qc)) (m n : Z) : res gval :=
  if (m <? 0)%Z || (n <? 0)%Z then Raise OtherExn        (* -1 ("infer this dimension") is not modelled *)
  else if (m * n =? Z.of_nat (length cells))%Z then Ok (arr2 n (chunks (Z.to_nat n) cells (Z.to_nat m)))
  else Raise ValueError.

(** the helpers imported from sorted_array_utils as values: a name that the environment does not bind evaluates to
    VOpaque of the name (Model/GlueFun.v, [flookup]) *)
Definition interval_apply (f : gval) (vs : list gval) : res gval :=
  match f, vs with
  | VOpaque name, [VArr a; VInt num] =>
      if seq_eqb name "oversample_linspace" then Ok (VArr (oversample_linspace a (Z.to_nat num)))
      else if seq_eqb name "oversample_piecewise_constant" then Ok (VArr (oversample_pc a (Z.to_nat num)))
      else Raise OtherExn
  | _, _ => Raise TypeError
  end.

(** ---------- objects ---------- *)
Definition obj_attrs (o : gval) : option fenv :=
  match o with
  | VClos tag [a; n] => if seq_eqb tag "ivl" then Some [("self", o); ("self.a", a); ("self.n", n)] else None
  | _ => None
  end.
(** the object whose attributes an environment holds *)
Definition obj_of_env (en : fenv) : option gval :=
  match assoc "self.a" en, assoc "self.n" en with
  | Some a, Some n => Some (VClos "ivl" [a; n])
  | _, _ => None
  end.
(** the value of a call expression *)
Definition call_result (r : fenv * outcome) : res gval :=
  match snd r with OReturn v => Ok v | ONormal => Ok VNoneV | ORaise e => Raise e end.
(** the value of a constructor call: __init__ must return None; the object is what it stored *)
Definition new_result (r : fenv * outcome) : res gval :=
  match snd r with
  | ONormal => match obj_of_env (fst r) with Some o => Ok o | None => Raise OtherExn end
  | OReturn _ => Raise TypeError
  | ORaise e => Raise e
  end.

Section IntervalLeaves.
(** [sub m positional keyword attrs]: the run of method m of the class in an environment that binds the parameters and
    then [attrs] *)
Variable sub : string -> list gval -> list (string * gval) -> fenv -> fenv * outcome.

Definition interval_callf (fn : string) (vs : list gval) (ks : list (string * gval)) : res gval :=
  if seq_eqb fn "isinstance" then
    match vs, ks with
    | [v; VOpaque t], [] =>
        if seq_eqb t "int" then Ok (VBoolV match v with VInt _ | VBoolV _ => true | _ => false end) else Raise OtherExn
    | _, _ => Raise TypeError
    end
  else if seq_eqb fn "floordiv" then
    match vs, ks with
    | [VInt a; VInt b], [] => if (b =? 0)%Z then Raise OtherExn else Ok (VInt (a / b))
    | _, _ => Raise TypeError
    end
  else if seq_eqb fn "mod" then
    match vs, ks with
    | [VInt a; VInt b], [] => if (b =? 0)%Z then Raise OtherExn else Ok (VInt (a mod b))
    | _, _ => Raise TypeError
    end
  else if seq_eqb fn "slice" then
    match vs, ks with [lo; hi; st], [] => Ok (slice_obj lo hi st) | _, _ => Raise TypeError end
  else if seq_eqb fn "getitem" then
    match vs, ks with [v; i], [] => getitem2 v i | _, _ => Raise TypeError end
  else if seq_eqb fn "__call__" then
    match vs, ks with f :: args, [] => interval_apply f args | _, _ => Raise TypeError end
  else if seq_eqb fn "extend_linspace" then
    match vs, ks with
    | [VArr a; VInt n], [(k, VStrV s)] =>
        if seq_eqb k "direction" then
          match direction_of s with
          | Some d => Ok (VArr (extend_linspace a (Z.to_nat n) d None None))
          | None => Raise OtherExn                       (* a direction the model has no name for *)
          end
        else Raise TypeError
    | _, _ => Raise TypeError
    end
  else if seq_eqb fn "extend_constant" then
    match vs, ks with
    | [VArr a; VInt n], [(k, VStrV s)] =>
        if seq_eqb k "direction" then
          match direction_of s with
          | Some d => Ok (VArr (extend_constant a (Z.to_nat n) d))
          | None => Raise OtherExn
          end
        else Raise TypeError
    | _, _ => Raise TypeError
    end
  else if seq_eqb fn "np.pad" then pad_nan vs ks
  else if seq_eqb fn "np.concatenate" then concat2 vs ks
  else if seq_eqb fn "IntervalArray" then new_result (sub "__init__" vs ks [])
  else
    (* self.m(args, k=v): written by the translator as the call of ".m" on (receiver, args) *)
    match fn, vs with
    | String "."%char m, o :: args =>
        match obj_attrs o with
        | Some attrs => if seq_eqb m "array" || seq_eqb m "__init__" then Raise TypeError else call_result (sub m args ks attrs)
        | None => Raise AttributeError
        end
    | _, _ => Raise OtherExn
    end.

Definition interval_methf (r : gval) (m : string) (vs : list gval) : res gval :=
  match r with
  | VArr l =>
      if seq_eqb m ".size" then (match vs with [] => Ok (VInt (Z.of_nat (length l))) | _ => Raise TypeError end)
      else if seq_eqb m "astype" then
        (* over exact rationals a float copy of an array of numbers is the array *)
        (match vs with [VOpaque t] => if seq_eqb t "float" then Ok (VArr l) else Raise OtherExn | _ => Raise TypeError end)
      else Raise AttributeError
  | VClos tag args =>
      if seq_eqb tag "ndarray1" then
        match args, vs with
        | [VTup cs], [VInt m'; VInt n'] =>
            if seq_eqb m "reshape" then match cells_of cs with Some cells => reshape2 cells m' n' | None => Raise TypeError end
            else Raise AttributeError
        | _, _ => Raise AttributeError
        end
      else
        (* x.m(args) on an object; x.array, the property, is written ".array" *)
        match obj_attrs r with
        | Some attrs =>
            if seq_eqb m ".array" then (match vs with [] => call_result (sub "array" [] [] attrs) | _ => Raise TypeError end)
            else if String.prefix "." m then Raise AttributeError
            else if seq_eqb m "array" || seq_eqb m "__init__" then Raise TypeError
            else call_result (sub m vs [] attrs)
        | None => Raise AttributeError
        end
  | _ => Raise AttributeError
  end.
End IntervalLeaves.

(** ---------- running a method ---------- *)
(** positional arguments bind the first formals (more positional arguments than formals: TypeError), keyword arguments by
    name, defaults for the rest *)
Definition ibind_tbl (tbl : fun_table) (m : string) (vs : list gval) (ks : list (string * gval)) : res (fenv * list gstmt) :=
  match assoc m tbl with
  | None => Raise AttributeError
  | Some (formals, body) =>
      if (length formals <? length vs)%nat then Raise TypeError
      else let? en := fbind_params formals (zip_formals formals vs ++ ks)%list in Ok (en, body)
  end.

Definition no_sub : string -> list gval -> list (string * gval) -> fenv -> fenv * outcome :=
  fun _ _ _ attrs => (attrs, ORaise OtherExn).

(** [fuel] bounds the depth of calls between methods of the class (oversample_linspace -> oversample -> __init__ is depth 2);
    at depth 0 such a call raises.  The result is the final environment (whose "self.a" / "self.n" are the object after the
    call) and the outcome. *)
Fixpoint irun_tbl (tbl : fun_table) (fuel : nat) (m : string) (vs : list gval) (ks : list (string * gval)) (attrs : fenv)
    : fenv * outcome :=
  match ibind_tbl tbl m vs ks with
  | Raise e => (attrs, ORaise e)
  | Ok (en, body) =>
      let sub := match fuel with O => no_sub | S f => irun_tbl tbl f end in
      fexec (interval_callf sub) (interval_methf sub) no_apply no_pow (en ++ attrs)%list body
  end.

(** the attributes of the object [ivl l n], and what a run is observed by: the outcome and the object afterwards *)
Definition ienv (l : list Qc) (n : Z) : fenv := [("self", ivl l n); ("self.a", VArr l); ("self.n", VInt n)].
Definition obs (r : fenv * outcome) : outcome * option gval := (snd r, obj_of_env (fst r)).

(** ---------- the hand model (Model/Interval.v) as values ---------- *)
Definition obj (a : iarr) : gval := ivl (arr a) (Z.of_nat (isize a)).
Definition ienv_of (a : iarr) : fenv := ienv (arr a) (Z.of_nat (isize a)).
(** an int key, a pair, and any tuple whose length is not 2 *)
Definition key_val (k : ikey) (other : list gval) : gval :=
  match k with KInt i => VInt i | KPair i j => VTup [VInt i; VInt j] | KOther => VTup other end.
Definition key_ok (k : ikey) (other : list gval) : bool :=
  match k with KOther => negb (length other =? 2)%nat | _ => true end.
Definition is_other (k : ikey) : bool := match k with KOther => true | _ => false end.
Definition res_outcome (r : res Qc) : outcome := match r with Ok q => OReturn (VNum q) | Raise e => ORaise e end.
(** is the flat index of the key inside the array (Python's range: -len <= f < len)? *)
Definition flat_ok (a : iarr) (k : ikey) : bool :=
  match flat_index a k with
  | Ok f => match Interval.py_index (length (arr a)) f with Some _ => true | None => false end
  | Raise _ => false
  end.
(** guards: a positive interval length; and, for the closed variant, at least one element *)
Definition interval_ok (a : iarr) : bool := (1 <=? isize a)%nat.
Definition closed_ok (a : iarr) : bool := (1 <=? isize a)%nat && negb (length (arr a) =? 0)%nat.
