(** More leaves for the function-level interpreter: the stretching kernel of match.py (np.abs, np.sum, `.sum()`,
    `** alpha`) and the oversampling / extension helpers of sorted_array_utils.py (np.insert, np.linspace, list
    repetition, `.repeat`).  Kept apart from Model/GlueLeaves.v only so that files depending on the latter need not be
    rebuilt.  Definitions only. *)
From TW Require Export Model.GlueLeaves.
Open Scope Qc_scope.
Open Scope string_scope.

Section KernelLeaves.
Variable pw : Qc -> Qc.       (* t |-> t ** alpha *)

Definition kernel_callf (fn : string) (vs : list gval) (ks : list (string * gval)) : res gval :=
  match numpy_callf fn vs ks with
  | Some r => r
  | None =>
  if seq_eqb fn "np.abs" then
    match vs, ks with
    | [VArr l], [] => Ok (VArr (map Qc_abs l))
    | [v], [] => match as_num v with Some q => Ok (VNum (Qc_abs q)) | None => Raise TypeError end
    | _, _ => Raise TypeError
    end
  else if seq_eqb fn "np.sum" then
    match vs, ks with [VArr l], [] => Ok (VNum (sumq l)) | _, _ => Raise TypeError end
  else if seq_eqb fn "integral" then
    match vs, ks with
    | [VArr x; VArr y], [("method", VStrV m)] => let? r := integral x y (rule_of_name m) in Ok (VArr r)
    | _, _ => Raise TypeError
    end
  else Raise OtherExn
  end.

Definition kernel_methf (r : gval) (m : string) (vs : list gval) : res gval :=
  match r, vs with
  | VArr l, [] => if seq_eqb m "sum" then Ok (VNum (sumq l)) else array_methf r m vs
  | _, _ => array_methf r m vs
  end.

Definition alpha_powf (a b : gval) : res gval :=
  match a, b with
  | VArr l, VOpaque "alpha" => Ok (VArr (map pw l))
  | VNum q, VOpaque "alpha" => Ok (VNum (pw q))
  | _, _ => Raise TypeError
  end.
End KernelLeaves.

(** ---------- oversampling / extension helpers ---------- *)
Definition direction_of (s : string) : option direction :=
  if seq_eqb s "both" then Some Both else if seq_eqb s "left" then Some Left else if seq_eqb s "right" then Some Right else None.
Definition direction_name (d : direction) : string := match d with Both => "both" | Left => "left" | Right => "right" end.

Definition helper_callf (fn : string) (vs : list gval) (ks : list (string * gval)) : res gval :=
  match numpy_callf fn vs ks with
  | Some r => r
  | None =>
  if seq_eqb fn "np.insert" then
    (* np.insert(a, pos, values) for pos = 0 or len(a) *)
    match vs, ks with
    | [VArr a; VInt p; v], [] =>
        match vals_of v with
        | Some l => match nums_of l with
                    | Some q => if (p =? 0)%Z then Ok (VArr (q ++ a)) else if (p =? Z.of_nat (length a))%Z then Ok (VArr (a ++ q)) else Raise OtherExn
                    | None => Raise TypeError
                    end
        | None => Raise TypeError
        end
    | _, _ => Raise TypeError
    end
  else if seq_eqb fn "np.linspace" then
    (* np.linspace(a, b, k) on scalars: k points from a to b inclusive *)
    match vs, ks with
    | [a; b; VInt k], [] =>
        match as_num a, as_num b with
        | Some a, Some b => Ok (VArr (linspace a b (Z.to_nat k)))
        | _, _ => Raise TypeError
        end
    | _, _ => Raise TypeError
    end
  else Raise OtherExn
  end.

Definition helper_methf (r : gval) (m : string) (vs : list gval) : res gval :=
  match r, vs with
  | VArr l, [VInt k] =>
      if seq_eqb m "repeat" then Ok (VArr (flat_map (fun v => repeatq v (Z.to_nat k)) l)) else array_methf r m vs
  | _, _ => array_methf r m vs
  end.
