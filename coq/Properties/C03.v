(** C03 — matching moves only interior samples, along the documented profile.
    Statements only; proofs are in Proofs/MatchProofs.v. *)
From TW Require Import Model.MatchSpec Proofs.MatchProofs.
Open Scope Qc_scope.

Theorem C03_outside_unchanged : forall pw r x y targets f res, known_rule r ->
  length x = length y -> increasing f -> all_below f (length x) ->
  interval_match pw r x y targets f = Ok res ->
  forall i, (i < fx f 0)%nat \/ (fx f (length f - 1) < i)%nat -> nthq i res = nthq i y.
Proof. exact outside_unchanged. Qed.
Print Assumptions C03_outside_unchanged.

Theorem C03_fixed_unchanged : forall pw r x y targets f res, PwOk pw -> known_rule r ->
  ssorted x -> length x = length y -> gaps_ok f -> all_below f (length x) ->
  interval_match pw r x y targets f = Ok res ->
  forall j, (j < length f)%nat -> nthq (fx f j) res = nthq (fx f j) y.
Proof. exact fixed_unchanged. Qed.
Print Assumptions C03_fixed_unchanged.

(** inside window j every sample is displaced by one scalar h_j times the
    documented profile 1 - (2|x - centre|/width)^alpha, centre = middle abscissa *)
Theorem C03_displacement_profile : forall pw r x y targets f res, PwOk pw -> known_rule r ->
  ssorted x -> length x = length y -> gaps_ok f -> all_below f (length x) ->
  length targets = (length f - 1)%nat ->
  interval_match pw r x y targets f = Ok res ->
  forall j, (j + 1 < length f)%nat -> exists h,
    forall i, (fx f j <= i)%nat -> (i <= fx f (j + 1))%nat ->
      nthq i res - nthq i y = h * profile pw (nthq (fx f j) x) (nthq (fx f (j + 1)) x) (nthq i x).
Proof. exact displacement_profile. Qed.
Print Assumptions C03_displacement_profile.

(** the profile is zero at the ends, non-negative, symmetric about the centre
    and non-increasing in the distance from it: so all interior samples move in
    the same direction, most at the centre *)
Theorem C03_profile_shape : forall pw a b, PwOk pw -> a < b ->
  profile pw a b a = 0 /\ profile pw a b b = 0 /\
  (forall xi, a <= xi -> xi <= b -> 0 <= profile pw a b xi) /\
  (forall xi, a < xi -> xi < b -> 0 < profile pw a b xi) /\
  (forall xi xj, a <= xi -> xi <= b -> a <= xj -> xj <= b ->
     Qc_abs ((b + a) * Qc_half - xi) = Qc_abs ((b + a) * Qc_half - xj) -> profile pw a b xi = profile pw a b xj) /\
  (forall xi xj, a <= xi -> xi <= b -> a <= xj -> xj <= b ->
     Qc_abs ((b + a) * Qc_half - xi) <= Qc_abs ((b + a) * Qc_half - xj) -> profile pw a b xj <= profile pw a b xi).
Proof. exact profile_shape. Qed.
Print Assumptions C03_profile_shape.

(** the kernel is affine in (y, target) jointly *)
Theorem C03_kernel_affine : forall pw r x y1 y2 t1 t2 c, known_rule r ->
  length y1 = length x -> length y2 = length x ->
  stretch pw r x (map2 (fun a b => c * a + (1 - c) * b) y1 y2) (c * t1 + (1 - c) * t2)
  = map2 (fun a b => c * a + (1 - c) * b) (stretch pw r x y1 t1) (stretch pw r x y2 t2).
Proof. exact kernel_affine. Qed.
Print Assumptions C03_kernel_affine.

(** matching an already matched function changes nothing (Leibniz equality) *)
Theorem C03_idempotent : forall pw x y xr yr m rt rr fi ridx res, PwOk pw -> known_rule rt -> known_rule rr ->
  ssorted x -> length x = length y -> length xr = length yr ->
  resolve_fixed x xr m = Ok (fi, ridx) ->
  gaps_ok fi -> all_below fi (length x) -> length ridx = length fi ->
  match_ref pw x y xr yr m rt rr = Ok res ->
  match_ref pw x res xr yr m rt rr = Ok res.
Proof. exact match_idempotent. Qed.
Print Assumptions C03_idempotent.

Example C03_example :
  let x := map qz [0; 1; 2; 4; 5; 7; 8; 9; 11; 12; 13]%Z in
  let y := map qz [1; 3; 2; 5; 4; 4; 0; 1; 2; 2; 6]%Z in
  match match_ref (pw_int 1) x y [qf 1 2; qf 9 2; qz 12] [qz 3; qz 7; qz 1] (ByStrategy Closest) Trapezoid Rectangle with
  | Ok res => match match_ref (pw_int 1) x res [qf 1 2; qf 9 2; qz 12] [qz 3; qz 7; qz 1] (ByStrategy Closest) Trapezoid Rectangle with
              | Ok res2 => list_eqb Qc_eqb res res2 && Qc_eqb (nthq 0 res) (qz 1) && Qc_eqb (nthq 10 res) (qz 6) && negb (Qc_eqb (nthq 2 res) (qz 2))
              | _ => false end
  | _ => false
  end = true.
Proof. vm_compute. reflexivity. Qed.

(** ---- function bodies REGENERATED from match.py as glue terms (Gen/MatchGlue.v), run by the interpreter of Model/GlueFun.v with
     the leaves of Model/GlueLeaves.v (callees mean their models), are the hand-written models ---- *)
From TW Require Import Model.GlueLeaves Gen.MatchGlue Proofs.GlueMatchProofs.
Open Scope string_scope.
(** the window loop of _interval_integral_matching_stretch (zip over the targets and consecutive fixed points, end + 1,
    in-place slice assignment) is the model's interval_match *)
Theorem C03_glue_interval_loop : forall pw x y targets fixed r, length x = length y ->
  outcome_arr (call_fun (match_callf pw) array_methf no_apply no_pow match_functions "_interval_integral_matching_stretch"
     [("x", VArr x); ("y", VArr y); ("integral_values", VArr targets); ("fixed_points_indices_in_x", VIdxArr (ints fixed));
      ("integral_method", VStrV (rule_name r)); ("alpha", VOpaque "alpha")])
  = interval_match pw r x y targets fixed.
Proof. exact glue_interval_loop. Qed.
Print Assumptions C03_glue_interval_loop.
Close Scope string_scope.

(** ---- more bodies REGENERATED as glue terms and proved equal to the model (leaves: Model/GlueLeaves2.v) ---- *)
From TW Require Import Model.GlueLeaves2 Gen.MatchGlue Proofs.GlueKernelProofs.
Open Scope string_scope.
(** _integral_matching_stretch (no smoothing): method check, current integral, weights (the two-point special case), the rule
    dispatch for y_hat, the final update — as regenerated — are the model's stretch_res, wherever the model's divisions are defined *)
Theorem C03_glue_stretch_kernel : forall pw x y target r, x <> [] -> length x = length y ->
  (r <> UnknownRule -> stretch_defined pw r x = true) ->
  outcome_arr (call_fun kernel_callf kernel_methf no_apply (alpha_powf pw) match_functions "_integral_matching_stretch"
     [("x", VArr x); ("y", VArr y); ("integral_value", VNum target); ("integral_method", VStrV (rule_name r)); ("alpha", VOpaque "alpha")])
  = stretch_res pw r x y target.
Proof. exact glue_stretch_kernel. Qed.
Print Assumptions C03_glue_stretch_kernel.
Close Scope string_scope.
