(** C04 — recreated series has an exact n-fold grid structure.
    Statements only; proofs are in Proofs/RfaGridProofs.v.
    [pw] / [gpow] are the exponent and adaptive-smoothing power functions: the
    grid structure holds for every choice of them and for every strategy
    parameter (no hypothesis on alpha, a, beta at all). *)
From TW Require Import Model.Rfa Proofs.RfaGridProofs.
Open Scope Qc_scope.

Theorem C04_grid : forall pw gpow k x y n, (2 <= n)%Z -> (2 <= length x)%nat -> length x = length y ->
  exists xs ys, rfa pw gpow k x y n = Ok (xs, ys) /\
    let N := Z.to_nat n in
    xs = oversample_linspace x N /\
    length xs = ((length x - 1) * N + 1)%nat /\ length ys = length xs /\
    (forall j, (j < length x)%nat -> nthq (j * N) xs = nthq j x) /\
    (forall j i, (j + 1 < length x)%nat -> (i < N)%nat ->
       nthq (j * N + i + 1) xs - nthq (j * N + i) xs = (nthq (j + 1) x - nthq j x) / Qc_of_nat N).
Proof. exact rfa_grid. Qed.
Print Assumptions C04_grid.

Theorem C04_strictly_increasing : forall pw gpow k x y n xs ys, (2 <= n)%Z -> (2 <= length x)%nat -> length x = length y ->
  ssorted x -> rfa pw gpow k x y n = Ok (xs, ys) -> ssorted xs.
Proof. exact rfa_sorted. Qed.
Print Assumptions C04_strictly_increasing.

Theorem C04_n_below_2 : forall pw gpow k x y n, (n < 2)%Z -> rfa pw gpow k x y n = Raise ValueError.
Proof. exact rfa_n_below_2. Qed.
Print Assumptions C04_n_below_2.

(** the one-interval extensions on both sides are cut off again exactly *)
Theorem C04_extend_then_cut : forall a n, (n + 1 <= length a)%nat ->
  cut n (extend_linspace a n Both None None) = a /\ cut n (extend_constant a n Both) = a.
Proof. exact extend_then_cut. Qed.
Print Assumptions C04_extend_then_cut.

(** user-supplied sampling functions see exactly the grid *)
Theorem C04_function_values : forall pw gpow f x y n, (2 <= n)%Z ->
  rfa pw gpow (FunctionSampled f) x y n =
  Ok (oversample_linspace x (Z.to_nat n), map f (oversample_linspace x (Z.to_nat n))).
Proof. exact rfa_function_values. Qed.
Print Assumptions C04_function_values.

Example C04_example :
  match rfa (pw_int 2) (fun g => g) (ExpAdaptive 1 Qc_half None) [qz 0; qz 1; qz 3] [qz 2; qz 5; qz 1] 4 with
  | Ok r => Nat.eqb (length (fst r)) 9 && Nat.eqb (length (snd r)) 9 && Qc_eqb (nthq 4 (fst r)) (qz 1) && Qc_eqb (nthq 6 (fst r)) (qz 2)
  | _ => false end = true.
Proof. vm_compute. reflexivity. Qed.

(** ---- the rfa() methods, REGENERATED from rfa.py as glue terms (Gen/RfaGlue.v) and run by the interpreter of Model/GlueFun.v with the
     leaves of Model/GlueLeaves.v (IntervalArray accessors, shape functions, oversampling / extension helpers, adaptive windows mean
     their models), are the write-loop model of Model/Rfa.v ---- *)
From TW Require Import Model.GlueLeaves Gen.RfaGlue Proofs.GlueRfaFixedProofs.
Open Scope string_scope.
Theorem C04_glue_rfa_pc_function : forall sf x y n,
  outcome_arr_pair (call_meth (rfa_callf (fun t => t) sf) (rfa_methf (fun t => t) x y n) no_apply no_pow rfa_methods
     "PiecewiseConstantRFA.rfa" (rfa_attrs x y n 0 0 0 0) []) = Ok (rfa_pc x y n) /\
  outcome_arr_pair (call_meth (rfa_callf (fun t => t) sf) (rfa_methf (fun t => t) x y n) no_apply no_pow rfa_methods
     "FunctionRFA.rfa" (rfa_attrs x y n 0 0 0 0) []) = Ok (rfa_function sf x y n) /\
  outcome_arr_pair (call_meth (rfa_callf (fun t => t) sf) (rfa_methf (fun t => t) x y n) no_apply no_pow rfa_methods
     "AbstractRFA._initial_oversample" (rfa_attrs x y n 0 0 0 0) []) = Ok (oversample_linspace x n, oversample_pc y n) /\
  outcome_arr (call_meth (rfa_callf (fun t => t) sf) (rfa_methf (fun t => t) x y n) no_apply no_pow rfa_methods
     "AbstractRFA._initial_x_oversample" (rfa_attrs x y n 0 0 0 0) []) = Ok (oversample_linspace x n) /\
  outcome_arr (call_meth (rfa_callf (fun t => t) sf) (rfa_methf (fun t => t) x y n) no_apply no_pow rfa_methods
     "AbstractRFA._initial_y_oversample" (rfa_attrs x y n 0 0 0 0) []) = Ok (oversample_pc y n).
Proof. exact glue_rfa_pc_function. Qed.
Print Assumptions C04_glue_rfa_pc_function.
Close Scope string_scope.
