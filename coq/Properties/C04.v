(** C04 — recreated series has an exact n-fold grid structure.
    Statements only; proofs are in Proofs/RfaGridProofs.v.
    [pw] / [gpow] are the exponent and adaptive-smoothing power functions: the
    grid structure holds for every choice of them and for every strategy
    parameter (no hypothesis on alpha, a, beta at all). *)
From TW Require Import Model.Rfa Proofs.RfaGridProofs.
Open Scope Qc_scope.

Theorem C04_grid : forall pw gpow k x y n, (2 <= n)%Z -> (2 <= length x)%nat -> length x = length y ->
  exists xs ys, rfa pw gpow k x y n = Ok (xs, ys) /\
    let N := Z.to_nat n in
    xs = oversample_linspace x N /\
    length xs = ((length x - 1) * N + 1)%nat /\ length ys = length xs /\
    (forall j, (j < length x)%nat -> nthq (j * N) xs = nthq j x) /\
    (forall j i, (j + 1 < length x)%nat -> (i < N)%nat ->
       nthq (j * N + i + 1) xs - nthq (j * N + i) xs = (nthq (j + 1) x - nthq j x) / Qc_of_nat N).
Proof. exact rfa_grid. Qed.
Print Assumptions C04_grid.

Theorem C04_strictly_increasing : forall pw gpow k x y n xs ys, (2 <= n)%Z -> (2 <= length x)%nat -> length x = length y ->
  ssorted x -> rfa pw gpow k x y n = Ok (xs, ys) -> ssorted xs.
Proof. exact rfa_sorted. Qed.
Print Assumptions C04_strictly_increasing.

Theorem C04_n_below_2 : forall pw gpow k x y n, (n < 2)%Z -> rfa pw gpow k x y n = Raise ValueError.
Proof. exact rfa_n_below_2. Qed.
Print Assumptions C04_n_below_2.

(** the one-interval extensions on both sides are cut off again exactly *)
Theorem C04_extend_then_cut : forall a n, (n + 1 <= length a)%nat ->
  cut n (extend_linspace a n Both None None) = a /\ cut n (extend_constant a n Both) = a.
Proof. exact extend_then_cut. Qed.
Print Assumptions C04_extend_then_cut.

(** user-supplied sampling functions see exactly the grid *)
Theorem C04_function_values : forall pw gpow f x y n, (2 <= n)%Z ->
  rfa pw gpow (FunctionSampled f) x y n =
  Ok (oversample_linspace x (Z.to_nat n), map f (oversample_linspace x (Z.to_nat n))).
Proof. exact rfa_function_values. Qed.
Print Assumptions C04_function_values.

Example C04_example :
  match rfa (pw_int 2) (fun g => g) (ExpAdaptive 1 Qc_half None) [qz 0; qz 1; qz 3] [qz 2; qz 5; qz 1] 4 with
  | Ok r => Nat.eqb (length (fst r)) 9 && Nat.eqb (length (snd r)) 9 && Qc_eqb (nthq 4 (fst r)) (qz 1) && Qc_eqb (nthq 6 (fst r)) (qz 2)
  | _ => false end = true.
Proof. vm_compute. reflexivity. Qed.
