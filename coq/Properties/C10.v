(** C10 — nearest-sample search returns the defined neighbour for every query.
    Statements only; proofs are in Proofs/SearchProofs.v. *)
From TW Require Import Model.Search Proofs.SearchProofs.
Open Scope Z_scope.

(** The three scans compute, for every strictly increasing x (any length >= 1)
    and every non-decreasing query list (any length >= 1), the per-query
    specification. *)
Theorem C10_lower_scan : forall x lookup fill,
  ssorted x -> nondecr lookup -> x <> [] -> lookup <> [] ->
  find_lower x lookup fill = Ok (map (lower_spec x fill) lookup).
Proof. exact lower_scan_correct. Qed.
Print Assumptions C10_lower_scan.

Theorem C10_higher_scan : forall x lookup fill,
  ssorted x -> nondecr lookup -> x <> [] -> lookup <> [] ->
  find_higher x lookup fill = Ok (map (higher_spec x fill) lookup).
Proof. exact higher_scan_correct. Qed.
Print Assumptions C10_higher_scan.

Theorem C10_closest_scan : forall x lookup,
  ssorted x -> nondecr lookup -> x <> [] -> lookup <> [] ->
  find_closest x lookup = Ok (map (closest_spec x) lookup).
Proof. exact closest_scan_correct. Qed.
Print Assumptions C10_closest_scan.

(** The per-query specifications are the neighbours the property names:
    largest element <= q (or 0 / -1), smallest element >= q (or last / len),
    nearest element with ties to the lower index. *)
Theorem C10_lower_spec_meaning : forall x fill q,
  ssorted x -> x <> [] -> is_lower x fill q (lower_spec x fill q).
Proof. exact lower_spec_is_lower. Qed.
Print Assumptions C10_lower_spec_meaning.

Theorem C10_higher_spec_meaning : forall x fill q,
  ssorted x -> x <> [] -> is_higher x fill q (higher_spec x fill q).
Proof. exact higher_spec_is_higher. Qed.
Print Assumptions C10_higher_spec_meaning.

Theorem C10_closest_spec_meaning : forall x q,
  ssorted x -> x <> [] -> is_closest x q (closest_spec x q).
Proof. exact closest_spec_is_closest. Qed.
Print Assumptions C10_closest_spec_meaning.

(** The characterisations determine the index uniquely (so the theorems above
    pin the result, they do not merely constrain it). *)
Theorem C10_lower_unique : forall x fill q i j,
  x <> [] -> is_lower x fill q i -> is_lower x fill q j -> i = j.
Proof. exact is_lower_unique. Qed.
Print Assumptions C10_lower_unique.

Theorem C10_higher_unique : forall x fill q i j,
  x <> [] -> is_higher x fill q i -> is_higher x fill q j -> i = j.
Proof. exact is_higher_unique. Qed.
Print Assumptions C10_higher_unique.

Theorem C10_closest_unique : forall x q i j,
  is_closest x q i -> is_closest x q j -> i = j.
Proof. exact is_closest_unique. Qed.
Print Assumptions C10_closest_unique.

Theorem C10_unknown_strategy : forall x lookup fill,
  find_indices x lookup UnknownStrategy fill = Raise ValueError.
Proof. reflexivity. Qed.
Print Assumptions C10_unknown_strategy.

(** Non-vacuity: duplicates in lookup, single-element x, queries beyond both ends. *)
Example C10_example_hyps :
  ssorted [qz 1; qz 2; qz 4] /\ nondecr [qz 0; qz 2; qz 2; qz 3; qz 9] /\
  find_closest [qz 1; qz 2; qz 4] [qz 0; qz 2; qz 2; qz 3; qz 9] = Ok [0; 1; 1; 1; 2] /\
  find_lower [qz 5] [qz 0; qz 5; qz 7] false = Ok [-1; 0; 0] /\
  find_higher [qz 5] [qz 0; qz 5; qz 7] false = Ok [0; 0; 1].
Proof. vm_compute. repeat split; first [reflexivity | exact I | discriminate]. Qed.

(** ---- function bodies REGENERATED from the source as glue terms (Gen/UtilsGlue.v), run by the interpreter of Model/GlueFun.v with
     the leaves of Model/GlueLeaves.v (callees mean their models), are the hand-written models ---- *)
From TW Require Import Model.GlueLeaves Gen.UtilsGlue Proofs.GlueDispatchProofs.
Open Scope string_scope.
Theorem C10_glue_find_dispatch : forall x lk s fill,
  outcome_idx (call_fun utils_callf array_methf no_apply no_pow utils_functions "find_closest_element_indices_to_values"
     [("x", VArr x); ("lookup", VArr lk); ("strategy", VStrV (strategy_name s)); ("fill_not_valid", VBoolV fill)])
  = find_indices x lk s fill.
Proof. exact glue_find_dispatch. Qed.
Print Assumptions C10_glue_find_dispatch.
Close Scope string_scope.

(** ---- the three two-pointer scans — `while` loops over explicit iterators — REGENERATED from sorted_array_utils.py as glue terms
     (Gen/ScanGlue.v) and run with fuel by Model/GlueWhile.v, are the hand-written scans of Model/Search.v ---- *)
From TW Require Import Model.GlueWhile Gen.ScanGlue Proofs.GlueScanProofs.
Open Scope string_scope.
Theorem C10_glue_find_lower : forall x lk fill fuel, (scan_fuel x lk <= fuel)%nat ->
  wout_idx (wcall fuel scan_callf array_methf scan_functions "find_closest_lower_equal_element_indices_to_values"
     [("x", VArr x); ("lookup", VArr lk); ("fill_not_valid", VBoolV fill)]) = find_lower x lk fill.
Proof. exact glue_find_lower. Qed.
Print Assumptions C10_glue_find_lower.

Theorem C10_glue_find_higher : forall x lk fill fuel, (scan_fuel x lk <= fuel)%nat ->
  wout_idx (wcall fuel scan_callf array_methf scan_functions "find_closest_higher_equal_element_indices_to_values"
     [("x", VArr x); ("lookup", VArr lk); ("fill_not_valid", VBoolV fill)]) = find_higher x lk fill.
Proof. exact glue_find_higher. Qed.
Print Assumptions C10_glue_find_higher.

Theorem C10_glue_find_closest : forall x lk fuel, (scan_fuel x lk <= fuel)%nat ->
  wout_idx (wcall fuel scan_callf array_methf scan_functions "find_closest_lower_or_higher_element_indices_to_values"
     [("x", VArr x); ("lookup", VArr lk)]) = find_closest x lk.
Proof. exact glue_find_closest. Qed.
Print Assumptions C10_glue_find_closest.

(** fill_not_valid defaults to True *)
Theorem C10_glue_scan_defaults : forall x lk fuel,
  wcall fuel scan_callf array_methf scan_functions "find_closest_lower_equal_element_indices_to_values" [("x", VArr x); ("lookup", VArr lk)] =
  wcall fuel scan_callf array_methf scan_functions "find_closest_lower_equal_element_indices_to_values" [("x", VArr x); ("lookup", VArr lk); ("fill_not_valid", VBoolV true)] /\
  wcall fuel scan_callf array_methf scan_functions "find_closest_higher_equal_element_indices_to_values" [("x", VArr x); ("lookup", VArr lk)] =
  wcall fuel scan_callf array_methf scan_functions "find_closest_higher_equal_element_indices_to_values" [("x", VArr x); ("lookup", VArr lk); ("fill_not_valid", VBoolV true)].
Proof. exact glue_scan_defaults. Qed.
Print Assumptions C10_glue_scan_defaults.
Close Scope string_scope.
