(** C14 — trend, shift, scale and normalise are exact point-wise maps.
    Statements only; proofs are in Proofs/ProcessProofs.v (process-level) and
    Proofs/WeaverProofs.v (Weaver-level, added below when present). *)
From TW Require Import Model.Process Proofs.ProcessProofs.
Open Scope Qc_scope.

Theorem C14_trend_pointwise : forall f nrm x y, length x = length y ->
  let out := trend f nrm x y in
  fst out = x /\ length (snd out) = length y /\
  forall i, (i < length x)%nat ->
    nthq i (snd out) = nthq i y + f (if nrm then nthq i x / (lastq x - headq x) else nthq i x).
Proof. exact trend_pointwise. Qed.
Print Assumptions C14_trend_pointwise.

Theorem C14_trend_zero : forall nrm x y, length x = length y -> trend (fun _ => 0) nrm x y = (x, y).
Proof. exact trend_zero. Qed.
Print Assumptions C14_trend_zero.

Theorem C14_trend_add : forall f g nrm x y, length x = length y ->
  let t1 := trend f nrm x y in
  trend g nrm (fst t1) (snd t1) = trend (fun v => f v + g v) nrm x y.
Proof. exact trend_add. Qed.
Print Assumptions C14_trend_add.

Theorem C14_linear_trend : forall a nrm x y, linear_trend a nrm x y = trend (fun v => a * v) nrm x y.
Proof. reflexivity. Qed.
Print Assumptions C14_linear_trend.

(** normalisation: minimum -> lo, maximum -> hi, by an increasing affine map *)
Theorem C14_normalize_affine : forall a lo hi, normalize_defined a = true -> lo < hi ->
  exists al be, 0 < al /\ length (normalize a lo hi) = length a /\
    (forall i, (i < length a)%nat -> nthq i (normalize a lo hi) = al * nthq i a + be) /\
    al * minq a + be = lo /\ al * maxq a + be = hi.
Proof. exact normalize_affine. Qed.
Print Assumptions C14_normalize_affine.

Theorem C14_min_max_attained : forall a, a <> [] ->
  In (minq a) a /\ In (maxq a) a /\ forall v, In v a -> minq a <= v /\ v <= maxq a.
Proof. exact min_max_attained. Qed.
Print Assumptions C14_min_max_attained.

Theorem C14_normalize_sorted : forall a lo hi, ssorted a -> (2 <= length a)%nat -> lo < hi ->
  normalize_defined a = true /\ ssorted (normalize a lo hi).
Proof. exact normalize_sorted. Qed.
Print Assumptions C14_normalize_sorted.

(** ======== Weaver level (class Weaver in weaver.py; model coq/Model/Weaver.v) ======== *)
From TW Require Import Model.WeaverSpec Model.Interval Proofs.WeaverLevelProofs.
Theorem C14_weaver_shift_scale : forall s v,
  step s (OShiftX v) = (set_rx (set_x s (map (fun a => a + v) (wx s))) (map (fun a => a + v) (wrx s)), Ok tt) /\
  step s (OShiftY v) = (set_ry (set_y s (map (fun a => a + v) (wy s))) (map (fun a => a + v) (wry s)), Ok tt) /\
  step s (OScaleX v) = (set_rx (set_x s (map (fun a => a * v) (wx s))) (map (fun a => a * v) (wrx s)), Ok tt) /\
  step s (OScaleY v) = (set_ry (set_y s (map (fun a => a * v) (wy s))) (map (fun a => a * v) (wry s)), Ok tt).
Proof. exact weaver_shift_scale. Qed.
Print Assumptions C14_weaver_shift_scale.

Theorem C14_weaver_trend : forall s f nrm s', step s (OTrend f nrm) = (s', Ok tt) ->
  wx s' = wx s /\ wy s' = snd (trend f nrm (wx s) (wy s)) /\ wrx s' = wrx s /\ wry s' = wry s /\ wox s' = wox s /\ woy s' = woy s.
Proof. exact weaver_trend. Qed.
Print Assumptions C14_weaver_trend.

Theorem C14_weaver_normalize : forall s lo hi s', step s (ONormX lo hi) = (s', Ok tt) ->
  wx s' = normalize (wx s) lo hi /\ wrx s' = normalize (wrx s) lo hi /\ wox s' = normalize (wox s) lo hi /\
  wy s' = wy s /\ wry s' = wry s /\ woy s' = woy s.
Proof. exact weaver_normalize_x. Qed.
Print Assumptions C14_weaver_normalize.

(** ======== generated arithmetic = model (Gen/Kernels.v is regenerated from the source on every check) ======== *)
From TW Require Import Model.MatchSpec Model.Process Gen.Kernels Proofs.KernelsLink.
Theorem C14_generated_normalize : forall a lo hi,
  normalize__ret (VV a) (normalize__a_min (VV a)) (normalize__a_max (VV a)) (VS hi) (VS lo) = VV (normalize a lo hi).
Proof. exact gen_normalize. Qed.
Print Assumptions C14_generated_normalize.

Theorem C14_generated_trend_range : forall x, x <> [] -> trend__range_x (VV x) = VS (lastq x - headq x).
Proof. exact gen_trend_range. Qed.
Print Assumptions C14_generated_trend_range.

(** ---- function bodies REGENERATED from the source as glue terms (Gen/ProcessGlue.v), run by the interpreter of Model/GlueFun.v with
     the leaves of Model/GlueLeaves.v (callees mean their models), are the hand-written models ---- *)
From TW Require Import Model.GlueLeaves Gen.ProcessGlue Proofs.GlueProcessProofs.
Open Scope string_scope.
Theorem C14_glue_trend : forall f x y nrm, x <> [] -> length x = length y ->
  outcome_arr_pair (call_fun (process_callf f) array_methf no_apply no_pow process_functions "trend"
     [("x", VArr x); ("y", VArr y); ("fun", VOpaque "fun"); ("normalized", VBoolV nrm)])
  = Ok (trend f nrm x y).
Proof. exact glue_trend. Qed.
Print Assumptions C14_glue_trend.

Theorem C14_glue_normalize : forall a lo hi, a <> [] ->
  outcome_arr (call_fun (process_callf (fun v => v)) array_methf no_apply no_pow process_functions "normalize"
     [("a", VArr a); ("min_val", VNum lo); ("max_val", VNum hi)])
  = Ok (normalize a lo hi).
Proof. exact glue_normalize. Qed.
Print Assumptions C14_glue_normalize.
Close Scope string_scope.

Example C14_example :
  list_eqb Qc_eqb (normalize [qz 2; qz 4; qz 3] (qz 10) (qz 20)) [qz 10; qz 20; qz 15] = true.
Proof. vm_compute. reflexivity. Qed.
