(** C14 — trend, shift, scale and normalise are exact point-wise maps.
    Statements only; proofs are in Proofs/ProcessProofs.v (process-level) and
    Proofs/WeaverProofs.v (Weaver-level, added below when present). *)
From TW Require Import Model.Process Proofs.ProcessProofs.
Open Scope Qc_scope.

Theorem C14_trend_pointwise : forall f nrm x y, length x = length y ->
  let out := trend f nrm x y in
  fst out = x /\ length (snd out) = length y /\
  forall i, (i < length x)%nat ->
    nthq i (snd out) = nthq i y + f (if nrm then nthq i x / (lastq x - headq x) else nthq i x).
Proof. exact trend_pointwise. Qed.
Print Assumptions C14_trend_pointwise.

Theorem C14_trend_zero : forall nrm x y, length x = length y -> trend (fun _ => 0) nrm x y = (x, y).
Proof. exact trend_zero. Qed.
Print Assumptions C14_trend_zero.

Theorem C14_trend_add : forall f g nrm x y, length x = length y ->
  let t1 := trend f nrm x y in
  trend g nrm (fst t1) (snd t1) = trend (fun v => f v + g v) nrm x y.
Proof. exact trend_add. Qed.
Print Assumptions C14_trend_add.

Theorem C14_linear_trend : forall a nrm x y, linear_trend a nrm x y = trend (fun v => a * v) nrm x y.
Proof. reflexivity. Qed.
Print Assumptions C14_linear_trend.

(** normalisation: minimum -> lo, maximum -> hi, by an increasing affine map *)
Theorem C14_normalize_affine : forall a lo hi, normalize_defined a = true -> lo < hi ->
  exists al be, 0 < al /\ length (normalize a lo hi) = length a /\
    (forall i, (i < length a)%nat -> nthq i (normalize a lo hi) = al * nthq i a + be) /\
    al * minq a + be = lo /\ al * maxq a + be = hi.
Proof. exact normalize_affine. Qed.
Print Assumptions C14_normalize_affine.

Theorem C14_min_max_attained : forall a, a <> [] ->
  In (minq a) a /\ In (maxq a) a /\ forall v, In v a -> minq a <= v /\ v <= maxq a.
Proof. exact min_max_attained. Qed.
Print Assumptions C14_min_max_attained.

Theorem C14_normalize_sorted : forall a lo hi, ssorted a -> (2 <= length a)%nat -> lo < hi ->
  normalize_defined a = true /\ ssorted (normalize a lo hi).
Proof. exact normalize_sorted. Qed.
Print Assumptions C14_normalize_sorted.

Example C14_example :
  list_eqb Qc_eqb (normalize [qz 2; qz 4; qz 3] (qz 10) (qz 20)) [qz 10; qz 20; qz 15] = true.
Proof. vm_compute. reflexivity. Qed.
