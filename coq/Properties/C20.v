(** C20 — invalid requests are refused with ValueError and leave the Weaver untouched.
    Statements only; proofs are in Proofs/WeaverProofs.v and the proofs files of the
    function-level models. *)
From TW Require Import Model.WeaverSpec Proofs.WeaverProofs.
Open Scope Qc_scope.

(** a rejected (ValueError) operation leaves all six series exactly as they were *)
Theorem C20_rejected_leaves_state : forall s o s', nonempty6 s -> step s o = (s', Raise ValueError) -> s' = s.
Proof. exact rejected_leaves_state. Qed.
Print Assumptions C20_rejected_leaves_state.

(** the rejection classes *)
Theorem C20_length_mismatch : forall x y, length x <> length y -> init (Some x) y = Raise ValueError.
Proof. exact reject_length_mismatch. Qed.
Print Assumptions C20_length_mismatch.

Theorem C20_not_N_by_2 : forall ndim ncols x y, (ndim <> 2 \/ ncols <> 2)%nat -> from_2d ndim ncols x y = Raise ValueError.
Proof. exact reject_not_N_by_2. Qed.
Print Assumptions C20_not_N_by_2.

Theorem C20_n_below_2 : forall s n pw gpow k ys, (n < 2)%Z ->
  step s (ORecreate n pw gpow k) = (s, Raise ValueError) /\ step s (ORecreateOracle n ys) = (s, Raise ValueError).
Proof. exact reject_n_below_2. Qed.
Print Assumptions C20_n_below_2.

Theorem C20_unknown_rule : forall pw x y xr yr m r,
  match_ref pw x y xr yr m UnknownRule r = Raise ValueError /\
  (forall fi ridx, resolve_fixed x xr m = Ok (fi, ridx) -> match_ref pw x y xr yr m r UnknownRule = Raise ValueError).
Proof. exact reject_unknown_rule. Qed.
Print Assumptions C20_unknown_rule.

Theorem C20_unknown_strategy : forall pw x y xr yr rt rr,
  match_ref pw x y xr yr (ByStrategy UnknownStrategy) rt rr = Raise ValueError.
Proof. exact reject_unknown_strategy. Qed.
Print Assumptions C20_unknown_strategy.

Theorem C20_unknown_method : forall s n g,
  step s (OInterpN n (IOwn MUnknown)) = (s, Raise ValueError) /\
  step s (OInterpGrid g (IOwn MUnknown)) = (s, Raise ValueError) /\
  step s (OInterpNone (IOwn MLinear)) = (s, Raise ValueError).
Proof. exact reject_unknown_method. Qed.
Print Assumptions C20_unknown_method.

Theorem C20_fixed_points_outnumber : forall x xr v i, (length x < length v)%nat -> (length x < length i)%nat ->
  resolve_fixed x xr (ByValues v) = Raise ValueError /\ resolve_fixed x xr (ByIndices i) = Raise ValueError.
Proof. exact reject_fixed_outnumber. Qed.
Print Assumptions C20_fixed_points_outnumber.

Theorem C20_fixed_points_not_in_x : forall x xr v q, ssorted x -> ssorted v -> In q v -> ~ In q x -> xr <> [] -> ssorted xr ->
  (length v <= length x)%nat -> resolve_fixed x xr (ByValues v) = Raise ValueError.
Proof. exact reject_fixed_not_in_x. Qed.
Print Assumptions C20_fixed_points_not_in_x.

Theorem C20_inverted_range : forall s l r, r <= l -> step s (OTruncVal l r false false) = (s, Raise ValueError).
Proof. exact reject_inverted_range. Qed.
Print Assumptions C20_inverted_range.

Theorem C20_inverted_ratio_range : forall s l r, r <= l -> 0 <= lastq (wx s) - headq (wx s) ->
  step s (OTruncVal l r true true) = (s, Raise ValueError).
Proof. exact reject_inverted_ratio_range. Qed.
Print Assumptions C20_inverted_ratio_range.

Theorem C20_index_bounds : forall s start stop step_,
  ((start < 0)%Z -> step s (OTruncIdx start stop) = (s, Raise ValueError) /\ slice_by_index s start stop step_ = Raise ValueError) /\
  (forall v, stop = Some v -> (Z.of_nat (length (wx s)) < v)%Z -> (0 <= start)%Z ->
     step s (OTruncIdx start stop) = (s, Raise ValueError) /\ slice_by_index s start stop step_ = Raise ValueError).
Proof. exact reject_index_bounds. Qed.
Print Assumptions C20_index_bounds.

Theorem C20_slice_value_absent : forall s v stop step_, ~ In v (wx s) ->
  slice_by_value s (Some v) stop step_ = Raise ValueError /\
  (forall a, (a = None \/ exists u, a = Some u /\ In u (wx s)) -> slice_by_value s a (Some v) step_ = Raise ValueError).
Proof. exact reject_slice_value_absent. Qed.
Print Assumptions C20_slice_value_absent.

Theorem C20_grid_end_points : forall s g a, (headq g <> headq (wx s) \/ lastq g <> lastq (wx s)) ->
  step s (OInterpGrid g a) = (s, Raise ValueError).
Proof. exact reject_grid_end_points. Qed.
Print Assumptions C20_grid_end_points.

Example C20_example :
  match init (Some [qz 0; qz 1; qz 2; qz 4]) [qz 1; qz 3; qz 3; qz 0] with
  | Ok s0 =>
      match step s0 (OTruncVal (qz 3) (qz 1) false false), step s0 (OInterpGrid [qz 0; qz 5] (IOwn MLinear)) with
      | (s1, Raise ValueError), (s2, Raise ValueError) => list_eqb Qc_eqb (wx s1) (wx s0) && list_eqb Qc_eqb (wry s2) (wry s0)
      | _, _ => false
      end
  | _ => false end = true.
Proof. vm_compute. reflexivity. Qed.
