(** C19 — remote dataset cache is never corrupt, stale-crossed or fed unchecked data.
    Statements only; proofs are in Proofs/CacheProofs.v.  [sha], [parse] and the network are oracles:
    every theorem holds for every hash function, parser and event sequence.  Real parallelism, the
    atomicity of os.rename and CPython closing the pickle file before the rename are assumed by the
    step granularity of the model and observed by the crash / concurrency correspondence runs. *)
From TW Require Import Model.CacheSpec Proofs.CacheProofs.
Open Scope nat_scope.

(** transient download errors are absorbed up to n_retries, then propagated *)
Theorem C19_retries_absorbed : forall sha parse r fl f k b rest, k <= n_retries fl ->
  run_load sha parse r fl f (PFetching (n_retries fl)) (fails k ++ ENetOk b :: rest)
  = run_load sha parse r fl f (PFetched b) rest.
Proof. exact retries_absorbed. Qed.
Print Assumptions C19_retries_absorbed.

Theorem C19_retries_exhausted : forall sha parse r fl f rest,
  run_load sha parse r fl f (PFetching (n_retries fl)) (fails (S (n_retries fl)) ++ rest)
  = (f, Some (PDone (Raise OSError)), rest).
Proof. exact retries_exhausted. Qed.
Print Assumptions C19_retries_exhausted.

(** data whose digest differs from the pinned one is rejected with OSError; nothing is parsed, cached or returned *)
Theorem C19_checksum_gate : forall sha parse r fl f b rest, validate_checksum fl = true -> sha b <> r_digest r ->
  run_load sha parse r fl f (PFetched b) (EStep :: rest) = (f, Some (PDone (Raise OSError)), rest).
Proof. exact checksum_gate. Qed.
Print Assumptions C19_checksum_gate.

(** the invariant: every step of every process - internal step, network event or crash, in any interleaving -
    keeps every cache entry absent or a complete copy of verified data *)
Theorem C19_inv_gstep : forall sha parse digest_of g pe, GInv sha parse digest_of g -> GInv sha parse digest_of (gstep sha parse g pe).
Proof. exact inv_gstep. Qed.
Print Assumptions C19_inv_gstep.

(** ... hence for every number of processes, every schedule, every fault sequence and every crash point *)
Theorem C19_inv_reachable : forall sha parse digest_of f procs sched,
  CacheInv sha parse digest_of f -> Forall (fun p => exists r fl, p = fresh r fl /\ honest digest_of r fl) procs ->
  CacheInv sha parse digest_of (fst (grun sha parse (f, procs) sched)).
Proof. exact inv_reachable. Qed.
Print Assumptions C19_inv_reachable.

(** a crash never touches the cache *)
Theorem C19_crash_keeps_cache : forall sha parse r fl f p, cache (fst (pstep sha parse r fl f p ECrash)) = cache f /\ snd (pstep sha parse r fl f p ECrash) = None.
Proof. exact crash_keeps_cache. Qed.
Print Assumptions C19_crash_keeps_cache.

(** whatever a process returns is verified data of its own slot *)
Theorem C19_returns_verified : forall sha parse digest_of g sched i q d, GInv sha parse digest_of g ->
  nth i (snd (grun sha parse g sched)) None = Some q -> p_pc q = PDone (Ok d) ->
  verified sha parse digest_of (r_slot (p_remote q)) d.
Proof. exact returns_verified. Qed.
Print Assumptions C19_returns_verified.

(** a cached dataset is served without any network event *)
Theorem C19_cache_hit_no_network : forall sha parse r gz n f d rest, cache f (r_slot r) = Some d ->
  load sha parse r (default_flags gz n) f (EStep :: EStep :: rest) = (f, Some (PDone (Ok d)), rest).
Proof. exact cache_hit_no_network. Qed.
Print Assumptions C19_cache_hit_no_network.

(** a later load succeeds and returns exactly the verified data: from the cache when the slot is filled,
    otherwise after at most n_retries failures from a download with the right digest *)
Theorem C19_later_load_succeeds : forall sha parse r gz n f k b d rest, cache f (r_slot r) = None -> k <= n ->
  sha b = r_digest r -> parse gz b = Some d ->
  load sha parse r (default_flags gz n) f (EStep :: fails k ++ ENetOk b :: EStep :: EStep :: EStep :: EStep :: EStep :: rest)
  = (fs_set f (r_slot r) d, Some (PDone (Ok d)), rest).
Proof. exact later_load_succeeds. Qed.
Print Assumptions C19_later_load_succeeds.

(** the four flag combinations x available / not available *)
Theorem C19_flags_table : forall sha parse r fl f,
  let available := match cache f (r_slot r) with Some _ => true | None => false end in
  snd (pstep sha parse r fl f PStart EStep) =
  Some (match download_if_missing fl, download_even_if_available fl, available with
        | true, _, false => PFetching (n_retries fl)
        | true, true, true => PFetching (n_retries fl)
        | true, false, true => PReadCache
        | false, _, true => PReadCache
        | false, _, false => PDone (Raise OSError)
        end).
Proof. exact flags_table. Qed.
Print Assumptions C19_flags_table.

(** independence: a process only ever writes its own slot, and what it does depends on the file system only
    through its own slot; with C18's pairwise distinct slots, what is returned for one dataset never depends
    on which other datasets were loaded before *)
Theorem C19_frame : forall sha parse r fl f p e s, s <> r_slot r ->
  cache (fst (pstep sha parse r fl f p e)) s = cache f s.
Proof. exact step_frame. Qed.
Print Assumptions C19_frame.

Theorem C19_independence : forall sha parse r fl f1 f2 evs, cache f1 (r_slot r) = cache f2 (r_slot r) ->
  snd (fst (load sha parse r fl f1 evs)) = snd (fst (load sha parse r fl f2 evs)) /\
  cache (fst (fst (load sha parse r fl f1 evs))) (r_slot r) = cache (fst (fst (load sha parse r fl f2 evs))) (r_slot r).
Proof. exact load_independence. Qed.
Print Assumptions C19_independence.

Example C19_example :
  let sha := fun b : blob => length b in
  let parse := fun (_ : bool) (b : blob) => Some (map S b) in
  let r := {| r_slot := 3; r_digest := 2 |} in
  match load sha parse r (default_flags false 3) fs_empty
             [EStep; ENetFail; ENetFail; ENetOk [7; 8]; EStep; EStep; EStep; EStep; EStep] with
  | (f, Some (PDone (Ok d)), []) => match cache f 3, cache f 4 with Some d', None => true | _, _ => false end
  | _ => false
  end = true.
Proof. vm_compute. reflexivity. Qed.

(** ---- guards and the order / scoping of the effects of the remote loader, REGENERATED from datasets/_base.py
     (Gen/CacheSkeleton.v), are what the small-step model is built from ---- *)
From TW Require Import Model.Cache Gen.CacheSkeleton Proofs.CacheSkeletonProofs.

Theorem C19_generated_start : forall sha parse r fl f,
  pstep sha parse r fl f PStart EStep =
    if gen_download_cond (download_if_missing fl) (download_even_if_available fl) (avail f r)
    then (f, Some (PFetching (n_retries fl)))
    else if gen_missing_cond (download_if_missing fl) (download_even_if_available fl) (avail f r)
    then (f, Some (PDone (Raise OSError)))
    else (f, Some PReadCache).
Proof. exact skeleton_start. Qed.
Print Assumptions C19_generated_start.

Theorem C19_generated_retry : forall sha parse r fl f k,
  pstep sha parse r fl f (PFetching k) ENetFail =
    if gen_giveup (Z.of_nat k) then (f, Some (PDone (Raise OSError)))
    else (f, Some (PFetching (Z.to_nat (gen_next_retries (Z.of_nat k))))).
Proof. exact skeleton_retry. Qed.
Print Assumptions C19_generated_retry.

Theorem C19_generated_checksum : forall sha parse r fl f b,
  pstep sha parse r fl f (PFetched b) EStep =
    if gen_checksum_reject (validate_checksum fl) (Nat.eqb (sha b) (r_digest r))
    then (f, Some (PDone (Raise OSError))) else (f, Some (PVerified b)).
Proof. exact skeleton_checksum. Qed.
Print Assumptions C19_generated_checksum.

Theorem C19_generated_chain : forall sha parse r fl f b d,
  (validate_checksum fl && negb (Nat.eqb (sha b) (r_digest r))) = false -> parse (gzip fl) b = Some d ->
  pstep sha parse r fl f (PFetching (n_retries fl)) (ENetOk b) = (f, Some (PFetched b)) /\
  pstep sha parse r fl f (PFetched b) EStep = (f, Some (PVerified b)) /\
  pstep sha parse r fl f (PVerified b) EStep = (f, Some (PParsed d)) /\
  pstep sha parse r fl f (PParsed d) EStep = (f, Some (PDumped d)) /\
  pstep sha parse r fl f (PDumped d) EStep = (fs_set f (r_slot r) d, Some (PRenamed d)) /\
  pstep sha parse r fl (fs_set f (r_slot r) d) (PRenamed d) EStep = (fs_set f (r_slot r) d, Some (PDone (Ok d))).
Proof. exact skeleton_chain. Qed.
Print Assumptions C19_generated_chain.

From Coq Require Import String.
Open Scope string_scope.
Theorem C19_generated_structure :
  gen_download_effects = ["makedirs"; "tmpdir"; "fetch"; "parse"; "dump"; "rename"; "cleanup"] /\
  gen_tmp_parent = "dataset_dir" /\
  sassoc "dirname" gen_fetch_kwargs = Some gen_tmp_var /\ gen_fetch_path_in_dirname = true /\
  gen_tmp_file = (gen_tmp_var, "dataset_filename") /\ gen_dump_to_tmp_file = true /\
  sassoc "n_retries" gen_fetch_kwargs = Some "n_retries" /\ sassoc "validate_checksum" gen_fetch_kwargs = Some "validate_checksum" /\
  gen_parse_sources = [("gzip", "archive_path"); ("plain", "archive_path")] /\
  gen_rename = ["dataset_tmp_file_path"; "dataset_file_path"] /\
  gen_slot_path = ["data_home"; "dataset_folder"; "dataset_filename"] /\
  gen_read_cache = (true, "dataset_file_path") /\
  gen_retry_caught = ["URLError"; "TimeoutError"] /\ gen_checksum_exn = "OSError" /\ gen_missing_exn = "OSError".
Proof. exact skeleton_structure. Qed.
Print Assumptions C19_generated_structure.
Close Scope string_scope.
