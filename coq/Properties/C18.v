(** C18 — every documented dataset is reachable by name and well-formed.
    Statements only; proofs (finite checks by vm_compute over the GENERATED registry, description
    tables and bundled CSV files, lifted with forallb_forall) are in Proofs/DatasetsProofs.v.
    Bound of the quantifier: the 95 generated names (C18_counts). *)
From Coq Require Import String List.
From TW Require Import Lib.Base Model.Datasets Gen.Bundled Proofs.DatasetsProofs.
Import ListNotations.
Open Scope string_scope.

Theorem C18_counts : length doc_names = 95%nat /\ length remotes = 76%nat /\
  length (filter (fun t => String.eqb (fst (fst t)) "sandvine") doc_names) = 19%nat.
Proof. exact doc_counts. Qed.
Print Assumptions C18_counts.

(** every name of the four shipped tables, in the documented, all-'_' and all-'-' spellings, resolves to a loader of its family *)
Theorem C18_all_documented_names_resolve : forall fam name file, In (fam, name, file) doc_names ->
  exists l1 l2 l3, resolve name = Ok l1 /\ resolve (underscore name) = Ok l2 /\ resolve (hyphenate name) = Ok l3 /\
                family_of l1 = fam /\ family_of l2 = fam /\ family_of l3 = fam.
Proof. exact all_documented_names_resolve. Qed.
Print Assumptions C18_all_documented_names_resolve.

(** the loader reached through a name is that dataset's own: cache file = the name, remote file name starts
    with the name, checksum validation switched on; bundled: its own CSV *)
Theorem C18_each_dataset_own_identity : forall t, In t doc_names -> own_identity t = true.
Proof. exact each_dataset_own_identity. Qed.
Print Assumptions C18_each_dataset_own_identity.

(** no two datasets share a remote file, checksum, url or cache slot *)
Theorem C18_remote_distinct :
  NoDup (map r_url remotes) /\ NoDup (map r_checksum remotes) /\
  NoDup (map r_filename remotes) /\ NoDup (map r_slot remotes).
Proof. exact remote_distinct. Qed.
Print Assumptions C18_remote_distinct.

Theorem C18_documented_loaders_distinct :
  nodupb (map (fun t => match resolve (snd (fst t)) with
                        | Ok (Remote _ u _ _ _ _) => u
                        | Ok (Bundled f g) => f ++ "/" ++ g
                        | _ => "" end) doc_names) = true.
Proof. exact documented_loaders_distinct. Qed.
Print Assumptions C18_documented_loaders_distinct.

Theorem C18_all_remote_validate : forallb r_validate remotes = true.
Proof. exact all_remote_validate. Qed.
Print Assumptions C18_all_remote_validate.

Theorem C18_bundled_files_wellformed : forallb bundled_ok loaders = true.
Proof. exact bundled_files_wellformed. Qed.
Print Assumptions C18_bundled_files_wellformed.

Theorem C18_unknown_rejected : forall ds, assoc (fun_name ds) exports = None -> resolve ds = Raise ValueError.
Proof. exact unknown_rejected. Qed.
Print Assumptions C18_unknown_rejected.

Theorem C18_data_home_env : forall d, data_home None (Some d) = d /\ data_home (Some d) None = d /\
  data_home None None = "~/.traffic-weaver-data".
Proof. exact data_home_env. Qed.
Print Assumptions C18_data_home_env.

Example C18_example : resolve "no-such-dataset" = Raise ValueError /\ resolve "sandvine_nothing" = Raise ValueError.
Proof. exact unknown_example. Qed.

(** ---- the name dispatch of load_dataset and the data-home resolution, REGENERATED from datasets/_base.py (Gen/Dispatch.v),
     are the model's ---- *)
From TW Require Import Gen.Dispatch.
Theorem C18_generated_dispatch : forall d, gen_fun_name d = fun_name d.
Proof. exact gen_fun_name_eq. Qed.
Print Assumptions C18_generated_dispatch.
Theorem C18_generated_data_home : forall a e, gen_data_home a e = data_home a e.
Proof. exact gen_data_home_eq. Qed.
Print Assumptions C18_generated_data_home.
Theorem C18_generated_constants : gen_unknown_exn = "ValueError" /\ gen_env_var = "TRAFFIC_WEAVER_DATA" /\ gen_default_home = "~/.traffic-weaver-data".
Proof. exact gen_dispatch_constants. Qed.
Print Assumptions C18_generated_constants.
