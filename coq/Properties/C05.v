(** C05 — window strategies never overshoot and keep a plateau at the average.
    Statements only.  Proofs: Proofs/RfaLinkFixed.v, Proofs/RfaLinkAdaptive.v (the strategies'
    output lists equal the documented closed forms of Model/RfaSpec.v, sample by sample) and
    Proofs/RfaShapeProofs.v (properties of the closed forms).
    Index convention: extended interval K = k+1 for real interval k; output sample k*n+i is (K, i). *)
From TW Require Import Model.RfaSpec Proofs.RfaLinkFixed Proofs.RfaLinkAdaptive Proofs.RfaShapeProofs.
Open Scope Qc_scope.

(** ---- the strategies compute the closed forms (all sizes, all values, every pw / gpow) ---- *)
Theorem C05_link_linear_fixed : forall x y n alpha a, (2 <= n)%nat -> (2 <= length x)%nat -> length x = length y -> ssorted x ->
  (2 * fixed_h n alpha a <= Z.of_nat n)%Z ->
  snd (rfa_linear_fixed x y n alpha a) = cf_linear_fixed x y n (fixed_h n alpha a).
Proof. exact link_linear_fixed. Qed.
Print Assumptions C05_link_linear_fixed.

Theorem C05_link_exp_fixed : forall pw x y n alpha beta a, (2 <= n)%nat -> (2 <= length x)%nat -> length x = length y -> ssorted x ->
  (2 * fixed_h n alpha a <= Z.of_nat n)%Z -> 0 <= beta -> beta <= 1 ->
  snd (rfa_exp_fixed pw x y n alpha beta a) = cf_exp_fixed pw x y n (fixed_h n alpha a) (lin_part beta (fixed_h n alpha a)).
Proof. exact link_exp_fixed. Qed.
Print Assumptions C05_link_exp_fixed.

Theorem C05_link_linear_adaptive : forall gpow x y n alpha a, (2 <= n)%nat -> (2 <= length x)%nat -> length x = length y -> ssorted x ->
  GpowPos gpow -> (window_a n alpha a <= Z.of_nat n)%Z ->
  let w := adaptive_windows gpow (prepare x y n) (window_a n alpha a) in
  snd (rfa_linear_adaptive gpow x y n alpha a) = cf_linear_adaptive x y n (fst w) (snd w).
Proof. exact link_linear_adaptive. Qed.
Print Assumptions C05_link_linear_adaptive.

Theorem C05_link_exp_adaptive : forall pw gpow x y n alpha beta a, (2 <= n)%nat -> (2 <= length x)%nat -> length x = length y -> ssorted x ->
  GpowPos gpow -> (window_a n alpha a <= Z.of_nat n)%Z -> 0 <= beta -> beta <= 1 ->
  let w := adaptive_windows gpow (prepare x y n) (window_a n alpha a) in
  snd (rfa_exp_adaptive pw gpow x y n alpha beta a) = cf_exp_adaptive pw x y n beta (fst w) (snd w).
Proof. exact link_exp_adaptive. Qed.
Print Assumptions C05_link_exp_adaptive.

(** sample (K, i) of the assembled list *)
Theorem C05_assemble_nth : forall (x : list Qc) n out final k i, (k + 1 < length x)%nat -> (i < n)%nat ->
  nthq (k * n + i) (assemble x n out final) = out (Z.of_nat k + 1)%Z (Z.of_nat i) /\
  nthq ((length x - 1) * n) (assemble x n out final) = final /\
  length (assemble x n out final) = ((length x - 1) * n + 1)%nat.
Proof. exact assemble_nth. Qed.
Print Assumptions C05_assemble_nth.

(** ---- window sizes stay in range, for every adaptive smoothing (any gpow > 0) ---- *)
Theorem C05_windows_in_range : forall gpow x y n a, GpowPos gpow -> (2 <= n)%nat -> (2 <= length x)%nat -> length x = length y ->
  (2 <= a)%Z -> (a <= Z.of_nat n)%Z ->
  let w := adaptive_windows gpow (prepare x y n) a in
  adaptive_ok n (length x) (fst w) (snd w) /\
  forall K, (0 <= K <= Z.of_nat (length x))%Z -> (nthZ (fst w) K + nthZ (snd w) K <= a)%Z.
Proof. exact windows_in_range. Qed.
Print Assumptions C05_windows_in_range.

(** ---- the border value lies between the two neighbouring averages ---- *)
Theorem C05_border_between : forall x y n K ar al, ssorted x -> (2 <= length x)%nat -> (1 <= n)%nat ->
  (0 <= ar)%Z -> (0 <= al)%Z -> between (avg x y (K - 1)) (avg x y K) (border x y n K ar al).
Proof. exact border_between. Qed.
Print Assumptions C05_border_between.

(** ---- boundedness: every sample lies between its interval's average and the neighbour's on its side;
         plateau: samples al <= i <= n-ar equal the average exactly ---- *)
Theorem C05_linear_bounded : forall x y n K i al ar z0 z1, (0 <= al)%Z -> (0 <= ar)%Z -> (al + ar <= Z.of_nat n)%Z ->
  (0 <= i)%Z -> (i < Z.of_nat n)%Z ->
  between (avg x y (K - 1)) (avg x y K) z0 -> between (avg x y K) (avg x y (K + 1)) z1 ->
  let v := shape_linear x y n K i al ar z0 z1 in
  ((i < al)%Z -> between (avg x y (K - 1)) (avg x y K) v) /\
  ((al <= i)%Z -> (i <= Z.of_nat n - ar)%Z -> v = avg x y K) /\
  ((Z.of_nat n - ar < i)%Z -> between (avg x y K) (avg x y (K + 1)) v).
Proof. exact linear_bounded. Qed.
Print Assumptions C05_linear_bounded.

Theorem C05_exp_bounded : forall pw x y n K i al ar bl br z0 z1, PwOk pw -> PwZero pw ->
  (0 <= al)%Z -> (0 <= ar)%Z -> (al + ar <= Z.of_nat n)%Z -> (0 <= bl)%Z -> (bl <= al)%Z -> (0 <= br)%Z -> (br <= ar)%Z ->
  (0 <= i)%Z -> (i < Z.of_nat n)%Z ->
  between (avg x y (K - 1)) (avg x y K) z0 -> between (avg x y K) (avg x y (K + 1)) z1 ->
  let v := shape_exp pw x y n K i al ar bl br z0 z1 in
  ((i < al)%Z -> between (avg x y (K - 1)) (avg x y K) v) /\
  ((al <= i)%Z -> (i <= Z.of_nat n - ar)%Z -> v = avg x y K) /\
  ((Z.of_nat n - ar < i)%Z -> between (avg x y K) (avg x y (K + 1)) v).
Proof. exact exp_bounded. Qed.
Print Assumptions C05_exp_bounded.

(** the shape functions return convex combinations of their anchors *)
Theorem C05_blend_range : forall pw t, PwOk pw -> 0 <= t -> t <= 1 ->
  0 <= g_exp_lin pw t /\ g_exp_lin pw t <= 1 /\ 0 <= g_lin_exp_xy pw t /\ g_lin_exp_xy pw t <= 1.
Proof. exact blend_range. Qed.
Print Assumptions C05_blend_range.

(** ---- monotone movement from border value to plateau ---- *)
Theorem C05_linear_monotone : forall x y n K i j al ar z0 z1, (0 <= al)%Z -> (0 <= ar)%Z -> (al + ar <= Z.of_nat n)%Z ->
  (0 <= i)%Z -> (i <= j)%Z -> (j < Z.of_nat n)%Z ->
  ((j <= al)%Z -> toward z0 (avg x y K) (shape_linear x y n K i al ar z0 z1) (shape_linear x y n K j al ar z0 z1)) /\
  ((Z.of_nat n - ar <= i)%Z -> toward (avg x y K) z1 (shape_linear x y n K i al ar z0 z1) (shape_linear x y n K j al ar z0 z1)).
Proof. exact linear_monotone. Qed.
Print Assumptions C05_linear_monotone.

(** exponent >= 1 (pw t <= t; every integer exponent, with no assumption) and exponent in [~0.25, 1) *)
Theorem C05_blend_monotone_convex : forall pw t s, PwConvexLike pw -> 0 <= t -> t <= s -> s <= 1 ->
  g_exp_lin pw t <= g_exp_lin pw s /\ g_lin_exp_xy pw t <= g_lin_exp_xy pw s.
Proof. exact blend_monotone_convex. Qed.
Print Assumptions C05_blend_monotone_convex.

Theorem C05_blend_monotone_concave : forall pw t s, PwConcaveLike pw -> 0 <= t -> t <= s -> s <= 1 ->
  g_exp_lin pw t <= g_exp_lin pw s /\ g_lin_exp_xy pw t <= g_lin_exp_xy pw s.
Proof. exact blend_monotone_concave. Qed.
Print Assumptions C05_blend_monotone_concave.

(** FULL STATEMENT (kept visible): for every pw with PwOk the blends are monotone.  It is FALSE:
    a power function satisfying PwOk for which exp_lin's blend decreases (this is finding F1: the real
    t^alpha does the same for alpha < 0.1330) *)
Theorem C05_monotone_exp_refuted : exists pw t s, PwOk pw /\ PwZero pw /\ 0 <= t /\ t < s /\ s <= 1 /\
  g_exp_lin pw s < g_exp_lin pw t.
Proof. exact monotone_exp_refuted. Qed.
Print Assumptions C05_monotone_exp_refuted.

Theorem C05_pw_int_convex : forall k, (1 <= k)%nat -> PwConvexLike (pw_int k) /\ PwZero (pw_int k).
Proof. exact pw_int_convex. Qed.
Print Assumptions C05_pw_int_convex.

(** ---- piecewise-constant strategy and constant series ---- *)
Theorem C05_piecewise_constant_exact : forall x y n k i, (2 <= n)%nat -> y <> [] -> (k + 1 < length y)%nat -> (i < n)%nat ->
  nthq (k * n + i) (snd (rfa_pc x y n)) = nthq k y.
Proof. exact piecewise_constant_exact. Qed.
Print Assumptions C05_piecewise_constant_exact.

Theorem C05_constant_series : forall pw x c n K i al ar bl br,
  let y := repeatq c (length x) in
  (2 <= length x)%nat ->
  shape_linear x y n K i al ar (border x y n K ar al) (border x y n (K + 1) ar al) = c /\
  shape_exp pw x y n K i al ar bl br (border x y n K ar al) (border x y n (K + 1) ar al) = c.
Proof. exact constant_series. Qed.
Print Assumptions C05_constant_series.

(** ======== strategy-level corollaries (closed-form theorems transported through the link theorems) ======== *)
From TW Require Import Model.RfaSpec Proofs.RfaFinal.
Definition ymap (a b : Qc) (y : list Qc) : list Qc := map (fun v => a * v + b) y.
Definition xmap (c d : Qc) (x : list Qc) : list Qc := map (fun v => c * v + d) x.
(** the averages of the closed forms are the input averages (the virtual intervals repeat the end values) *)
Theorem C05_avg_is_average : forall x y k, length x = length y -> (k + 1 < length x)%nat ->
  avg x y (Z.of_nat k + 1) = nthq k y /\
  avg x y (Z.of_nat k + 2) = nthq (k + 1) y /\
  avg x y (Z.of_nat k) = nthq (k - 1) y.
Proof. exact avg_is_average. Qed.
Print Assumptions C05_avg_is_average.

(** sample i of interval k of the recreated series: bounded on its side, equal to the average on the plateau *)
Definition sided (x y : list Qc) (n : nat) (k i : nat) (al ar : Z) (v : Qc) : Prop :=
  ((Z.of_nat i < al)%Z -> between (nthq (k - 1) y) (nthq k y) v) /\
  ((al <= Z.of_nat i)%Z -> (Z.of_nat i <= Z.of_nat n - ar)%Z -> v = nthq k y) /\
  ((Z.of_nat n - ar < Z.of_nat i)%Z -> between (nthq k y) (nthq (k + 1) y) v).

Theorem C05_linear_fixed_bounded : forall x y n alpha a k i,
  (2 <= n)%nat -> (2 <= length x)%nat -> length x = length y -> ssorted x ->
  (2 * fixed_h n alpha a <= Z.of_nat n)%Z -> (k + 1 < length x)%nat -> (i < n)%nat ->
  sided x y n k i (fixed_h n alpha a) (fixed_h n alpha a) (nthq (k * n + i) (snd (rfa_linear_fixed x y n alpha a))).
Proof. exact linear_fixed_bounded. Qed.
Print Assumptions C05_linear_fixed_bounded.

Theorem C05_exp_fixed_bounded : forall pw x y n alpha beta a k i, PwOk pw -> PwZero pw ->
  (2 <= n)%nat -> (2 <= length x)%nat -> length x = length y -> ssorted x ->
  (2 * fixed_h n alpha a <= Z.of_nat n)%Z -> 0 <= beta -> beta <= 1 -> (k + 1 < length x)%nat -> (i < n)%nat ->
  sided x y n k i (fixed_h n alpha a) (fixed_h n alpha a) (nthq (k * n + i) (snd (rfa_exp_fixed pw x y n alpha beta a))).
Proof. exact exp_fixed_bounded. Qed.
Print Assumptions C05_exp_fixed_bounded.

Theorem C05_linear_adaptive_bounded : forall gpow x y n alpha a k i, GpowPos gpow ->
  (2 <= n)%nat -> (2 <= length x)%nat -> length x = length y -> ssorted x ->
  (window_a n alpha a <= Z.of_nat n)%Z -> (k + 1 < length x)%nat -> (i < n)%nat ->
  let w := adaptive_windows gpow (prepare x y n) (window_a n alpha a) in
  sided x y n k i (nthZ (fst w) (Z.of_nat k + 1)) (nthZ (snd w) (Z.of_nat k + 1))
        (nthq (k * n + i) (snd (rfa_linear_adaptive gpow x y n alpha a))).
Proof. exact linear_adaptive_bounded. Qed.
Print Assumptions C05_linear_adaptive_bounded.

Theorem C05_exp_adaptive_bounded : forall pw gpow x y n alpha beta a k i, PwOk pw -> PwZero pw -> GpowPos gpow ->
  (2 <= n)%nat -> (2 <= length x)%nat -> length x = length y -> ssorted x ->
  (window_a n alpha a <= Z.of_nat n)%Z -> 0 <= beta -> beta <= 1 -> (k + 1 < length x)%nat -> (i < n)%nat ->
  let w := adaptive_windows gpow (prepare x y n) (window_a n alpha a) in
  sided x y n k i (nthZ (fst w) (Z.of_nat k + 1)) (nthZ (snd w) (Z.of_nat k + 1))
        (nthq (k * n + i) (snd (rfa_exp_adaptive pw gpow x y n alpha beta a))).
Proof. exact exp_adaptive_bounded. Qed.
Print Assumptions C05_exp_adaptive_bounded.

(** at most a - 1 samples of an interval differ from its average: the plateau al <= i <= n - ar has n - al - ar + 1 samples
    and al + ar <= a (C05_windows_in_range; 2h <= a for the fixed strategies) *)
Theorem C05_final_sample : forall pw gpow x y n alpha beta a, PwOk pw -> GpowPos gpow ->
  (2 <= n)%nat -> (2 <= length x)%nat -> length x = length y -> ssorted x ->
  (window_a n alpha a <= Z.of_nat n)%Z -> 0 <= beta -> beta <= 1 ->
  let m := length x in
  let last l := nthq ((m - 1) * n) l in
  between (nthq (m - 2) y) (nthq (m - 1) y) (last (snd (rfa_linear_fixed x y n alpha a))) /\
  last (snd (rfa_exp_fixed pw x y n alpha beta a)) = nthq (m - 1) y /\
  between (nthq (m - 2) y) (nthq (m - 1) y) (last (snd (rfa_linear_adaptive gpow x y n alpha a))) /\
  last (snd (rfa_exp_adaptive pw gpow x y n alpha beta a)) = nthq (m - 1) y.
Proof. exact final_sample. Qed.
Print Assumptions C05_final_sample.

(** ---- window computations regenerated from rfa.py (Gen/Kernels.v) = the model's window functions ---- *)
From TW Require Import Model.RfaSpec Gen.Kernels Proofs.WindowsLink.
(** `a = alpha * n` (or the explicit a), `int(a)`, `if a < 2: a = 2` — as generated from LinearFixedRFA.__init__ *)
Definition gen_window_a (n : nat) (alpha : Qc) (a : option Qc) : Z :=
  let a0 := match a with Some v => VS v | None => linfixed_init__a_from_alpha (VS alpha) (VS (Qc_of_nat n)) end in
  let sa := linfixed_init__a a0 in
  let sa := if linfixed_init__clamp_test sa then linfixed_init__clamp_value else sa in
  Qc_trunc (as_scalar sa).

Theorem C05_generated_window_a : forall n alpha a, gen_window_a n alpha a = window_a n alpha a.
Proof. exact gen_window_a_ok. Qed.
Print Assumptions C05_generated_window_a.

Theorem C05_generated_half_window : forall A, (0 <= A)%Z ->
  linfixed_init__a_l (VS (Qc_of_Z A)) = VS (Qc_of_Z (half_window A)) /\
  linfixed_init__a_r (VS (Qc_of_Z (half_window A))) = VS (Qc_of_Z (half_window A)).
Proof. exact gen_half_window_ok. Qed.
Print Assumptions C05_generated_half_window.

Theorem C05_generated_linear_part : forall beta al,
  expfixed_init__b (VS beta) (VS (Qc_of_Z al)) = VS (Qc_of_Z (lin_part beta al)).
Proof. exact gen_lin_part_ok. Qed.
Print Assumptions C05_generated_linear_part.

(** the four window strategies compute the window in the same way *)
Theorem C05_generated_constructors_agree :
  (expfixed_init__a_from_alpha = linfixed_init__a_from_alpha /\ linadapt_init__a_from_alpha = linfixed_init__a_from_alpha /\
   expadapt_init__a_from_alpha = linfixed_init__a_from_alpha) /\
  (expfixed_init__a = linfixed_init__a /\ linadapt_init__a = linfixed_init__a /\ expadapt_init__a = linfixed_init__a) /\
  (expfixed_init__clamp_test = linfixed_init__clamp_test /\ linadapt_init__clamp_test = linfixed_init__clamp_test /\
   expadapt_init__clamp_test = linfixed_init__clamp_test) /\
  (expfixed_init__clamp_value = linfixed_init__clamp_value /\ linadapt_init__clamp_value = linfixed_init__clamp_value /\
   expadapt_init__clamp_value = linfixed_init__clamp_value) /\
  (expfixed_init__a_l = linfixed_init__a_l /\ expfixed_init__a_r = linfixed_init__a_r).
Proof. exact gen_constructors_agree. Qed.
Print Assumptions C05_generated_constructors_agree.

Example C05_example :
  let x := [qz 0; qz 1; qz 3; qz 4] in let y := [qz 2; qz 6; qz 1; qz 3] in
  list_eqb Qc_eqb (snd (rfa_exp_fixed (pw_int 2) x y 8 1 Qc_half None)) (cf_exp_fixed (pw_int 2) x y 8 4 2) &&
  Qc_eqb (nthq 12 (cf_exp_fixed (pw_int 2) x y 8 4 2)) (qz 6) = true.
Proof. vm_compute. reflexivity. Qed.

(** ---- the rfa() methods, REGENERATED from rfa.py as glue terms (Gen/RfaGlue.v) and run by the interpreter of Model/GlueFun.v with the
     leaves of Model/GlueLeaves.v (IntervalArray accessors, shape functions, oversampling / extension helpers, adaptive windows mean
     their models), are the write-loop model of Model/Rfa.v ---- *)
From TW Require Import Model.GlueLeaves Gen.RfaGlue Proofs.GlueRfaFixedProofs.
Open Scope string_scope.
(** the two fixed-window strategies: the nested write loops, as regenerated, are the model's folds (for the window sizes the
    constructors store, cf. C05_generated_window_a / _half_window / _linear_part) *)
Theorem C05_glue_rfa_linear_fixed : forall x y n alpha a, (2 <= n)%nat -> (2 <= length x)%nat ->
  let A := window_a n alpha a in
  outcome_arr_pair (call_meth (rfa_callf (fun t => t) (fun t => t)) (rfa_methf (fun t => t) x y n) no_apply no_pow rfa_methods
     "LinearFixedRFA.rfa" (rfa_attrs x y n A (half_window A) 0 0) []) = Ok (rfa_linear_fixed x y n alpha a).
Proof. exact glue_rfa_linear_fixed. Qed.
Print Assumptions C05_glue_rfa_linear_fixed.

Theorem C05_glue_rfa_exp_fixed : forall pw x y n alpha beta a, (2 <= n)%nat -> (2 <= length x)%nat ->
  let A := window_a n alpha a in
  outcome_arr_pair (call_meth (rfa_callf pw (fun t => t)) (rfa_methf (fun t => t) x y n) no_apply no_pow rfa_methods
     "ExpFixedRFA.rfa" (rfa_attrs x y n A (half_window A) (lin_part beta (half_window A)) beta) []) = Ok (rfa_exp_fixed pw x y n alpha beta a).
Proof. exact glue_rfa_exp_fixed. Qed.
Print Assumptions C05_glue_rfa_exp_fixed.
Close Scope string_scope.

(* ==================================================================================================== *)
(** CONSTRUCTORS regenerated by tools/translate_ext_ctors.py (Gen/CtorsGlue.v); leaves and the meaning of `super().__init__`:
    Model/GlueLeaves_Ctors.v.  [rfa_construct cls actuals] = cls(actuals): (the object's attributes "self.attr" |-> value, most recently
    assigned first; how the constructor ended);  [new_then_rfa pw gpow sf cls actuals] = cls(actuals).rfa();
    [st_call loadtxt m actuals] = Weaver.m(actuals) for a static constructor m ([loadtxt]: what np.loadtxt reads). *)
From Coq Require Import Lia Bool.
From TW Require Import Model.GlueLeaves_Ctors Gen.CtorsGlue Gen.RfaGlue Proofs.GlueCtorsRfaProofs.
Open Scope Qc_scope.
Open Scope string_scope.

(** LinearFixedRFA(x, y, n, alpha, a), n >= 2: the object holds exactly the model's window parameters *)
Theorem C05_glue_linear_fixed_init : forall vx vy lx ly n alpha a,
  to_array vx = Ok (VArr lx) -> to_array vy = Ok (VArr ly) -> (2 <= n)%Z ->
  rfa_construct "LinearFixedRFA" [("x", vx); ("y", vy); ("n", VInt n); ("alpha", VNum alpha); ("a", optQ a)] =
  (let A := window_a (Z.to_nat n) alpha a in
   [("self.a_r", VInt (half_window A)); ("self.a_l", VInt (half_window A)); ("self.a", VInt A);
    ("self.n", VInt n); ("self.y", VArr ly); ("self.x", VArr lx)], ONormal).
Proof. exact glue_linear_fixed_init. Qed.
Print Assumptions C05_glue_linear_fixed_init.

Theorem C05_glue_exp_fixed_init : forall vx vy lx ly n alpha beta a vexp,
  to_array vx = Ok (VArr lx) -> to_array vy = Ok (VArr ly) -> (2 <= n)%Z ->
  rfa_construct "ExpFixedRFA" [("x", vx); ("y", vy); ("n", VInt n); ("alpha", VNum alpha); ("beta", VNum beta); ("a", optQ a); ("exp", vexp)] =
  (let A := window_a (Z.to_nat n) alpha a in
   [("self.exp", vexp); ("self.b", VInt (lin_part beta (half_window A)));
    ("self.a_r", VInt (half_window A)); ("self.a_l", VInt (half_window A)); ("self.a", VInt A);
    ("self.n", VInt n); ("self.y", VArr ly); ("self.x", VArr lx)], ONormal).
Proof. exact glue_exp_fixed_init. Qed.
Print Assumptions C05_glue_exp_fixed_init.

(** omitted arguments are the defaults of the signatures: alpha = 1.0, beta = 0.5, a = None, adaptive_smooth = 1.0, exp = 2.0 *)
Theorem C05_glue_window_init_defaults : forall vx vy n,
  rfa_construct "LinearFixedRFA" [("x", vx); ("y", vy); ("n", VInt n)] =
    rfa_construct "LinearFixedRFA" [("x", vx); ("y", vy); ("n", VInt n); ("alpha", VNum 1); ("a", optQ None)] /\
  rfa_construct "ExpFixedRFA" [("x", vx); ("y", vy); ("n", VInt n)] =
    rfa_construct "ExpFixedRFA" [("x", vx); ("y", vy); ("n", VInt n); ("alpha", VNum 1); ("beta", VNum (qf 1 2)); ("a", optQ None); ("exp", VNum (qz 2))] /\
  rfa_construct "LinearAdaptiveRFA" [("x", vx); ("y", vy); ("n", VInt n)] =
    rfa_construct "LinearAdaptiveRFA" [("x", vx); ("y", vy); ("n", VInt n); ("alpha", VNum 1); ("a", optQ None); ("adaptive_smooth", VNum 1)] /\
  rfa_construct "ExpAdaptiveRFA" [("x", vx); ("y", vy); ("n", VInt n)] =
    rfa_construct "ExpAdaptiveRFA" [("x", vx); ("y", vy); ("n", VInt n); ("alpha", VNum 1); ("beta", VNum (qf 1 2)); ("a", optQ None);
                                    ("adaptive_smooth", VNum 1); ("exp", VNum (qz 2))].
Proof. exact glue_window_init_defaults. Qed.
Print Assumptions C05_glue_window_init_defaults.

(** integer-typed arguments (alpha = 1, a = 6, beta = 1) give the same object as the corresponding floats *)
Theorem C05_glue_window_init_int_typed : forall vx vy lx ly n za oa,
  to_array vx = Ok (VArr lx) -> to_array vy = Ok (VArr ly) -> (2 <= n)%Z ->
  rfa_construct "LinearFixedRFA" [("x", vx); ("y", vy); ("n", VInt n); ("alpha", VInt za); ("a", optZ oa)] =
    rfa_construct "LinearFixedRFA" [("x", vx); ("y", vy); ("n", VInt n); ("alpha", VNum (Qc_of_Z za)); ("a", optQ (option_map Qc_of_Z oa))] /\
  (forall zb vexp,
   rfa_construct "ExpFixedRFA" [("x", vx); ("y", vy); ("n", VInt n); ("alpha", VInt za); ("beta", VInt zb); ("a", optZ oa); ("exp", vexp)] =
    rfa_construct "ExpFixedRFA" [("x", vx); ("y", vy); ("n", VInt n); ("alpha", VNum (Qc_of_Z za)); ("beta", VNum (Qc_of_Z zb));
                                 ("a", optQ (option_map Qc_of_Z oa)); ("exp", vexp)]) /\
  (forall vsmooth,
   rfa_construct "LinearAdaptiveRFA" [("x", vx); ("y", vy); ("n", VInt n); ("alpha", VInt za); ("a", optZ oa); ("adaptive_smooth", vsmooth)] =
    rfa_construct "LinearAdaptiveRFA" [("x", vx); ("y", vy); ("n", VInt n); ("alpha", VNum (Qc_of_Z za)); ("a", optQ (option_map Qc_of_Z oa));
                                       ("adaptive_smooth", vsmooth)]) /\
  (forall vbeta vsmooth vexp,
   rfa_construct "ExpAdaptiveRFA" [("x", vx); ("y", vy); ("n", VInt n); ("alpha", VInt za); ("beta", vbeta); ("a", optZ oa);
                                   ("adaptive_smooth", vsmooth); ("exp", vexp)] =
    rfa_construct "ExpAdaptiveRFA" [("x", vx); ("y", vy); ("n", VInt n); ("alpha", VNum (Qc_of_Z za)); ("beta", vbeta);
                                    ("a", optQ (option_map Qc_of_Z oa)); ("adaptive_smooth", vsmooth); ("exp", vexp)]).
Proof. exact glue_window_init_int_typed. Qed.
Print Assumptions C05_glue_window_init_int_typed.

(** LinearFixedRFA(x, y, n, alpha, a).rfa() is the model's rfa, for EVERY n (ValueError below 2) *)
Theorem C05_glue_linear_fixed_ctor_then_rfa : forall pw gpow sf x y n alpha a,
  outcome_arr_pair (new_then_rfa pw gpow sf "LinearFixedRFA"
     [("x", VArr x); ("y", VArr y); ("n", VInt n); ("alpha", VNum alpha); ("a", optQ a)])
  = rfa pw gpow (LinearFixed alpha a) x y n.
Proof. exact glue_linear_fixed_ctor_then_rfa. Qed.
Print Assumptions C05_glue_linear_fixed_ctor_then_rfa.

(** exp is a caller-supplied value whose meaning (t |-> t ** exp) is [pw] *)
Theorem C05_glue_exp_fixed_ctor_then_rfa : forall pw gpow sf x y n alpha beta a,
  outcome_arr_pair (new_then_rfa pw gpow sf "ExpFixedRFA"
     [("x", VArr x); ("y", VArr y); ("n", VInt n); ("alpha", VNum alpha); ("beta", VNum beta); ("a", optQ a); ("exp", VOpaque "exp")])
  = rfa pw gpow (ExpFixed alpha beta a) x y n.
Proof. exact glue_exp_fixed_ctor_then_rfa. Qed.
Print Assumptions C05_glue_exp_fixed_ctor_then_rfa.
