(** C09 — Weaver state stays well-formed; the stored original is never corrupted;
    restore_original yields a freshly constructed object.
    Statements only; proofs are in Proofs/WeaverProofs.v.
    What the model cannot carry (NumPy buffer identity, dtype, container kind)
    is observed on the implementation by the correspondence run. *)
From TW Require Import Model.WeaverSpec Proofs.WeaverProofs.
Open Scope Qc_scope.

Theorem C09_wf_init : forall x y s, init (Some x) y = Ok s -> ssorted x -> (2 <= length x)%nat -> WF s.
Proof. exact wf_init. Qed.
Print Assumptions C09_wf_init.

(** one preservation lemma for all operations: a valid, successful operation that
    keeps at least two samples keeps the object well-formed *)
Theorem C09_wf_step : forall s o s', WF s -> pre s o -> step s o = (s', Ok tt) -> keeps_two s' -> WF s'.
Proof. exact wf_step. Qed.
Print Assumptions C09_wf_step.

(** ... hence after every program, of any length *)
Fixpoint valid_run (s : wstate) (ops : list op) : Prop :=
  match ops with
  | [] => True
  | o :: ops' => pre s o /\ exists s', step s o = (s', Ok tt) /\ keeps_two s' /\ valid_run s' ops'
  end.
Theorem C09_wf_programs : forall ops s s', WF s -> valid_run s ops -> run s ops = (s', Ok tt) -> WF s'.
Proof. exact wf_programs. Qed.
Print Assumptions C09_wf_programs.

(** the stored original changes only under normalisation, and then exactly by it *)
Theorem C09_original_constant : forall s o s' r, is_normalize o = false -> step s o = (s', r) ->
  wox s' = wox s /\ woy s' = woy s.
Proof. exact original_constant. Qed.
Print Assumptions C09_original_constant.

Theorem C09_original_normalized : forall s lo hi s',
  (step s (ONormX lo hi) = (s', Ok tt) -> wox s' = normalize (wox s) lo hi /\ woy s' = woy s) /\
  (step s (ONormY lo hi) = (s', Ok tt) -> woy s' = normalize (woy s) lo hi /\ wox s' = wox s).
Proof. exact original_normalized. Qed.
Print Assumptions C09_original_normalized.

(** after restore_original the object IS (Leibniz equality of all six fields) the one a
    constructor call on get_original() builds; so every later operation sequence behaves identically *)
Theorem C09_restore_fresh : forall s, length (wox s) = length (woy s) ->
  exists s', step s ORestore = (s', Ok tt) /\ init (Some (wox s)) (woy s) = Ok s'.
Proof. exact restore_fresh. Qed.
Print Assumptions C09_restore_fresh.

Theorem C09_restore_bisim : forall s s0 ops, length (wox s) = length (woy s) ->
  init (Some (wox s)) (woy s) = Ok s0 -> run s (ORestore :: ops) = run s0 ops.
Proof. exact restore_bisim. Qed.
Print Assumptions C09_restore_bisim.

(** ---- which fields each Weaver method assigns is REGENERATED from weaver.py (Gen/WeaverFootprint.v: method_writes);
     op_method / getf / writes / domain_methods / reshaping_methods / query_methods are defined at the top of
     Proofs/FootprintProofs.v.  Deleting e.g. a reference update from a method breaks one of these obligations. ---- *)
From Coq Require Import String.
From TW Require Import Model.WeaverSpec Gen.WeaverFootprint Proofs.FootprintProofs.
Open Scope string_scope.
(** the model's step changes no field outside the footprint generated from the source of the corresponding method *)
Theorem C09_frame_generated : forall s o s' r f, step s o = (s', r) -> writes (op_method o) f = false -> getf f s' = getf f s.
Proof. exact frame_generated. Qed.
Print Assumptions C09_frame_generated.

Theorem C09_original_written_only_by_normalize : forall m ws, In (m, ws) method_writes ->
  existsb (field_eqb FOX) ws || existsb (field_eqb FOY) ws = true -> m = "__init__" \/ m = "normalize_x" \/ m = "normalize_y".
Proof. exact original_written_only_by_normalize. Qed.
Print Assumptions C09_original_written_only_by_normalize.

Theorem C09_queries_write_nothing : forall m, In m query_methods -> writes_of m = [].
Proof. exact queries_write_nothing. Qed.
Print Assumptions C09_queries_write_nothing.
Close Scope string_scope.

(** ---- the bodies of the Weaver methods, REGENERATED from weaver.py as terms of the glue language (Gen/WeaverGlue.v:
     weaver_methods), mean — under the interpreter of Model/GlueSem.v — what the hand-written [step] and query functions say ---- *)
From TW Require Import Model.GlueSem Gen.WeaverGlue Proofs.GlueProofs.
Open Scope string_scope.
(** every mutating method: running the regenerated body = one [step] of the model — same final state (also when an
    exception leaves a partial update behind), same outcome; for every value of the scale attributes *)
Theorem C09_glue_generated : forall s o xs ys, glue_pre s o ->
  let r := call_method weaver_methods (Some o) (op_method o) (params_of o) s xs ys in
  g_s (fst r) = fst (step s o) /\ outcome_res (snd r) = snd (step s o).
Proof. exact glue_generated. Qed.
Print Assumptions C09_glue_generated.

(** the constructor *)
Theorem C09_glue_init : forall s x y xs ys,
  let r := call_method weaver_methods None "__init__" [("x", match x with Some l => VArr l | None => VNoneV end); ("y", VArr y)] s xs ys in
  match init x y with
  | Ok s' => g_s (fst r) = s' /\ snd r = ONormal /\ g_xs (fst r) = 1 /\ g_ys (fst r) = 1
  | Raise e => snd r = ORaise e /\ g_s (fst r) = s
  end.
Proof. exact glue_init. Qed.
Print Assumptions C09_glue_init.

(** the getters return the stored series and write nothing *)
Theorem C09_glue_getters : forall s xs ys,
  (let r := call_method weaver_methods None "get" [] s xs ys in g_s (fst r) = s /\ outcome_pair (snd r) = Ok (wx s, wy s)) /\
  (let r := call_method weaver_methods None "get_original" [] s xs ys in g_s (fst r) = s /\ outcome_pair (snd r) = Ok (wox s, woy s)) /\
  (let r := call_method weaver_methods None "get_reference" [] s xs ys in g_s (fst r) = s /\ outcome_pair (snd r) = Ok (wrx s, wry s)) /\
  (let r := call_method weaver_methods None "__len__" [] s xs ys in g_s (fst r) = s /\ snd r = OReturn (VInt (Z.of_nat (length (wx s))))).
Proof. exact glue_getters. Qed.
Print Assumptions C09_glue_getters.

(** the names the bodies call are bound, at module level, to the package functions the interpreter gives them the meaning of *)
Theorem C09_glue_imports :
  forall fn, In fn ["integral_matching_reference_stretch"; "repeat"; "trend"; "spline_smooth"; "noise_gauss"; "interpolate"; "truncate"; "normalize"; "append_one_sample"] ->
  exists m, In (m, fn, fn) weaver_imports /\ In m [".match"; ".process"; ".sorted_array_utils"] /\
            forall m' n', In (m', n', fn) weaver_imports -> m' = m /\ n' = fn.
Proof. exact glue_imports. Qed.
Print Assumptions C09_glue_imports.
Close Scope string_scope.

Example C09_example :
  match init (Some [qz 0; qz 1; qz 2; qz 4]) [qz 1; qz 3; qz 3; qz 0] with
  | Ok s0 =>
      match run s0 [ORepeat 2; ORecreate 2 (fun t => t) (fun t => t) (LinearFixed 1 None); OTrend (fun v => v * v) false; ORestore] with
      | (s', Ok _) => list_eqb Qc_eqb (wx s') [qz 0; qz 1; qz 2; qz 4] && list_eqb Qc_eqb (wrx s') [qz 0; qz 1; qz 2; qz 4] && list_eqb Qc_eqb (wry s') [qz 1; qz 3; qz 3; qz 0]
      | _ => false
      end
  | _ => false end = true.
Proof. vm_compute. reflexivity. Qed.

(** ---- the signatures (parameter names, order and default values) of the Weaver methods, as REGENERATED: the documented defaults ---- *)
Open Scope string_scope.
Definition formals_of (m : string) : option (list (string * option gexpr)) :=
  match GlueSem.assoc m weaver_methods with Some fb => Some (fst fb) | None => None end.
Theorem C09_glue_signatures :
  formals_of "integral_match" = Some [("target_function_integral_method", Some (GStr "trapezoid"));
                                      ("reference_function_integral_method", Some (GStr "rectangle")); ("**kwargs", None)] /\
  formals_of "recreate_from_average" = Some [("n", None); ("rfa_class", Some (GVar "ExpAdaptiveRFA")); ("**kwargs", None)] /\
  formals_of "interpolate" = Some [("n", Some GNone); ("new_x", Some GNone); ("method", Some (GStr "linear")); ("**kwargs", None)] /\
  formals_of "append_one_sample" = Some [("make_periodic", Some (GBoolC false))] /\
  formals_of "trend" = Some [("trend_func", None); ("normalized", Some (GBoolC false))] /\
  formals_of "to_function" = Some [("s", Some (GInt 0))] /\
  formals_of "smooth" = Some [("s", None)] /\
  formals_of "noise" = Some [("snr", None); ("**kwargs", None)] /\
  formals_of "truncate_by_value" = Some [("x_left", None); ("x_right", None); ("x_left_as_ratio", Some (GBoolC false)); ("x_right_as_ratio", Some (GBoolC false))] /\
  formals_of "truncate_by_index" = Some [("start", Some (GInt 0)); ("stop", Some GNone)] /\
  formals_of "slice_by_index" = Some [("start", Some (GInt 0)); ("stop", Some GNone); ("step", Some (GInt 1))] /\
  formals_of "slice_by_value" = Some [("start", Some GNone); ("stop", Some GNone); ("step", Some (GInt 1))] /\
  formals_of "__init__" = Some [("x", None); ("y", None)].
Proof. repeat split; reflexivity. Qed.
Print Assumptions C09_glue_signatures.
Close Scope string_scope.

(* ==================================================================================================== *)
(** CONSTRUCTORS regenerated by tools/translate_ext_ctors.py (Gen/CtorsGlue.v); leaves and the meaning of `super().__init__`:
    Model/GlueLeaves_Ctors.v.  [rfa_construct cls actuals] = cls(actuals): (the object's attributes "self.attr" |-> value, most recently
    assigned first; how the constructor ended);  [new_then_rfa pw gpow sf cls actuals] = cls(actuals).rfa();
    [st_call loadtxt m actuals] = Weaver.m(actuals) for a static constructor m ([loadtxt]: what np.loadtxt reads). *)
From Coq Require Import Lia Bool.
From TW Require Import Model.GlueLeaves_Ctors Gen.CtorsGlue Gen.WeaverGlue Proofs.GlueCtorsWeaverProofs.
Open Scope Qc_scope.
Open Scope string_scope.

(** from_2d_array on an array of ANY shape is the model's from_2d on its first two columns *)
Theorem C09_glue_from_2d_array_model : forall loadtxt shape data,
  st_call loadtxt "from_2d_array" [("xy", nd shape data)] =
  obj_outcome (from_2d (length shape) (nth 1 shape 0%nat)
                 (nd_column (nth 0 shape 0%nat) (nth 1 shape 0%nat) 0 data)
                 (nd_column (nth 0 shape 0%nat) (nth 1 shape 0%nat) 1 data)).
Proof. exact glue_from_2d_array_model. Qed.
Print Assumptions C09_glue_from_2d_array_model.

(** shape (N, 2): the model's init on the two columns, which succeeds *)
Theorem C09_glue_from_2d_array : forall loadtxt r data,
  let cx := nd_column r 2 0 data in
  let cy := nd_column r 2 1 data in
  st_call loadtxt "from_2d_array" [("xy", nd [r; 2]%nat data)] = obj_outcome (init (Some cx) cy) /\
  init (Some cx) cy = Ok {| wx := cx; wy := cy; wox := cx; woy := cy; wrx := cx; wry := cy |}.
Proof. exact glue_from_2d_array. Qed.
Print Assumptions C09_glue_from_2d_array.

(** from_csv = from_2d_array of what np.loadtxt(file_name, delimiter=',', dtype=np.float64) returns; its failure propagates *)
Theorem C09_glue_from_csv : forall loadtxt f shape data, loadtxt f = Ok (nd shape data) ->
  st_call loadtxt "from_csv" [("file_name", f)] = st_call loadtxt "from_2d_array" [("xy", nd shape data)].
Proof. exact glue_from_csv. Qed.
Print Assumptions C09_glue_from_csv.

Theorem C09_glue_from_csv_any_value : forall loadtxt f,
  st_call loadtxt "from_csv" [("file_name", f)] =
  match loadtxt f with Ok v => ret_norm (from_2d_run loadtxt static_methf0 v) | Raise e => ORaise e end.
Proof. exact glue_from_csv_gen. Qed.
Print Assumptions C09_glue_from_csv_any_value.

Theorem C09_glue_from_csv_unreadable : forall loadtxt f e, loadtxt f = Raise e -> st_call loadtxt "from_csv" [("file_name", f)] = ORaise e.
Proof. exact glue_from_csv_unreadable. Qed.
Print Assumptions C09_glue_from_csv_unreadable.

(** from_dataframe = init on the two selected columns (a missing key: KeyError, which the model's exn does not name) *)
Theorem C09_glue_from_dataframe : forall loadtxt cols kx ky,
  st_call loadtxt "from_dataframe" [("df", df_val cols); ("x_col", key_val kx); ("y_col", key_val ky)] =
  match df_col cols kx, df_col cols ky with
  | Some cx, Some cy => obj_outcome (init (Some cx) cy)
  | _, _ => ORaise OtherExn
  end.
Proof. exact glue_from_dataframe. Qed.
Print Assumptions C09_glue_from_dataframe.

Theorem C09_glue_from_dataframe_defaults : forall loadtxt v,
  st_call loadtxt "from_dataframe" [("df", v)] = st_call loadtxt "from_dataframe" [("df", v); ("x_col", VInt 0); ("y_col", VInt 1)].
Proof. exact glue_from_dataframe_defaults. Qed.
Print Assumptions C09_glue_from_dataframe_defaults.
