(** C15 — noise is purely additive and obeys the signal-to-noise definition.
    Statements only; proofs are in Proofs/NoiseSmoothProofs.v.
    Partial: zero mean, Gaussian shape, reproducibility under a seed and the empirical SNR are properties of
    NumPy's generator; they are tested by the oracle of the check (thorough tier), not proved.  What is proved and
    tied to the code: the noise enters additively and only into y, and the scale handed to the generator is
    sqrt(mean(y^2)/SNR) (sqrt and 10^(snr/10) are oracles: the theorem is about scale^2 and the linear SNR). *)
From TW Require Import Model.WeaverSpec Proofs.NoiseSmoothProofs.
Open Scope Qc_scope.

Theorem C15_noise_additive : forall s draw s', step s (ONoise draw) = (s', Ok tt) ->
  wx s' = wx s /\ wy s' = map2 Qcplus (wy s) draw /\
  wox s' = wox s /\ woy s' = woy s /\ wrx s' = wrx s /\ wry s' = wry s /\
  (length draw = length (wy s) -> length (wy s') = length (wy s) /\
     forall i, (i < length (wy s))%nat -> nthq i (wy s') - nthq i (wy s) = nthq i draw).
Proof. exact noise_additive. Qed.
Print Assumptions C15_noise_additive.

Theorem C15_scale_definition : forall a snr_lin, snr_lin <> 0 -> noise_var a snr_lin * snr_lin = signal_power a.
Proof. exact scale_definition. Qed.
Print Assumptions C15_scale_definition.

Theorem C15_signal_power : forall a, signal_power a = sumq (map (fun v => v * v) a) / Qc_of_nat (length a).
Proof. exact signal_power_is_mean_of_squares. Qed.
Print Assumptions C15_signal_power.

(** ======== generated arithmetic = model (Gen/Kernels.v is regenerated from the source on every check) ======== *)
From TW Require Import Model.MatchSpec Model.Process Gen.Kernels Proofs.KernelsLink.
Theorem C15_generated_noise_scale : forall psqrt p10 a snr,
  noise_gauss__sp (VV a) = VS (signal_power a) /\
  noise_gauss__std_n_lin psqrt (noise_gauss__sp (VV a)) (VS snr) = VS (psqrt (noise_var a snr)) /\
  noise_gauss__std_n_db psqrt p10 (noise_gauss__sp (VV a)) (VS snr) = VS (psqrt (noise_var a (p10 (snr / qz 10)))).
Proof. exact gen_noise_scale. Qed.
Print Assumptions C15_generated_noise_scale.

Example C15_scale_uses_signal_power :
  signal_power [qz 1; qz (-1); qz 3] <> meanq [qz 1; qz (-1); qz 3] * meanq [qz 1; qz (-1); qz 3].
Proof. exact scale_uses_signal_power. Qed.
Print Assumptions C15_scale_uses_signal_power.
