(** C11 — truncation and slicing select exactly the requested range.
    Statements only; proofs are in Proofs/TruncInterpProofs.v. *)
From TW Require Import Model.Process Proofs.TruncInterpProofs.
Open Scope Qc_scope.

(** the result is the contiguous run from the last sample <= left (or the first
    sample) to the first sample >= right (or the last sample); x and y are cut
    identically.  is_lower / is_higher are the (unique) neighbours of C10. *)
Theorem C11_truncate_covering_run : forall x y xl xr, ssorted x -> x <> [] -> length x = length y -> xl < xr ->
  exists i j, truncate x y xl xr false false = Ok (slice x i (j + 1), slice y i (j + 1)) /\
    (i <= j)%nat /\ (j < length x)%nat /\
    is_lower x true xl (Z.of_nat i) /\ is_higher x true xr (Z.of_nat j).
Proof. exact truncate_covering_run. Qed.
Print Assumptions C11_truncate_covering_run.

(** smallest such run: dropping either end sample would uncover a bound that lies in the data range *)
Theorem C11_truncate_minimal : forall x i j xl xr, ssorted x ->
  is_lower x true xl (Z.of_nat i) -> is_higher x true xr (Z.of_nat j) -> (i < j)%nat -> (j < length x)%nat ->
  (headq x <= xl -> xl < nthq (i + 1) x) /\ (xr <= lastq x -> nthq (j - 1) x < xr).
Proof. exact truncate_minimal. Qed.
Print Assumptions C11_truncate_minimal.

Theorem C11_truncate_inverted : forall x y xl xr, xr <= xl -> truncate x y xl xr false false = Raise ValueError.
Proof. exact truncate_inverted. Qed.
Print Assumptions C11_truncate_inverted.

(** ratios are converted with the series' own span *)
Theorem C11_truncate_ratio : forall x y l r lr rr,
  let span := lastq x - headq x in
  truncate x y l r lr rr =
  truncate x y (if lr then l * span + headq x else l) (if rr then r * span + headq x else r) false false.
Proof. exact truncate_ratio. Qed.
Print Assumptions C11_truncate_ratio.

(** ======== Weaver level (class Weaver in weaver.py; model coq/Model/Weaver.v) ======== *)
From TW Require Import Model.WeaverSpec Model.Interval Proofs.WeaverLevelProofs.
Theorem C11_truncate_weaver_same_bounds : forall s l r lr rr s', step s (OTruncVal l r lr rr) = (s', Ok tt) ->
  truncate (wx s) (wy s) l r lr rr = Ok (wx s', wy s') /\ truncate (wrx s) (wry s) l r lr rr = Ok (wrx s', wry s') /\
  wox s' = wox s /\ woy s' = woy s.
Proof. exact truncate_weaver_same_bounds. Qed.
Print Assumptions C11_truncate_weaver_same_bounds.

Theorem C11_py_slice_unit_step : forall l a b, (0 <= a)%Z -> (a <= b)%Z -> (b <= Z.of_nat (length l))%Z ->
  py_slice l a b 1 = Ok (slice l (Z.to_nat a) (Z.to_nat b)).
Proof. exact py_slice_unit_step. Qed.
Print Assumptions C11_py_slice_unit_step.

Theorem C11_truncate_by_index : forall s a b s', (0 <= a)%Z -> (a <= b)%Z -> (b <= Z.of_nat (length (wx s)))%Z ->
  length (wx s) = length (wy s) -> step s (OTruncIdx a (Some b)) = (s', Ok tt) ->
  wx s' = slice (wx s) (Z.to_nat a) (Z.to_nat b) /\ wy s' = slice (wy s) (Z.to_nat a) (Z.to_nat b).
Proof. exact truncate_by_index_spec. Qed.
Print Assumptions C11_truncate_by_index.

(** slicing by value returns precisely the samples with start <= x <= stop; an omitted bound is the respective end *)
Theorem C11_slice_by_value_exact : forall s a b, ssorted (wx s) -> length (wx s) = length (wy s) ->
  In a (wx s) -> In b (wx s) -> a <= b ->
  exists i j, slice_by_value s (Some a) (Some b) 1 = Ok (slice (wx s) i (j + 1), slice (wy s) i (j + 1)) /\
    (i <= j)%nat /\ (j < length (wx s))%nat /\ nthq i (wx s) = a /\ nthq j (wx s) = b /\
    forall k, (k < length (wx s))%nat -> ((a <= nthq k (wx s) /\ nthq k (wx s) <= b) <-> (i <= k /\ k <= j)%nat).
Proof. exact slice_by_value_exact. Qed.
Print Assumptions C11_slice_by_value_exact.

Theorem C11_slice_by_value_omitted : forall s, length (wx s) = length (wy s) -> slice_by_value s None None 1 = Ok (wx s, wy s).
Proof. exact slice_by_value_omitted. Qed.
Print Assumptions C11_slice_by_value_omitted.

(** ======== generated arithmetic = model (Gen/Kernels.v is regenerated from the source on every check) ======== *)
From TW Require Import Model.MatchSpec Model.Process Gen.Kernels Proofs.KernelsLink.
Theorem C11_generated_truncate_ratio : forall x v, x <> [] ->
  truncate__x_left (VS v) (VV x) = VS (v * (lastq x - headq x) + headq x) /\
  truncate__x_right (VS v) (VV x) = VS (v * (lastq x - headq x) + headq x).
Proof. exact gen_truncate_ratio. Qed.
Print Assumptions C11_generated_truncate_ratio.

(** ---- the bodies of the Weaver methods, REGENERATED from weaver.py as terms of the glue language (Gen/WeaverGlue.v:
     weaver_methods), mean — under the interpreter of Model/GlueSem.v — what the hand-written [step] and query functions say ---- *)
From TW Require Import Model.GlueSem Gen.WeaverGlue Proofs.GlueProofs.
Open Scope string_scope.
Theorem C11_glue_slice_by_index : forall s start stop step xs ys,
  let r := call_method weaver_methods None "slice_by_index" [("start", VInt start); ("stop", optZ stop); ("step", VInt step)] s xs ys in
  g_s (fst r) = s /\ outcome_pair (snd r) = slice_by_index s start stop step.
Proof. exact glue_slice_by_index. Qed.
Print Assumptions C11_glue_slice_by_index.

Theorem C11_glue_slice_by_value : forall s start stop step xs ys,
  let r := call_method weaver_methods None "slice_by_value" [("start", optQ start); ("stop", optQ stop); ("step", VInt step)] s xs ys in
  g_s (fst r) = s /\ outcome_pair (snd r) = slice_by_value s start stop step.
Proof. exact glue_slice_by_value. Qed.
Print Assumptions C11_glue_slice_by_value.

(** omitted arguments take the defaults written in the signature *)
Theorem C11_glue_slice_defaults : forall s xs ys,
  call_method weaver_methods None "slice_by_index" [] s xs ys =
  call_method weaver_methods None "slice_by_index" [("start", VInt 0); ("stop", VNoneV); ("step", VInt 1)] s xs ys /\
  call_method weaver_methods None "slice_by_value" [] s xs ys =
  call_method weaver_methods None "slice_by_value" [("start", VNoneV); ("stop", VNoneV); ("step", VInt 1)] s xs ys /\
  call_method weaver_methods (Some (OTruncIdx 0 None)) "truncate_by_index" [] s xs ys =
  call_method weaver_methods (Some (OTruncIdx 0 None)) "truncate_by_index" (params_of (OTruncIdx 0 None)) s xs ys.
Proof. exact glue_slice_defaults. Qed.
Print Assumptions C11_glue_slice_defaults.
Close Scope string_scope.

(** ---- function bodies REGENERATED from the source as glue terms (Gen/ProcessGlue.v), run by the interpreter of Model/GlueFun.v with
     the leaves of Model/GlueLeaves.v (callees mean their models), are the hand-written models ---- *)
From TW Require Import Model.GlueLeaves Gen.ProcessGlue Proofs.GlueProcessProofs.
Open Scope string_scope.
Theorem C11_glue_truncate : forall x y xl xr lr rr, x <> [] ->
  outcome_arr_pair (call_fun (process_callf (fun v => v)) array_methf no_apply no_pow process_functions "truncate"
     [("x", VArr x); ("y", VArr y); ("x_left", VNum xl); ("x_right", VNum xr); ("x_left_as_ratio", VBoolV lr); ("x_right_as_ratio", VBoolV rr)])
  = truncate x y xl xr lr rr.
Proof. exact glue_truncate. Qed.
Print Assumptions C11_glue_truncate.
Close Scope string_scope.

Example C11_example :
  match truncate [qz 0; qz 1; qz 2; qz 3; qz 4] [qz 5; qz 6; qz 7; qz 8; qz 9] (qf 3 2) (qf 5 2) false false with
  | Ok r => list_eqb Qc_eqb (fst r) [qz 1; qz 2; qz 3] && list_eqb Qc_eqb (snd r) [qz 6; qz 7; qz 8]
  | _ => false end = true.
Proof. vm_compute. reflexivity. Qed.
