(** C11 — truncation and slicing select exactly the requested range.
    Statements only; proofs are in Proofs/TruncInterpProofs.v. *)
From TW Require Import Model.Process Proofs.TruncInterpProofs.
Open Scope Qc_scope.

(** the result is the contiguous run from the last sample <= left (or the first
    sample) to the first sample >= right (or the last sample); x and y are cut
    identically.  is_lower / is_higher are the (unique) neighbours of C10. *)
Theorem C11_truncate_covering_run : forall x y xl xr, ssorted x -> x <> [] -> length x = length y -> xl < xr ->
  exists i j, truncate x y xl xr false false = Ok (slice x i (j + 1), slice y i (j + 1)) /\
    (i <= j)%nat /\ (j < length x)%nat /\
    is_lower x true xl (Z.of_nat i) /\ is_higher x true xr (Z.of_nat j).
Proof. exact truncate_covering_run. Qed.
Print Assumptions C11_truncate_covering_run.

(** smallest such run: dropping either end sample would uncover a bound that lies in the data range *)
Theorem C11_truncate_minimal : forall x i j xl xr, ssorted x ->
  is_lower x true xl (Z.of_nat i) -> is_higher x true xr (Z.of_nat j) -> (i < j)%nat -> (j < length x)%nat ->
  (headq x <= xl -> xl < nthq (i + 1) x) /\ (xr <= lastq x -> nthq (j - 1) x < xr).
Proof. exact truncate_minimal. Qed.
Print Assumptions C11_truncate_minimal.

Theorem C11_truncate_inverted : forall x y xl xr, xr <= xl -> truncate x y xl xr false false = Raise ValueError.
Proof. exact truncate_inverted. Qed.
Print Assumptions C11_truncate_inverted.

(** ratios are converted with the series' own span *)
Theorem C11_truncate_ratio : forall x y l r lr rr,
  let span := lastq x - headq x in
  truncate x y l r lr rr =
  truncate x y (if lr then l * span + headq x else l) (if rr then r * span + headq x else r) false false.
Proof. exact truncate_ratio. Qed.
Print Assumptions C11_truncate_ratio.

Example C11_example :
  match truncate [qz 0; qz 1; qz 2; qz 3; qz 4] [qz 5; qz 6; qz 7; qz 8; qz 9] (qf 3 2) (qf 5 2) false false with
  | Ok r => list_eqb Qc_eqb (fst r) [qz 1; qz 2; qz 3] && list_eqb Qc_eqb (snd r) [qz 6; qz 7; qz 8]
  | _ => false end = true.
Proof. vm_compute. reflexivity. Qed.
