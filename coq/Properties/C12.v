(** C12 — repeat is a periodic extension with the original spacing.
    Statements only; proofs are in Proofs/ProcessProofs.v. *)
From TW Require Import Model.Process Proofs.ProcessProofs.
Open Scope Qc_scope.

Definition period (x : list Qc) : Qc :=
  (lastq x - headq x) + (lastq x - nthq (length x - 2) x).

(** r*N samples; values tiled; abscissa j of copy i is x_j + i*P with
    P = span + last step *)
Theorem C12_closed_form : forall x y r, (2 <= length x)%nat -> length x = length y ->
  let out := repeat_series x y r in
  length (fst out) = (r * length x)%nat /\ length (snd out) = (r * length x)%nat /\
  snd out = tile y r /\
  forall i j, (i < r)%nat -> (j < length x)%nat ->
    nthq (i * length x + j) (fst out) = nthq j x + Qc_of_nat i * period x.
Proof. exact repeat_closed_form. Qed.
Print Assumptions C12_closed_form.

Theorem C12_strictly_increasing : forall x y r, ssorted x -> (2 <= length x)%nat ->
  ssorted (fst (repeat_series x y r)).
Proof. exact repeat_sorted. Qed.
Print Assumptions C12_strictly_increasing.

Theorem C12_first_copy : forall x y r, (2 <= length x)%nat -> length x = length y -> (1 <= r)%nat ->
  firstn (length x) (fst (repeat_series x y r)) = x /\ firstn (length y) (snd (repeat_series x y r)) = y.
Proof. exact repeat_first_copy. Qed.
Print Assumptions C12_first_copy.

(** across each junction the series continues with its last step *)
Theorem C12_junction_step : forall x y r i, (2 <= length x)%nat -> length x = length y -> (i + 1 < r)%nat ->
  let out := fst (repeat_series x y r) in
  let N := length x in
  nthq ((i + 1) * N) out - nthq ((i + 1) * N - 1) out = lastq x - nthq (N - 2) x.
Proof. exact repeat_junction_step. Qed.
Print Assumptions C12_junction_step.

Theorem C12_repeat_once : forall x y, repeat_series x y 1 = (x, y).
Proof. exact repeat_once. Qed.
Print Assumptions C12_repeat_once.

Theorem C12_compose : forall x y a b, (2 <= length x)%nat -> length x = length y -> (1 <= a)%nat ->
  let r := repeat_series x y a in
  repeat_series (fst r) (snd r) b = repeat_series x y (a * b).
Proof. exact repeat_compose. Qed.
Print Assumptions C12_compose.

(** ======== Weaver level (class Weaver in weaver.py; model coq/Model/Weaver.v) ======== *)
From TW Require Import Model.WeaverSpec Model.Interval Proofs.WeaverLevelProofs.
Theorem C12_weaver_repeat : forall s r s', (0 <= r)%Z -> step s (ORepeat r) = (s', Ok tt) ->
  (wx s', wy s') = repeat_series (wx s) (wy s) (Z.to_nat r) /\
  (wrx s', wry s') = repeat_series (wrx s) (wry s) (Z.to_nat r) /\ wox s' = wox s /\ woy s' = woy s.
Proof. exact weaver_repeat. Qed.
Print Assumptions C12_weaver_repeat.

(** ======== generated arithmetic = model (Gen/Kernels.v is regenerated from the source on every check) ======== *)
From TW Require Import Model.MatchSpec Model.Process Gen.Kernels Proofs.KernelsLink.
Theorem C12_generated_repeat_shift : forall x n i, (2 <= n * i)%nat -> (n * i <= length x)%nat ->
  repeat__previous_range_diff (Z.of_nat n) (Z.of_nat i) (VV x)
  = VS (nthq (n * i - 1) x - nthq 0 x + (nthq (n * i - 1) x - nthq (n * i - 2) x)).
Proof. exact gen_repeat_shift. Qed.
Print Assumptions C12_generated_repeat_shift.

(** ---- function bodies REGENERATED from the source as glue terms (Gen/ProcessGlue.v), run by the interpreter of Model/GlueFun.v with
     the leaves of Model/GlueLeaves.v (callees mean their models), are the hand-written models ---- *)
From TW Require Import Model.GlueLeaves Gen.ProcessGlue Proofs.GlueProcessProofs.
Open Scope string_scope.
Theorem C12_glue_repeat : forall x y r, repeat_defined x = true -> (0 <= r)%Z ->
  outcome_arr_pair (call_fun (process_callf (fun v => v)) array_methf no_apply no_pow process_functions "repeat"
     [("x", VArr x); ("y", VArr y); ("repeats", VInt r)])
  = Ok (repeat_series x y (Z.to_nat r)).
Proof. exact glue_repeat. Qed.
Print Assumptions C12_glue_repeat.
Close Scope string_scope.

Example C12_example :
  let r := repeat_series [qz 0; qz 1; qz 3] [qz 5; qz 6; qz 7] 2 in
  list_eqb Qc_eqb (fst r) [qz 0; qz 1; qz 3; qz 5; qz 6; qz 8] && list_eqb Qc_eqb (snd r) [qz 5; qz 6; qz 7; qz 5; qz 6; qz 7] = true.
Proof. vm_compute. reflexivity. Qed.
