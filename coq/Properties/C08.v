(** C08 — reference series tracks domain transformations through any history.
    Statements only; proofs are in Proofs/WeaverProofs.v. *)
From TW Require Import Model.WeaverSpec Proofs.WeaverProofs.
Open Scope Qc_scope.

Theorem C08_inv_init : forall x y s, init x y = Ok s -> Inv s.
Proof. exact inv_init. Qed.
Print Assumptions C08_inv_init.

(** each of the ten domain operations keeps working = reference and applies
    exactly its own transformation *)
Theorem C08_inv_step : forall s o s', Inv s -> is_domain o = true -> step s o = (s', Ok tt) ->
  Inv s' /\ pure_apply o (wx s, wy s) = Ok (wx s', wy s').
Proof. exact inv_step. Qed.
Print Assumptions C08_inv_step.

(** every history of domain operations, of any length *)
Theorem C08_history : forall ops s s', Inv s -> forallb is_domain ops = true -> run s ops = (s', Ok tt) ->
  Inv s' /\ pure_run ops (wx s, wy s) = Ok (wx s', wy s') /\ pure_run ops (wrx s, wry s) = Ok (wrx s', wry s').
Proof. exact inv_history. Qed.
Print Assumptions C08_history.

Theorem C08_history_from_init : forall ops x y s0 s', init (Some x) y = Ok s0 ->
  forallb is_domain ops = true -> run s0 ops = (s', Ok tt) ->
  wx s' = wrx s' /\ wy s' = wry s' /\ pure_run ops (x, y) = Ok (wx s', wy s').
Proof. exact history_from_init. Qed.
Print Assumptions C08_history_from_init.

(** reshaping operations never alter the reference, whether they succeed or raise *)
Theorem C08_reshape_frame : forall s o s' r, is_domain o = false -> is_restore o = false ->
  step s o = (s', r) -> wrx s' = wrx s /\ wry s' = wry s.
Proof. exact reshape_frame. Qed.
Print Assumptions C08_reshape_frame.

(** a domain operation that raises before its first assignment leaves everything in place;
    in particular a failing history prefix never desynchronises the two series silently *)
Theorem C08_domain_step_reference_follows : forall s o s' e, Inv s -> is_domain o = true ->
  step s o = (s', Raise e) -> e = ValueError -> nonempty6 s -> s' = s.
Proof. exact domain_rejected_unchanged. Qed.
Print Assumptions C08_domain_step_reference_follows.

(** ======== Weaver level (class Weaver in weaver.py; model coq/Model/Weaver.v) ======== *)
From TW Require Import Model.WeaverSpec Model.Interval Proofs.WeaverLevelProofs.
(** after any state with working = reference, recreate (any strategy, any parameters) followed by the default
    integral match reproduces every (transformed) average: block integral = average * width *)
Theorem C08_pipeline : forall pw pwr gpow k s n s1 rt, PwOk pw -> known_rule rt ->
  Inv s -> ssorted (wx s) -> (2 <= length (wx s))%nat -> length (wx s) = length (wy s) -> (2 <= n)%Z ->
  step s (ORecreate n pwr gpow k) = (s1, Ok tt) ->
  exists s2, step s1 (OMatch pw (ByStrategy Closest) rt Rectangle) = (s2, Ok tt) /\
    let N := Z.to_nat n in
    wx s2 = oversample_linspace (wx s) N /\ length (wy s2) = length (wx s2) /\
    wrx s2 = wrx s /\ wry s2 = wry s /\
    forall j, (j + 1 < length (wx s))%nat ->
      total rt (slice (wx s2) (j * N) ((j + 1) * N + 1)) (slice (wy s2) (j * N) ((j + 1) * N + 1))
      = nthq j (wry s) * (nthq (j + 1) (wrx s) - nthq j (wrx s)).
Proof. exact weaver_pipeline. Qed.
Print Assumptions C08_pipeline.

Example C08_example :
  match init (Some [qz 0; qz 1; qz 2; qz 4]) [qz 1; qz 3; qz 3; qz 0] with
  | Ok s0 =>
      match run s0 [OAppend true; OScaleX (qz 2); ORepeat 2; OTruncVal (qz 1) (qz 20) false false; ONormY 0 1] with
      | (s', Ok _) => list_eqb Qc_eqb (wx s') (wrx s') && list_eqb Qc_eqb (wy s') (wry s') && Nat.eqb (length (wx s')) 8
      | _ => false
      end
  | _ => false end = true.
Proof. vm_compute. reflexivity. Qed.
