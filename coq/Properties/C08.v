(** C08 — reference series tracks domain transformations through any history.
    Statements only; proofs are in Proofs/WeaverProofs.v. *)
From TW Require Import Model.WeaverSpec Proofs.WeaverProofs.
Open Scope Qc_scope.

Theorem C08_inv_init : forall x y s, init x y = Ok s -> Inv s.
Proof. exact inv_init. Qed.
Print Assumptions C08_inv_init.

(** each of the ten domain operations keeps working = reference and applies
    exactly its own transformation *)
Theorem C08_inv_step : forall s o s', Inv s -> is_domain o = true -> step s o = (s', Ok tt) ->
  Inv s' /\ pure_apply o (wx s, wy s) = Ok (wx s', wy s').
Proof. exact inv_step. Qed.
Print Assumptions C08_inv_step.

(** every history of domain operations, of any length *)
Theorem C08_history : forall ops s s', Inv s -> forallb is_domain ops = true -> run s ops = (s', Ok tt) ->
  Inv s' /\ pure_run ops (wx s, wy s) = Ok (wx s', wy s') /\ pure_run ops (wrx s, wry s) = Ok (wrx s', wry s').
Proof. exact inv_history. Qed.
Print Assumptions C08_history.

Theorem C08_history_from_init : forall ops x y s0 s', init (Some x) y = Ok s0 ->
  forallb is_domain ops = true -> run s0 ops = (s', Ok tt) ->
  wx s' = wrx s' /\ wy s' = wry s' /\ pure_run ops (x, y) = Ok (wx s', wy s').
Proof. exact history_from_init. Qed.
Print Assumptions C08_history_from_init.

(** reshaping operations never alter the reference, whether they succeed or raise *)
Theorem C08_reshape_frame : forall s o s' r, is_domain o = false -> is_restore o = false ->
  step s o = (s', r) -> wrx s' = wrx s /\ wry s' = wry s.
Proof. exact reshape_frame. Qed.
Print Assumptions C08_reshape_frame.

(** a domain operation that raises before its first assignment leaves everything in place;
    in particular a failing history prefix never desynchronises the two series silently *)
Theorem C08_domain_step_reference_follows : forall s o s' e, Inv s -> is_domain o = true ->
  step s o = (s', Raise e) -> e = ValueError -> nonempty6 s -> s' = s.
Proof. exact domain_rejected_unchanged. Qed.
Print Assumptions C08_domain_step_reference_follows.

(** ======== Weaver level (class Weaver in weaver.py; model coq/Model/Weaver.v) ======== *)
From TW Require Import Model.WeaverSpec Model.Interval Proofs.WeaverLevelProofs.
(** after any state with working = reference, recreate (any strategy, any parameters) followed by the default
    integral match reproduces every (transformed) average: block integral = average * width *)
Theorem C08_pipeline : forall pw pwr gpow k s n s1 rt, PwOk pw -> known_rule rt ->
  Inv s -> ssorted (wx s) -> (2 <= length (wx s))%nat -> length (wx s) = length (wy s) -> (2 <= n)%Z ->
  step s (ORecreate n pwr gpow k) = (s1, Ok tt) ->
  exists s2, step s1 (OMatch pw (ByStrategy Closest) rt Rectangle) = (s2, Ok tt) /\
    let N := Z.to_nat n in
    wx s2 = oversample_linspace (wx s) N /\ length (wy s2) = length (wx s2) /\
    wrx s2 = wrx s /\ wry s2 = wry s /\
    forall j, (j + 1 < length (wx s))%nat ->
      total rt (slice (wx s2) (j * N) ((j + 1) * N + 1)) (slice (wy s2) (j * N) ((j + 1) * N + 1))
      = nthq j (wry s) * (nthq (j + 1) (wrx s) - nthq j (wrx s)).
Proof. exact weaver_pipeline. Qed.
Print Assumptions C08_pipeline.

(** ======== shifting or scaling commutes with the recreate + match pipeline ======== *)
From TW Require Import Model.RfaSpec Proofs.CommuteProofs.
Definition res_map {A B} (f : A -> B) (r : res A) : res B := match r with Ok v => Ok (f v) | Raise e => Raise e end.

(** strategies whose values are computed by the library (a user-supplied sampling function may depend on units arbitrarily) *)
Definition window_strategy_ok (n : nat) (gpow : Qc -> Qc) (k : rfa_kind) : Prop :=
  match k with
  | PiecewiseConstant => True
  | LinearFixed alpha a => (window_a n alpha a <= Z.of_nat n)%Z
  | LinearAdaptive alpha a => (window_a n alpha a <= Z.of_nat n)%Z /\ GpowPos gpow
  | ExpFixed alpha beta a => (window_a n alpha a <= Z.of_nat n)%Z /\ 0 <= beta /\ beta <= 1
  | ExpAdaptive alpha beta a => (window_a n alpha a <= Z.of_nat n)%Z /\ 0 <= beta /\ beta <= 1 /\ GpowPos gpow
  | FunctionSampled _ => False
  end.

Definition pipeline (n : Z) (pwr gpow : Qc -> Qc) (k : rfa_kind) (pw : Qc -> Qc) (rt : rule) : list op :=
  [ORecreate n pwr gpow k; OMatch pw (ByStrategy Closest) rt Rectangle].

Definition same_series (s1 s2 : wstate) : Prop :=
  wx s1 = wx s2 /\ wy s1 = wy s2 /\ wrx s1 = wrx s2 /\ wry s1 = wry s2.

(** matching is homogeneous in the values: scaling target and reference values scales the result (every mode, every rule) *)
Theorem C08_match_scale_y : forall pw x y xr yr m rt rr a, length x = length y -> length xr = length yr ->
  match_ref pw x (map (Qcmult a) y) xr (map (Qcmult a) yr) m rt rr = res_map (map (Qcmult a)) (match_ref pw x y xr yr m rt rr).
Proof. exact match_scale_y. Qed.
Print Assumptions C08_match_scale_y.

Theorem C08_commute_scale_y : forall pw pwr gpow k rt n s, PwOk pw -> known_rule rt -> (2 <= n)%Z -> window_strategy_ok (Z.to_nat n) gpow k ->
  Inv s -> ssorted (wx s) -> (2 <= length (wx s))%nat -> length (wx s) = length (wy s) ->
  forall a s1 s2, a <> 0 -> 
  run s (OScaleY a :: pipeline n pwr gpow k pw rt) = (s1, Ok tt) -> run s (pipeline n pwr gpow k pw rt ++ [OScaleY a]) = (s2, Ok tt) ->
  same_series s1 s2.
Proof. exact commute_scale_y. Qed.
Print Assumptions C08_commute_scale_y.

Theorem C08_commute_shift_y : forall pw pwr gpow k rt n s, PwOk pw -> known_rule rt -> (2 <= n)%Z -> window_strategy_ok (Z.to_nat n) gpow k ->
  Inv s -> ssorted (wx s) -> (2 <= length (wx s))%nat -> length (wx s) = length (wy s) ->
  forall b s1 s2, 
  run s (OShiftY b :: pipeline n pwr gpow k pw rt) = (s1, Ok tt) -> run s (pipeline n pwr gpow k pw rt ++ [OShiftY b]) = (s2, Ok tt) ->
  same_series s1 s2.
Proof. exact commute_shift_y. Qed.
Print Assumptions C08_commute_shift_y.

Theorem C08_commute_scale_x : forall pw pwr gpow k rt n s, PwOk pw -> known_rule rt -> (2 <= n)%Z -> window_strategy_ok (Z.to_nat n) gpow k ->
  Inv s -> ssorted (wx s) -> (2 <= length (wx s))%nat -> length (wx s) = length (wy s) ->
  forall c s1 s2, 0 < c -> 
  run s (OScaleX c :: pipeline n pwr gpow k pw rt) = (s1, Ok tt) -> run s (pipeline n pwr gpow k pw rt ++ [OScaleX c]) = (s2, Ok tt) ->
  same_series s1 s2.
Proof. exact commute_scale_x. Qed.
Print Assumptions C08_commute_scale_x.

Theorem C08_commute_shift_x : forall pw pwr gpow k rt n s, PwOk pw -> known_rule rt -> (2 <= n)%Z -> window_strategy_ok (Z.to_nat n) gpow k ->
  Inv s -> ssorted (wx s) -> (2 <= length (wx s))%nat -> length (wx s) = length (wy s) ->
  forall d s1 s2, 
  run s (OShiftX d :: pipeline n pwr gpow k pw rt) = (s1, Ok tt) -> run s (pipeline n pwr gpow k pw rt ++ [OShiftX d]) = (s2, Ok tt) ->
  same_series s1 s2.
Proof. exact commute_shift_x. Qed.
Print Assumptions C08_commute_shift_x.

(** ---- which fields each Weaver method assigns is REGENERATED from weaver.py (Gen/WeaverFootprint.v: method_writes);
     op_method / getf / writes / domain_methods / reshaping_methods / query_methods are defined at the top of
     Proofs/FootprintProofs.v.  Deleting e.g. a reference update from a method breaks one of these obligations. ---- *)
From Coq Require Import String.
From TW Require Import Model.WeaverSpec Gen.WeaverFootprint Proofs.FootprintProofs.
Open Scope string_scope.
(** every domain method that assigns the working x (y) also assigns the reference x (y), and vice versa *)
Theorem C08_reference_assigned_with_working : forall m, In m domain_methods ->
  writes m FX = writes m FRX /\ writes m FY = writes m FRY /\ (writes m FX || writes m FY = true).
Proof. exact reference_assigned_with_working. Qed.
Print Assumptions C08_reference_assigned_with_working.

Theorem C08_reshaping_never_assigns_reference : forall m, In m reshaping_methods ->
  writes m FRX = false /\ writes m FRY = false /\ writes m FOX = false /\ writes m FOY = false.
Proof. exact reshaping_never_assigns_reference. Qed.
Print Assumptions C08_reshaping_never_assigns_reference.
Close Scope string_scope.

(** ---- the bodies of the Weaver methods, REGENERATED from weaver.py as terms of the glue language (Gen/WeaverGlue.v:
     weaver_methods), mean — under the interpreter of Model/GlueSem.v — what the hand-written [step] and query functions say ---- *)
From TW Require Import Model.GlueSem Gen.WeaverGlue Proofs.GlueProofs.
Open Scope string_scope.
(** the ten domain methods, as regenerated, apply one and the same package function with the same arguments to the
    working series and to the reference series: after the call both are what [step] says *)
Theorem C08_glue_domain : forall s o xs ys, is_domain o = true ->
  let r := call_method weaver_methods (Some o) (op_method o) (params_of o) s xs ys in
  wx (g_s (fst r)) = wx (fst (step s o)) /\ wy (g_s (fst r)) = wy (fst (step s o)) /\
  wrx (g_s (fst r)) = wrx (fst (step s o)) /\ wry (g_s (fst r)) = wry (fst (step s o)) /\
  outcome_res (snd r) = snd (step s o).
Proof. exact glue_domain. Qed.
Print Assumptions C08_glue_domain.
Close Scope string_scope.

Example C08_example :
  match init (Some [qz 0; qz 1; qz 2; qz 4]) [qz 1; qz 3; qz 3; qz 0] with
  | Ok s0 =>
      match run s0 [OAppend true; OScaleX (qz 2); ORepeat 2; OTruncVal (qz 1) (qz 20) false false; ONormY 0 1] with
      | (s', Ok _) => list_eqb Qc_eqb (wx s') (wrx s') && list_eqb Qc_eqb (wy s') (wry s') && Nat.eqb (length (wx s')) 8
      | _ => false
      end
  | _ => false end = true.
Proof. vm_compute. reflexivity. Qed.
