(** C16 — smoothing and the spline function respect the smoothing condition.
    Statements only; proofs are in Proofs/NoiseSmoothProofs.v.
    Partial (the thinnest claim of the twenty): that FITPACK honours s is an oracle contract; what is proved and
    tied to the code is that the right s (explicit, 0, or len(y)*var(y) when omitted) reaches it, that its answer is
    evaluated at the existing abscissae and stored in y only, and that to_function's default is s = 0 (read from
    the GENERATED defaults, so changing the default breaks this obligation). *)
From Coq Require Import String.
From TW Require Import Model.WeaverSpec Gen.Defaults Proofs.NoiseSmoothProofs.
Open Scope Qc_scope.

Theorem C16_smoothing_default : forall y, smoothing_s y None = Qc_of_nat (length y) * varq y.
Proof. exact smoothing_default. Qed.
Print Assumptions C16_smoothing_default.

Theorem C16_smoothing_explicit : forall y s, smoothing_s y (Some s) = s.
Proof. exact smoothing_explicit. Qed.
Print Assumptions C16_smoothing_explicit.

Theorem C16_smooth_keeps_x_and_length : forall s ys s', length ys = length (wy s) -> step s (OSmooth ys) = (s', Ok tt) ->
  wx s' = wx s /\ wy s' = ys /\ length (wy s') = length (wy s) /\
  wox s' = wox s /\ woy s' = woy s /\ wrx s' = wrx s /\ wry s' = wry s.
Proof. exact smooth_keeps_x_and_length. Qed.
Print Assumptions C16_smooth_keeps_x_and_length.

(** for every FITPACK answer meeting its contract (length kept, residual <= s(1+0.1%), s = 0 interpolates) *)
Theorem C16_smooth_residual_bound : forall s ys sopt s', fitpack_contract (wy s) ys (smoothing_s (wy s) sopt) ->
  step s (OSmooth ys) = (s', Ok tt) ->
  sq_residual (wy s') (wy s) <= smoothing_s (wy s) sopt * (1 + Q2Qc (1 # 1000)) /\
  (sopt = None -> sq_residual (wy s') (wy s) <= Qc_of_nat (length (wy s)) * varq (wy s) * (1 + Q2Qc (1 # 1000))) /\
  (sopt = Some 0 -> wy s' = wy s).
Proof. exact smooth_residual_bound. Qed.
Print Assumptions C16_smooth_residual_bound.

Theorem C16_to_function_default_interpolates :
  default_of "weaver.Weaver.to_function.s"%string defaults = Some (DNum 0%Q) /\
  default_of "process.spline_smooth.s"%string defaults = Some DNone /\
  default_of "process.noise_gauss.snr_in_db"%string defaults = Some (DBool true) /\
  default_of "process.noise_gauss.std"%string defaults = Some (DNum 1%Q).
Proof. exact to_function_default_interpolates. Qed.
Print Assumptions C16_to_function_default_interpolates.

(** ======== generated arithmetic = model (Gen/Kernels.v is regenerated from the source on every check) ======== *)
From TW Require Import Model.MatchSpec Model.Process Gen.Kernels Proofs.KernelsLink.
Theorem C16_generated_default_s : forall psqrt y, (forall v, psqrt v * psqrt v = v) ->
  spline_smooth__s psqrt (VV y) = VS (smoothing_s y None).
Proof. exact gen_spline_s. Qed.
Print Assumptions C16_generated_default_s.

Example C16_example : Qc_eqb (smoothing_s [qz 1; qz 3] None) (qz 2) = true.
Proof. vm_compute. reflexivity. Qed.
