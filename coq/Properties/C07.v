(** C07 — recreation commutes with changes of units and acts locally.
    Statements only.  Proofs: Proofs/RfaEquivProofs.v, on the closed forms of Model/RfaSpec.v that the
    strategies are proved to compute (C05_link_...); piecewise-constant directly on the model. *)
From TW Require Import Model.RfaSpec Proofs.RfaEquivProofs.
Open Scope Qc_scope.

Definition ymap (a b : Qc) (y : list Qc) : list Qc := map (fun v => a * v + b) y.
Definition xmap (c d : Qc) (x : list Qc) : list Qc := map (fun v => c * v + d) x.

(** ---- the grid commutes with x -> c*x + d ---- *)
Theorem C07_grid_x_affine : forall x n c d, oversample_linspace (xmap c d x) n = xmap c d (oversample_linspace x n).
Proof. exact grid_x_affine. Qed.
Print Assumptions C07_grid_x_affine.

(** ---- values: y -> a*y + b (a <> 0) ---- *)
Theorem C07_avg_border_y_affine : forall x y n a b K ar al, (2 <= length x)%nat -> length x = length y ->
  avg x (ymap a b y) K = a * avg x y K + b /\
  border x (ymap a b y) n K ar al = a * border x y n K ar al + b.
Proof. exact avg_border_y_affine. Qed.
Print Assumptions C07_avg_border_y_affine.

Theorem C07_shape_y_affine : forall pw x y n a b K i al ar bl br z0 z1, (2 <= length x)%nat -> length x = length y ->
  shape_linear x (ymap a b y) n K i al ar (a * z0 + b) (a * z1 + b) = a * shape_linear x y n K i al ar z0 z1 + b /\
  shape_exp pw x (ymap a b y) n K i al ar bl br (a * z0 + b) (a * z1 + b) = a * shape_exp pw x y n K i al ar bl br z0 z1 + b.
Proof. exact shape_y_affine. Qed.
Print Assumptions C07_shape_y_affine.

Theorem C07_fixed_y_affine : forall pw x y n a b h bb K i, (2 <= length x)%nat -> length x = length y ->
  out_linear_fixed x (ymap a b y) n h K i = a * out_linear_fixed x y n h K i + b /\
  out_exp_fixed pw x (ymap a b y) n h bb K i = a * out_exp_fixed pw x y n h bb K i + b.
Proof. exact fixed_y_affine. Qed.
Print Assumptions C07_fixed_y_affine.

(** the adaptive windows depend on the values only through ratios of absolute jumps *)
Theorem C07_adaptive_windows_y_affine : forall gpow x y n a b aa, a <> 0 -> (2 <= n)%nat -> (2 <= length x)%nat -> length x = length y ->
  adaptive_windows gpow (prepare x (ymap a b y) n) aa = adaptive_windows gpow (prepare x y n) aa.
Proof. exact adaptive_windows_y_affine. Qed.
Print Assumptions C07_adaptive_windows_y_affine.

Theorem C07_adaptive_y_affine : forall pw x y n a b beta als ars K i, (2 <= length x)%nat -> length x = length y ->
  out_linear_adaptive x (ymap a b y) n als ars K i = a * out_linear_adaptive x y n als ars K i + b /\
  out_exp_adaptive pw x (ymap a b y) n beta als ars K i = a * out_exp_adaptive pw x y n beta als ars K i + b.
Proof. exact adaptive_y_affine. Qed.
Print Assumptions C07_adaptive_y_affine.

(** ---- time axis: x -> c*x + d (c > 0): values unchanged ---- *)
Theorem C07_x_affine : forall pw x y n c d beta h bb als ars K i, 0 < c -> (2 <= length x)%nat -> (1 <= n)%nat ->
  out_linear_fixed (xmap c d x) y n h K i = out_linear_fixed x y n h K i /\
  out_exp_fixed pw (xmap c d x) y n h bb K i = out_exp_fixed pw x y n h bb K i /\
  out_linear_adaptive (xmap c d x) y n als ars K i = out_linear_adaptive x y n als ars K i /\
  out_exp_adaptive pw (xmap c d x) y n beta als ars K i = out_exp_adaptive pw x y n beta als ars K i.
Proof. exact out_x_affine. Qed.
Print Assumptions C07_x_affine.

Theorem C07_adaptive_windows_x_affine : forall gpow x y n c d aa, 0 < c -> (2 <= n)%nat -> (2 <= length x)%nat -> length x = length y ->
  adaptive_windows gpow (prepare (xmap c d x) y n) aa = adaptive_windows gpow (prepare x y n) aa.
Proof. exact adaptive_windows_x_affine. Qed.
Print Assumptions C07_adaptive_windows_x_affine.

(** ---- locality: sample (K, i) of the non-adaptive strategies reads only the averages of intervals K-1, K, K+1 ---- *)
Theorem C07_locality_fixed : forall pw x y y' n h bb K i, length y = length x -> length y' = length x ->
  avg x y (K - 1) = avg x y' (K - 1) -> avg x y K = avg x y' K -> avg x y (K + 1) = avg x y' (K + 1) ->
  out_linear_fixed x y n h K i = out_linear_fixed x y' n h K i /\
  out_exp_fixed pw x y n h bb K i = out_exp_fixed pw x y' n h bb K i.
Proof. exact locality_fixed. Qed.
Print Assumptions C07_locality_fixed.

(** adaptive strategies: two neighbours on each side (the windows of the adjacent intervals read one more) *)
Theorem C07_locality_adaptive : forall pw gpow x y y' n aa beta K i, (2 <= n)%nat -> (2 <= length x)%nat ->
  length y = length x -> length y' = length x -> (1 <= K)%Z -> (K <= Z.of_nat (length x) - 1)%Z ->
  (forall J, (K - 2 <= J)%Z -> (J <= K + 2)%Z -> avg x y J = avg x y' J) ->
  let w := adaptive_windows gpow (prepare x y n) aa in
  let w' := adaptive_windows gpow (prepare x y' n) aa in
  out_linear_adaptive x y n (fst w) (snd w) K i = out_linear_adaptive x y' n (fst w') (snd w') K i /\
  out_exp_adaptive pw x y n beta (fst w) (snd w) K i = out_exp_adaptive pw x y' n beta (fst w') (snd w') K i.
Proof. exact locality_adaptive. Qed.
Print Assumptions C07_locality_adaptive.

(** ---- the non-adaptive strategies act linearly on the values, with weights summing to one and non-negative ---- *)
Definition yadd (y y' : list Qc) : list Qc := map2 Qcplus y y'.
Theorem C07_linear_fixed_additive : forall pw x y y' n h bb K i, (2 <= length x)%nat -> length y = length x -> length y' = length x ->
  out_linear_fixed x (yadd y y') n h K i = out_linear_fixed x y n h K i + out_linear_fixed x y' n h K i /\
  out_exp_fixed pw x (yadd y y') n h bb K i = out_exp_fixed pw x y n h bb K i + out_exp_fixed pw x y' n h bb K i.
Proof. exact fixed_additive. Qed.
Print Assumptions C07_linear_fixed_additive.

Theorem C07_fixed_monotone_in_values : forall pw x y y' n h bb K i, PwOk pw -> ssorted x -> (2 <= length x)%nat -> (1 <= n)%nat ->
  length y = length x -> length y' = length x -> fixed_ok n h bb -> (0 <= i)%Z -> (i < Z.of_nat n)%Z ->
  (forall j, nthq j y <= nthq j y') ->
  out_linear_fixed x y n h K i <= out_linear_fixed x y' n h K i /\
  out_exp_fixed pw x y n h bb K i <= out_exp_fixed pw x y' n h bb K i.
Proof. exact fixed_monotone_in_values. Qed.
Print Assumptions C07_fixed_monotone_in_values.

Theorem C07_piecewise_constant_linear : forall x y y' n a b, length y = length y' ->
  snd (rfa_pc x (ymap a b y) n) = ymap a b (snd (rfa_pc x y n)) /\
  snd (rfa_pc x (yadd y y') n) = yadd (snd (rfa_pc x y n)) (snd (rfa_pc x y' n)).
Proof. exact piecewise_constant_linear. Qed.
Print Assumptions C07_piecewise_constant_linear.

(** ======== strategy-level corollaries (closed-form theorems transported through the link theorems) ======== *)
From TW Require Import Model.RfaSpec Proofs.RfaFinal.
(** y -> a*y + b commutes with every computed strategy (a <> 0 needed only by the adaptive ones) *)
Theorem C07_strategies_y_affine : forall pw gpow x y n alpha beta a' a b, a <> 0 -> GpowPos gpow ->
  (2 <= n)%nat -> (2 <= length x)%nat -> length x = length y -> ssorted x ->
  (window_a n alpha a' <= Z.of_nat n)%Z -> 0 <= beta -> beta <= 1 ->
  snd (rfa_pc x (ymap a b y) n) = ymap a b (snd (rfa_pc x y n)) /\
  snd (rfa_linear_fixed x (ymap a b y) n alpha a') = ymap a b (snd (rfa_linear_fixed x y n alpha a')) /\
  snd (rfa_exp_fixed pw x (ymap a b y) n alpha beta a') = ymap a b (snd (rfa_exp_fixed pw x y n alpha beta a')) /\
  snd (rfa_linear_adaptive gpow x (ymap a b y) n alpha a') = ymap a b (snd (rfa_linear_adaptive gpow x y n alpha a')) /\
  snd (rfa_exp_adaptive pw gpow x (ymap a b y) n alpha beta a') = ymap a b (snd (rfa_exp_adaptive pw gpow x y n alpha beta a')).
Proof. exact strategies_y_affine. Qed.
Print Assumptions C07_strategies_y_affine.

(** x -> c*x + d (c > 0): abscissae mapped, values unchanged *)
Theorem C07_strategies_x_affine : forall pw gpow x y n alpha beta a' c d, 0 < c -> GpowPos gpow ->
  (2 <= n)%nat -> (2 <= length x)%nat -> length x = length y -> ssorted x ->
  (window_a n alpha a' <= Z.of_nat n)%Z -> 0 <= beta -> beta <= 1 ->
  rfa_pc (xmap c d x) y n = (xmap c d (fst (rfa_pc x y n)), snd (rfa_pc x y n)) /\
  rfa_linear_fixed (xmap c d x) y n alpha a' = (xmap c d (fst (rfa_linear_fixed x y n alpha a')), snd (rfa_linear_fixed x y n alpha a')) /\
  rfa_exp_fixed pw (xmap c d x) y n alpha beta a' = (xmap c d (fst (rfa_exp_fixed pw x y n alpha beta a')), snd (rfa_exp_fixed pw x y n alpha beta a')) /\
  rfa_linear_adaptive gpow (xmap c d x) y n alpha a' = (xmap c d (fst (rfa_linear_adaptive gpow x y n alpha a')), snd (rfa_linear_adaptive gpow x y n alpha a')) /\
  rfa_exp_adaptive pw gpow (xmap c d x) y n alpha beta a' = (xmap c d (fst (rfa_exp_adaptive pw gpow x y n alpha beta a')), snd (rfa_exp_adaptive pw gpow x y n alpha beta a')).
Proof. exact strategies_x_affine. Qed.
Print Assumptions C07_strategies_x_affine.

Example C07_example :
  let x := [qz 0; qz 1; qz 3; qz 4] in let y := [qz 2; qz 6; qz 1; qz 3] in
  list_eqb Qc_eqb (snd (rfa_exp_adaptive (pw_int 2) (fun g => g) (xmap (qz 3) (qz 7) x) (ymap (qz (-2)) (qz 5) y) 4 1 Qc_half None))
                  (ymap (qz (-2)) (qz 5) (snd (rfa_exp_adaptive (pw_int 2) (fun g => g) x y 4 1 Qc_half None))) = true.
Proof. vm_compute. reflexivity. Qed.
