(** C17 — array helpers, interval view and block averaging keep their contracts.
    Statements only; proofs are in Proofs/HelpersProofs.v. *)
From TW Require Import Model.Interval Proofs.HelpersProofs.
Open Scope Qc_scope.

(** n-fold linear oversampling: length, every n-th element is an original
    element (Leibniz equality), gaps filled linearly. *)
Theorem C17_oversample_linspace : forall a num, (2 <= num)%nat -> a <> [] ->
  length (oversample_linspace a num) = ((length a - 1) * num + 1)%nat /\
  (forall k, (k < length a)%nat -> nthq (k * num) (oversample_linspace a num) = nthq k a) /\
  (forall k i, (k + 1 < length a)%nat -> (i < num)%nat ->
     nthq (k * num + i) (oversample_linspace a num)
     = nthq k a + Qc_of_nat i * (nthq (k + 1) a - nthq k a) / Qc_of_nat num).
Proof. exact oversample_linspace_spec. Qed.
Print Assumptions C17_oversample_linspace.

Theorem C17_oversample_pc : forall a num, (2 <= num)%nat -> a <> [] ->
  length (oversample_pc a num) = ((length a - 1) * num + 1)%nat /\
  (forall k i, (k + 1 < length a)%nat -> (i < num)%nat ->
     nthq (k * num + i) (oversample_pc a num) = nthq k a) /\
  nthq ((length a - 1) * num) (oversample_pc a num) = lastq a.
Proof. exact oversample_pc_spec. Qed.
Print Assumptions C17_oversample_pc.

Theorem C17_oversample_below_2 : forall a num, (num < 2)%nat ->
  oversample_linspace a num = a /\ oversample_pc a num = a.
Proof. exact oversample_below_2. Qed.
Print Assumptions C17_oversample_below_2.

(** extending adds exactly n elements per requested side and leaves the
    original elements in the middle *)
Theorem C17_extend_linspace : forall a n d ls rs, (n + 1 <= length a)%nat ->
  let nl := if goes_left d then n else O in
  let nr := if goes_right d then n else O in
  let out := extend_linspace a n d ls rs in
  let lstart := match ls with Some v => v | None => Qc_two * headq a - nthq n a end in
  let rstop := match rs with Some v => v | None => Qc_two * lastq a - nthq (length a - n - 1) a end in
  length out = (nl + length a + nr)%nat /\
  (forall i, (i < length a)%nat -> nthq (nl + i) out = nthq i a) /\
  (goes_left d = true -> forall i, (i < n)%nat ->
     nthq i out = lstart + Qc_of_nat i * (headq a - lstart) / Qc_of_nat n) /\
  (goes_right d = true -> forall i, (i < n)%nat ->
     nthq (nl + length a + i) out = lastq a + Qc_of_nat (i + 1) * (rstop - lastq a) / Qc_of_nat n).
Proof. exact extend_linspace_spec. Qed.
Print Assumptions C17_extend_linspace.

Theorem C17_extend_constant : forall a n d, a <> [] ->
  let nl := if goes_left d then n else O in
  let nr := if goes_right d then n else O in
  let out := extend_constant a n d in
  length out = (nl + length a + nr)%nat /\
  (forall i, (i < length a)%nat -> nthq (nl + i) out = nthq i a) /\
  (forall i, (i < nl)%nat -> nthq i out = headq a) /\
  (forall i, (i < nr)%nat -> nthq (nl + length a + i) out = lastq a).
Proof. exact extend_constant_spec. Qed.
Print Assumptions C17_extend_constant.

Theorem C17_append_one_sample : forall x y p, (2 <= length x)%nat -> y <> [] ->
  let r := append_one_sample x y p in
  fst r = x ++ [lastq x + (lastq x - nthq (length x - 2) x)] /\
  snd r = y ++ [if p then headq y else lastq y].
Proof. exact append_one_sample_spec. Qed.
Print Assumptions C17_append_one_sample.

(** interval view: [i, j] is flat index i*n+j for reads and writes *)
Theorem C17_interval_get_set : forall a i j v a',
  iset a (KPair i j) v = Ok a' ->
  iget a' (KPair i j) = Ok v /\
  isize a' = isize a /\ length (arr a') = length (arr a) /\
  exists p, py_index (length (arr a)) (i * Z.of_nat (isize a) + j)%Z = Some p /\
            forall p', p' <> p -> nthq p' (arr a') = nthq p' (arr a).
Proof. exact interval_get_set. Qed.
Print Assumptions C17_interval_get_set.

Theorem C17_interval_get_flat : forall a i j, (0 <= i)%Z -> (0 <= j)%Z ->
  (i * Z.of_nat (isize a) + j < Z.of_nat (length (arr a)))%Z ->
  iget a (KPair i j) = Ok (nthq (Z.to_nat i * isize a + Z.to_nat j) (arr a)).
Proof. exact interval_get_flat. Qed.
Print Assumptions C17_interval_get_flat.

Theorem C17_interval_bad_key : forall a v, iget a KOther = Raise IndexError /\ iset a KOther v = Raise IndexError.
Proof. exact interval_bad_key. Qed.
Print Assumptions C17_interval_bad_key.

(** row-by-row layout with NaN (None) padding *)
Theorem C17_to_2d_layout : forall a r c, (0 < isize a)%nat ->
  (r < nrows (length (arr a)) (isize a))%nat -> (c < isize a)%nat ->
  nth c (nth r (to_2d_array a) []) None =
  if (r * isize a + c <? length (arr a))%nat then Some (nthq (r * isize a + c) (arr a)) else None.
Proof. exact to_2d_layout. Qed.
Print Assumptions C17_to_2d_layout.

Theorem C17_to_2d_shape : forall a, (0 < isize a)%nat ->
  length (to_2d_array a) = nrows (length (arr a)) (isize a) /\
  forall row, In row (to_2d_array a) -> length row = isize a.
Proof. exact to_2d_shape. Qed.
Print Assumptions C17_to_2d_shape.

(** averaging an n-fold piecewise-constant oversampling returns the input *)
Theorem C17_average_of_pc_oversample : forall x y n, (2 <= n)%nat -> x <> [] -> length x = length y ->
  average (oversample_linspace x n) (oversample_pc y n) n = (x, y).
Proof. exact average_of_pc_oversample. Qed.
Print Assumptions C17_average_of_pc_oversample.

(** integration rules and range sums *)
Theorem C17_integral_rules : forall x y i, (i + 1 < length x)%nat -> length x = length y ->
  nthq i (rectangle_integral x y) = nthq i y * (nthq (i + 1) x - nthq i x) /\
  nthq i (trapezoid_integral x y) = (nthq i y + nthq (i + 1) y) * Qc_half * (nthq (i + 1) x - nthq i x) /\
  length (rectangle_integral x y) = (length x - 1)%nat /\
  length (trapezoid_integral x y) = (length x - 1)%nat.
Proof. exact integral_rules_spec. Qed.
Print Assumptions C17_integral_rules.

Theorem C17_unknown_rule : forall x y, integral x y UnknownRule = Raise ValueError.
Proof. reflexivity. Qed.
Print Assumptions C17_unknown_rule.

(** ======== generated arithmetic = model (Gen/Kernels.v is regenerated from the source on every check) ======== *)
From TW Require Import Model.MatchSpec Model.Process Gen.Kernels Proofs.KernelsLink.
Theorem C17_generated_rectangle_integral : forall x y, length x = length y ->
  rectangle_integral__ret (VV y) (rectangle_integral__d (VV x)) = VV (rectangle_integral x y).
Proof. exact gen_rectangle_integral. Qed.
Print Assumptions C17_generated_rectangle_integral.

Theorem C17_generated_trapezoid_integral : forall x y, length x = length y ->
  trapezoid_integral__ret (VV y) (VV x) = VV (trapezoid_integral x y).
Proof. exact gen_trapezoid_integral. Qed.
Print Assumptions C17_generated_trapezoid_integral.

Theorem C17_generated_append_one_sample : forall x y p, (2 <= length x)%nat -> y <> [] ->
  append_one_sample__x (VV x) = VV (fst (append_one_sample x y p)) /\
  (if p then append_one_sample__y_periodic (VV y) else append_one_sample__y_last (VV y)) = VV (snd (append_one_sample x y p)).
Proof. exact gen_append_one_sample. Qed.
Print Assumptions C17_generated_append_one_sample.

(** ---- function bodies REGENERATED from the source as glue terms (Gen/UtilsGlue.v), run by the interpreter of Model/GlueFun.v with
     the leaves of Model/GlueLeaves.v (callees mean their models), are the hand-written models ---- *)
From TW Require Import Model.GlueLeaves Gen.UtilsGlue Proofs.GlueUtilsProofs.
Open Scope string_scope.
Theorem C17_glue_append_one_sample : forall x y p, append_one_sample_defined x y = true ->
  outcome_arr_pair (call_fun utils_callf array_methf no_apply no_pow utils_functions "append_one_sample"
     [("x", VArr x); ("y", VArr y); ("make_periodic", VBoolV p)])
  = Ok (append_one_sample x y p).
Proof. exact glue_append_one_sample. Qed.
Print Assumptions C17_glue_append_one_sample.

Theorem C17_glue_integral : forall x y r,
  outcome_arr (call_fun utils_callf array_methf no_apply no_pow utils_functions "integral"
     [("x", VArr x); ("y", VArr y); ("method", VStrV (rule_name r))]) = integral x y r.
Proof. exact glue_integral. Qed.
Print Assumptions C17_glue_integral.

Theorem C17_glue_integral_rules : forall x y, length x = length y ->
  outcome_arr (call_fun utils_callf array_methf no_apply no_pow utils_functions "rectangle_integral" [("x", VArr x); ("y", VArr y)])
    = Ok (rectangle_integral x y) /\
  outcome_arr (call_fun utils_callf array_methf no_apply no_pow utils_functions "trapezoid_integral" [("x", VArr x); ("y", VArr y)])
    = Ok (trapezoid_integral x y).
Proof. exact glue_integral_rules. Qed.
Print Assumptions C17_glue_integral_rules.
Close Scope string_scope.

Example C17_example :
  average (oversample_linspace [qz 0; qz 1; qz 3] 4) (oversample_pc [qz 5; qz 7; qz 2] 4) 4
  = ([qz 0; qz 1; qz 3], [qz 5; qz 7; qz 2]).
Proof. apply pair_eq_by_eqb. vm_compute. reflexivity. Qed.
Print Assumptions C17_example.

(** ---- more bodies REGENERATED as glue terms and proved equal to the model (leaves: Model/GlueLeaves2.v) ---- *)
From TW Require Import Model.GlueLeaves2 Gen.UtilsGlue Proofs.GlueHelperProofs.
Open Scope string_scope.
Theorem C17_glue_extend_constant : forall a n d, a <> [] ->
  outcome_arr (call_fun helper_callf helper_methf no_apply no_pow utils_functions "extend_constant"
     [("a", VArr a); ("n", VInt (Z.of_nat n)); ("direction", VStrV (direction_name d))]) = Ok (extend_constant a n d).
Proof. exact glue_extend_constant. Qed.
Print Assumptions C17_glue_extend_constant.

Theorem C17_glue_extend_linspace : forall a n d lstart rstop, (1 <= n)%nat -> extend_linspace_defined a n = true ->
  outcome_arr (call_fun helper_callf helper_methf no_apply no_pow utils_functions "extend_linspace"
     [("a", VArr a); ("n", VInt (Z.of_nat n)); ("direction", VStrV (direction_name d)); ("lstart", optQ lstart); ("rstop", optQ rstop)])
  = Ok (extend_linspace a n d lstart rstop).
Proof. exact glue_extend_linspace. Qed.
Print Assumptions C17_glue_extend_linspace.

Theorem C17_glue_oversample_pc : forall a num, a <> [] ->
  outcome_arr (call_fun helper_callf helper_methf no_apply no_pow utils_functions "oversample_piecewise_constant"
     [("a", VArr a); ("num", VInt (Z.of_nat num))]) = Ok (oversample_pc a num).
Proof. exact glue_oversample_pc. Qed.
Print Assumptions C17_glue_oversample_pc.

(** the default direction is 'both' *)
Theorem C17_glue_extend_defaults : forall a n,
  call_fun helper_callf helper_methf no_apply no_pow utils_functions "extend_constant" [("a", VArr a); ("n", VInt n)] =
  call_fun helper_callf helper_methf no_apply no_pow utils_functions "extend_constant" [("a", VArr a); ("n", VInt n); ("direction", VStrV "both")] /\
  call_fun helper_callf helper_methf no_apply no_pow utils_functions "extend_linspace" [("a", VArr a); ("n", VInt n)] =
  call_fun helper_callf helper_methf no_apply no_pow utils_functions "extend_linspace" [("a", VArr a); ("n", VInt n); ("direction", VStrV "both"); ("lstart", VNoneV); ("rstop", VNoneV)].
Proof. exact glue_extend_defaults. Qed.
Print Assumptions C17_glue_extend_defaults.
Close Scope string_scope.
