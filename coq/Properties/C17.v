(** C17 — array helpers, interval view and block averaging keep their contracts.
    Statements only; proofs are in Proofs/HelpersProofs.v. *)
From TW Require Import Model.Interval Proofs.HelpersProofs.
Open Scope Qc_scope.

(** n-fold linear oversampling: length, every n-th element is an original
    element (Leibniz equality), gaps filled linearly. *)
Theorem C17_oversample_linspace : forall a num, (2 <= num)%nat -> a <> [] ->
  length (oversample_linspace a num) = ((length a - 1) * num + 1)%nat /\
  (forall k, (k < length a)%nat -> nthq (k * num) (oversample_linspace a num) = nthq k a) /\
  (forall k i, (k + 1 < length a)%nat -> (i < num)%nat ->
     nthq (k * num + i) (oversample_linspace a num)
     = nthq k a + Qc_of_nat i * (nthq (k + 1) a - nthq k a) / Qc_of_nat num).
Proof. exact oversample_linspace_spec. Qed.
Print Assumptions C17_oversample_linspace.

Theorem C17_oversample_pc : forall a num, (2 <= num)%nat -> a <> [] ->
  length (oversample_pc a num) = ((length a - 1) * num + 1)%nat /\
  (forall k i, (k + 1 < length a)%nat -> (i < num)%nat ->
     nthq (k * num + i) (oversample_pc a num) = nthq k a) /\
  nthq ((length a - 1) * num) (oversample_pc a num) = lastq a.
Proof. exact oversample_pc_spec. Qed.
Print Assumptions C17_oversample_pc.

Theorem C17_oversample_below_2 : forall a num, (num < 2)%nat ->
  oversample_linspace a num = a /\ oversample_pc a num = a.
Proof. exact oversample_below_2. Qed.
Print Assumptions C17_oversample_below_2.

(** extending adds exactly n elements per requested side and leaves the
    original elements in the middle *)
Theorem C17_extend_linspace : forall a n d ls rs, (n + 1 <= length a)%nat ->
  let nl := if goes_left d then n else O in
  let nr := if goes_right d then n else O in
  let out := extend_linspace a n d ls rs in
  let lstart := match ls with Some v => v | None => Qc_two * headq a - nthq n a end in
  let rstop := match rs with Some v => v | None => Qc_two * lastq a - nthq (length a - n - 1) a end in
  length out = (nl + length a + nr)%nat /\
  (forall i, (i < length a)%nat -> nthq (nl + i) out = nthq i a) /\
  (goes_left d = true -> forall i, (i < n)%nat ->
     nthq i out = lstart + Qc_of_nat i * (headq a - lstart) / Qc_of_nat n) /\
  (goes_right d = true -> forall i, (i < n)%nat ->
     nthq (nl + length a + i) out = lastq a + Qc_of_nat (i + 1) * (rstop - lastq a) / Qc_of_nat n).
Proof. exact extend_linspace_spec. Qed.
Print Assumptions C17_extend_linspace.

Theorem C17_extend_constant : forall a n d, a <> [] ->
  let nl := if goes_left d then n else O in
  let nr := if goes_right d then n else O in
  let out := extend_constant a n d in
  length out = (nl + length a + nr)%nat /\
  (forall i, (i < length a)%nat -> nthq (nl + i) out = nthq i a) /\
  (forall i, (i < nl)%nat -> nthq i out = headq a) /\
  (forall i, (i < nr)%nat -> nthq (nl + length a + i) out = lastq a).
Proof. exact extend_constant_spec. Qed.
Print Assumptions C17_extend_constant.

Theorem C17_append_one_sample : forall x y p, (2 <= length x)%nat -> y <> [] ->
  let r := append_one_sample x y p in
  fst r = x ++ [lastq x + (lastq x - nthq (length x - 2) x)] /\
  snd r = y ++ [if p then headq y else lastq y].
Proof. exact append_one_sample_spec. Qed.
Print Assumptions C17_append_one_sample.

(** interval view: [i, j] is flat index i*n+j for reads and writes *)
Theorem C17_interval_get_set : forall a i j v a',
  iset a (KPair i j) v = Ok a' ->
  iget a' (KPair i j) = Ok v /\
  isize a' = isize a /\ length (arr a') = length (arr a) /\
  exists p, py_index (length (arr a)) (i * Z.of_nat (isize a) + j)%Z = Some p /\
            forall p', p' <> p -> nthq p' (arr a') = nthq p' (arr a).
Proof. exact interval_get_set. Qed.
Print Assumptions C17_interval_get_set.

Theorem C17_interval_get_flat : forall a i j, (0 <= i)%Z -> (0 <= j)%Z ->
  (i * Z.of_nat (isize a) + j < Z.of_nat (length (arr a)))%Z ->
  iget a (KPair i j) = Ok (nthq (Z.to_nat i * isize a + Z.to_nat j) (arr a)).
Proof. exact interval_get_flat. Qed.
Print Assumptions C17_interval_get_flat.

Theorem C17_interval_bad_key : forall a v, iget a KOther = Raise IndexError /\ iset a KOther v = Raise IndexError.
Proof. exact interval_bad_key. Qed.
Print Assumptions C17_interval_bad_key.

(** row-by-row layout with NaN (None) padding *)
Theorem C17_to_2d_layout : forall a r c, (0 < isize a)%nat ->
  (r < nrows (length (arr a)) (isize a))%nat -> (c < isize a)%nat ->
  nth c (nth r (to_2d_array a) []) None =
  if (r * isize a + c <? length (arr a))%nat then Some (nthq (r * isize a + c) (arr a)) else None.
Proof. exact to_2d_layout. Qed.
Print Assumptions C17_to_2d_layout.

Theorem C17_to_2d_shape : forall a, (0 < isize a)%nat ->
  length (to_2d_array a) = nrows (length (arr a)) (isize a) /\
  forall row, In row (to_2d_array a) -> length row = isize a.
Proof. exact to_2d_shape. Qed.
Print Assumptions C17_to_2d_shape.

(** averaging an n-fold piecewise-constant oversampling returns the input *)
Theorem C17_average_of_pc_oversample : forall x y n, (2 <= n)%nat -> x <> [] -> length x = length y ->
  average (oversample_linspace x n) (oversample_pc y n) n = (x, y).
Proof. exact average_of_pc_oversample. Qed.
Print Assumptions C17_average_of_pc_oversample.

(** integration rules and range sums *)
Theorem C17_integral_rules : forall x y i, (i + 1 < length x)%nat -> length x = length y ->
  nthq i (rectangle_integral x y) = nthq i y * (nthq (i + 1) x - nthq i x) /\
  nthq i (trapezoid_integral x y) = (nthq i y + nthq (i + 1) y) * Qc_half * (nthq (i + 1) x - nthq i x) /\
  length (rectangle_integral x y) = (length x - 1)%nat /\
  length (trapezoid_integral x y) = (length x - 1)%nat.
Proof. exact integral_rules_spec. Qed.
Print Assumptions C17_integral_rules.

Theorem C17_unknown_rule : forall x y, integral x y UnknownRule = Raise ValueError.
Proof. reflexivity. Qed.
Print Assumptions C17_unknown_rule.

(** ======== generated arithmetic = model (Gen/Kernels.v is regenerated from the source on every check) ======== *)
From TW Require Import Model.MatchSpec Model.Process Gen.Kernels Proofs.KernelsLink.
Theorem C17_generated_rectangle_integral : forall x y, length x = length y ->
  rectangle_integral__ret (VV y) (rectangle_integral__d (VV x)) = VV (rectangle_integral x y).
Proof. exact gen_rectangle_integral. Qed.
Print Assumptions C17_generated_rectangle_integral.

Theorem C17_generated_trapezoid_integral : forall x y, length x = length y ->
  trapezoid_integral__ret (VV y) (VV x) = VV (trapezoid_integral x y).
Proof. exact gen_trapezoid_integral. Qed.
Print Assumptions C17_generated_trapezoid_integral.

Theorem C17_generated_append_one_sample : forall x y p, (2 <= length x)%nat -> y <> [] ->
  append_one_sample__x (VV x) = VV (fst (append_one_sample x y p)) /\
  (if p then append_one_sample__y_periodic (VV y) else append_one_sample__y_last (VV y)) = VV (snd (append_one_sample x y p)).
Proof. exact gen_append_one_sample. Qed.
Print Assumptions C17_generated_append_one_sample.

(** ---- function bodies REGENERATED from the source as glue terms (Gen/UtilsGlue.v), run by the interpreter of Model/GlueFun.v with
     the leaves of Model/GlueLeaves.v (callees mean their models), are the hand-written models ---- *)
From TW Require Import Model.GlueLeaves Gen.UtilsGlue Proofs.GlueUtilsProofs.
Open Scope string_scope.
Theorem C17_glue_append_one_sample : forall x y p, append_one_sample_defined x y = true ->
  outcome_arr_pair (call_fun utils_callf array_methf no_apply no_pow utils_functions "append_one_sample"
     [("x", VArr x); ("y", VArr y); ("make_periodic", VBoolV p)])
  = Ok (append_one_sample x y p).
Proof. exact glue_append_one_sample. Qed.
Print Assumptions C17_glue_append_one_sample.

Theorem C17_glue_integral : forall x y r,
  outcome_arr (call_fun utils_callf array_methf no_apply no_pow utils_functions "integral"
     [("x", VArr x); ("y", VArr y); ("method", VStrV (rule_name r))]) = integral x y r.
Proof. exact glue_integral. Qed.
Print Assumptions C17_glue_integral.

Theorem C17_glue_integral_rules : forall x y, length x = length y ->
  outcome_arr (call_fun utils_callf array_methf no_apply no_pow utils_functions "rectangle_integral" [("x", VArr x); ("y", VArr y)])
    = Ok (rectangle_integral x y) /\
  outcome_arr (call_fun utils_callf array_methf no_apply no_pow utils_functions "trapezoid_integral" [("x", VArr x); ("y", VArr y)])
    = Ok (trapezoid_integral x y).
Proof. exact glue_integral_rules. Qed.
Print Assumptions C17_glue_integral_rules.
Close Scope string_scope.

Example C17_example :
  average (oversample_linspace [qz 0; qz 1; qz 3] 4) (oversample_pc [qz 5; qz 7; qz 2] 4) 4
  = ([qz 0; qz 1; qz 3], [qz 5; qz 7; qz 2]).
Proof. apply pair_eq_by_eqb. vm_compute. reflexivity. Qed.
Print Assumptions C17_example.

(** ---- more bodies REGENERATED as glue terms and proved equal to the model (leaves: Model/GlueLeaves2.v) ---- *)
From TW Require Import Model.GlueLeaves2 Gen.UtilsGlue Proofs.GlueHelperProofs.
Open Scope string_scope.
Theorem C17_glue_extend_constant : forall a n d, a <> [] ->
  outcome_arr (call_fun helper_callf helper_methf no_apply no_pow utils_functions "extend_constant"
     [("a", VArr a); ("n", VInt (Z.of_nat n)); ("direction", VStrV (direction_name d))]) = Ok (extend_constant a n d).
Proof. exact glue_extend_constant. Qed.
Print Assumptions C17_glue_extend_constant.

Theorem C17_glue_extend_linspace : forall a n d lstart rstop, (1 <= n)%nat -> extend_linspace_defined a n = true ->
  outcome_arr (call_fun helper_callf helper_methf no_apply no_pow utils_functions "extend_linspace"
     [("a", VArr a); ("n", VInt (Z.of_nat n)); ("direction", VStrV (direction_name d)); ("lstart", optQ lstart); ("rstop", optQ rstop)])
  = Ok (extend_linspace a n d lstart rstop).
Proof. exact glue_extend_linspace. Qed.
Print Assumptions C17_glue_extend_linspace.

Theorem C17_glue_oversample_pc : forall a num, a <> [] ->
  outcome_arr (call_fun helper_callf helper_methf no_apply no_pow utils_functions "oversample_piecewise_constant"
     [("a", VArr a); ("num", VInt (Z.of_nat num))]) = Ok (oversample_pc a num).
Proof. exact glue_oversample_pc. Qed.
Print Assumptions C17_glue_oversample_pc.

(** the default direction is 'both' *)
Theorem C17_glue_extend_defaults : forall a n,
  call_fun helper_callf helper_methf no_apply no_pow utils_functions "extend_constant" [("a", VArr a); ("n", VInt n)] =
  call_fun helper_callf helper_methf no_apply no_pow utils_functions "extend_constant" [("a", VArr a); ("n", VInt n); ("direction", VStrV "both")] /\
  call_fun helper_callf helper_methf no_apply no_pow utils_functions "extend_linspace" [("a", VArr a); ("n", VInt n)] =
  call_fun helper_callf helper_methf no_apply no_pow utils_functions "extend_linspace" [("a", VArr a); ("n", VInt n); ("direction", VStrV "both"); ("lstart", VNoneV); ("rstop", VNoneV)].
Proof. exact glue_extend_defaults. Qed.
Print Assumptions C17_glue_extend_defaults.
Close Scope string_scope.

(* ==================================================================================================== *)
(** Functions of sorted_array_utils.py / process.py REGENERATED by tools/translate_ext_process2.py (Gen/Process2Glue.v): runs = models.
    [pw] is the float power, [normal] the recorded answer of numpy.random.normal: both arbitrary. *)
From TW Require Import Model.GlueLeaves_Process2 Gen.Process2Glue Proofs.GlueProcess2Common Proofs.GlueProcess2SoiProofs Proofs.GlueProcess2AverageProofs Proofs.GlueProcess2OlProofs.
Open Scope Qc_scope.
Open Scope string_scope.

(** sum_over_indices(a, indices) for indices >= 0 (ranges that run backwards or past the end are clamped by the code and by
    the model alike; a negative index wraps in the code: Proofs/GlueProcess2SoiProofs.v, soi_outside_guard) *)
Theorem C17_glue_sum_over_indices : forall pw normal a idx, forallb (fun z => (0 <=? z)%Z) idx = true ->
  outcome_arr (call_fun (p2_callf normal) p2_methf no_apply (p2_powf pw) utils2_functions "sum_over_indices"
     [("a", VArr a); ("indices", VIdxArr idx)]) = Ok (sum_over_indices a (nats idx)).
Proof. exact glue_sum_over_indices. Qed.
Print Assumptions C17_glue_sum_over_indices.

(** average(x, y, interval) for interval >= 1; interval = 0 is refused (ZeroDivisionError, an exception outside the model's
    classes) *)
Theorem C17_glue_average : forall pw normal x y n, (1 <=? n)%Z = true ->
  outcome_arr_pair (call_fun (p2_callf normal) p2_methf no_apply (p2_powf pw) process2_functions "average"
     [("x", VArr x); ("y", VArr y); ("interval", VInt n)]) = Ok (average x y (Z.to_nat n)) /\
  outcome_arr_pair (call_fun (p2_callf normal) p2_methf no_apply (p2_powf pw) process2_functions "average"
     [("x", VArr x); ("y", VArr y); ("interval", VInt 0)]) = Raise OtherExn.
Proof. intros pw normal x y n Hg. split; [exact (glue_average pw normal x y n Hg)|exact (glue_average_zero pw normal x y)]. Qed.
Print Assumptions C17_glue_average.

(** oversample_linspace(a, num) for num < 2 (the array comes back) or a non-empty array; an empty array with num >= 2 raises
    IndexError at a[-1] where the model answers [] (oversample_linspace_outside_guard).  The body is the one regenerated in
    Gen/Process2Glue.v (utils2_functions): the slice `np.linspace(..)[:-1]` of the 2-D array is a call of the leaf
    `getslice`, which the slice of Gen/UtilsGlue.v (1-D only in Model/GlueFun.v) cannot express. *)
Theorem C17_glue_oversample_linspace : forall pw normal a num,
  (num <? 2)%nat || negb (match a with [] => true | _ => false end) = true ->
  outcome_arr (call_fun (p2_callf normal) p2_methf no_apply (p2_powf pw) utils2_functions "oversample_linspace"
     [("a", VArr a); ("num", VInt (Z.of_nat num))]) = Ok (oversample_linspace a num).
Proof. exact glue_oversample_linspace. Qed.
Print Assumptions C17_glue_oversample_linspace.

(* ==================================================================================================== *)
(** C17 — class IntervalArray (interval.py): the methods REGENERATED from the source as glue terms (Gen/IntervalGlue.v), run by the
    interpreter of Model/GlueFun.v with the leaves of Model/GlueLeaves_Interval.v, are the hand-written model Model/Interval.v, and
    the IntervalArray leaves of the RFA glue proofs ([ivl], [findex_val], [store] at [LocIdx2], [ivl_methf], [rfa_callf]) are
    these runs.  Statements only; proofs are in Proofs/GlueIntervalProofs.v.
    [irun f m positional keyword attrs] runs method m allowing calls between methods of the class up to depth f;
    [obs] = (outcome, the object read back from the final "self.a" / "self.n"); [obj a] = ivl (arr a) (Z.of_nat (isize a)). *)
From TW Require Import Model.Interval Model.GlueLeaves_Interval Gen.IntervalGlue Proofs.GlueIntervalProofs.
Open Scope Qc_scope.
Open Scope string_scope.

(** __init__: a = np.asarray(a), n stored; default n = 1; a list of numbers becomes the array *)
Theorem C17_glue_interval_init : forall f l n,
  obs (irun f "__init__" [VArr l; VInt n] [] []) = (ONormal, Some (ivl l n)) /\
  obs (irun f "__init__" [] [("a", VArr l); ("n", VInt n)] []) = (ONormal, Some (ivl l n)) /\
  obs (irun f "__init__" [VArr l] [] []) = (ONormal, Some (ivl l 1)) /\
  obs (irun f "__init__" [VTup (map VNum l); VInt n] [] []) = (ONormal, Some (ivl l n)).
Proof. exact glue_interval_init. Qed.
Print Assumptions C17_glue_interval_init.

(** the constructor call IntervalArray(a, n) runs __init__ and gives the object value the RFA glue proofs use *)
Theorem C17_glue_interval_new : forall f pw sf l n,
  interval_callf (isub (S f)) "IntervalArray" [VArr l; VInt n] [] = Ok (ivl l n) /\
  rfa_callf pw sf "IntervalArray" [VArr l; VInt n] [] = interval_callf (isub (S f)) "IntervalArray" [VArr l; VInt n] [].
Proof. exact glue_interval_new. Qed.
Print Assumptions C17_glue_interval_new.

(** __getitem__ = iget: an int key k reads a[k], a pair (i, j) reads a[i*n + j], with NumPy's index rule (a flat index f with
    -len <= f < 0 counts from the end, anything outside -len <= f < len is IndexError); a tuple of another length is IndexError;
    the object is unchanged *)
Theorem C17_glue_interval_getitem : forall f a k other, key_ok k other = true ->
  obs (irun f "__getitem__" [key_val k other] [] (ienv_of a)) = (res_outcome (iget a k), Some (obj a)).
Proof. exact glue_interval_getitem. Qed.
Print Assumptions C17_glue_interval_getitem.

(** __setitem__ = iset *)
Theorem C17_glue_interval_setitem : forall f a k other v, key_ok k other = true ->
  obs (irun f "__setitem__" [key_val k other; VNum v] [] (ienv_of a)) =
  match iset a k v with
  | Ok a' => (ONormal, Some (obj a'))
  | Raise e => (ORaise e, Some (obj a))
  end.
Proof. exact glue_interval_setitem. Qed.
Print Assumptions C17_glue_interval_setitem.

(** the total accessors of the RFA glue proofs are the regenerated methods exactly where the flat index is in range *)
Theorem C17_glue_interval_getitem_leaf : forall f a k, is_other k = false ->
  call_result (irun f "__getitem__" [key_val k []] [] (ienv_of a)) =
  if flat_ok a k then findex_val (obj a) (key_val k []) else Raise IndexError.
Proof. exact glue_interval_getitem_leaf. Qed.
Print Assumptions C17_glue_interval_getitem_leaf.

Theorem C17_glue_interval_setitem_leaf : forall f a i j q en x, assoc x en = Some (obj a) ->
  let r := irun f "__setitem__" [VTup [VInt i; VInt j]; VNum q] [] (ienv_of a) in
  if flat_ok a (KPair i j)
  then snd r = ONormal /\
       store en (LocIdx2 x i j) (VNum q) = match obj_of_env (fst r) with Some o => Ok ((x, o) :: en) | None => Raise OtherExn end
  else snd r = ORaise IndexError /\ store en (LocIdx2 x i j) (VNum q) = Ok ((x, obj a) :: en).
Proof. exact glue_interval_setitem_leaf. Qed.
Print Assumptions C17_glue_interval_setitem_leaf.

(** nr_of_full_intervals = len // n (n = 0: ZeroDivisionError, written OtherExn), __len__, array *)
Theorem C17_glue_interval_nr_of_full_intervals : forall f a,
  obs (irun f "nr_of_full_intervals" [] [] (ienv_of a)) =
  (if interval_ok a then OReturn (VInt (Z.of_nat (nr_of_full_intervals a))) else ORaise OtherExn, Some (obj a)).
Proof. exact glue_interval_nr_of_full_intervals. Qed.
Print Assumptions C17_glue_interval_nr_of_full_intervals.

Theorem C17_glue_interval_len : forall f a,
  obs (irun f "__len__" [] [] (ienv_of a)) = (OReturn (VInt (Z.of_nat (length (arr a)))), Some (obj a)).
Proof. exact glue_interval_len. Qed.
Print Assumptions C17_glue_interval_len.

Theorem C17_glue_interval_array : forall f a,
  obs (irun f "array" [] [] (ienv_of a)) = (OReturn (VArr (arr a)), Some (obj a)).
Proof. exact glue_interval_array. Qed.
Print Assumptions C17_glue_interval_array.

Theorem C17_glue_interval_methods_leaf : forall f a, interval_ok a = true ->
  interval_methf (isub (S f)) (obj a) "nr_of_full_intervals" [] = ivl_methf (obj a) "nr_of_full_intervals" [] /\
  interval_methf (isub (S f)) (obj a) ".array" [] = ivl_methf (obj a) ".array" [] /\
  ivl_methf (obj a) "nr_of_full_intervals" [] = call_result (irun f "nr_of_full_intervals" [] [] (ienv_of a)) /\
  ivl_methf (obj a) ".array" [] = call_result (irun f "array" [] [] (ienv_of a)).
Proof. exact glue_interval_methods_leaf. Qed.
Print Assumptions C17_glue_interval_methods_leaf.

Theorem C17_glue_interval_rfa_methf_leaf : forall gpow sx sy sn a m,
  rfa_methf gpow sx sy sn (obj a) m [] = ivl_methf (obj a) m [].
Proof. exact glue_interval_rfa_methf_leaf. Qed.
Print Assumptions C17_glue_interval_rfa_methf_leaf.

(** extend_linspace / extend_constant: self.a becomes the helper's result for the object's own n and the given direction
    (keyword, positional, default 'both'); self.n stays *)
Theorem C17_glue_interval_extend_linspace : forall f a d,
  obs (irun f "extend_linspace" [] [("direction", VStrV (direction_name d))] (ienv_of a)) = (ONormal, Some (obj (iextend_linspace a d))) /\
  obs (irun f "extend_linspace" [VStrV (direction_name d)] [] (ienv_of a)) = (ONormal, Some (obj (iextend_linspace a d))) /\
  obs (irun f "extend_linspace" [] [] (ienv_of a)) = (ONormal, Some (obj (iextend_linspace a Both))).
Proof. exact glue_interval_extend_linspace. Qed.
Print Assumptions C17_glue_interval_extend_linspace.

Theorem C17_glue_interval_extend_constant : forall f a d,
  obs (irun f "extend_constant" [] [("direction", VStrV (direction_name d))] (ienv_of a)) = (ONormal, Some (obj (iextend_constant a d))) /\
  obs (irun f "extend_constant" [VStrV (direction_name d)] [] (ienv_of a)) = (ONormal, Some (obj (iextend_constant a d))) /\
  obs (irun f "extend_constant" [] [] (ienv_of a)) = (ONormal, Some (obj (iextend_constant a Both))).
Proof. exact glue_interval_extend_constant. Qed.
Print Assumptions C17_glue_interval_extend_constant.

Theorem C17_glue_interval_extend_leaf : forall f pw sf a,
  rfa_callf pw sf ".extend_linspace!" [obj a] [("direction", VStrV "both")] =
    match obs (irun f "extend_linspace" [] [("direction", VStrV "both")] (ienv_of a)) with
    | (ONormal, Some o) => Ok o | (ORaise e, _) => Raise e | _ => Raise OtherExn end /\
  rfa_callf pw sf ".extend_constant!" [obj a] [("direction", VStrV "both")] =
    match obs (irun f "extend_constant" [] [("direction", VStrV "both")] (ienv_of a)) with
    | (ONormal, Some o) => Ok o | (ORaise e, _) => Raise e | _ => Raise OtherExn end.
Proof. exact glue_interval_extend_leaf. Qed.
Print Assumptions C17_glue_interval_extend_leaf.

(** oversample(num, method) returns a new object with n * num and method(self.a, num); self is unchanged *)
Theorem C17_glue_interval_oversample : forall f a num,
  obs (irun (S f) "oversample" [VInt (Z.of_nat num); VOpaque "oversample_linspace"] [] (ienv_of a))
    = (OReturn (obj (ioversample_linspace a num)), Some (obj a)) /\
  obs (irun (S f) "oversample" [VInt (Z.of_nat num); VOpaque "oversample_piecewise_constant"] [] (ienv_of a))
    = (OReturn (obj (ioversample_pc a num)), Some (obj a)).
Proof. exact glue_interval_oversample. Qed.
Print Assumptions C17_glue_interval_oversample.

Theorem C17_glue_interval_oversample_linspace : forall f a num,
  obs (irun (S (S f)) "oversample_linspace" [VInt (Z.of_nat num)] [] (ienv_of a)) = (OReturn (obj (ioversample_linspace a num)), Some (obj a)).
Proof. exact glue_interval_oversample_linspace. Qed.
Print Assumptions C17_glue_interval_oversample_linspace.

Theorem C17_glue_interval_oversample_piecewise : forall f a num,
  obs (irun (S (S f)) "oversample_piecewise" [VInt (Z.of_nat num)] [] (ienv_of a)) = (OReturn (obj (ioversample_pc a num)), Some (obj a)).
Proof. exact glue_interval_oversample_piecewise. Qed.
Print Assumptions C17_glue_interval_oversample_piecewise.

(** to_2d_array: n columns, row-major, the last row padded with NaN = Model.Interval.to_2d_array (n = 0: ZeroDivisionError) *)
Theorem C17_glue_interval_to_2d_array : forall f a,
  obs (irun f "to_2d_array" [] [] (ienv_of a)) =
  (if interval_ok a then OReturn (arr2 (Z.of_nat (isize a)) (to_2d_array a)) else ORaise OtherExn, Some (obj a)).
Proof. exact glue_interval_to_2d_array. Qed.
Print Assumptions C17_glue_interval_to_2d_array.

(** to_2d_array_closed_intervals = to_2d_closed on arrays with at least one element (drop_last by keyword, positionally, default True) *)
Theorem C17_glue_interval_to_2d_closed : forall f a dl, closed_ok a = true ->
  obs (irun (S f) "to_2d_array_closed_intervals" [] [("drop_last", VBoolV dl)] (ienv_of a)) =
    (OReturn (arr2 (Z.of_nat (isize a) + 1) (to_2d_closed a dl)), Some (obj a)) /\
  obs (irun (S f) "to_2d_array_closed_intervals" [VBoolV dl] [] (ienv_of a)) =
    (OReturn (arr2 (Z.of_nat (isize a) + 1) (to_2d_closed a dl)), Some (obj a)) /\
  obs (irun (S f) "to_2d_array_closed_intervals" [] [] (ienv_of a)) =
    (OReturn (arr2 (Z.of_nat (isize a) + 1) (to_2d_closed a true)), Some (obj a)).
Proof. exact glue_interval_to_2d_closed. Qed.
Print Assumptions C17_glue_interval_to_2d_closed.

(** on the empty array the code raises ValueError (shapes (0, n) and (1, 1) along axis 1) where the model answers [] *)
Theorem C17_glue_interval_to_2d_closed_empty : forall f n dl, (1 <= n)%nat ->
  obs (irun (S f) "to_2d_array_closed_intervals" [] [("drop_last", VBoolV dl)] (ienv_of {| arr := []; isize := n |})) =
    (ORaise ValueError, Some (obj {| arr := []; isize := n |})) /\
  to_2d_closed {| arr := []; isize := n |} dl = [].
Proof. exact glue_interval_to_2d_closed_empty. Qed.
Print Assumptions C17_glue_interval_to_2d_closed_empty.

