(** C13 — interpolation honours the data and the requested grid.
    Statements only; proofs are in Proofs/TruncInterpProofs.v. *)
From TW Require Import Model.Process Proofs.TruncInterpProofs.
Open Scope Qc_scope.

Theorem C13_linear_at_nodes : forall x y i, ssorted x -> length x = length y -> (i < length x)%nat ->
  np_interp1 x y (nthq i x) = nthq i y.
Proof. exact linear_at_nodes. Qed.
Print Assumptions C13_linear_at_nodes.

Theorem C13_linear_spec : forall x y i v, ssorted x -> length x = length y -> (i + 1 < length x)%nat ->
  nthq i x <= v -> v <= nthq (i + 1) x ->
  np_interp1 x y v = nthq i y + (nthq (i + 1) y - nthq i y) * (v - nthq i x) / (nthq (i + 1) x - nthq i x).
Proof. exact linear_spec. Qed.
Print Assumptions C13_linear_spec.

Theorem C13_linear_outside : forall x y v, ssorted x -> x <> [] -> length x = length y ->
  (v <= headq x -> np_interp1 x y v = headq y) /\ (lastq x <= v -> np_interp1 x y v = lastq y).
Proof. exact linear_outside. Qed.
Print Assumptions C13_linear_outside.

Theorem C13_linear_reproduces_affine : forall x y a b v, ssorted x -> x <> [] -> length x = length y ->
  (forall i, (i < length x)%nat -> nthq i y = a * nthq i x + b) ->
  headq x <= v -> v <= lastq x -> np_interp1 x y v = a * v + b.
Proof. exact linear_reproduces_affine. Qed.
Print Assumptions C13_linear_reproduces_affine.

(** 'constant': value of the last sample at or before the point; the first value
    (or `left`) to the left of the data *)
Theorem C13_constant_spec : forall x y new_x left, ssorted x -> nondecr new_x -> x <> [] -> new_x <> [] ->
  length x = length y ->
  interp_constant x y new_x left =
  Ok (map (fun v => if Qc_leb (headq x) v then nthq (Z.to_nat (lower_spec x true v)) y
                    else match left with Some l => l | None => headq y end) new_x).
Proof. exact constant_spec. Qed.
Print Assumptions C13_constant_spec.

Theorem C13_constant_at_nodes : forall x y, ssorted x -> x <> [] -> length x = length y ->
  interp_constant x y x None = Ok y.
Proof. exact constant_at_nodes. Qed.
Print Assumptions C13_constant_at_nodes.

(** ======== Weaver level (class Weaver in weaver.py; model coq/Model/Weaver.v) ======== *)
From TW Require Import Model.WeaverSpec Model.Interval Proofs.WeaverLevelProofs.
(** interpolate(n): exactly n equally spaced points spanning the same range *)
Theorem C13_weaver_interp_n : forall s n a s', (2 <= n)%Z -> step s (OInterpN n a) = (s', Ok tt) ->
  let N := Z.to_nat n in
  length (wx s') = N /\ headq (wx s') = headq (wx s) /\ lastq (wx s') = lastq (wx s) /\
  forall i, (i + 1 < N)%nat -> nthq (i + 1) (wx s') - nthq i (wx s') = (lastq (wx s) - headq (wx s)) / Qc_of_nat (N - 1).
Proof. exact weaver_interp_n. Qed.
Print Assumptions C13_weaver_interp_n.

(** an explicit grid is accepted iff it shares both end points; otherwise ValueError and nothing changes *)
Theorem C13_weaver_interp_grid : forall s g a,
  ((headq g = headq (wx s) /\ lastq g = lastq (wx s)) ->
     forall ys, interp_eval (wx s) (wy s) g a = Ok ys -> step s (OInterpGrid g a) = (set_xy s g ys, Ok tt)) /\
  ((headq g <> headq (wx s) \/ lastq g <> lastq (wx s)) -> step s (OInterpGrid g a) = (s, Raise ValueError)).
Proof. exact weaver_interp_grid. Qed.
Print Assumptions C13_weaver_interp_grid.

Theorem C13_weaver_interp_linear_values : forall s n s', step s (OInterpN n (IOwn MLinear)) = (s', Ok tt) ->
  wy s' = interp_linear (wx s) (wy s) (wx s').
Proof. exact weaver_interp_linear_values. Qed.
Print Assumptions C13_weaver_interp_linear_values.

(** ---- function bodies REGENERATED from the source as glue terms (Gen/ProcessGlue.v), run by the interpreter of Model/GlueFun.v with
     the leaves of Model/GlueLeaves.v (callees mean their models), are the hand-written models ---- *)
From TW Require Import Model.GlueLeaves Gen.ProcessGlue Proofs.GlueProcessProofs.
Open Scope string_scope.
Theorem C13_glue_interpolate : forall x y nx,
  outcome_arr (call_fun (process_callf (fun v => v)) array_methf no_apply no_pow process_functions "interpolate"
     [("x", VArr x); ("y", VArr y); ("new_x", VArr nx); ("method", VStrV "linear")]) = Ok (interp_linear x y nx) /\
  outcome_arr (call_fun (process_callf (fun v => v)) array_methf no_apply no_pow process_functions "interpolate"
     [("x", VArr x); ("y", VArr y); ("new_x", VArr nx)]) = Ok (interp_linear x y nx) /\
  outcome_arr (call_fun (process_callf (fun v => v)) array_methf no_apply no_pow process_functions "interpolate"
     [("x", VArr x); ("y", VArr y); ("new_x", VArr nx); ("method", VStrV "constant")]) = interp_constant x y nx None /\
  forall m, m <> "linear" -> m <> "constant" -> m <> "cubic" -> m <> "spline" ->
  outcome_arr (call_fun (process_callf (fun v => v)) array_methf no_apply no_pow process_functions "interpolate"
     [("x", VArr x); ("y", VArr y); ("new_x", VArr nx); ("method", VStrV m)]) = Raise ValueError.
Proof. exact glue_interpolate. Qed.
Print Assumptions C13_glue_interpolate.
Close Scope string_scope.

Example C13_example :
  list_eqb Qc_eqb (interp_linear [qz 0; qz 2; qz 3] [qz 1; qz 5; qz 2] [qz (-1); qz 1; qz 2; qf 5 2; qz 9])
                  [qz 1; qz 3; qz 5; qf 7 2; qz 2] = true.
Proof. vm_compute. reflexivity. Qed.

(* ==================================================================================================== *)
(** _piecewise_constant_interpolate REGENERATED by tools/translate_ext_process2.py (Gen/Process2Glue.v): run = interp_constant *)
From TW Require Import Model.GlueLeaves_Process2 Gen.Process2Glue Proofs.GlueProcess2Common Proofs.GlueProcess2PciProofs.
Open Scope Qc_scope.
Open Scope string_scope.

(** _piecewise_constant_interpolate(x, y, new_x, left) for len x <= len y, error branches included (an empty x or new_x:
    StopIteration on both sides); `left` omitted is left=None.  With y shorter than x the code raises IndexError where the
    model's total element access answers 0 (pci_outside_guard). *)
Theorem C13_glue_piecewise_constant : forall pw normal x y nx left, (length x <=? length y)%nat = true ->
  outcome_arr (call_fun (p2_callf normal) p2_methf no_apply (p2_powf pw) process2_functions "_piecewise_constant_interpolate"
     [("x", VArr x); ("y", VArr y); ("new_x", VArr nx); ("left", optQ left)]) = interp_constant x y nx left /\
  outcome_arr (call_fun (p2_callf normal) p2_methf no_apply (p2_powf pw) process2_functions "_piecewise_constant_interpolate"
     [("x", VArr x); ("y", VArr y); ("new_x", VArr nx)]) = interp_constant x y nx None.
Proof.
  intros pw normal x y nx left Hg. split.
  - exact (glue_piecewise_constant pw normal x y nx left Hg).
  - exact (eq_trans (glue_piecewise_constant_default pw normal x y nx) (glue_piecewise_constant pw normal x y nx None Hg)).
Qed.
Print Assumptions C13_glue_piecewise_constant.

(** the leaf `find_closest_lower_equal_element_indices_to_values(x, new_x)` of the run above is the regenerated while-loop scan of
    Gen/ScanGlue.v (default fill_not_valid=True, any sufficient fuel) *)
From TW Require Import Model.GlueWhile Gen.ScanGlue Proofs.GlueScanProofs Proofs.GlueProcess2ScanLink.
Theorem C13_glue_piecewise_constant_scan_leaf : forall normal x lk fuel, (scan_fuel x lk <= fuel)%nat ->
  p2_callf normal "find_closest_lower_equal_element_indices_to_values" [VArr x; VArr lk] [] =
  (let? r := wout_idx (wcall fuel scan_callf array_methf scan_functions "find_closest_lower_equal_element_indices_to_values"
                         [("x", VArr x); ("lookup", VArr lk)]) in Ok (VIdxArr r)).
Proof. exact find_lower_leaf_is_scan. Qed.
Print Assumptions C13_glue_piecewise_constant_scan_leaf.
