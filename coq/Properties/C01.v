(** C01 — integral matching reproduces every reference interval integral.
    Statements only; proofs are in Proofs/MatchProofs.v.
    [pw] is the power function t |-> t^alpha; every theorem holds for every pw
    meeting PwOk, which t^alpha does for every real alpha > 0 (DESIGN 3.3). *)
From TW Require Import Model.MatchSpec Proofs.MatchProofs.
Open Scope Qc_scope.

(** the stretching kernel hits the target integral exactly, for both rules *)
Theorem C01_stretch_hits_target : forall pw r x y t, PwOk pw -> known_rule r ->
  ssorted x -> (3 <= length x)%nat -> length x = length y ->
  stretch_defined pw r x = true /\ total r x (stretch pw r x y t) = t.
Proof. exact stretch_hits_target. Qed.
Print Assumptions C01_stretch_hits_target.

Theorem C01_stretch_fixes_ends : forall pw r x y t, PwOk pw ->
  ssorted x -> (3 <= length x)%nat -> length x = length y ->
  length (stretch pw r x y t) = length y /\
  headq (stretch pw r x y t) = headq y /\ lastq (stretch pw r x y t) = lastq y.
Proof. exact stretch_fixes_ends. Qed.
Print Assumptions C01_stretch_fixes_ends.

(** sequential in-place stretching of closed windows that share their end
    samples: every window ends up with its own target integral *)
Theorem C01_interval_windows : forall pw r x y targets f, PwOk pw -> known_rule r ->
  ssorted x -> length x = length y -> gaps_ok f -> all_below f (length x) ->
  length targets = (length f - 1)%nat ->
  exists res, interval_match pw r x y targets f = Ok res /\ length res = length y /\
    forall j, (j + 1 < length f)%nat -> total r (window x f j) (window res f j) = nthq j targets.
Proof. exact interval_windows. Qed.
Print Assumptions C01_interval_windows.

(** whole entry point, all three ways of designating fixed points: whenever the
    resolved fixed indices leave an interior sample per window and are paired
    one to one with increasing reference indices, every window integral equals
    the integral of the reference between the matched reference points *)
Theorem C01_match_ref : forall pw x y xr yr m rt rr fi ridx, PwOk pw -> known_rule rt -> known_rule rr ->
  ssorted x -> length x = length y -> length xr = length yr ->
  resolve_fixed x xr m = Ok (fi, ridx) ->
  gaps_ok fi -> all_below fi (length x) -> length ridx = length fi ->
  exists res, match_ref pw x y xr yr m rt rr = Ok res /\ length res = length y /\
    forall j, (j + 1 < length fi)%nat ->
      total rt (window x fi j) (window res fi j) = ref_integral rr xr yr ridx j.
Proof. exact match_ref_windows. Qed.
Print Assumptions C01_match_ref.

(** consequently the integral between the first and last fixed point is the
    reference's total between the first and last matched reference points *)
Theorem C01_total : forall pw x y xr yr m rt rr fi ridx res, PwOk pw -> known_rule rt -> known_rule rr ->
  ssorted x -> length x = length y -> length xr = length yr ->
  resolve_fixed x xr m = Ok (fi, ridx) ->
  gaps_ok fi -> all_below fi (length x) -> length ridx = length fi -> increasing ridx ->
  all_below ridx (length xr) -> (2 <= length fi)%nat ->
  match_ref pw x y xr yr m rt rr = Ok res ->
  total rt (slice x (fx fi 0) (fx fi (length fi - 1) + 1)) (slice res (fx fi 0) (fx fi (length fi - 1) + 1))
  = sumq (slice (integ rr xr yr) (fx ridx 0) (fx ridx (length ridx - 1))).
Proof. exact match_ref_total. Qed.
Print Assumptions C01_total.

(** default mode: the fixed points are the searched samples (C10) and every
    reference point is used *)
Theorem C01_resolve_strategy : forall x xr s fi ridx, ssorted x -> ssorted xr -> x <> [] -> xr <> [] ->
  resolve_fixed x xr (ByStrategy s) = Ok (fi, ridx) ->
  ridx = seq 0 (length xr) /\ increasing fi /\ all_below fi (length x) /\
  forall i, In i fi <-> exists q, In q xr /\ find_indices x [q] s true = Ok [Z.of_nat i].
Proof. exact resolve_strategy_spec. Qed.
Print Assumptions C01_resolve_strategy.

(** integer exponents satisfy the bundle outright (no assumption) *)
Theorem C01_pw_int_ok : forall k, (1 <= k)%nat -> PwOk (pw_int k).
Proof. exact pw_int_ok. Qed.
Print Assumptions C01_pw_int_ok.

(** ======== generated arithmetic = model (Gen/Kernels.v is regenerated from the source on every check) ======== *)
From TW Require Import Model.MatchSpec Model.Process Gen.Kernels Proofs.KernelsLink.
(** the regenerated statements of _integral_matching_stretch, composed as in the source, are the model's [stretch] *)
Definition gen_stretch_value (pw : Qc -> Qc) (r : rule) (x y : list Qc) (t : Qc) : val :=
  let X := VV x in
  let Y := VV y in
  let integ := fun a b : val => VV (integ r (as_list a) (as_list b)) in
  let ci := stretch__current_integral integ X Y in
  let dp := stretch__delta_p (VS t) ci in
  let w := if (length x =? 2)%nat then stretch__w_two_points else stretch__w pw (stretch__x_n2 X) X (stretch__delta_x X) in
  let yh := match r with
            | Trapezoid => stretch__y_hat_trapezoid dp w (stretch__delta_xi X)
            | _ => stretch__y_hat_rectangle dp w (stretch__delta_xi X)
            end in
  stretch__res_y Y yh w.

Theorem C01_generated_kernel : forall pw r x y t, known_rule r -> x <> [] -> length x = length y ->
  gen_stretch_value pw r x y t = VV (stretch pw r x y t).
Proof. exact gen_stretch. Qed.
Print Assumptions C01_generated_kernel.

Example C01_example :
  let x := map qz [0; 1; 2; 4; 5; 7; 8; 9; 11; 12; 13]%Z in
  let y := map qz [1; 3; 2; 5; 4; 4; 0; 1; 2; 2; 6]%Z in
  let xr := [qf 1 2; qf 9 2; qz 12] in
  let yr := [qz 3; qz 7; qz 1] in
  match match_ref (pw_int 2) x y xr yr (ByStrategy Closest) Trapezoid Rectangle with
  | Ok res => Qc_eqb (total Trapezoid (window x [0; 3; 9]%nat 0) (window res [0; 3; 9]%nat 0)) (qz 12) &&
              Qc_eqb (total Trapezoid (window x [0; 3; 9]%nat 1) (window res [0; 3; 9]%nat 1)) (qf 105 2)
  | _ => false
  end = true.
Proof. vm_compute. reflexivity. Qed.

(** ---- function bodies REGENERATED from match.py as glue terms (Gen/MatchGlue.v), run by the interpreter of Model/GlueFun.v with
     the leaves of Model/GlueLeaves.v (callees mean their models), are the hand-written models ---- *)
From TW Require Import Model.GlueLeaves Gen.MatchGlue Proofs.GlueMatchProofs.
Open Scope string_scope.
(** integral_matching_reference_stretch (no smoothing): argument checks, the three ways of fixing points, the reference
    integrals and the call of the interval loop — as regenerated — are the model's match_ref *)
Theorem C01_glue_match_ref : forall pw x y xr yr m rt rr,
  outcome_arr (call_fun (match_callf pw) array_methf no_apply no_pow match_functions "integral_matching_reference_stretch"
     ([("x", VArr x); ("y", VArr y); ("x_ref", VArr xr); ("y_ref", VArr yr);
       ("target_function_integral_method", VStrV (rule_name rt)); ("reference_function_integral_method", VStrV (rule_name rr));
       ("alpha", VOpaque "alpha")] ++ mode_args m))
  = match_ref pw x y xr yr m rt rr.
Proof. exact glue_match_ref. Qed.
Print Assumptions C01_glue_match_ref.

(** the defaults of the signature are the documented ones (trapezoid for the target, rectangle for the reference; the proof
    agent refuted my first version of this statement, which had trapezoid twice: glue_match_defaults_original_false) *)
Theorem C01_glue_match_defaults : forall pw x y xr yr,
  call_fun (match_callf pw) array_methf no_apply no_pow match_functions "integral_matching_reference_stretch"
     [("x", VArr x); ("y", VArr y); ("x_ref", VArr xr); ("y_ref", VArr yr); ("alpha", VOpaque "alpha")]
  = call_fun (match_callf pw) array_methf no_apply no_pow match_functions "integral_matching_reference_stretch"
     [("x", VArr x); ("y", VArr y); ("x_ref", VArr xr); ("y_ref", VArr yr); ("alpha", VOpaque "alpha");
      ("fixed_points_in_x", VNoneV); ("fixed_points_indices_in_x", VNoneV); ("fixed_points_finding_strategy", VStrV "closest");
      ("target_function_integral_method", VStrV "trapezoid"); ("reference_function_integral_method", VStrV "rectangle"); ("s", VNoneV)].
Proof. exact glue_match_defaults_partial. Qed.
Print Assumptions C01_glue_match_defaults.
Close Scope string_scope.
