(** C06 — transitions follow the documented geometry and shape functions.
    Statements only.  Proofs: Proofs/RfaGeometryProofs.v; the transition shapes themselves are the
    closed forms of Model/RfaSpec.v, which the strategies are proved to compute in C05_link_*
    (Proofs/RfaLinkFixed.v, Proofs/RfaLinkAdaptive.v).
    The five shape functions are the GENERATED Gen/Funfit.v: an edit of funfit.py re-runs these proofs. *)
From TW Require Import Model.RfaSpec Proofs.RfaGeometryProofs.
Open Scope Qc_scope.

(** ---- the five elementary shape functions equal their documented closed forms for every exponent ---- *)
Theorem C06_funfit_closed_forms : forall pw x x0 y0 x1 y1, x0 <> x1 ->
  let t := (x - x0) / (x1 - x0) in
  lin_fit x x0 y0 x1 y1 = y0 + (y1 - y0) * t /\
  exp_fit pw x x0 y0 x1 y1 = y0 + (y1 - y0) * pw t /\
  exp_xy_fit pw x x0 y0 x1 y1 = y0 + (y1 - y0) * (1 - pw (1 - t)) /\
  exp_lin_fit pw x x0 y0 x1 y1 = y0 + (y1 - y0) * (t * t + (1 - t) * pw t) /\
  lin_exp_xy_fit pw x x0 y0 x1 y1 = y0 + (y1 - y0) * (t * (Qc_two - t - pw (1 - t))).
Proof. exact funfit_closed_forms. Qed.
Print Assumptions C06_funfit_closed_forms.

Theorem C06_funfit_hit_both_ends : forall pw x0 y0 x1 y1, x0 <> x1 -> pw 0 = 0 -> pw 1 = 1 ->
  lin_fit x0 x0 y0 x1 y1 = y0 /\ lin_fit x1 x0 y0 x1 y1 = y1 /\
  exp_fit pw x0 x0 y0 x1 y1 = y0 /\ exp_fit pw x1 x0 y0 x1 y1 = y1 /\
  exp_xy_fit pw x0 x0 y0 x1 y1 = y0 /\ exp_xy_fit pw x1 x0 y0 x1 y1 = y1 /\
  exp_lin_fit pw x0 x0 y0 x1 y1 = y0 /\ exp_lin_fit pw x1 x0 y0 x1 y1 = y1 /\
  lin_exp_xy_fit pw x0 x0 y0 x1 y1 = y0 /\ lin_exp_xy_fit pw x1 x0 y0 x1 y1 = y1.
Proof. exact funfit_hit_both_ends. Qed.
Print Assumptions C06_funfit_hit_both_ends.

(** ---- fixed windows: the border value is the linear interpolation, at the border, between the plateau
         ends of the two adjacent intervals: it divides the jump in the ratio of the interval widths ---- *)
Theorem C06_border_value_fixed : forall x y n K h, ssorted x -> (2 <= length x)%nat -> (1 <= n)%nat -> (1 <= h)%Z ->
  border x y n K h h = avg x y (K - 1) + (avg x y K - avg x y (K - 1)) * dK x (K - 1) / (dK x (K - 1) + dK x K).
Proof. exact border_value_fixed. Qed.
Print Assumptions C06_border_value_fixed.

(** it is the value at the border of the straight line through the two plateau ends *)
Theorem C06_border_is_line_at_border : forall x y n K ar al, ssorted x -> (2 <= length x)%nat -> (1 <= n)%nat ->
  (0 <= ar)%Z -> (0 <= al)%Z -> (0 < ar + al)%Z ->
  border x y n K ar al =
  lin_fit (XK x n K 0) (XK x n K 0 - Qc_of_Z ar * dK x (K - 1) / qn n) (avg x y (K - 1)) (XK x n K al) (avg x y K).
Proof. exact border_is_line_at_border. Qed.
Print Assumptions C06_border_is_line_at_border.

(** the abscissae of the recreated series are the XK of the closed form *)
Theorem C06_abscissae : forall x n k i, (2 <= n)%nat -> (k + 1 < length x)%nat -> (i < n)%nat ->
  nthq (k * n + i) (oversample_linspace x n) = XK x n (Z.of_nat k + 1) (Z.of_nat i).
Proof. exact abscissae_closed_form. Qed.
Print Assumptions C06_abscissae.

(** ---- adaptive strategies (adaptive_smooth = 1, gpow = identity): the window is split in proportion to
         gamma = |right jump| / |left jump| ---- *)
Theorem C06_split_ratio : forall a nom denom, (2 <= a)%Z -> 0 < nom -> 0 < denom ->
  let gamma := nom / denom in
  adaptive_pair (fun g => g) a nom denom =
  (Qc_trunc (Qc_min (Qc_max (gamma * Qc_of_Z a / (1 + gamma)) 1) (Qc_of_Z a)),
   Qc_trunc (Qc_min (Qc_max (Qc_of_Z a / (1 + gamma)) 1) (Qc_of_Z a))).
Proof. exact split_ratio. Qed.
Print Assumptions C06_split_ratio.

(** the side with the larger jump never gets the larger window *)
Theorem C06_larger_jump_not_larger_window : forall a nom denom, (2 <= a)%Z -> 0 < nom -> 0 < denom ->
  let p := adaptive_pair (fun g => g) a nom denom in
  (denom <= nom -> (snd p <= fst p)%Z) /\ (nom <= denom -> (fst p <= snd p)%Z).
Proof. exact larger_jump_not_larger_window. Qed.
Print Assumptions C06_larger_jump_not_larger_window.

Theorem C06_tie_cases : forall gpow a nom denom, 0 <= nom -> 0 <= denom ->
  (nom = 0 -> denom = 0 -> adaptive_pair gpow a nom denom = (0, 0)%Z) /\
  (nom = 0 -> denom <> 0 -> adaptive_pair gpow a nom denom = (Z.quot a 2, 0%Z)) /\
  (nom <> 0 -> denom = 0 -> adaptive_pair gpow a nom denom = (0%Z, Z.quot a 2)).
Proof. exact tie_cases. Qed.
Print Assumptions C06_tie_cases.

(** the per-interval windows the strategies apply are exactly these pairs on the neighbouring jumps *)
Theorem C06_windows_are_pairs : forall gpow x y n a K, (2 <= n)%nat -> (2 <= length x)%nat -> length x = length y ->
  (1 <= K)%Z -> (K <= Z.of_nat (length x) - 1)%Z ->
  let w := adaptive_windows gpow (prepare x y n) a in
  (nthZ (fst w) K, nthZ (snd w) K) =
  adaptive_pair gpow a (Qc_abs (avg x y (K + 1) - avg x y K)) (Qc_abs (avg x y K - avg x y (K - 1))).
Proof. exact windows_are_pairs. Qed.
Print Assumptions C06_windows_are_pairs.

(** ---- window computations regenerated from rfa.py (Gen/Kernels.v) = the model's window functions ---- *)
From TW Require Import Model.RfaSpec Gen.Kernels Proofs.WindowsLink.
(** the generic branch of get_adaptive_transition_points, as generated, is the model's adaptive_pair *)
Theorem C06_generated_adaptive_split : forall gpow a nom denom, nom <> 0 -> denom <> 0 ->
  let g := adaptive__gamma_smoothed gpow (adaptive__gamma (VS nom) (VS denom)) in
  let A := VS (Qc_of_Z a) in
  adaptive_pair gpow a nom denom =
  (Qc_trunc (as_scalar (adaptive__a_l_clipped (adaptive__a_l g A) A)),
   Qc_trunc (as_scalar (adaptive__a_r_clipped (adaptive__a_r A g) A))).
Proof. exact gen_adaptive_split_ok. Qed.
Print Assumptions C06_generated_adaptive_split.

Example C06_example :
  let x := [qz 0; qz 1; qz 3; qz 4] in let y := [qz 2; qz 6; qz 1; qz 3] in
  Qc_eqb (nthq 8 (snd (rfa_linear_fixed x y 8 1 None))) (qz 2 + (qz 6 - qz 2) * qz 1 / (qz 1 + qz 2)) = true.
Proof. vm_compute. reflexivity. Qed.

(** ---- the rfa() methods, REGENERATED from rfa.py as glue terms (Gen/RfaGlue.v) and run by the interpreter of Model/GlueFun.v with the
     leaves of Model/GlueLeaves.v (IntervalArray accessors, shape functions, oversampling / extension helpers, adaptive windows mean
     their models), are the write-loop model of Model/Rfa.v ---- *)
From TW Require Import Model.GlueLeaves Gen.RfaGlue Proofs.GlueRfaAdaptiveProofs.
Open Scope string_scope.
(** the two adaptive strategies (the window lists come from get_adaptive_transition_points, whose arithmetic is regenerated
    in Gen/Kernels.v: C06_generated_adaptive_split) *)
Theorem C06_glue_rfa_linear_adaptive : forall gpow x y n alpha a, (2 <= n)%nat -> (2 <= length x)%nat ->
  outcome_arr_pair (call_meth (rfa_callf (fun t => t) (fun t => t)) (rfa_methf gpow x y n) no_apply no_pow rfa_methods
     "LinearAdaptiveRFA.rfa" (rfa_attrs x y n (window_a n alpha a) 0 0 0) []) = Ok (rfa_linear_adaptive gpow x y n alpha a).
Proof. exact glue_rfa_linear_adaptive. Qed.
Print Assumptions C06_glue_rfa_linear_adaptive.

Theorem C06_glue_rfa_exp_adaptive : forall pw gpow x y n alpha beta a, (2 <= n)%nat -> (2 <= length x)%nat ->
  outcome_arr_pair (call_meth (rfa_callf pw (fun t => t)) (rfa_methf gpow x y n) no_apply no_pow rfa_methods
     "ExpAdaptiveRFA.rfa" (rfa_attrs x y n (window_a n alpha a) 0 0 beta) []) = Ok (rfa_exp_adaptive pw gpow x y n alpha beta a).
Proof. exact glue_rfa_exp_adaptive. Qed.
Print Assumptions C06_glue_rfa_exp_adaptive.
Close Scope string_scope.

(** ---- LinearAdaptiveRFA.get_adaptive_transition_points, REGENERATED as a glue term (Gen/RfaGlue.v), computes the model's adaptive_windows ---- *)
From TW Require Import Model.GlueLeaves3 Gen.RfaGlue Proofs.GlueAdaptivePointsProofs.
Open Scope string_scope.
Theorem C06_glue_adaptive_points : forall gpow lx ly n a, (0 <= a)%Z ->
  let w := adaptive_windows gpow (ext_of lx ly n) a in
  exists gammas,
  call_meth adaptive_callf ivl_methf no_apply (smooth_powf gpow) rfa_methods "LinearAdaptiveRFA.get_adaptive_transition_points" []
    [("x", ivl lx n); ("y", ivl ly n); ("a", VInt a); ("adaptive_smooth", VOpaque "adaptive_smooth")]
  = OReturn (VTup [VTup (map VInt (fst w)); VTup (map VInt (snd w)); VTup gammas]).
Proof. exact glue_adaptive_points. Qed.
Print Assumptions C06_glue_adaptive_points.
Close Scope string_scope.

(* ==================================================================================================== *)
(** CONSTRUCTORS regenerated by tools/translate_ext_ctors.py (Gen/CtorsGlue.v); leaves and the meaning of `super().__init__`:
    Model/GlueLeaves_Ctors.v.  [rfa_construct cls actuals] = cls(actuals): (the object's attributes "self.attr" |-> value, most recently
    assigned first; how the constructor ended);  [new_then_rfa pw gpow sf cls actuals] = cls(actuals).rfa();
    [st_call loadtxt m actuals] = Weaver.m(actuals) for a static constructor m ([loadtxt]: what np.loadtxt reads). *)
From Coq Require Import Lia Bool.
From TW Require Import Model.GlueLeaves_Ctors Gen.CtorsGlue Gen.RfaGlue Proofs.GlueCtorsRfaProofs.
Open Scope Qc_scope.
Open Scope string_scope.

Theorem C06_glue_linear_adaptive_init : forall vx vy lx ly n alpha a vsmooth,
  to_array vx = Ok (VArr lx) -> to_array vy = Ok (VArr ly) -> (2 <= n)%Z ->
  rfa_construct "LinearAdaptiveRFA" [("x", vx); ("y", vy); ("n", VInt n); ("alpha", VNum alpha); ("a", optQ a); ("adaptive_smooth", vsmooth)] =
  ([("self.adaptive_smooth", vsmooth); ("self.a", VInt (window_a (Z.to_nat n) alpha a));
    ("self.n", VInt n); ("self.y", VArr ly); ("self.x", VArr lx)], ONormal).
Proof. exact glue_linear_adaptive_init. Qed.
Print Assumptions C06_glue_linear_adaptive_init.

Theorem C06_glue_exp_adaptive_init : forall vx vy lx ly n alpha a vbeta vsmooth vexp,
  to_array vx = Ok (VArr lx) -> to_array vy = Ok (VArr ly) -> (2 <= n)%Z ->
  rfa_construct "ExpAdaptiveRFA" [("x", vx); ("y", vy); ("n", VInt n); ("alpha", VNum alpha); ("beta", vbeta); ("a", optQ a);
                                  ("adaptive_smooth", vsmooth); ("exp", vexp)] =
  ([("self.exp", vexp); ("self.adaptive_smooth", vsmooth); ("self.beta", vbeta); ("self.a", VInt (window_a (Z.to_nat n) alpha a));
    ("self.n", VInt n); ("self.y", VArr ly); ("self.x", VArr lx)], ONormal).
Proof. exact glue_exp_adaptive_init. Qed.
Print Assumptions C06_glue_exp_adaptive_init.

(** adaptive_smooth / exp are caller-supplied values whose meaning is [gpow] / [pw] *)
Theorem C06_glue_linear_adaptive_ctor_then_rfa : forall pw gpow x y n alpha a,
  outcome_arr_pair (new_then_rfa pw gpow (fun t => t) "LinearAdaptiveRFA"
     [("x", VArr x); ("y", VArr y); ("n", VInt n); ("alpha", VNum alpha); ("a", optQ a); ("adaptive_smooth", VOpaque "adaptive_smooth")])
  = rfa pw gpow (LinearAdaptive alpha a) x y n.
Proof. exact glue_linear_adaptive_ctor_then_rfa. Qed.
Print Assumptions C06_glue_linear_adaptive_ctor_then_rfa.

Theorem C06_glue_exp_adaptive_ctor_then_rfa : forall pw gpow x y n alpha beta a,
  outcome_arr_pair (new_then_rfa pw gpow (fun t => t) "ExpAdaptiveRFA"
     [("x", VArr x); ("y", VArr y); ("n", VInt n); ("alpha", VNum alpha); ("beta", VNum beta); ("a", optQ a);
      ("adaptive_smooth", VOpaque "adaptive_smooth"); ("exp", VOpaque "exp")])
  = rfa pw gpow (ExpAdaptive alpha beta a) x y n.
Proof. exact glue_exp_adaptive_ctor_then_rfa. Qed.
Print Assumptions C06_glue_exp_adaptive_ctor_then_rfa.
