(** C02 — recreate + match preserves every original average.
    Statements only; proofs are in Proofs/PipelineProofs.v.
    Strategy-independent on purpose: [ys] is *any* list of the right length, so
    the theorems cover all six strategies, user-supplied ones and every
    parameter choice at once. *)
From TW Require Import Model.MatchSpec Model.Interval Proofs.PipelineProofs.
Open Scope Qc_scope.

Definition grid (x : list Qc) (n : nat) : list Qc := oversample_linspace x n.
Definition block (l : list Qc) (n k : nat) : list Qc := slice l (k * n) ((k + 1) * n + 1).

(** with the default (closest) search on the oversampled grid the fixed points
    are exactly every n-th sample and every original point is matched *)
Theorem C02_fixed_points : forall x n, ssorted x -> (2 <= length x)%nat -> (2 <= n)%nat ->
  resolve_fixed (grid x n) x (ByStrategy Closest) = Ok (map (fun k => (k * n)%nat) (seq 0 (length x)), seq 0 (length x)).
Proof. exact pipeline_fixed_points. Qed.
Print Assumptions C02_fixed_points.

(** the integral of the matched series over every original interval equals
    average * width, under either target rule, for every pw with PwOk *)
Theorem C02_main : forall pw x y n ys rt, PwOk pw -> known_rule rt ->
  ssorted x -> (2 <= length x)%nat -> length x = length y -> (2 <= n)%nat ->
  length ys = ((length x - 1) * n + 1)%nat ->
  exists res, match_ref pw (grid x n) ys x y (ByStrategy Closest) rt Rectangle = Ok res /\
    length res = length ys /\
    forall k, (k + 1 < length x)%nat ->
      total rt (block (grid x n) n k) (block res n k) = nthq k y * (nthq (k + 1) x - nthq k x).
Proof. exact pipeline_main. Qed.
Print Assumptions C02_main.

(** rectangle target rule: block averaging returns the original abscissae
    exactly and every original interval's average *)
Theorem C02_rectangle_average : forall pw x y n ys res, PwOk pw ->
  ssorted x -> (2 <= length x)%nat -> length x = length y -> (2 <= n)%nat ->
  length ys = ((length x - 1) * n + 1)%nat ->
  match_ref pw (grid x n) ys x y (ByStrategy Closest) Rectangle Rectangle = Ok res ->
  fst (average (grid x n) res n) = x /\
  length (snd (average (grid x n) res n)) = length x /\
  forall k, (k + 1 < length x)%nat -> nthq k (snd (average (grid x n) res n)) = nthq k y.
Proof. exact pipeline_rectangle_average. Qed.
Print Assumptions C02_rectangle_average.

(** the documented append_one_sample(make_periodic) step keeps the hypotheses *)
Theorem C02_after_append : forall x y p, ssorted x -> (2 <= length x)%nat -> length x = length y ->
  let r := append_one_sample x y p in
  ssorted (fst r) /\ (2 <= length (fst r))%nat /\ length (fst r) = length (snd r).
Proof. exact append_keeps_hyps. Qed.
Print Assumptions C02_after_append.

(** every bundled dataset (GENERATED Gen/Bundled.v) meets the hypotheses of C02_main / C02_rectangle_average *)
From TW Require Import Gen.Bundled Proofs.DatasetsProofs.
Theorem C02_bundled : forall f g xs ys, In (f, g, xs, ys) bundled_files ->
  ssorted xs /\ (2 <= length xs)%nat /\ length xs = length ys.
Proof. exact bundled_pipeline_hyps. Qed.
Print Assumptions C02_bundled.

Example C02_example :
  let x := [qz 0; qz 1; qz 3] in let y := [qz 2; qz 5; qz 1] in
  match match_ref (pw_int 2) (grid x 4) (oversample_pc [qz 9; qz 0; qz 4] 4) x y (ByStrategy Closest) Rectangle Rectangle with
  | Ok res => let a := average (grid x 4) res 4 in list_eqb Qc_eqb (fst a) x && Qc_eqb (nthq 0 (snd a)) (qz 2) && Qc_eqb (nthq 1 (snd a)) (qz 5)
  | _ => false end = true.
Proof. vm_compute. reflexivity. Qed.
