#!/bin/bash
# Build the whole Coq development from clean (full .vo build) — offline, from files on disk only.
cd "$(dirname "$0")"
export PYTHONPATH=/repo/src PYTHONHASHSEED=0 PYTHONDONTWRITEBYTECODE=1
/venv/bin/python - <<'PY'
import sys
sys.path.insert(0, "/verif")
from tools import translate
from tools.harness import core
errs = translate.generate_all()
for e in errs:
    print("TranslateError:", e)
core.write_coqproject()
PY
cd coq
# -k: keep going, so that one broken file (e.g. because /repo was edited) does not block the rest
timeout 3000 make -k -j16 2>&1 | tail -40
bad=$(cd /verif && /venv/bin/python -c 'import sys; sys.path.insert(0,"/verif"); from tools.harness import core; print("\n".join(core.hygiene()))')
if [ -n "$bad" ]; then echo "HYGIENE: $bad"; exit 1; fi
exit 0
